import ScalesModel.Proofs.HeapFix

/-! Store-level helpers: updating one node's fields, the position of a node, positions that
    `fixUp` / `fixDown` do not touch, pure valuation lemmas for "one key changed". -/
namespace Scales.Heap

/-! ### node updates -/

def HS.setLoad (s : HS) (id : Nat) (v : Int) : HS := s.setNode id { s.node id with load := v }

/-- heap position of node `id` (meaningful when it is in the heap) -/
def pos (s : HS) (id : Nat) : Nat := (s.node id).index.toNat

theorem pos_spec (s : HS) (hw : WF s) (id : Nat) (h : InHeap s id) :
    1 ≤ pos s id ∧ pos s id ≤ s.size ∧ s.idAt (pos s id) = id ∧
    (s.node id).index = (pos s id : Int) ∧ id < s.nodes.length := by
  obtain ⟨p, h1, h2, rfl⟩ := h
  have := hw.idx p h1 h2
  unfold HS.at at this
  unfold pos
  rw [this]
  have e : ((p : Int)).toNat = p := Int.toNat_natCast p
  rw [e]
  exact ⟨h1, h2, rfl, rfl, hw.inStore p h1 h2⟩

theorem inHeap_of_index (s : HS) (hw : WF s) (id : Nat) (hl : id < s.nodes.length)
    (h : 0 ≤ (s.node id).index) : InHeap s id := by
  by_contra hn
  have := hw.off id hl hn
  omega

theorem index_of_inHeap (s : HS) (hw : WF s) (id : Nat) (h : InHeap s id) : 1 ≤ (s.node id).index := by
  obtain ⟨a, _, _, d, _⟩ := pos_spec s hw id h
  omega

theorem inHeap_lt (s : HS) (hw : WF s) (id : Nat) (h : InHeap s id) : id < s.nodes.length :=
  (pos_spec s hw id h).2.2.2.2

@[simp] theorem setNode_idAt (s : HS) (id : Nat) (n : Node) (p : Nat) : (s.setNode id n).idAt p = s.idAt p := by
  unfold HS.idAt
  simp

@[simp] theorem setNode_inHeap (s : HS) (id : Nat) (n : Node) (id' : Nat) :
    InHeap (s.setNode id n) id' ↔ InHeap s id' := by
  unfold InHeap
  simp

theorem setNode_index (s : HS) (id : Nat) (n : Node) (hn : n.index = (s.node id).index) (id' : Nat) :
    ((s.setNode id n).node id').index = (s.node id').index := by
  rw [node_setNode]
  split
  · rename_i h; rw [h.1]; exact hn
  · rfl

theorem setNode_WF (s : HS) (hw : WF s) (id : Nat) (n : Node) (hn : n.index = (s.node id).index) :
    WF (s.setNode id n) := by
  constructor
  · intro p h1 h2
    simpa using hw.inStore p h1 h2
  · intro p q a b c d e
    simp only [setNode_idAt] at e
    exact hw.inj p q a b c d e
  · intro p h1 h2
    unfold HS.at
    rw [setNode_index s id n hn, setNode_idAt]
    exact hw.idx p h1 h2
  · intro id' hl hnot
    rw [setNode_index s id n hn]
    simp only [setNode_len] at hl
    simp only [setNode_inHeap] at hnot
    exact hw.off id' hl hnot

theorem node_self (s : HS) (id : Nat) (n : Node) (hl : id < s.nodes.length) :
    (s.setNode id n).node id = n := by
  rw [node_setNode]; simp [hl]

theorem node_other (s : HS) (id id' : Nat) (n : Node) (hne : id' ≠ id) :
    (s.setNode id n).node id' = s.node id' := by
  rw [node_setNode]; simp [hne]

/-! ### setLoad -/

@[simp] theorem setLoad_heap (s : HS) (id : Nat) (v : Int) : (s.setLoad id v).heap = s.heap := rfl
@[simp] theorem setLoad_down (s : HS) (id : Nat) (v : Int) : (s.setLoad id v).down = s.down := rfl
@[simp] theorem setLoad_reqs (s : HS) (id : Nat) (v : Int) : (s.setLoad id v).reqs = s.reqs := rfl
@[simp] theorem setLoad_servers (s : HS) (id : Nat) (v : Int) : (s.setLoad id v).servers = s.servers := rfl
@[simp] theorem setLoad_len (s : HS) (id : Nat) (v : Int) : (s.setLoad id v).nodes.length = s.nodes.length := by
  simp [HS.setLoad]
@[simp] theorem setLoad_size (s : HS) (id : Nat) (v : Int) : (s.setLoad id v).size = s.size := rfl
@[simp] theorem setLoad_idAt (s : HS) (id : Nat) (v : Int) (p : Nat) : (s.setLoad id v).idAt p = s.idAt p := by
  simp [HS.setLoad]
@[simp] theorem setLoad_inHeap (s : HS) (id : Nat) (v : Int) (id' : Nat) :
    InHeap (s.setLoad id v) id' ↔ InHeap s id' := by
  simp [HS.setLoad]

theorem setLoad_WF (s : HS) (hw : WF s) (id : Nat) (v : Int) : WF (s.setLoad id v) :=
  setNode_WF s hw id _ rfl

theorem setLoad_node (s : HS) (id id' : Nat) (v : Int) :
    ((s.setLoad id v).node id').load = (if id' = id ∧ id < s.nodes.length then v else (s.node id').load) ∧
    ((s.setLoad id v).node id').ep = (s.node id').ep ∧
    ((s.setLoad id v).node id').chan = (s.node id').chan ∧
    ((s.setLoad id v).node id').closed = (s.node id').closed ∧
    ((s.setLoad id v).node id').index = (s.node id').index := by
  unfold HS.setLoad
  rw [node_setNode]
  by_cases h : id' = id ∧ id < s.nodes.length
  · simp [h, h.1]
  · simp [h]

theorem setLoad_pos (s : HS) (id id' : Nat) (v : Int) : pos (s.setLoad id v) id' = pos s id' := by
  unfold pos; rw [(setLoad_node s id id' v).2.2.2.2]

/-- valuation with one key replaced -/
def upd (f : Nat → Int) (p : Nat) (v : Int) : Nat → Int := fun k => if k = p then v else f k

theorem setLoad_L (s : HS) (hw : WF s) (id : Nat) (v : Int) (h : InHeap s id) :
    L (s.setLoad id v) = upd (L s) (pos s id) v := by
  obtain ⟨p1, p2, p3, _, hl⟩ := pos_spec s hw id h
  funext k
  unfold L HS.at upd
  rw [(setLoad_node s id _ v).1, setLoad_idAt]
  by_cases hk : k = pos s id
  · subst hk; simp [p3, hl]
  · have : ¬ s.idAt k = id := by
      intro e
      by_cases hr : 1 ≤ k ∧ k ≤ s.size
      · exact hk (hw.inj k _ hr.1 hr.2 p1 p2 (e.trans p3.symm))
      · have := idAt_out s k (by omega)
        omega
    simp [this, hk]

/-! ### pure valuation lemmas: one key shrinks / grows -/

theorem upd_shrink (f : Nat → Int) (n p : Nat) (v : Int) (h : Ord f n) (hp : p ≤ n) (hv : v ≤ f p) :
    OrdExUp (upd f p v) n p ∧ GP (upd f p v) n p := by
  constructor
  · intro k hk2 hkn hkp
    have := h k hk2 hkn
    unfold upd
    simp only [hkp, if_false]
    split
    · rename_i e; rw [e] at this; omega
    · exact this
  · intro c hcn hc hp2
    have a := h c (by omega) hcn
    have b := h p hp2 hp
    unfold upd
    have e1 : ¬ p / 2 = p := by omega
    have e2 : ¬ c = p := by omega
    simp only [e1, e2, if_false]
    rw [hc] at a; omega

theorem upd_grow (f : Nat → Int) (n p : Nat) (v : Int) (h : Ord f n) (hp : p ≤ n) (hv : f p ≤ v) :
    OrdExDown (upd f p v) n p ∧ GP (upd f p v) n p := by
  constructor
  · intro k hk2 hkn hkp
    have := h k hk2 hkn
    unfold upd
    simp only [hkp, if_false]
    split
    · rename_i e; subst e; omega
    · exact this
  · intro c hcn hc hp2
    have a := h c (by omega) hcn
    have b := h p hp2 hp
    unfold upd
    have e1 : ¬ p / 2 = p := by omega
    have e2 : ¬ c = p := by omega
    simp only [e1, e2, if_false]
    rw [hc] at a; omega

/-- the root of an ordered heap is a minimum -/
theorem Ord_root (f : Nat → Int) (n : Nat) (h : Ord f n) : ∀ p, 1 ≤ p → p ≤ n → f 1 ≤ f p := by
  intro p
  induction p using Nat.strong_induction_on with
  | _ p ih =>
    intro h1 h2
    by_cases hp : p = 1
    · subst hp; exact Int.le_refl _
    · have a := h p (by omega) h2
      have b := ih (p / 2) (by omega) (by omega) (by omega)
      omega

/-! ### positions not touched by the sift loops -/

theorem fixUp_idAt_above (s : HS) (i : Nat) (hi : i ≤ s.size) :
    ∀ p, i < p → (s.fixUp i).idAt p = s.idAt p := by
  fun_induction HS.fixUp s i with
  | case1 s i hc ih =>
    intro p hp
    obtain ⟨hi1, _⟩ := hc
    rw [ih (by rw [swap_size]; omega) p (by omega)]
    rw [swap_idAt s i (i / 2) p (by omega) hi (by omega) (by omega)]
    have e1 : ¬ p = i / 2 := by omega
    have e2 : ¬ p = i := by omega
    simp [e1, e2]
  | case2 s i hc => intro p _; rfl

theorem fixDown_idAt_above (s : HS) (i j : Nat) (hj : j ≤ s.size) :
    ∀ p, j < p → (s.fixDown i j).idAt p = s.idAt p := by
  fun_induction HS.fixDown s i j with
  | case1 s i hc m hlt ih =>
    intro p hp
    obtain ⟨hi1, h2⟩ := hc
    have hm : m = 2 * i ∨ m = 2 * i + 1 := by
      simp only [m]; split <;> simp
    have hmj : m ≤ j := by
      simp only [m]; split
      · omega
      · rename_i hcnd; push Not at hcnd; omega
    rw [ih (by rw [swap_size]; exact hj) p hp]
    rw [swap_idAt s i m p hi1 (by omega) (by omega) (by omega)]
    have e1 : ¬ p = m := by omega
    have e2 : ¬ p = i := by omega
    simp [e1, e2]
  | case2 s i hc m hlt => intro p _; rfl
  | case3 s i hc => intro p _; rfl

theorem fixDown_big (s : HS) (i j : Nat) (h : j < 2 * i) : s.fixDown i j = s := by
  unfold HS.fixDown
  have : ¬ (1 ≤ i ∧ 2 * i ≤ j) := by omega
  simp [this]

/-- loads by position are the loads of the nodes: if the arrangement at `p` is unchanged and
    the nodes' loads are unchanged, so is `L` -/
theorem Frame.L_eq {s s' : HS} (f : Frame s s') (p : Nat) (h : s'.idAt p = s.idAt p) : L s' p = L s p := by
  unfold L HS.at
  rw [h]; exact (f.fields _).1

end Scales.Heap
