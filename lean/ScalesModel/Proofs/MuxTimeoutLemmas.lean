/-
  Proofs/MuxTimeoutLemmas.lean — C12, multiplexed hop: a second invariant, on top of `Inv`, that
  ties the specification's time-out bookkeeping (`nreq`, `fired`, `owed`) and the owners of the
  written, unanswered tags to the model state; and the proof that every model step satisfies
  the C12 clauses `specObs12`.
-/
import ScalesModel.Proofs.TagPoolLemmas
namespace Scales.TagPool

/-- tags named by the Tdiscarded messages waiting in the send queue, in order -/
def qdisc : List Item → List Nat
  | [] => []
  | .discard w :: q => w :: qdisc q
  | .req _ _ :: q => qdisc q
  | .ping :: q => qdisc q

theorem qdisc_append (q q' : List Item) : qdisc (q ++ q') = qdisc q ++ qdisc q' := by
  induction q with
  | nil => rfl
  | cons i q ih => cases i <;> simp [qdisc, ih]

/-- a subscribed request still holds its tag exactly when its written frame is unanswered -/
def SubKey (unans : List (Nat × Nat)) (reqs : List Req) : Prop :=
  ∀ rid r, reqs[rid]? = some r → r.sub = true → ∀ t, (r.key = .tag t ↔ (t, rid) ∈ unans)

/-- a deadline event known to have fired is fired in the model -/
def FiredOk (fired : List Nat) (reqs : List Req) : Prop :=
  ∀ rid ∈ fired, ∃ r, reqs[rid]? = some r ∧ r.ev = .fired

structure Inv12 (cfg : Cfg) (a : Acc) (s : St) : Prop where
  nreq : a.nreq = s.reqs.length
  fired : FiredOk a.fired s.reqs
  owed : cfg.fl = .thriftmux → a.owed = qdisc s.sendq
  rinj : ∀ t t' rid, tmLookup t s.tagmap = some rid → tmLookup t' s.tagmap = some rid → t = t'
  rlt : ∀ t rid, tmLookup t s.tagmap = some rid → rid < s.reqs.length
  tnd : a.tags.Nodup
  subkey : SubKey a.unans s.reqs

theorem Inv12_fresh (cfg : Cfg) : Inv12 cfg {} St.init := by
  refine ⟨rfl, ?_, fun _ => rfl, ?_, ?_, ?_, ?_⟩
  · intro rid h; simp at h
  · intro t t' rid h; simp [St.init, tmLookup] at h
  · intro t rid h; simp [St.init, tmLookup] at h
  · simp [Acc.tags]
  · intro rid r h; simp [St.init] at h

/-- at the start of a script, whatever the age of the connection -/
theorem Inv12_init (cfg : Cfg) : Inv12 cfg (Acc.init cfg) (initSt cfg) := by
  refine ⟨rfl, ?_, fun _ => rfl, ?_, ?_, ?_, ?_⟩
  · intro rid h; simp [Acc.init] at h
  · intro t t' rid h; simp [initSt, St.initWith, tmLookup] at h
  · intro t rid h; simp [initSt, St.initWith, tmLookup] at h
  · simp [Acc.tags, Acc.init]
  · intro rid r h; simp [initSt, St.initWith] at h

/-! ### elementary preservation lemmas -/

theorem getElem?_lt {l : List Req} {i : Nat} {x : Req} (h : l[i]? = some x) : i < l.length :=
  (List.getElem?_eq_some_iff.mp h).1

theorem FiredOk.set {fired : List Nat} {reqs : List Req} {j : Nat} {r0 : Req} (n : Req)
    (h : FiredOk fired reqs) (h0 : reqs[j]? = some r0) (hn : r0.ev = .fired → n.ev = .fired) :
    FiredOk fired (reqs.set j n) := by
  intro rid hr
  obtain ⟨r, hr1, hr2⟩ := h rid hr
  by_cases e : rid = j
  · subst e
    rw [h0] at hr1; injection hr1 with hr1; subst hr1
    exact ⟨n, set_self h0 n, hn hr2⟩
  · exact ⟨r, by rw [set_ne e]; exact hr1, hr2⟩

theorem FiredOk.append {fired : List Nat} {reqs : List Req} (n : Req) (h : FiredOk fired reqs) :
    FiredOk fired (reqs ++ [n]) := by
  intro rid hr
  obtain ⟨r, hr1, hr2⟩ := h rid hr
  exact ⟨r, by rw [List.getElem?_append_left (getElem?_lt hr1)]; exact hr1, hr2⟩

theorem FiredOk.cons {fired : List Nat} {reqs : List Req} {rid : Nat} {r : Req} (h : FiredOk fired reqs)
    (hr : reqs[rid]? = some r) (hf : r.ev = .fired) : FiredOk (rid :: fired) reqs := by
  intro x hx
  simp only [List.mem_cons] at hx
  rcases hx with hx | hx
  · subst hx; exact ⟨r, hr, hf⟩
  · exact h x hx

theorem SubKey.set_same {u : List (Nat × Nat)} {reqs : List Req} {j : Nat} {r0 : Req} (n : Req)
    (h : SubKey u reqs) (h0 : reqs[j]? = some r0) (hs : n.sub = r0.sub) (hk : n.key = r0.key) :
    SubKey u (reqs.set j n) := by
  intro rid r hr hsub t
  by_cases e : rid = j
  · subst e
    rw [set_self h0] at hr; injection hr with hr; subst hr
    rw [hk]; exact h rid r0 h0 (by rw [← hs]; exact hsub) t
  · rw [set_ne e] at hr; exact h rid r hr hsub t

theorem SubKey.set_unsub {u : List (Nat × Nat)} {reqs : List Req} {j : Nat} {r0 : Req} (n : Req)
    (h : SubKey u reqs) (h0 : reqs[j]? = some r0) (hs : n.sub = false) : SubKey u (reqs.set j n) := by
  intro rid r hr hsub t
  by_cases e : rid = j
  · subst e
    rw [set_self h0] at hr; injection hr with hr; subst hr
    rw [hs] at hsub; cases hsub
  · rw [set_ne e] at hr; exact h rid r hr hsub t

theorem SubKey.append_unsub {u : List (Nat × Nat)} {reqs : List Req} (n : Req) (h : SubKey u reqs)
    (hs : n.sub = false) : SubKey u (reqs ++ [n]) := by
  intro rid r hr hsub t
  rcases Nat.lt_or_ge rid reqs.length with hlt | hge
  · rw [List.getElem?_append_left hlt] at hr; exact h rid r hr hsub t
  · rcases Nat.eq_or_lt_of_le hge with e | hgt
    · subst e
      simp at hr; subst hr
      rw [hs] at hsub; cases hsub
    · have : (reqs ++ [n])[rid]? = none := by
        apply List.getElem?_eq_none; simp; omega
      rw [this] at hr; cases hr

theorem tmLookup_erase_self (t : Nat) (m : List (Nat × Nat)) : tmLookup t (tmErase t m) = none := by
  rw [tmLookup_none_iff, mem_tmKeys_erase]; simp

/-- removing a key keeps the owners distinct and in range -/
theorem rinj_erase {m : List (Nat × Nat)} (t0 : Nat)
    (h : ∀ t t' rid, tmLookup t m = some rid → tmLookup t' m = some rid → t = t') :
    ∀ t t' rid, tmLookup t (tmErase t0 m) = some rid → tmLookup t' (tmErase t0 m) = some rid → t = t' := by
  intro t t' rid h1 h2
  have e1 : t ≠ t0 := fun e => by subst e; rw [tmLookup_erase_self] at h1; cases h1
  have e2 : t' ≠ t0 := fun e => by subst e; rw [tmLookup_erase_self] at h2; cases h2
  rw [tmLookup_erase_ne e1] at h1
  rw [tmLookup_erase_ne e2] at h2
  exact h t t' rid h1 h2

theorem rlt_erase {m : List (Nat × Nat)} {n : Nat} (t0 : Nat)
    (h : ∀ t rid, tmLookup t m = some rid → rid < n) :
    ∀ t rid, tmLookup t (tmErase t0 m) = some rid → rid < n := by
  intro t rid h1
  have e1 : t ≠ t0 := fun e => by subst e; rw [tmLookup_erase_self] at h1; cases h1
  rw [tmLookup_erase_ne e1] at h1
  exact h t rid h1

/-! ### the accumulator's time-out fields after a step -/

theorem after_owed (a : Acc) (op : Op) (o : Obs) (h : op ≠ .reopen) :
    (a.after op o).owed = eraseAll (dueNow a op) (discTags o.wrote) := by
  cases op <;> first | rfl | exact absurd rfl h

theorem after_nreq_other (a : Acc) (op : Op) (o : Obs) (h : op ≠ .reopen) (h2 : ∀ e p, op ≠ .req e p) :
    (a.after op o).nreq = a.nreq := by
  cases op <;> first | rfl | exact absurd rfl h | exact absurd rfl (h2 _ _)

theorem after_fired_other (a : Acc) (op : Op) (o : Obs) (h : op ≠ .reopen) (h2 : ∀ e p, op ≠ .req e p)
    (h3 : ∀ rid, op ≠ .fire rid) : (a.after op o).fired = a.fired := by
  cases op <;> first | rfl | exact absurd rfl h | exact absurd rfl (h2 _ _) | exact absurd rfl (h3 _)

/-- `specObs12` accepts a step exactly when the three C12 clauses hold -/
theorem specObs12_ok_iff (cfg : Cfg) (a : Acc) (idx : Nat) (op : Op) (o : Obs) :
    specObs12 cfg a idx op o = .ok ↔
      ((∀ p ∈ reqPairs o.wrote, p.2 ∉ a.fired) ∧
       (cfg.fl = .thriftmux → discOk (dueNow a op) (discTags o.wrote) = true) ∧
       (cfg.fl = .thriftmux → o.qlen = 0 → (a.after op o).owed = [])) := by
  unfold specObs12
  split
  · next p hp =>
    have hm := List.mem_of_find?_eq_some hp
    have hq := List.find?_some hp
    simp only [List.contains_eq_mem, decide_eq_true_eq] at hq
    constructor
    · intro h; cases h
    · intro h; exact absurd hq (h.1 p hm)
  · next hnone =>
    rw [List.find?_eq_none] at hnone
    have h1 : ∀ p ∈ reqPairs o.wrote, p.2 ∉ a.fired := by
      intro p hp; have := hnone p hp; simpa using this
    split
    · next hd =>
      simp only [Bool.and_eq_true, beq_iff_eq, Bool.not_eq_true'] at hd
      constructor
      · intro h; cases h
      · intro h; rw [h.2.1 hd.1] at hd; simp at hd
    · next hd =>
      have hd' : cfg.fl = .thriftmux → discOk (dueNow a op) (discTags o.wrote) = true := by
        intro hfl
        simp only [Bool.and_eq_true, beq_iff_eq, Bool.not_eq_true', not_and, Bool.not_eq_false] at hd
        exact hd hfl
      split
      · next hm =>
        simp only [Bool.and_eq_true, beq_iff_eq, Bool.not_eq_true', List.isEmpty_eq_false_iff, ne_eq] at hm
        constructor
        · intro h; cases h
        · intro h; exact absurd (h.2.2 hm.1.1 hm.1.2) hm.2
      · next hm =>
        simp only [Bool.and_eq_true, beq_iff_eq, Bool.not_eq_true', List.isEmpty_eq_false_iff, ne_eq,
          not_and, Decidable.not_not] at hm
        constructor
        · intro _; exact ⟨h1, hd', fun hfl hq => hm ⟨hfl, hq⟩⟩
        · intro _; rfl

/-! ### one step -/

theorem pack12 (cfg : Cfg) (a : Acc) (idx : Nat) (op : Op) (s' : St) (out : Out)
    (hinv' : Inv12 cfg (a.after op (obsOf s' out)) s')
    (hnw : ∀ p ∈ reqPairs out.wrote, p.2 ∉ a.fired)
    (hdn : cfg.fl = .thriftmux → discOk (dueNow a op) (discTags out.wrote) = true) :
    specObs12 cfg a idx op (obsOf s' out) = .ok ∧ Inv12 cfg (a.after op (obsOf s' out)) s' := by
  refine ⟨?_, hinv'⟩
  rw [specObs12_ok_iff]
  refine ⟨hnw, hdn, ?_⟩
  intro hfl hq
  have : s'.sendq = [] := List.length_eq_zero_iff.mp hq
  rw [hinv'.owed hfl, this]; rfl

theorem tags_after_plain {a : Acc} {op : Op} {o : Obs} (h1 : op ≠ .reopen) (h2 : ∀ mt t, op ≠ .process mt t)
    (hw : reqPairs o.wrote = []) : (a.after op o).unans = a.unans := by
  rw [after_pairs_other a op o h1 h2, hw, List.append_nil]

theorem reqTags_nil_of_pairs {fs : List Frame} (h : reqPairs fs = []) : reqTags fs = [] := by
  rw [← map_fst_reqPairs, h]; rfl

/-- a step that writes no request frame, leaves the tag map alone and is none of
    `req / fire / process / reopen` -/
theorem Inv12_quiet (cfg : Cfg) (a : Acc) (idx : Nat) (op : Op) (s s' : St) (out : Out) (h : Inv12 cfg a s)
    (h1 : op ≠ .reopen) (h2 : ∀ mt t, op ≠ .process mt t) (h3 : ∀ e p, op ≠ .req e p) (h4 : ∀ rid, op ≠ .fire rid)
    (hw : reqPairs out.wrote = []) (htm : s'.tagmap = s.tagmap) (hlen : s'.reqs.length = s.reqs.length)
    (hfired : FiredOk a.fired s'.reqs) (hsub : SubKey a.unans s'.reqs)
    (hdn : cfg.fl = .thriftmux → discOk (dueNow a op) (discTags out.wrote) = true)
    (howed : cfg.fl = .thriftmux → eraseAll (dueNow a op) (discTags out.wrote) = qdisc s'.sendq) :
    specObs12 cfg a idx op (obsOf s' out) = .ok ∧ Inv12 cfg (a.after op (obsOf s' out)) s' := by
  have hu : (a.after op (obsOf s' out)).unans = a.unans := tags_after_plain h1 h2 hw
  refine pack12 cfg a idx op s' out ⟨?_, ?_, ?_, ?_, ?_, ?_, ?_⟩ ?_ hdn
  · rw [after_nreq_other _ _ _ h1 h3, hlen]; exact h.nreq
  · rw [after_fired_other _ _ _ h1 h3 h4]; exact hfired
  · intro hfl; rw [after_owed _ _ _ h1]; exact howed hfl
  · rw [htm]; exact h.rinj
  · rw [htm, hlen]; exact h.rlt
  · simp only [Acc.tags, hu]; exact h.tnd
  · rw [hu]; exact hsub
  · rw [hw]; intro p hp; cases hp

/-! #### ping -/

theorem Inv12_step_ping (cfg : Cfg) (a : Acc) (s : St) (idx : Nat) (h : Inv12 cfg a s) :
    specObs12 cfg a idx .ping (obsOf { s with sendq := s.sendq ++ [.ping] } {}) = .ok ∧
      Inv12 cfg (a.after .ping (obsOf { s with sendq := s.sendq ++ [.ping] } {}))
        { s with sendq := s.sendq ++ [.ping] } := by
  refine Inv12_quiet cfg a idx .ping s _ _ h (by simp) (by simp) (by simp) (by simp) rfl rfl rfl h.fired h.subkey
    (fun _ => rfl) ?_
  intro hfl
  simp only [discTags, List.filter_nil, List.map_nil, eraseAll, dueNow, qdisc_append, qdisc, List.append_nil]
  exact h.owed hfl

/-! #### fire -/

theorem Inv12_step_fire (cfg : Cfg) (a : Acc) (s : St) (rid idx : Nat) (h : Inv12 cfg a s)
    (hen : opEnabled cfg s (.fire rid) = true) :
    specObs12 cfg a idx (.fire rid) (step cfg s (.fire rid)).2 = .ok ∧
      Inv12 cfg (a.after (.fire rid) (step cfg s (.fire rid)).2) (step cfg s (.fire rid)).1 := by
  simp only [step, stepOp]
  simp only [opEnabled, stepOp] at hen
  unfold stepFire at hen ⊢
  cases hr : s.reqs[rid]? with
  | none => simp [hr] at hen
  | some r =>
    simp only [hr] at hen ⊢
    by_cases hev : r.ev = .unfired
    · rw [if_pos hev]
      refine pack12 cfg a idx (.fire rid) _ _ ⟨?_, ?_, ?_, h.rinj, ?_, ?_, ?_⟩ ?_ (fun _ => rfl)
      · show a.nreq = (s.reqs.set rid _).length
        rw [List.length_set]; exact h.nreq
      · show FiredOk (rid :: a.fired) (s.reqs.set rid _)
        exact FiredOk.cons (FiredOk.set _ h.fired hr (fun _ => rfl)) (set_self hr _) rfl
      · exact h.owed
      · intro t rid' hl
        show rid' < (s.reqs.set rid _).length
        rw [List.length_set]; exact h.rlt t rid' hl
      · simp only [Acc.after, Acc.tags, obsOf, reqPairs, List.filter_nil, List.map_nil, List.append_nil]
        exact h.tnd
      · simp only [Acc.after, obsOf, reqPairs, List.filter_nil, List.map_nil, List.append_nil]
        exact SubKey.set_same _ h.subkey hr rfl rfl
      · intro p hp; cases hp
    · simp [hev] at hen

/-! #### notify -/

theorem tagsOf_nil {u : List (Nat × Nat)} {rid : Nat} (h : ∀ t', (t', rid) ∉ u) : tagsOf u rid = [] := by
  simp only [tagsOf, List.map_eq_nil_iff, List.filter_eq_nil_iff, beq_iff_eq]
  intro p hp e
  exact h p.1 (by rw [← e]; exact hp)

theorem tagsOf_single {u : List (Nat × Nat)} {rid t : Nat} (hm : (t, rid) ∈ u) (hnd : (u.map (·.1)).Nodup)
    (hall : ∀ t', (t', rid) ∈ u → t' = t) : tagsOf u rid = [t] := by
  induction u with
  | nil => simp at hm
  | cons p u ih =>
    obtain ⟨a, b⟩ := p
    simp only [List.map_cons, List.nodup_cons] at hnd
    by_cases hb : b = rid
    · subst hb
      have ha : a = t := hall a (by simp)
      subst ha
      have hnil : tagsOf u b = [] := by
        apply tagsOf_nil
        intro t' ht'
        have : t' = a := hall t' (List.mem_cons_of_mem _ ht')
        subst this
        exact hnd.1 (List.mem_map_of_mem (f := fun (p : Nat × Nat) => p.1) ht')
      simp only [tagsOf, List.filter_cons, beq_self_eq_true, ↓reduceIte, List.map_cons] at hnil ⊢
      rw [hnil]
    · have hm' : (t, rid) ∈ u := by
        simp only [List.mem_cons, Prod.mk.injEq] at hm
        rcases hm with hm | hm
        · exact absurd hm.2.symm hb
        · exact hm
      have := ih hm' hnd.2 (fun t' ht' => hall t' (List.mem_cons_of_mem _ ht'))
      simp only [tagsOf, List.filter_cons] at this ⊢
      simp only [beq_iff_eq, hb, ↓reduceIte]
      exact this

theorem Inv12_step_notify (cfg : Cfg) (a : Acc) (s : St) (rid idx : Nat) (h : Inv12 cfg a s)
    (hen : ((stepNotify s rid).2.res != .badop) = true) :
    specObs12 cfg a idx (.notify rid) (obsOf (stepNotify s rid).1 (stepNotify s rid).2) = .ok ∧
      Inv12 cfg (a.after (.notify rid) (obsOf (stepNotify s rid).1 (stepNotify s rid).2)) (stepNotify s rid).1 := by
  unfold stepNotify at hen ⊢
  cases hr : s.reqs[rid]? with
  | none => simp [hr] at hen
  | some r =>
    simp only [hr] at hen ⊢
    by_cases hev : r.ev = .fired ∧ r.sub = true
    · rw [if_pos hev]
      have hsk := h.subkey rid r hr hev.2
      have hfired : FiredOk a.fired (s.reqs.set rid { r with sub := false, key := .absent }) :=
        FiredOk.set _ h.fired hr (fun e => e)
      have hsub : SubKey a.unans (s.reqs.set rid { r with sub := false, key := .absent }) :=
        SubKey.set_unsub _ h.subkey hr rfl
      cases hk : r.key with
      | tag t =>
        simp only
        have hm : (t, rid) ∈ a.unans := (hsk t).mp hk
        have hall : ∀ t', (t', rid) ∈ a.unans → t' = t := by
          intro t' ht'
          have := (hsk t').mpr ht'
          rw [hk] at this; injection this with e; exact e.symm
        have htags : tagsOf a.unans rid = [t] := tagsOf_single hm h.tnd hall
        refine Inv12_quiet cfg a idx (.notify rid) s _ _ h (by simp) (by simp) (by simp) (by simp) rfl rfl
          (by simp) hfired hsub (fun _ => rfl) ?_
        intro hfl
        simp only [discTags, List.filter_nil, List.map_nil, eraseAll, dueNow, htags, qdisc_append, qdisc]
        rw [h.owed hfl]
      | answered =>
        simp only
        have htags : tagsOf a.unans rid = [] := by
          apply tagsOf_nil; intro t' ht'
          have := (hsk t').mpr ht'; rw [hk] at this; cases this
        refine Inv12_quiet cfg a idx (.notify rid) s _ _ h (by simp) (by simp) (by simp) (by simp) rfl rfl
          (by simp) hfired hsub (fun _ => rfl) ?_
        intro hfl
        simp only [discTags, List.filter_nil, List.map_nil, eraseAll, dueNow, htags, List.append_nil]
        exact h.owed hfl
      | absent =>
        simp only
        have htags : tagsOf a.unans rid = [] := by
          apply tagsOf_nil; intro t' ht'
          have := (hsk t').mpr ht'; rw [hk] at this; cases this
        refine Inv12_quiet cfg a idx (.notify rid) s _ _ h (by simp) (by simp) (by simp) (by simp) rfl rfl
          (by simp) hfired hsub (fun _ => rfl) ?_
        intro hfl
        simp only [discTags, List.filter_nil, List.map_nil, eraseAll, dueNow, htags, List.append_nil]
        exact h.owed hfl
    · simp [hev] at hen

/-- Kafka: the time-out callback queues nothing (and no Tdiscarded clause applies) -/
theorem Inv12_step_notify_kafka (cfg : Cfg) (a : Acc) (s : St) (rid idx : Nat) (hfl : cfg.fl = .kafka)
    (h : Inv12 cfg a s) (hen : ((stepNotifyKafka s rid).2.res != .badop) = true) :
    specObs12 cfg a idx (.notify rid) (obsOf (stepNotifyKafka s rid).1 (stepNotifyKafka s rid).2) = .ok ∧
      Inv12 cfg (a.after (.notify rid) (obsOf (stepNotifyKafka s rid).1 (stepNotifyKafka s rid).2))
        (stepNotifyKafka s rid).1 := by
  unfold stepNotifyKafka at hen ⊢
  cases hr : s.reqs[rid]? with
  | none => simp [hr] at hen
  | some r =>
    simp only [hr] at hen ⊢
    by_cases hev : r.ev = .fired ∧ r.sub = true
    · rw [if_pos hev]
      simp only
      have hfired : FiredOk a.fired (s.reqs.set rid { r with sub := false, key := .absent }) :=
        FiredOk.set _ h.fired hr (fun e => e)
      have hsub : SubKey a.unans (s.reqs.set rid { r with sub := false, key := .absent }) :=
        SubKey.set_unsub _ h.subkey hr rfl
      refine Inv12_quiet cfg a idx (.notify rid) s _ _ h (by simp) (by simp) (by simp) (by simp) rfl rfl
        (by simp) hfired hsub (fun _ => rfl) ?_
      intro hc; rw [hfl] at hc; cases hc
    · simp [hev] at hen

/-! #### process -/

theorem filter_tag_self {u : List (Nat × Nat)} {m : List (Nat × Nat)} {t : Nat}
    (hown : ∀ p ∈ u, tmLookup p.1 m = some p.2) (hl : tmLookup t m = none) :
    u.filter (fun p => p.1 != t) = u := by
  simp only [List.filter_eq_self, bne_iff_ne, ne_eq]
  intro p hp e
  have := hown p hp
  rw [e, hl] at this; cases this

theorem Inv12_process_nochange (cfg : Cfg) (a : Acc) (s : St) (mt : Int) (t idx : Nat) (h : Inv12 cfg a s)
    (hown : ∀ p ∈ a.unans, tmLookup p.1 s.tagmap = some p.2) (hl : tmLookup t s.tagmap = none) :
    specObs12 cfg a idx (.process mt t) (obsOf s {}) = .ok ∧
      Inv12 cfg (a.after (.process mt t) (obsOf s {})) s := by
  have hu : (a.after (.process mt t) (obsOf s {})).unans = a.unans := by
    rw [after_pairs_process]
    simp only [obsOf, reqPairs, List.filter_nil, List.map_nil, List.append_nil]
    exact filter_tag_self hown hl
  refine pack12 cfg a idx (.process mt t) s {} ⟨h.nreq, h.fired, h.owed, h.rinj, h.rlt, ?_, ?_⟩ ?_ (fun _ => rfl)
  · simp only [Acc.tags, hu]; exact h.tnd
  · rw [hu]; exact h.subkey
  · intro p hp; cases hp

theorem Inv12_process_tagged (cfg : Cfg) (a : Acc) (s : St) (mt : Int) (t idx : Nat) (hi : Inv cfg a s)
    (h : Inv12 cfg a s) :
    specObs12 cfg a idx (.process mt t) (obsOf (stepProcessKafka s t).1 (stepProcessKafka s t).2) = .ok ∧
      Inv12 cfg (a.after (.process mt t) (obsOf (stepProcessKafka s t).1 (stepProcessKafka s t).2))
        (stepProcessKafka s t).1 := by
  unfold stepProcessKafka
  cases hl : tmLookup t s.tagmap with
  | none =>
    rw [releaseTag_none hl]
    exact Inv12_process_nochange cfg a s mt t idx h hi.own hl
  | some rid0 =>
    rw [releaseTag_some hl]
    simp only
    have hua : (a.after (.process mt t) (obsOf
        { pool := s.pool.release t, tagmap := tmErase t s.tagmap, sendq := s.sendq,
          reqs := setKey s.reqs rid0 .answered, writing := s.writing } { delivered := [rid0] })).unans
          = a.unans.filter (fun p => p.1 != t) := by
      rw [after_pairs_process]
      simp only [obsOf, reqPairs, List.filter_nil, List.map_nil, List.append_nil]
    have hlen : (setKey s.reqs rid0 .answered).length = s.reqs.length := by
      unfold setKey; split
      · simp
      · rfl
    have hlt0 := h.rlt t rid0 hl
    obtain ⟨r0, hr0⟩ : ∃ r0, s.reqs[rid0]? = some r0 := ⟨s.reqs[rid0], List.getElem?_eq_getElem hlt0⟩
    have hsk : setKey s.reqs rid0 .answered = s.reqs.set rid0 { r0 with key := .answered } := by
      simp [setKey, hr0]
    refine pack12 cfg a idx (.process mt t) _ _ ⟨?_, ?_, h.owed, ?_, ?_, ?_, ?_⟩ ?_ (fun _ => rfl)
    · show a.nreq = (setKey s.reqs rid0 .answered).length
      rw [hlen]; exact h.nreq
    · show FiredOk a.fired (setKey s.reqs rid0 .answered)
      rw [hsk]; exact FiredOk.set _ h.fired hr0 (fun e => e)
    · exact rinj_erase t h.rinj
    · show ∀ t' rid, tmLookup t' (tmErase t s.tagmap) = some rid → rid < (setKey s.reqs rid0 .answered).length
      rw [hlen]; exact rlt_erase t h.rlt
    · simp only [Acc.tags, hua]
      have : (a.unans.filter (fun p => p.1 != t)).map (·.1) = a.tags.filter (· != t) := by
        simp only [Acc.tags, List.filter_map]; rfl
      rw [this]; exact h.tnd.filter _
    · rw [hua]
      show SubKey _ (setKey s.reqs rid0 .answered)
      rw [hsk]
      intro rid r hr hsub t'
      by_cases e : rid = rid0
      · subst e
        rw [set_self hr0] at hr; injection hr with hr; subst hr
        simp only [reduceCtorEq, List.mem_filter, bne_iff_ne, ne_eq, false_iff, not_and, Decidable.not_not]
        intro hm
        exact h.rinj t' t rid (hi.own _ hm) hl
      · rw [set_ne e] at hr
        have := h.subkey rid r hr hsub t'
        rw [this]
        simp only [List.mem_filter, bne_iff_ne, ne_eq, iff_self_and]
        intro hm e'
        subst e'
        have := hi.own _ hm
        simp only at this
        rw [hl] at this; injection this with this
        exact e this.symm
    · intro p hp; cases hp

theorem Inv12_step_process (cfg : Cfg) (a : Acc) (s : St) (mt : Int) (t idx : Nat) (hi : Inv cfg a s)
    (h : Inv12 cfg a s) :
    specObs12 cfg a idx (.process mt t) (obsOf (stepProcess s mt t).1 (stepProcess s mt t).2) = .ok ∧
      Inv12 cfg (a.after (.process mt t) (obsOf (stepProcess s mt t).1 (stepProcess s mt t).2))
        (stepProcess s mt t).1 := by
  unfold stepProcess
  have hsmall : t ≤ 1 → tmLookup t s.tagmap = none := by
    intro ht
    rw [tmLookup_none_iff]
    intro hk
    have := (hi.pool.krange t hk).1
    omega
  by_cases hping : t = 1 ∧ mt = -65
  · rw [if_pos hping]
    exact Inv12_process_nochange cfg a s mt t idx h hi.own (hsmall (by omega))
  · rw [if_neg hping]
    by_cases ht0 : t ≠ 0
    · rw [if_pos ht0]
      exact Inv12_process_tagged cfg a s mt t idx hi h
    · rw [if_neg ht0]
      exact Inv12_process_nochange cfg a s mt t idx h hi.own (hsmall (by omega))

/-! #### send -/

theorem SubKey.append_other {u : List (Nat × Nat)} {reqs : List Req} {t rid : Nat} (h : SubKey u reqs)
    (hr : ∀ r1, reqs[rid]? = some r1 → r1.sub = false) : SubKey (u ++ [(t, rid)]) reqs := by
  intro rid1 r1 hr1 hsub t'
  have hne : rid1 ≠ rid := by
    intro e; subst e
    have := hr r1 hr1; rw [this] at hsub; cases hsub
  rw [h rid1 r1 hr1 hsub t']
  simp only [List.mem_append, List.mem_singleton, Prod.mk.injEq]
  constructor
  · intro hm; exact Or.inl hm
  · rintro (hm | ⟨_, e⟩)
    · exact hm
    · exact absurd e hne

theorem SubKey.set_sub {u : List (Nat × Nat)} {reqs : List Req} {j : Nat} {r0 : Req} (n : Req)
    (h : SubKey u reqs) (h0 : reqs[j]? = some r0) (hn : ∀ t, (n.key = .tag t ↔ (t, j) ∈ u)) :
    SubKey u (reqs.set j n) := by
  intro rid r hr hsub t
  by_cases e : rid = j
  · subst e
    rw [set_self h0] at hr; injection hr with hr; subst hr
    exact hn t
  · rw [set_ne e] at hr; exact h rid r hr hsub t

theorem Inv12_send_simple (cfg : Cfg) (a : Acc) (s : St) (idx : Nat) (i : Item) (q : List Item) (out : Out)
    (h : Inv12 cfg a s)
    (hq : s.sendq = i :: q) (hw : reqPairs out.wrote = [])
    (hdn : cfg.fl = .thriftmux → discOk a.owed (discTags out.wrote) = true)
    (howed : eraseAll (qdisc (i :: q)) (discTags out.wrote) = qdisc q) :
    specObs12 cfg a idx .send (obsOf { s with sendq := q } out) = .ok ∧
      Inv12 cfg (a.after .send (obsOf { s with sendq := q } out)) { s with sendq := q } := by
  refine Inv12_quiet cfg a idx .send s _ _ h (by simp) (by simp) (by simp) (by simp) hw rfl rfl h.fired h.subkey hdn ?_
  intro hfl
  simp only [dueNow]
  rw [h.owed hfl, hq]; exact howed

theorem Inv12_send_write (cfg : Cfg) (a : Acc) (s : St) (idx rid t : Nat) (q : List Item) (r : Req) (reqs' : List Req)
    (h : Inv12 cfg a s)
    (hq : s.sendq = .req rid t :: q) (hr : s.reqs[rid]? = some r) (hev : r.ev ≠ .fired)
    (hu : t ∉ a.tags)
    (hlen : reqs'.length = s.reqs.length) (hfired : FiredOk a.fired reqs')
    (hsub : SubKey (a.unans ++ [(t, rid)]) reqs') :
    specObs12 cfg a idx .send (obsOf { s with sendq := q, reqs := reqs' } { wrote := [⟨.req, t, rid⟩] }) = .ok ∧
      Inv12 cfg (a.after .send (obsOf { s with sendq := q, reqs := reqs' } { wrote := [⟨.req, t, rid⟩] }))
        { s with sendq := q, reqs := reqs' } := by
  have hrp : reqPairs [(⟨.req, t, rid⟩ : Frame)] = [(t, rid)] := by simp [reqPairs]
  have hdt : discTags [(⟨.req, t, rid⟩ : Frame)] = [] := by simp [discTags]
  refine pack12 cfg a idx .send _ _ ⟨?_, hfired, ?_, h.rinj, ?_, ?_, ?_⟩ ?_ ?_
  · show a.nreq = reqs'.length
    rw [hlen]; exact h.nreq
  · intro hfl
    show eraseAll a.owed (discTags [(⟨.req, t, rid⟩ : Frame)]) = qdisc q
    rw [hdt, h.owed hfl, hq]; rfl
  · intro t' rid' hl; show rid' < reqs'.length; rw [hlen]; exact h.rlt t' rid' hl
  · show ((a.unans ++ reqPairs [(⟨.req, t, rid⟩ : Frame)]).map (·.1)).Nodup
    rw [hrp, List.map_append, List.nodup_append]
    refine ⟨h.tnd, by simp, ?_⟩
    intro x hx y hy
    simp only [List.map_cons, List.map_nil, List.mem_singleton] at hy
    subst hy
    intro e; subst e; exact hu hx
  · show SubKey (a.unans ++ reqPairs [(⟨.req, t, rid⟩ : Frame)]) reqs'
    rw [hrp]; exact hsub
  · intro p hp
    simp only [hrp, List.mem_singleton] at hp
    subst hp
    intro hf
    obtain ⟨r1, hr1, hf1⟩ := h.fired rid hf
    rw [hr] at hr1; injection hr1 with hr1; subst hr1
    exact hev hf1
  · intro _; simp only [hdt]; rfl

theorem Inv12_send_drop (cfg : Cfg) (a : Acc) (s : St) (idx rid t : Nat) (q : List Item) (r n : Req)
    (h : Inv12 cfg a s) (hq : s.sendq = .req rid t :: q) (hr : s.reqs[rid]? = some r)
    (hn1 : n.sub = false) (hn2 : r.ev = .fired → n.ev = .fired)
    (hl : tmLookup t s.tagmap = some rid) :
    let s1 : St := { s with sendq := q, reqs := s.reqs.set rid n }
    specObs12 cfg a idx .send (obsOf (releaseTag s1 t).1 {}) = .ok ∧
      Inv12 cfg (a.after .send (obsOf (releaseTag s1 t).1 {})) (releaseTag s1 t).1 := by
  intro s1
  have hl1 : tmLookup t s1.tagmap = some rid := hl
  rw [releaseTag_some hl1]
  simp only
  refine pack12 cfg a idx .send _ _ ⟨?_, ?_, ?_, ?_, ?_, ?_, ?_⟩ ?_ (fun _ => rfl)
  · show a.nreq = (s.reqs.set rid n).length
    rw [List.length_set]; exact h.nreq
  · exact FiredOk.set _ h.fired hr hn2
  · intro hfl
    show eraseAll a.owed [] = qdisc q
    rw [h.owed hfl, hq]; rfl
  · exact rinj_erase t h.rinj
  · show ∀ t' rid', tmLookup t' (tmErase t s.tagmap) = some rid' → rid' < (s.reqs.set rid n).length
    rw [List.length_set]; exact rlt_erase t h.rlt
  · simp only [Acc.after, Acc.tags, obsOf, reqPairs, List.filter_nil, List.map_nil, List.append_nil]
    exact h.tnd
  · simp only [Acc.after, obsOf, reqPairs, List.filter_nil, List.map_nil, List.append_nil]
    exact SubKey.set_unsub _ h.subkey hr hn1
  · intro p hp; cases hp

theorem Inv12_send_core (cfg : Cfg) (a : Acc) (s : St) (idx : Nat) (hi : Inv cfg a s) (h : Inv12 cfg a s)
    (hen : ((stepSend s).2.res != .badop) = true) :
    specObs12 cfg a idx .send (obsOf (stepSend s).1 (stepSend s).2) = .ok ∧
      Inv12 cfg (a.after .send (obsOf (stepSend s).1 (stepSend s).2)) (stepSend s).1 := by
  unfold stepSend at hen ⊢
  cases hq : s.sendq with
  | nil => simp [hq] at hen
  | cons i q =>
    cases i with
    | ping =>
      exact Inv12_send_simple cfg a s idx .ping q { wrote := [⟨.ping, 1, 0⟩] } h hq rfl (fun _ => rfl) rfl
    | discard w =>
      refine Inv12_send_simple cfg a s idx (.discard w) q { wrote := [⟨.discard, 0, w⟩] } h hq rfl ?_ ?_
      · intro hfl
        have : discTags [(⟨.discard, 0, w⟩ : Frame)] = [w] := by simp [discTags]
        simp only [this, discOk, Bool.and_true]
        rw [h.owed hfl, hq]; simp [qdisc]
      · have : discTags [(⟨.discard, 0, w⟩ : Frame)] = [w] := by simp [discTags]
        simp only [this, eraseAll, qdisc]
        simp
    | req rid t =>
      obtain ⟨r, hr, hsub, hk⟩ := hi.q.qitem rid t (by rw [hq]; simp)
      simp only [hr]
      rcases hk with hk | ⟨hk, hl, hu⟩
      · simp only [hk]
        exact Inv12_send_simple cfg a s idx _ q {} h hq rfl (fun _ => rfl) rfl
      · simp only [hk]
        cases hev : r.ev with
        | fired =>
          simp only
          exact Inv12_send_drop cfg a s idx rid t q r _ h hq hr hsub (fun _ => rfl) hl
        | unfired =>
          simp only
          refine Inv12_send_write cfg a s idx rid t q r _ h hq hr (by rw [hev]; simp) hu (by simp) ?_ ?_
          · exact FiredOk.set _ h.fired hr (fun e => by rw [hev] at e; cases e)
          · apply SubKey.set_sub _ (SubKey.append_other h.subkey (fun r1 hr1 => by
              rw [hr] at hr1; injection hr1 with hr1; subst hr1; exact hsub)) hr
            intro t'
            simp only [Key.tag.injEq, List.mem_append, List.mem_singleton, Prod.mk.injEq, and_true]
            constructor
            · intro e; exact Or.inr e.symm
            · rintro (hm | e)
              · exact (h.rinj t' t rid (hi.own _ hm) hl).symm
              · exact e.symm
        | noev =>
          simp only
          have := Inv12_send_write cfg a s idx rid t q r s.reqs h hq hr (by rw [hev]; simp) hu rfl h.fired
            (SubKey.append_other h.subkey (fun r1 hr1 => by
              rw [hr] at hr1; injection hr1 with hr1; subst hr1; exact hsub))
          exact this

theorem Inv12_step_send (cfg : Cfg) (a : Acc) (s : St) (idx : Nat) (hi : Inv cfg a s) (h : Inv12 cfg a s)
    (hen : opEnabled cfg s .send = true) :
    specObs12 cfg a idx .send (step cfg s .send).2 = .ok ∧
      Inv12 cfg (a.after .send (step cfg s .send).2) (step cfg s .send).1 := by
  simp only [step, stepOp]
  simp only [opEnabled, stepOp] at hen
  by_cases hw : s.writing = true
  · simp [hw] at hen
  · simp only [hw] at hen ⊢
    exact Inv12_send_core cfg a s idx hi h hen

/-! #### the write as a yield point: `wbegin`, `wend`, `quiet` -/

/-- `Inv12` does not look at the `writing` flag, nor at `must` / `inprog` -/
theorem Inv12_congr {cfg : Cfg} {a a' : Acc} {s s' : St} (h : Inv12 cfg a s)
    (hn : a'.nreq = a.nreq) (hf : a'.fired = a.fired) (ho : a'.owed = a.owed) (hu : a'.unans = a.unans)
    (h2 : s'.tagmap = s.tagmap) (h3 : s'.sendq = s.sendq) (h4 : s'.reqs = s.reqs) :
    Inv12 cfg a' s' := by
  refine ⟨?_, ?_, ?_, ?_, ?_, ?_, ?_⟩
  · rw [hn, h4]; exact h.nreq
  · rw [hf, h4]; exact h.fired
  · rw [ho, h3]; exact h.owed
  · rw [h2]; exact h.rinj
  · rw [h2, h4]; exact h.rlt
  · simp only [Acc.tags, hu]; exact h.tnd
  · rw [hu, h4]; exact h.subkey

theorem specObs12_wbegin (cfg : Cfg) (a : Acc) (idx : Nat) (o : Obs) :
    specObs12 cfg a idx .wbegin o = specObs12 cfg a idx .send o := rfl

theorem Inv12_step_wbegin (cfg : Cfg) (a : Acc) (s : St) (idx : Nat) (hi : Inv cfg a s) (h : Inv12 cfg a s)
    (hen : opEnabled cfg s .wbegin = true) :
    specObs12 cfg a idx .wbegin (step cfg s .wbegin).2 = .ok ∧
      Inv12 cfg (a.after .wbegin (step cfg s .wbegin).2) (step cfg s .wbegin).1 := by
  simp only [step, stepOp]
  simp only [opEnabled, stepOp] at hen
  unfold stepWBegin at hen ⊢
  by_cases hw : s.writing = true
  · simp [hw] at hen
  · simp only [hw] at hen ⊢
    cases he : (stepSend s).2.wrote.isEmpty with
    | true => simp [he] at hen
    | false =>
      simp only [he, if_false, Bool.false_eq_true] at hen ⊢
      have hres := stepSend_res_of_wrote s he
      obtain ⟨hv, hinv⟩ := Inv12_send_core cfg a s idx hi h (by rw [hres]; rfl)
      rw [specObs12_wbegin]
      exact ⟨hv, Inv12_congr hinv rfl rfl rfl rfl rfl rfl rfl⟩

theorem Inv12_step_idle (cfg : Cfg) (a : Acc) (s s' : St) (idx : Nat) (op : Op) (h : Inv12 cfg a s)
    (hop : op = .wend ∨ op = .quiet)
    (h2 : s'.tagmap = s.tagmap) (h3 : s'.sendq = s.sendq) (h4 : s'.reqs = s.reqs) :
    specObs12 cfg a idx op (obsOf s' {}) = .ok ∧ Inv12 cfg (a.after op (obsOf s' {})) s' := by
  have hne : op ≠ .reopen := by rcases hop with e | e <;> subst e <;> simp
  have hnp : ∀ m t, op ≠ .process m t := by intro m t; rcases hop with e | e <;> subst e <;> simp
  have hnr : ∀ e p, op ≠ .req e p := by intro m t; rcases hop with e | e <;> subst e <;> simp
  have hnf : ∀ rid, op ≠ .fire rid := by intro m; rcases hop with e | e <;> subst e <;> simp
  have hdue : dueNow a op = a.owed := by rcases hop with e | e <;> subst e <;> rfl
  refine Inv12_quiet cfg a idx op s s' {} h hne hnp hnr hnf rfl h2 (by rw [h4]) (by rw [h4]; exact h.fired)
    (by rw [h4]; exact h.subkey) (fun _ => rfl) ?_
  intro hfl
  rw [hdue, h3]
  simp only [discTags, List.filter_nil, List.map_nil, eraseAll]
  exact h.owed hfl

theorem Inv12_step_wend (cfg : Cfg) (a : Acc) (s : St) (idx : Nat) (h : Inv12 cfg a s)
    (hen : opEnabled cfg s .wend = true) :
    specObs12 cfg a idx .wend (step cfg s .wend).2 = .ok ∧
      Inv12 cfg (a.after .wend (step cfg s .wend).2) (step cfg s .wend).1 := by
  simp only [step, stepOp]
  simp only [opEnabled, stepOp] at hen
  unfold stepWEnd at hen ⊢
  by_cases hw : s.writing = true
  · simp only [hw, if_true]
    exact Inv12_step_idle cfg a s _ idx .wend h (Or.inl rfl) rfl rfl rfl
  · simp [hw] at hen

theorem Inv12_step_quiet (cfg : Cfg) (a : Acc) (s : St) (idx : Nat) (h : Inv12 cfg a s)
    (hen : opEnabled cfg s .quiet = true) :
    specObs12 cfg a idx .quiet (step cfg s .quiet).2 = .ok ∧
      Inv12 cfg (a.after .quiet (step cfg s .quiet).2) (step cfg s .quiet).1 := by
  simp only [step, stepOp]
  simp only [opEnabled, stepOp] at hen
  unfold stepQuiet at hen ⊢
  split
  · exact Inv12_step_idle cfg a s _ idx .quiet h (Or.inr rfl) rfl rfl rfl
  · rename_i hc; simp [hc] at hen

/-! #### req -/

theorem after_req_fields (a : Acc) (e : EvKind) (popped : Nat) (o : Obs) :
    (a.after (.req e popped) o).nreq = a.nreq + 1 ∧
    (a.after (.req e popped) o).fired = (if e = .pre then a.nreq :: a.fired else a.fired) := ⟨rfl, rfl⟩

theorem Inv12_req_common (cfg : Cfg) (a : Acc) (s s' : St) (idx : Nat) (e : EvKind) (popped : Nat) (out : Out) (n : Req)
    (h : Inv12 cfg a s) (hw : out.wrote = []) (hreqs : s'.reqs = s.reqs ++ [n]) (hn1 : n.sub = false)
    (hn2 : n.ev = evOf e) (hq : qdisc s'.sendq = qdisc s.sendq)
    (hrinj : ∀ t t' rid, tmLookup t s'.tagmap = some rid → tmLookup t' s'.tagmap = some rid → t = t')
    (hrlt : ∀ t rid, tmLookup t s'.tagmap = some rid → rid < s.reqs.length + 1) :
    specObs12 cfg a idx (.req e popped) (obsOf s' out) = .ok ∧
      Inv12 cfg (a.after (.req e popped) (obsOf s' out)) s' := by
  have hrp : reqPairs (obsOf s' out).wrote = [] := by simp [obsOf, hw, reqPairs]
  have hu : (a.after (.req e popped) (obsOf s' out)).unans = a.unans :=
    tags_after_plain (by simp) (by simp) hrp
  have hdt : discTags out.wrote = [] := by simp [hw, discTags]
  refine pack12 cfg a idx (.req e popped) s' out ⟨?_, ?_, ?_, hrinj, ?_, ?_, ?_⟩ ?_ ?_
  · rw [(after_req_fields a e popped _).1, hreqs, h.nreq]; simp
  · rw [(after_req_fields a e popped _).2, hreqs]
    have hbase : FiredOk a.fired (s.reqs ++ [n]) := FiredOk.append n h.fired
    by_cases he : e = .pre
    · rw [if_pos he]
      refine FiredOk.cons hbase (r := n) ?_ ?_
      · rw [h.nreq]; simp
      · rw [hn2, he]; rfl
    · rw [if_neg he]; exact hbase
  · intro hfl
    rw [after_owed _ _ _ (by simp)]
    simp only [obsOf, hdt, eraseAll, dueNow]
    rw [h.owed hfl, hq]
  · rw [hreqs]; simpa using hrlt
  · simp only [Acc.tags, hu]; exact h.tnd
  · rw [hu, hreqs]; exact SubKey.append_unsub n h.subkey hn1
  · rw [hw]; intro p hp; simp [reqPairs] at hp
  · intro _; rw [hdt]; rfl

theorem Inv12_step_req (cfg : Cfg) (a : Acc) (s : St) (e : EvKind) (popped idx : Nat) (hi : Inv cfg a s)
    (h : Inv12 cfg a s) (hen : opEnabled cfg s (.req e popped) = true) :
    specObs12 cfg a idx (.req e popped) (step cfg s (.req e popped)).2 = .ok ∧
      Inv12 cfg (a.after (.req e popped) (step cfg s (.req e popped)).2) (step cfg s (.req e popped)).1 := by
  simp only [step, stepOp]
  simp only [opEnabled, stepOp] at hen
  unfold stepReq at hen ⊢
  cases hg : s.pool.get cfg.max popped with
  | exhausted =>
    simp only
    refine Inv12_req_common cfg a s _ idx e popped _ ⟨.absent, evOf e, false⟩ h rfl rfl rfl rfl rfl h.rinj ?_
    intro t rid hl; have := h.rlt t rid hl; omega
  | badChoice => simp [hg] at hen
  | tag t p =>
    simp only
    -- the tag handed out is not in the tag map
    have hnk : t ∉ tmKeys s.tagmap := by
      unfold Pool.get at hg
      cases hf : s.pool.free with
      | nil =>
        simp only [hf] at hg
        split at hg
        · cases hg
        · injection hg with h1 h2
          subst h1
          intro hk; have := (hi.pool.krange _ hk).2; omega
      | cons x xs =>
        simp only [hf] at hg
        split at hg
        · next hc =>
          injection hg with h1 h2
          subst h1
          have hmem : popped ∈ s.pool.free := by rw [hf]; simpa using hc
          exact hi.pool.disj _ hmem
        · cases hg
    refine Inv12_req_common cfg a s _ idx e popped _ ⟨.tag t, evOf e, false⟩ h rfl rfl rfl rfl ?_ ?_ ?_
    · show qdisc (s.sendq ++ [Item.req s.reqs.length t]) = qdisc s.sendq
      rw [qdisc_append]; simp [qdisc]
    · intro t1 t2 rid h1 h2
      change tmLookup t1 (tmSet t s.reqs.length s.tagmap) = some rid at h1
      change tmLookup t2 (tmSet t s.reqs.length s.tagmap) = some rid at h2
      by_cases e1 : t1 = t
      · subst e1
        rw [tmLookup_set_self] at h1; injection h1 with h1; subst h1
        by_cases e2 : t2 = t1
        · exact e2.symm
        · rw [tmLookup_set_ne _ _ e2] at h2
          have := h.rlt t2 _ h2; omega
      · rw [tmLookup_set_ne _ _ e1] at h1
        by_cases e2 : t2 = t
        · subst e2
          rw [tmLookup_set_self] at h2; injection h2 with h2; subst h2
          have := h.rlt t1 _ h1; omega
        · rw [tmLookup_set_ne _ _ e2] at h2
          exact h.rinj t1 t2 rid h1 h2
    · intro t1 rid h1
      change tmLookup t1 (tmSet t s.reqs.length s.tagmap) = some rid at h1
      by_cases e1 : t1 = t
      · subst e1
        rw [tmLookup_set_self] at h1; injection h1 with h1; omega
      · rw [tmLookup_set_ne _ _ e1] at h1
        have := h.rlt t1 rid h1; omega

/-! #### reopen, and all together -/

theorem Inv12_step_reopen (cfg : Cfg) (a : Acc) (s : St) (idx : Nat) :
    specObs12 cfg a idx .reopen (step cfg s .reopen).2 = .ok ∧
      Inv12 cfg (a.after .reopen (step cfg s .reopen).2) (step cfg s .reopen).1 := by
  simp only [step, stepOp]
  constructor
  · rw [specObs12_ok_iff]
    refine ⟨?_, fun _ => rfl, fun _ _ => rfl⟩
    intro p hp; simp [obsOf, reqPairs] at hp
  · exact Inv12_fresh cfg

theorem Inv12_step (cfg : Cfg) (a : Acc) (s : St) (op : Op) (idx : Nat) (hi : Inv cfg a s) (h : Inv12 cfg a s)
    (hen : opEnabled cfg s op = true) :
    specObs12 cfg a idx op (step cfg s op).2 = .ok ∧ Inv12 cfg (a.after op (step cfg s op).2) (step cfg s op).1 := by
  cases op with
  | req e popped => exact Inv12_step_req cfg a s e popped idx hi h hen
  | fire rid => exact Inv12_step_fire cfg a s rid idx h hen
  | send => exact Inv12_step_send cfg a s idx hi h hen
  | notify rid =>
    simp only [opEnabled, stepOp] at hen
    simp only [step, stepOp]
    cases hfl : cfg.fl with
    | thriftmux => simp only [hfl] at hen; exact Inv12_step_notify cfg a s rid idx h hen
    | kafka => simp only [hfl] at hen; exact Inv12_step_notify_kafka cfg a s rid idx hfl h hen
  | process mt t =>
    simp only [step, stepOp]
    cases hfl : cfg.fl with
    | thriftmux => exact Inv12_step_process cfg a s mt t idx hi h
    | kafka => exact Inv12_process_tagged cfg a s mt t idx hi h
  | ping =>
    simp only [opEnabled, stepOp] at hen
    simp only [step, stepOp]
    cases hfl : cfg.fl with
    | thriftmux => exact Inv12_step_ping cfg a s idx h
    | kafka => simp [hfl] at hen
  | reopen => exact Inv12_step_reopen cfg a s idx
  | wbegin => exact Inv12_step_wbegin cfg a s idx hi h hen
  | wend => exact Inv12_step_wend cfg a s idx h hen
  | quiet => exact Inv12_step_quiet cfg a s idx h hen

/-! ### whole histories -/

theorem specGo12_split (cfg : Cfg) (h1 : List (Op × Obs)) : ∀ (a : Acc) (idx : Nat) (op : Op) (o : Obs)
    (h2 : List (Op × Obs)), specGo12 cfg a idx (h1 ++ (op, o) :: h2) = .ok →
      specObs cfg (accAfter a h1) (idx + h1.length) op o = .ok ∧
      specObs12 cfg (accAfter a h1) (idx + h1.length) op o = .ok := by
  induction h1 with
  | nil =>
    intro a idx op o h2 h
    simp only [List.nil_append, specGo12, Verdict_and_ok] at h
    simpa [accAfter] using h.1.1
  | cons p h1 ih =>
    intro a idx op o h2 h
    obtain ⟨op', o'⟩ := p
    simp only [List.cons_append, specGo12, Verdict_and_ok] at h
    have := ih _ _ op o h2 h.2
    simp only [accAfter, List.foldl_cons, List.length_cons] at this ⊢
    have e : idx + 1 + h1.length = idx + (h1.length + 1) := by omega
    rw [e] at this; exact this

/-- … and the `timeout-not-discarded` clause -/
theorem specGo12_splitM (cfg : Cfg) (h1 : List (Op × Obs)) : ∀ (a : Acc) (idx : Nat) (op : Op) (o : Obs)
    (h2 : List (Op × Obs)), specGo12 cfg a idx (h1 ++ (op, o) :: h2) = .ok →
      specObsM cfg (accAfter a h1) (idx + h1.length) op o = .ok := by
  induction h1 with
  | nil =>
    intro a idx op o h2 h
    simp only [List.nil_append, specGo12, Verdict_and_ok] at h
    simpa [accAfter] using h.1.2
  | cons p h1 ih =>
    intro a idx op o h2 h
    obtain ⟨op', o'⟩ := p
    simp only [List.cons_append, specGo12, Verdict_and_ok] at h
    have := ih _ _ op o h2 h.2
    simp only [accAfter, List.foldl_cons, List.length_cons] at this ⊢
    have e : idx + 1 + h1.length = idx + (h1.length + 1) := by omega
    rw [e] at this; exact this

theorem Inv12_trace (cfg : Cfg) (hmax : 2 ≤ cfg.max) : ∀ (ops : List Op) (a : Acc) (s : St),
    Inv cfg a s → Inv12 cfg a s → opsOk cfg s ops = true →
      Inv12 cfg (accAfter a (comp.trace cfg s ops)) (reachFrom cfg s ops) := by
  intro ops
  induction ops with
  | nil => intro a s _ h _; exact h
  | cons op ops ih =>
    intro a s h h12 hok
    simp only [opsOk, Bool.and_eq_true] at hok
    obtain ⟨hen, hrest⟩ := hok
    obtain ⟨_, hinv⟩ := Inv_step cfg a s op 0 hmax h hen
    obtain ⟨_, hinv12⟩ := Inv12_step cfg a s op 0 h h12 hen
    simp only [TComp.trace, comp, accAfter, reachFrom, List.foldl_cons]
    exact ih _ _ hinv hinv12 hrest

/-! ### reading a history: prefixes of the model's trace are traces -/

theorem trace_append (cfg : Cfg) : ∀ (o1 o2 : List Op) (s : St),
    comp.trace cfg s (o1 ++ o2) = comp.trace cfg s o1 ++ comp.trace cfg (reachFrom cfg s o1) o2 := by
  intro o1
  induction o1 with
  | nil => intro o2 s; rfl
  | cons op o1 ih =>
    intro o2 s
    simp only [List.cons_append, TComp.trace, reachFrom, List.foldl_cons]
    rw [ih]; rfl

theorem trace_map_fst (cfg : Cfg) : ∀ (ops : List Op) (s : St), (comp.trace cfg s ops).map (·.1) = ops := by
  intro ops
  induction ops with
  | nil => intro s; rfl
  | cons op ops ih => intro s; simp only [TComp.trace, List.map_cons, ih]

theorem trace_length (cfg : Cfg) (ops : List Op) (s : St) : (comp.trace cfg s ops).length = ops.length := by
  have := congrArg List.length (trace_map_fst cfg ops s)
  simpa using this

theorem opsOk_append (cfg : Cfg) : ∀ (o1 o2 : List Op) (s : St),
    opsOk cfg s (o1 ++ o2) = (opsOk cfg s o1 && opsOk cfg (reachFrom cfg s o1) o2) := by
  intro o1
  induction o1 with
  | nil => intro o2 s; simp [opsOk, reachFrom]
  | cons op o1 ih =>
    intro o2 s
    simp only [List.cons_append, opsOk, reachFrom, List.foldl_cons, ih, Bool.and_assoc]

/-- a prefix `h1` of the model's history is the history of a legal prefix of the operations -/
theorem trace_prefix (cfg : Cfg) (ops : List Op) (h1 h2 : List (Op × Obs))
    (ho : opsOk cfg (initSt cfg) ops = true) (htr : comp.modelTrace cfg ops = h1 ++ h2) :
    ∃ o1 o2, ops = o1 ++ o2 ∧ h1 = comp.trace cfg (initSt cfg) o1 ∧ opsOk cfg (initSt cfg) o1 = true ∧
      h2 = comp.trace cfg (reach cfg o1) o2 ∧ opsOk cfg (reach cfg o1) o2 = true := by
  have hops : ops = h1.map (·.1) ++ h2.map (·.1) := by
    have := congrArg (List.map (·.1)) htr
    simpa [TComp.modelTrace, trace_map_fst] using this
  refine ⟨h1.map (·.1), h2.map (·.1), hops, ?_⟩
  have hsplit := trace_append cfg (h1.map (·.1)) (h2.map (·.1)) (initSt cfg)
  rw [← hops] at hsplit
  have htr' : comp.trace cfg (initSt cfg) ops = h1 ++ h2 := htr
  rw [htr'] at hsplit
  have hlen : h1.length = (comp.trace cfg (initSt cfg) (h1.map (·.1))).length := by
    rw [trace_length]; simp
  have := List.append_inj hsplit hlen
  have hok := ho
  rw [hops, opsOk_append, Bool.and_eq_true] at hok
  exact ⟨this.1, hok.1, this.2, hok.2⟩

theorem accAfter_append (a : Acc) (x y : List (Op × Obs)) : accAfter a (x ++ y) = accAfter (accAfter a x) y := by
  simp [accAfter, List.foldl_append]

/-! ### the deadline bookkeeping of the accumulator is monotone between re-opens -/

theorem fired_mono_step (a : Acc) (op : Op) (o : Obs) (h : op ≠ .reopen) (x : Nat) (hx : x ∈ a.fired) :
    x ∈ (a.after op o).fired := by
  cases op with
  | reopen => exact absurd rfl h
  | req e p =>
    simp only [Acc.after]
    split
    · exact List.mem_cons_of_mem _ hx
    · exact hx
  | fire rid => exact List.mem_cons_of_mem _ hx
  | send => exact hx
  | notify rid => exact hx
  | process m t => exact hx
  | ping => exact hx
  | wbegin => exact hx
  | wend => exact hx
  | quiet => exact hx

theorem fired_mono (x : Nat) : ∀ (h : List (Op × Obs)) (a : Acc), (∀ p ∈ h, p.1 ≠ .reopen) → x ∈ a.fired →
    x ∈ (accAfter a h).fired := by
  intro h
  induction h with
  | nil => intro a _ hx; exact hx
  | cons p h ih =>
    intro a hno hx
    simp only [accAfter, List.foldl_cons]
    exact ih _ (fun q hq => hno q (List.mem_cons_of_mem _ hq))
      (fired_mono_step a p.1 p.2 (hno p (by simp)) x hx)

/-! ### Tdiscarded accounting -/

theorem mem_eraseAll {t : Nat} : ∀ (ts l : List Nat), t ∈ l → t ∉ ts → t ∈ eraseAll l ts := by
  intro ts
  induction ts with
  | nil => intro l h _; exact h
  | cons x ts ih =>
    intro l h hn
    simp only [List.mem_cons, not_or] at hn
    simp only [eraseAll]
    exact ih _ ((List.mem_erase_of_ne hn.1).mpr h) hn.2

theorem owed_sub_dueNow (a : Acc) (op : Op) : ∀ t ∈ a.owed, t ∈ dueNow a op := by
  intro t ht
  cases op <;> simp only [dueNow] <;> first | exact ht | exact List.mem_append_left _ ht

/-- a due entry that is no longer due at the end of a re-open-free history was settled by a
    written Tdiscarded naming it -/
theorem owed_consumed (t : Nat) : ∀ (h : List (Op × Obs)) (a : Acc), (∀ p ∈ h, p.1 ≠ .reopen) →
    t ∈ a.owed → t ∉ (accAfter a h).owed → ∃ p ∈ h, t ∈ discTags p.2.wrote := by
  intro h
  induction h with
  | nil => intro a _ h1 h2; exact absurd h1 h2
  | cons p h ih =>
    intro a hno h1 h2
    by_cases hd : t ∈ discTags p.2.wrote
    · exact ⟨p, by simp, hd⟩
    · have hne : p.1 ≠ .reopen := hno p (by simp)
      have hin : t ∈ (a.after p.1 p.2).owed := by
        rw [after_owed _ _ _ hne]
        exact mem_eraseAll _ _ (owed_sub_dueNow a p.1 t h1) hd
      simp only [accAfter, List.foldl_cons] at h2
      obtain ⟨q, hq, hqd⟩ := ih _ (fun q hq => hno q (List.mem_cons_of_mem _ hq)) hin h2
      exact ⟨q, List.mem_cons_of_mem _ hq, hqd⟩

theorem count_eraseAll {t : Nat} : ∀ (ts l : List Nat), discOk l ts = true →
    (eraseAll l ts).count t + ts.count t = l.count t := by
  intro ts
  induction ts with
  | nil => intro l _; simp [eraseAll]
  | cons x ts ih =>
    intro l h
    simp only [discOk, Bool.and_eq_true, List.contains_eq_mem, decide_eq_true_eq] at h
    have := ih _ h.2
    simp only [eraseAll, List.count_cons]
    by_cases e : x = t
    · subst e
      have hc : (l.erase x).count x = l.count x - 1 := List.count_erase_self
      have hpos : 0 < l.count x := List.count_pos_iff.mpr h.1
      simp only [beq_self_eq_true, ↓reduceIte]
      omega
    · have hc : (l.erase x).count t = l.count t := List.count_erase_of_ne (Ne.symm e)
      simp only [beq_iff_eq, e, ↓reduceIte]
      omega

/-- the tags a step makes due -/
def dueAdded (a : Acc) (op : Op) : List Nat :=
  match op with
  | .notify rid => tagsOf a.unans rid
  | _ => []

theorem count_dueNow (a : Acc) (op : Op) (t : Nat) :
    (dueNow a op).count t = a.owed.count t + (dueAdded a op).count t := by
  cases op <;> simp [dueNow, dueAdded]

/-- number of Tdiscarded frames naming `t` written over a history -/
def discardsWritten (t : Nat) : List (Op × Obs) → Nat
  | [] => 0
  | p :: h => (discTags p.2.wrote).count t + discardsWritten t h

/-- number of times `t` became due over a history, from accumulator `a` -/
def madeDue (t : Nat) : Acc → List (Op × Obs) → Nat
  | _, [] => 0
  | a, p :: h => (dueAdded a p.1).count t + madeDue t (a.after p.1 p.2) h

/-- every step of the history passes the `discard-unexpected` clause -/
def discStepsOk : Acc → List (Op × Obs) → Prop
  | _, [] => True
  | a, p :: h => discOk (dueNow a p.1) (discTags p.2.wrote) = true ∧ discStepsOk (a.after p.1 p.2) h

theorem discard_accounting (t : Nat) : ∀ (h : List (Op × Obs)) (a : Acc), (∀ p ∈ h, p.1 ≠ .reopen) →
    discStepsOk a h →
    discardsWritten t h + (accAfter a h).owed.count t = a.owed.count t + madeDue t a h := by
  intro h
  induction h with
  | nil => intro a _ _; simp [discardsWritten, madeDue, accAfter]
  | cons p h ih =>
    intro a hno hok
    have hne : p.1 ≠ .reopen := hno p (by simp)
    have := ih (a.after p.1 p.2) (fun q hq => hno q (List.mem_cons_of_mem _ hq)) hok.2
    have hstep := count_eraseAll (t := t) _ _ hok.1
    rw [← after_owed _ _ _ hne, count_dueNow] at hstep
    simp only [discardsWritten, madeDue, accAfter, List.foldl_cons] at this ⊢
    omega

theorem discStepsOk_of_spec12 (cfg : Cfg) (hfl : cfg.fl = .thriftmux) : ∀ (h : List (Op × Obs)) (a : Acc) (idx : Nat),
    specGo12 cfg a idx h = .ok → discStepsOk a h := by
  intro h
  induction h with
  | nil => intros; trivial
  | cons p h ih =>
    intro a idx hs
    obtain ⟨op, o⟩ := p
    simp only [specGo12, Verdict_and_ok] at hs
    exact ⟨((specObs12_ok_iff cfg a idx op o).mp hs.1.1.2).2.1 hfl, ih _ _ hs.2⟩

theorem specGo12_suffix (cfg : Cfg) : ∀ (h1 h2 : List (Op × Obs)) (a : Acc) (idx : Nat),
    specGo12 cfg a idx (h1 ++ h2) = .ok → specGo12 cfg (accAfter a h1) (idx + h1.length) h2 = .ok := by
  intro h1
  induction h1 with
  | nil => intro h2 a idx h; simpa [accAfter] using h
  | cons p h1 ih =>
    intro h2 a idx h
    obtain ⟨op, o⟩ := p
    simp only [List.cons_append, specGo12, Verdict_and_ok] at h
    have := ih h2 _ _ h.2
    simp only [accAfter, List.foldl_cons, List.length_cons] at this ⊢
    have e : idx + 1 + h1.length = idx + (h1.length + 1) := by omega
    rw [e] at this; exact this

theorem specGo12_prefix (cfg : Cfg) : ∀ (h1 h2 : List (Op × Obs)) (a : Acc) (idx : Nat),
    specGo12 cfg a idx (h1 ++ h2) = .ok → specGo12 cfg a idx h1 = .ok := by
  intro h1
  induction h1 with
  | nil => intros; rfl
  | cons p h1 ih =>
    intro h2 a idx h
    obtain ⟨op, o⟩ := p
    simp only [List.cons_append, specGo12, Verdict_and_ok] at h ⊢
    exact ⟨h.1, ih h2 _ _ h.2⟩

/-- what is due, according to the accumulator, after a history -/
def owedAfter (cfg : Cfg) (h : List (Op × Obs)) : List Nat := (accAfter (Acc.init cfg) h).owed

/-- the requests whose deadline has fired, according to the accumulator, after a history -/
def firedAfter (cfg : Cfg) (h : List (Op × Obs)) : List Nat := (accAfter (Acc.init cfg) h).fired

end Scales.TagPool
