/-
  Proofs/SerialTheorems.lean — proofs of the C08 property theorems of the serial transport, in the
  namespace of its model; Props/C08.lean restates them in one namespace.
-/
import ScalesModel.Proofs.SerialLemmas
set_option linter.unusedSimpArgs false
set_option linter.unusedVariables false

namespace Scales.Serial
open Scales.Transport

/-- the invariant holds in every state the model can reach, whatever the operations -/
theorem inv_reachable (ops : List Op) : Inv (runOps St.init ops) := by
  have : ∀ s, Inv s → Inv (runOps s ops) := by
    induction ops with
    | nil => intro s h; exact h
    | cons op ops ih => intro s h; exact ih _ (inv_step s op h)
  exact this _ inv_init

/-- every exit path of a transaction clears `_processing`: whenever an operation hands a
    response to the transaction in flight (reply, time-out with accepted or refused
    re-connect, I/O error, end-of-stream) or to the request it has just started (deadline
    already passed, socket not connected), `_processing` is `None` afterwards. -/
theorem each_exit_clears_processing (s : St) (op : Op) (id : Nat) (r : Resp)
    (hown : (∃ t, s.processing = some t ∧ t.id = id ∧ isReq op ≠ some id) ∨
            (s.processing = none ∧ isReq op = some id))
    (hdel : (id, r) ∈ (stepOut s op).2.eff.dels) : (stepOut s op).1.processing = none := by
  obtain ⟨cs, so, ores, proc⟩ := s
  rcases hown with ⟨t, ht, hid, hne⟩ | ⟨hp, hreq⟩
  · simp only at ht; subst ht
    obtain ⟨tid, tdl, ph⟩ := t
    simp only at hid; subst hid
    cases op with
    | openT c =>
      cases c <;> cases ores <;> cases so <;> cases cs <;>
        simp_all [stepOut, St.openT, St.openImpl, St.fault, St.state, St.close]
    | req i dl =>
      have : tid ≠ i := by intro e; apply hne; simp [isReq, e]
      simp_all [stepOut, St.request]
    | io o =>
      cases o <;> cases ph <;>
        simp_all [stepOut, St.io, St.txnFail, St.fault, St.state, St.close] <;>
        (split <;> simp_all)
    | timeoutHere c =>
      cases tdl <;> cases c <;> cases so <;> cases ph <;>
        simp_all [stepOut, St.timeoutHere, St.txnTimeout, St.fault, St.state, St.close] <;>
        (split <;> simp_all)
    | timeoutBlock =>
      cases tdl <;> cases so <;> cases ph <;>
        simp_all [stepOut, St.timeoutBlock, St.txnTimeoutStart]
    | reconn c =>
      cases c <;> cases ph <;>
        simp_all [stepOut, St.reconnDone, St.fault, St.state, St.close] <;>
        (split <;> simp_all)
    | close => simp_all [stepOut]
    | look => simp_all [stepOut]
  · simp only at hp; subst hp
    cases op with
    | req i dl =>
      simp only [isReq, Option.some.injEq] at hreq; subst hreq
      cases dl <;> cases so <;>
        simp_all [stepOut, St.request, St.txnTimeout, St.txnTimeoutStart, St.txnFail, St.fault, St.state, St.close] <;>
        (repeat' split) <;> simp_all
    | _ => simp [isReq] at hreq

/-- on a connection failure every request in flight is failed exactly once, with an error, in
    the same operation: the operation hands out exactly one response, it is an error, and it
    goes to the transaction in flight (or to the request whose transaction just started). -/
theorem fault_once (s : St) (op : Op) (hinv : Inv s) (hf : connFailure s op = true) :
    (∀ t, s.processing = some t →
        ∃ k, k.isError = true ∧ (stepOut s op).2.eff.dels = [(t.id, k)]) ∧
    (s.processing = none → ∀ id, isReq op = some id →
        ∃ k, k.isError = true ∧ (stepOut s op).2.eff.dels = [(id, k)]) := by
  obtain ⟨cs, so, ores, proc⟩ := s
  simp only [Inv] at hinv
  cases op with
  | openT c =>
    cases c <;> cases ores <;> cases so <;> cases cs <;> cases proc <;>
      simp_all [connFailure, stepOut, St.openT, St.openImpl, St.fault, St.state, St.close, isReq]
  | req i dl =>
    cases proc with
    | some t => cases dl <;> simp_all [connFailure] <;> (rename_i c; cases c <;> simp_all [connFailure])
    | none =>
      cases dl with
      | none => simp [connFailure] at hf
      | future => simp [connFailure] at hf
      | pastBlock => simp [connFailure] at hf
      | past c =>
        cases c <;> cases so <;> cases cs <;>
          simp_all [connFailure, stepOut, St.request, St.txnTimeout, St.fault, St.state, St.close, isReq,
            Resp.isError]
  | io o =>
    cases proc with
    | none => cases o <;> simp [connFailure] at hf
    | some t =>
      obtain ⟨tid, tdl, ph⟩ := t
      cases o <;> cases ph <;> cases so <;> cases cs <;>
        simp_all [connFailure, stepOut, St.io, St.txnFail, St.fault, St.state, St.close, isReq, Resp.isError]
  | timeoutHere c =>
    cases proc with
    | none => cases c <;> simp [connFailure] at hf
    | some t =>
      obtain ⟨tid, tdl, ph⟩ := t
      cases c <;> cases tdl <;> cases ph <;> cases so <;> cases cs <;>
        simp_all [connFailure, stepOut, St.timeoutHere, St.txnTimeout, St.fault, St.state, St.close, isReq,
          Resp.isError]
  | timeoutBlock => simp [connFailure] at hf
  | reconn c =>
    cases proc with
    | none => cases c <;> simp [connFailure] at hf
    | some t =>
      obtain ⟨tid, tdl, ph⟩ := t
      cases c <;> cases ph <;> cases so <;> cases cs <;>
        simp_all [connFailure, stepOut, St.reconnDone, St.fault, St.state, St.close, isReq,
          Resp.isError]
  | close => simp [connFailure] at hf
  | look => simp [connFailure] at hf

/-- after a connection failure the transport reports `closed`, the fault signal was raised
    exactly once if it did not already report `closed` (and not at all otherwise), and
    `_processing` is clear. -/
theorem closed_and_signalled (s : St) (op : Op) (hinv : Inv s)
    (hf : connFailure s op = true) :
    (stepOut s op).1.state = .closed ∧
    (stepOut s op).2.eff.faults = (if s.state = .closed then 0 else 1) ∧
    (stepOut s op).1.processing = none := by
  obtain ⟨cs, so, ores, proc⟩ := s
  simp only [Inv] at hinv
  cases op with
  | openT c =>
    cases c <;> cases ores <;> cases so <;> cases cs <;> cases proc <;>
      simp_all [connFailure, stepOut, St.openT, St.openImpl, St.fault, St.state, St.close]
  | req i dl =>
    cases proc with
    | some t => cases dl <;> simp_all [connFailure] <;> (rename_i c; cases c <;> simp_all [connFailure])
    | none =>
      cases dl with
      | none => simp [connFailure] at hf
      | future => simp [connFailure] at hf
      | pastBlock => simp [connFailure] at hf
      | past c =>
        cases c <;> cases so <;> cases cs <;>
          simp_all [connFailure, stepOut, St.request, St.txnTimeout, St.fault, St.state, St.close]
  | io o =>
    cases proc with
    | none => cases o <;> simp [connFailure] at hf
    | some t =>
      obtain ⟨tid, tdl, ph⟩ := t
      cases o <;> cases ph <;> cases so <;> cases cs <;>
        simp_all [connFailure, stepOut, St.io, St.txnFail, St.fault, St.state, St.close]
  | timeoutHere c =>
    cases proc with
    | none => cases c <;> simp [connFailure] at hf
    | some t =>
      obtain ⟨tid, tdl, ph⟩ := t
      cases c <;> cases tdl <;> cases ph <;> cases so <;> cases cs <;>
        simp_all [connFailure, stepOut, St.timeoutHere, St.txnTimeout, St.fault, St.state, St.close]
  | timeoutBlock => simp [connFailure] at hf
  | reconn c =>
    cases proc with
    | none => cases c <;> simp [connFailure] at hf
    | some t =>
      obtain ⟨tid, tdl, ph⟩ := t
      cases c <;> cases ph <;> cases so <;> cases cs <;>
        simp_all [connFailure, stepOut, St.reconnDone, St.fault, St.state, St.close]
  | close => simp [connFailure] at hf
  | look => simp [connFailure] at hf

/-- a transport that reports `open` with no transaction in flight carries the next request:
    the request is not answered on the spot, its transaction blocks in the write, the
    transport still reports `open`, and when that write succeeds the request's frame is what
    reached the peer (true after the repair of F4: before it a refused re-connect left the
    transport `open` with `_processing` set for ever). -/
theorem open_idle_carries (s : St) (id : Nat) (dl : DL) (hinv : Inv s)
    (hopen : s.state = .opened) (hidle : s.processing = none) (hdl : dl = .none ∨ dl = .future) :
    (s.request id dl).2.eff.dels = [] ∧
    (∃ b, (s.request id dl).1.processing = some ⟨id, b, .write⟩) ∧
    (s.request id dl).1.state = .opened ∧
    ((s.request id dl).1.io .ok).2.sent = [id] := by
  obtain ⟨cs, so, ores, proc⟩ := s
  simp only [Inv] at hinv
  simp only at hidle; subst hidle
  rcases hdl with rfl | rfl <;> cases so <;> cases cs <;> simp_all [St.request, St.state, St.io]

/-! ### the re-connect of the time-out handler as a yield point -/

/-- a transport that reports `open` with no transaction in flight has a connected socket: the
    state "`_state` Open, no socket handle" only exists while `_processing` is set -/
theorem open_idle_connected (s : St) (hinv : Inv s) (hopen : s.state = .opened)
    (hidle : s.processing = none) : s.sockOpen = true := by
  obtain ⟨cs, so, ores, proc⟩ := s
  simp only [Inv] at hinv
  simp only at hidle; subst hidle
  cases so <;> cases cs <;> simp_all [St.state]

/-- in every reachable state — whatever the operations, also between the two halves of a
    re-connect that takes time — a transport that reports `open` with no transaction in flight
    carries the next request -/
theorem reachable_open_idle_carries (ops : List Op) (id : Nat) (dl : DL)
    (hopen : (runOps St.init ops).state = .opened) (hidle : (runOps St.init ops).processing = none)
    (hdl : dl = .none ∨ dl = .future) :
    (runOps St.init ops).sockOpen = true ∧
    ((runOps St.init ops).request id dl).2.eff.dels = [] ∧
    (∃ b, ((runOps St.init ops).request id dl).1.processing = some ⟨id, b, .write⟩) ∧
    (((runOps St.init ops).request id dl).1.io .ok).2.sent = [id] := by
  have hinv := inv_reachable ops
  obtain ⟨h1, h2, _, h4⟩ := open_idle_carries _ id dl hinv hopen hidle hdl
  exact ⟨open_idle_connected _ hinv hopen hidle, h1, h2, h4⟩

/-- the deadline of the transaction in flight passes and the re-connect takes time: the
    operation hands out nothing, raises nothing, the transaction stays in flight (`_processing`
    set) blocked in the re-connect; the transport still reports `open`, its socket is not
    connected -/
theorem timeout_block_defers (s : St) (t : Txn) (hinv : Inv s) (hp : s.processing = some t)
    (hd : t.hasDl = true) (hph : t.phase ≠ .reconn) :
    (s.timeoutBlock).2 = {} ∧
    (s.timeoutBlock).1.processing = some { t with phase := .reconn } ∧
    (s.timeoutBlock).1.state = .opened ∧ (s.timeoutBlock).1.sockOpen = false := by
  obtain ⟨cs, so, ores, proc⟩ := s
  simp only [Inv] at hinv
  simp only at hp; subst hp
  obtain ⟨tid, tdl, ph⟩ := t
  simp only at hd hph; subst hd
  cases ph <;> cases so <;> cases cs <;>
    simp_all [St.timeoutBlock, St.txnTimeoutStart, St.state]

/-- **the window.**  While the time-out handler of transaction `t` is blocked in its re-connect
    the transport reports `open` but is *not idle* (`_processing` is set), and
    * whatever else is attempted changes nothing: a request is rejected with the concurrency
      error (it is never started on the socket that is not there), `Open()`, an I/O outcome or a
      second time-out find nothing to do;
    * when the re-connect is accepted the transaction is handed its one TimeoutError, nothing
      is raised, `_processing` is clear and the socket is connected: the transport is `open`,
      idle and carries the next request;
    * when it is refused the transaction is handed its one TimeoutError, the fault signal is
      raised once, the transport reports `closed` and `_processing` is clear;
    * `Close()` leaves a closed transport with nothing in flight. -/
theorem reconnect_window (s : St) (t : Txn) (hinv : Inv s) (hp : s.processing = some t)
    (hph : t.phase = .reconn) :
    (s.state = .opened ∧ s.sockOpen = false) ∧
    (∀ id dl, s.request id dl = (s, { eff := { dels := [(id, .conc)] } })) ∧
    (∀ r, s.openT r = (s, {})) ∧ (∀ o, s.io o = (s, {})) ∧ (∀ r, s.timeoutHere r = (s, {})) ∧
    s.timeoutBlock = (s, {}) ∧
    ((s.reconnDone .ok).2 = { eff := { faults := 0, dels := [(t.id, .timeout)], conns := 1 } } ∧
      (s.reconnDone .ok).1.state = .opened ∧ (s.reconnDone .ok).1.processing = none ∧
      (s.reconnDone .ok).1.sockOpen = true ∧
      ∀ id dl, dl = .none ∨ dl = .future →
        ((s.reconnDone .ok).1.request id dl).2.eff.dels = [] ∧
        ((((s.reconnDone .ok).1.request id dl).1.io .ok).2.sent = [id])) ∧
    ((s.reconnDone .refuse).2 = { eff := { faults := 1, dels := [(t.id, .timeout)], conns := 1 } } ∧
      (s.reconnDone .refuse).1.state = .closed ∧ (s.reconnDone .refuse).1.processing = none) ∧
    (s.close.state = .closed ∧ s.close.processing = none) := by
  obtain ⟨cs, so, ores, proc⟩ := s
  simp only [Inv] at hinv
  simp only at hp; subst hp
  obtain ⟨tid, tdl, ph⟩ := t
  simp only at hph; subst hph
  cases so <;> cases cs <;> simp_all [St.state]
  refine ⟨?_, ?_, ?_, ?_, ?_, ?_, ?_, ?_⟩
  · intro id dl; simp [St.request]
  · intro r; simp [St.openT]
  · intro o; simp [St.io]
  · intro r; simp [St.timeoutHere]
  · simp [St.timeoutBlock]
  · refine ⟨by simp [St.reconnDone], by simp [St.reconnDone], by simp [St.reconnDone], by simp [St.reconnDone], ?_⟩
    intro id
    simp [St.reconnDone, St.request, St.io]
  · simp [St.reconnDone, St.fault, St.state, St.close]
  · simp [St.close]

theorem trace_obs_reachable : ∀ (ops : List Op) (s : St), Inv s →
    ∀ p ∈ comp.trace () s ops, ∃ s' o, Inv s' ∧ p.2 = obsOf s' o := by
  intro ops
  induction ops with
  | nil => intro s _ p hp; simp [TComp.trace] at hp
  | cons op ops ih =>
    intro s hinv p hp
    simp only [TComp.trace, comp, step, List.mem_cons] at hp
    rcases hp with rfl | hp
    · exact ⟨_, _, inv_step s op hinv, rfl⟩
    · exact ih _ (inv_step s op hinv) p hp

/-- **every observation of every history**: whenever the transport reports `open` and not busy
    (`_processing` clear) its socket is connected — also in the observations taken while a
    re-connect is in progress (there it reports busy) -/
theorem observed_open_idle_connected (ops : List Op) :
    ∀ p ∈ comp.modelTrace () ops, p.2.state = .opened → p.2.busy = false → p.2.sock = true := by
  intro p hp hst hb
  obtain ⟨s', o, hinv, he⟩ := trace_obs_reachable ops St.init inv_init p hp
  rw [he] at hst hb ⊢
  simp only [obsOf] at hst hb ⊢
  apply open_idle_connected s' hinv hst
  cases h : s'.processing <;> simp_all

/-- **C08, serial transport, specification level.**  For every operation list satisfying the
    hypotheses, the history of the model satisfies the executable specification that the
    harness evaluates on the implementation's observations. -/
theorem model_satisfies_spec (ops : List Op) (h : comp.wf () ops = true) :
    comp.spec () (comp.modelTrace () ops) = .ok :=
  spec_of_rel ops St.init {} [] rel_init h

/-- over a whole history no request is ever handed more than one response -/
theorem responses_at_most_once (ops : List Op) (h : comp.wf () ops = true) (id : Nat) :
    responsesTo id (comp.modelTrace () ops) ≤ 1 := by
  have h1 := spec_count id _ {} (model_satisfies_spec ops h)
  have h2 := issued_le id ops St.init [] h
  simp at h1 h2
  exact Nat.le_trans h1 h2

end Scales.Serial

