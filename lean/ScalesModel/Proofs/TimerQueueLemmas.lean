/-
  Proofs/TimerQueueLemmas.lean — invariants of Model/TimerQueue.lean and the link between the
  model's history fields and the monitor of Adapter/TimerQueue.lean.
-/
import ScalesModel.Adapter.TimerQueue
import Mathlib.Data.List.Nodup
namespace Scales.TimerQ

/-! ### rounding -/

theorem le_ceilTo (r d : Nat) : d ≤ ceilTo r d := by
  unfold ceilTo
  split
  · exact Nat.le_refl _
  · rename_i hr
    have hr' : 0 < r := Nat.pos_of_ne_zero hr
    have h1 := Nat.div_add_mod (d + r - 1) r
    have h2 := Nat.mod_lt (d + r - 1) hr'
    rw [Nat.mul_comm] at h1
    omega

/-! ### the heap order -/

theorem Item.lt_trans {a b c : Item} (h1 : a.lt b) (h2 : b.lt c) : a.lt c := by
  unfold Item.lt at *; omega

theorem Item.lt_irrefl (a : Item) : ¬ a.lt a := by
  unfold Item.lt; omega

theorem Item.lt_of_not_lt {a b : Item} (h : ¬ a.lt b) (hs : b.seq < a.seq) : b.lt a := by
  unfold Item.lt at *; omega

theorem Item.lt_deadline_le {a b : Item} (h : a.lt b) : a.deadline ≤ b.deadline := by
  unfold Item.lt at h; omega

theorem insertSorted_perm (x : Item) (q : List Item) : (insertSorted x q).Perm (x :: q) := by
  induction q with
  | nil => exact List.Perm.refl _
  | cons y ys ih =>
    simp only [insertSorted]
    split
    · exact List.Perm.refl _
    · exact (List.Perm.cons y ih).trans (List.Perm.swap x y ys)

theorem mem_insertSorted {x i : Item} {q : List Item} : i ∈ insertSorted x q ↔ i = x ∨ i ∈ q := by
  rw [(insertSorted_perm x q).mem_iff]; simp

theorem insertSorted_pairwise (x : Item) (q : List Item) (hq : q.Pairwise Item.lt)
    (hx : ∀ i ∈ q, i.seq < x.seq) : (insertSorted x q).Pairwise Item.lt := by
  induction q with
  | nil => simp [insertSorted]
  | cons y ys ih =>
    rw [List.pairwise_cons] at hq
    simp only [insertSorted]
    split
    · rename_i hlt
      rw [List.pairwise_cons]
      refine ⟨?_, List.pairwise_cons.mpr hq⟩
      intro z hz
      rcases List.mem_cons.mp hz with rfl | hz
      · exact hlt
      · exact Item.lt_trans hlt (hq.1 z hz)
    · rename_i hnlt
      rw [List.pairwise_cons]
      refine ⟨?_, ih hq.2 (fun i hi => hx i (List.mem_cons_of_mem _ hi))⟩
      intro z hz
      rcases mem_insertSorted.mp hz with rfl | hz
      · exact Item.lt_of_not_lt hnlt (hx y (List.mem_cons_self ..))
      · exact hq.1 z hz


/-! ### the data invariant -/

def ranSeqs (s : St) : List Nat := s.ran.map (·.1)
def cancSeqs (s : St) : List Nat := s.cancels.map (·.1)
def qSeqs (s : St) : List Nat := s.queue.map (·.seq)

/-- what holds of the heap and the history fields in every reachable state, wherever the worker is -/
structure Core (s : St) : Prop where
  sorted : s.queue.Pairwise Item.lt
  q_nodup : (qSeqs s).Nodup
  q_rec : ∀ i ∈ s.queue, ∃ r ∈ s.recs, r.seq = i.seq ∧ r.rd = i.deadline
  q_canc : ∀ i ∈ s.queue, (i.cancelled = true ↔ i.seq ∈ cancSeqs s)
  q_ran : ∀ i ∈ s.queue, i.seq ∉ ranSeqs s
  recs_seq : ∀ r ∈ s.recs, 1 ≤ r.seq ∧ r.seq ≤ s.seq
  recs_nodup : (s.recs.map (·.seq)).Nodup
  recs_rd : ∀ r ∈ s.recs, r.rd = ceilTo s.res r.d
  acct : ∀ r ∈ s.recs, r.seq ∈ qSeqs s ∨ r.seq ∈ ranSeqs s ∨ r.seq ∈ cancSeqs s
  ran_nodup : (ranSeqs s).Nodup
  ran_facts : ∀ p ∈ s.ran, p.2 ≤ s.now ∧ ∃ r ∈ s.recs, r.seq = p.1 ∧ r.rd ≤ p.2
  ran_canc : ∀ p ∈ s.ran, ∀ c ∈ s.cancels, c.1 = p.1 → p.2 ≤ c.2
  canc_seq : ∀ k ∈ cancSeqs s, k ≤ s.seq

theorem Core.congr {s s' : St} (h : Core s) (hq : s'.queue = s.queue) (hr : s'.recs = s.recs)
    (hc : s'.cancels = s.cancels) (hran : s'.ran = s.ran) (hseq : s'.seq = s.seq)
    (hres : s'.res = s.res) (hnow : s'.now = s.now) : Core s' := by
  constructor <;> simp only [ranSeqs, cancSeqs, qSeqs, hq, hr, hc, hran, hseq, hres, hnow]
  · exact h.sorted
  · exact h.q_nodup
  · exact h.q_rec
  · exact h.q_canc
  · exact h.q_ran
  · exact h.recs_seq
  · exact h.recs_nodup
  · exact h.recs_rd
  · exact h.acct
  · exact h.ran_nodup
  · exact h.ran_facts
  · exact h.ran_canc
  · exact h.canc_seq

theorem Core.init (res now0 : Nat) : Core (init res now0) := by
  constructor <;> simp [TimerQ.init, ranSeqs, cancSeqs, qSeqs]

/-- the record of a queue entry is unique -/
theorem Core.rec_unique {s : St} (h : Core s) {r r' : Rec} (hr : r ∈ s.recs) (hr' : r' ∈ s.recs)
    (he : r.seq = r'.seq) : r = r' := by
  have := h.recs_nodup
  exact List.inj_on_of_nodup_map this hr hr' he

theorem Core.q_seq_le {s : St} (h : Core s) {i : Item} (hi : i ∈ s.queue) : 1 ≤ i.seq ∧ i.seq ≤ s.seq := by
  obtain ⟨r, hr, hs, _⟩ := h.q_rec i hi
  rw [← hs]; exact h.recs_seq r hr

theorem Core.tick {s : St} (h : Core s) (dt : Nat) : Core { s with now := s.now + dt } := by
  constructor
  · exact h.sorted
  · exact h.q_nodup
  · exact h.q_rec
  · exact h.q_canc
  · exact h.q_ran
  · exact h.recs_seq
  · exact h.recs_nodup
  · exact h.recs_rd
  · exact h.acct
  · exact h.ran_nodup
  · intro p hp
    obtain ⟨h1, h2⟩ := h.ran_facts p hp
    exact ⟨Nat.le_trans h1 (Nat.le_add_right _ _), h2⟩
  · exact h.ran_canc
  · exact h.canc_seq



theorem Core.ran_seq_le {s : St} (h : Core s) {k : Nat} (hk : k ∈ ranSeqs s) : k ≤ s.seq := by
  obtain ⟨p, hp, rfl⟩ := List.mem_map.mp hk
  obtain ⟨_, r, hr, hs, _⟩ := h.ran_facts p hp
  rw [← hs]; exact (h.recs_seq r hr).2

/-! ### Schedule -/

theorem schedule_queue (s : St) (d : Nat) :
    (schedule s d).queue = insertSorted ⟨ceilTo s.res d, s.seq + 1, false⟩ s.queue := rfl
theorem schedule_recs (s : St) (d : Nat) :
    (schedule s d).recs = ⟨s.seq + 1, d, ceilTo s.res d⟩ :: s.recs := rfl
@[simp] theorem schedule_seq (s : St) (d : Nat) : (schedule s d).seq = s.seq + 1 := rfl
@[simp] theorem schedule_res (s : St) (d : Nat) : (schedule s d).res = s.res := rfl
@[simp] theorem schedule_now (s : St) (d : Nat) : (schedule s d).now = s.now := rfl
@[simp] theorem schedule_pc (s : St) (d : Nat) : (schedule s d).pc = s.pc := rfl
@[simp] theorem schedule_ran (s : St) (d : Nat) : (schedule s d).ran = s.ran := rfl
@[simp] theorem schedule_cancels (s : St) (d : Nat) : (schedule s d).cancels = s.cancels := rfl
@[simp] theorem schedule_out (s : St) (d : Nat) : (schedule s d).out = s.out := rfl

theorem Core.schedule {s : St} (h : Core s) (d : Nat) : Core (schedule s d) := by
  have hfresh : ∀ i ∈ s.queue, i.seq < s.seq + 1 := fun i hi => Nat.lt_succ_of_le (h.q_seq_le hi).2
  have hperm := insertSorted_perm ⟨ceilTo s.res d, s.seq + 1, false⟩ s.queue
  have hmemq : ∀ k, k ∈ qSeqs (TimerQ.schedule s d) ↔ k = s.seq + 1 ∨ k ∈ qSeqs s := by
    intro k
    simp only [qSeqs, schedule_queue]
    rw [(hperm.map _).mem_iff]; simp
  constructor
  · rw [schedule_queue]
    exact insertSorted_pairwise _ _ h.sorted hfresh
  · simp only [qSeqs, schedule_queue]
    rw [(hperm.map _).nodup_iff]
    simp only [List.map_cons, List.nodup_cons]
    refine ⟨?_, h.q_nodup⟩
    intro hm
    obtain ⟨i, hi, he⟩ := List.mem_map.mp hm
    have := hfresh i hi
    omega
  · intro i hi
    rw [schedule_queue, mem_insertSorted] at hi
    rw [schedule_recs]
    rcases hi with rfl | hi
    · exact ⟨_, List.mem_cons_self .., rfl, rfl⟩
    · obtain ⟨r, hr, h1, h2⟩ := h.q_rec i hi
      exact ⟨r, List.mem_cons_of_mem _ hr, h1, h2⟩
  · intro i hi
    rw [schedule_queue, mem_insertSorted] at hi
    simp only [cancSeqs, schedule_cancels]
    rcases hi with rfl | hi
    · simp only [Bool.false_eq_true, false_iff]
      intro hm
      have := h.canc_seq (s.seq + 1) hm
      omega
    · exact h.q_canc i hi
  · intro i hi
    rw [schedule_queue, mem_insertSorted] at hi
    simp only [ranSeqs, schedule_ran]
    rcases hi with rfl | hi
    · intro hm
      have := h.ran_seq_le (k := s.seq + 1) hm
      omega
    · exact h.q_ran i hi
  · intro r hr
    rw [schedule_recs] at hr
    simp only [schedule_seq]
    rcases List.mem_cons.mp hr with rfl | hr
    · simp
    · have := h.recs_seq r hr; omega
  · rw [schedule_recs]
    simp only [List.map_cons, List.nodup_cons]
    refine ⟨?_, h.recs_nodup⟩
    intro hm
    obtain ⟨r, hr, he⟩ := List.mem_map.mp hm
    have := h.recs_seq r hr
    omega
  · intro r hr
    rw [schedule_recs] at hr
    simp only [schedule_res]
    rcases List.mem_cons.mp hr with rfl | hr
    · rfl
    · exact h.recs_rd r hr
  · intro r hr
    rw [schedule_recs] at hr
    rw [hmemq]
    simp only [ranSeqs, cancSeqs, schedule_ran, schedule_cancels]
    rcases List.mem_cons.mp hr with rfl | hr
    · exact Or.inl (Or.inl rfl)
    · rcases h.acct r hr with h1 | h1 | h1
      · exact Or.inl (Or.inr h1)
      · exact Or.inr (Or.inl h1)
      · exact Or.inr (Or.inr h1)
  · exact h.ran_nodup
  · intro p hp
    obtain ⟨h1, r, hr, h2⟩ := h.ran_facts p hp
    exact ⟨h1, r, by rw [schedule_recs]; exact List.mem_cons_of_mem _ hr, h2⟩
  · exact h.ran_canc
  · intro k hk
    have := h.canc_seq k hk
    simp only [schedule_seq]; omega

/-! ### cancel -/

theorem cancel_queue (s : St) (k : Nat) :
    (cancel s k).queue = s.queue.map (fun i => if i.seq = k then { i with cancelled := true } else i) := rfl
theorem cancel_cancels (s : St) (k : Nat) : (cancel s k).cancels = (k, s.now) :: s.cancels := rfl
@[simp] theorem cancel_seq (s : St) (k : Nat) : (cancel s k).seq = s.seq := rfl
@[simp] theorem cancel_res (s : St) (k : Nat) : (cancel s k).res = s.res := rfl
@[simp] theorem cancel_now (s : St) (k : Nat) : (cancel s k).now = s.now := rfl
@[simp] theorem cancel_pc (s : St) (k : Nat) : (cancel s k).pc = s.pc := rfl
@[simp] theorem cancel_ev (s : St) (k : Nat) : (cancel s k).ev = s.ev := rfl
@[simp] theorem cancel_ran (s : St) (k : Nat) : (cancel s k).ran = s.ran := rfl
@[simp] theorem cancel_recs (s : St) (k : Nat) : (cancel s k).recs = s.recs := rfl
@[simp] theorem cancel_out (s : St) (k : Nat) : (cancel s k).out = s.out := rfl

/-- the flagging map keeps deadline and seq of every entry -/
def flag (k : Nat) (i : Item) : Item := if i.seq = k then { i with cancelled := true } else i
@[simp] theorem flag_seq (k : Nat) (i : Item) : (flag k i).seq = i.seq := by unfold flag; split <;> rfl
@[simp] theorem flag_deadline (k : Nat) (i : Item) : (flag k i).deadline = i.deadline := by
  unfold flag; split <;> rfl
theorem flag_lt (k : Nat) (a b : Item) : (flag k a).lt (flag k b) ↔ a.lt b := by
  simp [Item.lt]
theorem cancel_queue' (s : St) (k : Nat) : (cancel s k).queue = s.queue.map (flag k) := rfl

theorem Core.cancel {s : St} (h : Core s) (k : Nat) (hk : k ≤ s.seq) : Core (cancel s k) := by
  have hseqs : qSeqs (TimerQ.cancel s k) = qSeqs s := by
    simp [qSeqs, cancel_queue', List.map_map, Function.comp_def]
  constructor
  · rw [cancel_queue', List.pairwise_map]
    exact h.sorted.imp (fun hab => (flag_lt k _ _).mpr hab)
  · rw [hseqs]; exact h.q_nodup
  · intro i hi
    rw [cancel_queue'] at hi
    obtain ⟨j, hj, rfl⟩ := List.mem_map.mp hi
    simpa using h.q_rec j hj
  · intro i hi
    rw [cancel_queue'] at hi
    obtain ⟨j, hj, rfl⟩ := List.mem_map.mp hi
    simp only [cancSeqs, cancel_cancels, List.map_cons, List.mem_cons, flag_seq]
    have := h.q_canc j hj
    unfold flag
    split
    · rename_i he; simp [he]
    · rename_i hne
      simp only [cancSeqs] at this
      rw [this]
      constructor
      · exact Or.inr
      · rintro (he | hm)
        · exact absurd he hne
        · exact hm
  · intro i hi
    rw [cancel_queue'] at hi
    obtain ⟨j, hj, rfl⟩ := List.mem_map.mp hi
    simpa [ranSeqs] using h.q_ran j hj
  · exact h.recs_seq
  · exact h.recs_nodup
  · exact h.recs_rd
  · intro r hr
    rw [hseqs]
    simp only [ranSeqs, cancSeqs, cancel_ran, cancel_cancels, List.map_cons, List.mem_cons]
    rcases h.acct r hr with h1 | h1 | h1
    · exact Or.inl h1
    · exact Or.inr (Or.inl h1)
    · exact Or.inr (Or.inr (Or.inr h1))
  · exact h.ran_nodup
  · exact h.ran_facts
  · intro p hp c hc he
    rw [cancel_cancels] at hc
    rcases List.mem_cons.mp hc with rfl | hc
    · exact (h.ran_facts p hp).1
    · exact h.ran_canc p hp c hc he
  · intro j hj
    simp only [cancSeqs, cancel_cancels, List.map_cons, List.mem_cons] at hj
    rcases hj with rfl | hj
    · exact hk
    · exact h.canc_seq j hj


/-! ### pops -/

theorem Core.popDrop {s : St} {h : Item} {rest : List Item} (hc : Core { s with queue := h :: rest })
    (hcanc : h.cancelled = true) : Core { s with queue := rest } := by
  have hmem : ∀ i ∈ rest, i ∈ ({ s with queue := h :: rest } : St).queue :=
    fun i hi => List.mem_cons_of_mem _ hi
  constructor
  · exact (List.pairwise_cons.mp hc.sorted).2
  · exact (List.nodup_cons.mp hc.q_nodup).2
  · exact fun i hi => hc.q_rec i (hmem i hi)
  · exact fun i hi => hc.q_canc i (hmem i hi)
  · exact fun i hi => hc.q_ran i (hmem i hi)
  · exact hc.recs_seq
  · exact hc.recs_nodup
  · exact hc.recs_rd
  · intro r hr
    rcases hc.acct r hr with h1 | h1 | h1
    · simp only [qSeqs, List.map_cons, List.mem_cons] at h1
      rcases h1 with h1 | h1
      · right; right
        rw [h1]
        exact (hc.q_canc h (List.mem_cons_self ..)).mp hcanc
      · exact Or.inl h1
    · exact Or.inr (Or.inl h1)
    · exact Or.inr (Or.inr h1)
  · exact hc.ran_nodup
  · exact hc.ran_facts
  · exact hc.ran_canc
  · exact hc.canc_seq

theorem Core.popRun {s : St} {h : Item} {rest : List Item} (hc : Core { s with queue := h :: rest })
    (hnc : h.cancelled = false) (hdue : h.deadline ≤ s.now) :
    Core { runItem s h with queue := rest } := by
  have hmem : ∀ i ∈ rest, i ∈ ({ s with queue := h :: rest } : St).queue :=
    fun i hi => List.mem_cons_of_mem _ hi
  have hh : h ∈ ({ s with queue := h :: rest } : St).queue := List.mem_cons_self ..
  have hnd := List.nodup_cons.mp hc.q_nodup
  have hncs : h.seq ∉ cancSeqs s := by
    intro hm
    have := (hc.q_canc h hh).mpr hm
    rw [hnc] at this; cases this
  constructor
  · exact (List.pairwise_cons.mp hc.sorted).2
  · exact hnd.2
  · exact fun i hi => hc.q_rec i (hmem i hi)
  · exact fun i hi => hc.q_canc i (hmem i hi)
  · intro i hi
    simp only [ranSeqs, runItem, List.map_cons, List.mem_cons, not_or]
    refine ⟨?_, hc.q_ran i (hmem i hi)⟩
    intro he
    exact hnd.1 (List.mem_map.mpr ⟨i, hi, he⟩)
  · exact hc.recs_seq
  · exact hc.recs_nodup
  · exact hc.recs_rd
  · intro r hr
    simp only [ranSeqs, runItem, List.map_cons, List.mem_cons]
    rcases hc.acct r hr with h1 | h1 | h1
    · simp only [qSeqs, List.map_cons, List.mem_cons] at h1
      rcases h1 with h1 | h1
      · exact Or.inr (Or.inl (Or.inl h1))
      · exact Or.inl h1
    · exact Or.inr (Or.inl (Or.inr h1))
    · exact Or.inr (Or.inr h1)
  · simp only [ranSeqs, runItem, List.map_cons, List.nodup_cons]
    exact ⟨hc.q_ran h hh, hc.ran_nodup⟩
  · intro p hp
    simp only [runItem] at hp
    rcases List.mem_cons.mp hp with rfl | hp
    · obtain ⟨r, hr, h1, h2⟩ := hc.q_rec h hh
      exact ⟨Nat.le_refl _, r, hr, h1, by rw [h2]; exact hdue⟩
    · exact hc.ran_facts p hp
  · intro p hp c hcm he
    simp only [runItem] at hp
    rcases List.mem_cons.mp hp with rfl | hp
    · exact absurd (List.mem_map.mpr ⟨c, hcm, he⟩) hncs
    · exact hc.ran_canc p hp c hcm he
  · exact hc.canc_seq

/-! ### the monitor on the model's history -/

def accOf (s : St) : Acc := ⟨s.now, s.seq, s.recs, s.cancels, s.ran⟩

theorem hasRun_iff (s : St) (k : Nat) : (accOf s).hasRun k = true ↔ k ∈ ranSeqs s := by
  simp [Acc.hasRun, accOf, ranSeqs]

theorem isCancelled_iff (s : St) (k : Nat) : (accOf s).isCancelled k = true ↔ k ∈ cancSeqs s := by
  simp [Acc.isCancelled, accOf, cancSeqs]

theorem find?_seq {recs : List Rec} (hnd : (recs.map (·.seq)).Nodup) {r : Rec} (hr : r ∈ recs) :
    recs.find? (fun x => x.seq == r.seq) = some r := by
  induction recs with
  | nil => cases hr
  | cons x xs ih =>
    simp only [List.map_cons, List.nodup_cons] at hnd
    rcases List.mem_cons.mp hr with rfl | hr
    · simp
    · have hne : x.seq ≠ r.seq := by
        intro he
        exact hnd.1 (List.mem_map.mpr ⟨r, hr, he.symm⟩)
      simp only [List.find?_cons]
      have : (x.seq == r.seq) = false := by simpa using hne
      rw [this]
      exact ih hnd.2 hr

theorem Rec.keyLt_iff (a b : Rec) :
    a.keyLt b = true ↔ (a.rd < b.rd ∨ (a.rd = b.rd ∧ a.seq < b.seq)) := by
  simp [Rec.keyLt]

/-- when the model runs the head of its heap, the monitor accepts the run -/
theorem checkRun_ok {s : St} {h : Item} {rest : List Item} (hc : Core { s with queue := h :: rest })
    (hnc : h.cancelled = false) (hdue : h.deadline ≤ s.now) : (accOf s).checkRun h.seq = .ok := by
  have hh : h ∈ ({ s with queue := h :: rest } : St).queue := List.mem_cons_self ..
  obtain ⟨r, hr, hrs, hrd⟩ := hc.q_rec h hh
  have hfind : (accOf s).recOf h.seq = some r := by
    unfold Acc.recOf
    rw [← hrs]
    exact find?_seq hc.recs_nodup hr
  have hnotran : (accOf s).hasRun h.seq = false := by
    rw [Bool.eq_false_iff]; intro hx
    exact hc.q_ran h hh ((hasRun_iff s _).mp hx)
  have hncs : h.seq ∉ cancSeqs s := by
    intro hm
    have := (hc.q_canc h hh).mpr hm
    rw [hnc] at this; cases this
  have hclock : ¬ (accOf s).clock < r.d := by
    have h1 := le_ceilTo s.res r.d
    have h2 := hc.recs_rd r hr
    simp only at h2
    show ¬ s.now < r.d
    omega
  have hcanc : (accOf s).cancels.any (fun c => c.1 == h.seq && decide (c.2 < r.rd)) = false := by
    rw [Bool.eq_false_iff]; intro hx
    obtain ⟨c, hcm, hcp⟩ := List.any_eq_true.mp hx
    simp only [Bool.and_eq_true, beq_iff_eq] at hcp
    exact hncs (List.mem_map.mpr ⟨c, hcm, hcp.1⟩)
  have hord : (accOf s).recs.find? (fun r' => r'.seq != h.seq && (accOf s).pending r' && r'.keyLt r) = none := by
    rw [List.find?_eq_none]
    intro r' hr' hp
    simp only [Bool.and_eq_true, bne_iff_ne, ne_eq, Acc.pending, Bool.not_eq_true'] at hp
    obtain ⟨⟨hne, hnr, hncc⟩, hk⟩ := hp
    have hnr' : r'.seq ∉ ranSeqs s := by
      intro hx; rw [(hasRun_iff s _).mpr hx] at hnr; cases hnr
    have hncc' : r'.seq ∉ cancSeqs s := by
      intro hx; rw [(isCancelled_iff s _).mpr hx] at hncc; cases hncc
    rcases hc.acct r' hr' with h1 | h1 | h1
    · simp only [qSeqs, List.map_cons, List.mem_cons] at h1
      rcases h1 with h1 | h1
      · exact hne h1
      · obtain ⟨i, hi, hie⟩ := List.mem_map.mp h1
        have hlt : h.lt i := (List.pairwise_cons.mp hc.sorted).1 i hi
        obtain ⟨r'', hr'', h3, h4⟩ := hc.q_rec i (List.mem_cons_of_mem _ hi)
        have : r'' = r' := hc.rec_unique hr'' hr' (by rw [h3, hie])
        subst this
        rw [Rec.keyLt_iff] at hk
        unfold Item.lt at hlt
        omega
    · exact hnr' h1
    · exact hncc' h1
  unfold Acc.checkRun
  rw [hfind]
  simp only [hnotran, hcanc, hord, Bool.false_eq_true, if_false, hclock]

theorem runs_append (a : Acc) (xs ys : List Nat) (a' : Acc) (h : a.runs xs = (.ok, a')) :
    a.runs (xs ++ ys) = a'.runs ys := by
  induction xs generalizing a with
  | nil => simp only [Acc.runs] at h; cases h; rfl
  | cons x xs ih =>
    simp only [Acc.runs, List.cons_append] at h ⊢
    cases hx : a.checkRun x with
    | ok => rw [hx] at h; exact ih _ h
    | fail c ps => rw [hx] at h; simp at h

/-- what a piece of worker code does to the history: nothing but runs the monitor accepts -/
structure Frame (s s' : St) : Prop where
  seq : s'.seq = s.seq
  res : s'.res = s.res
  now : s'.now = s.now
  recs : s'.recs = s.recs
  cancels : s'.cancels = s.cancels
  runs : ∃ new, s'.out = new.reverse ++ s.out ∧ (accOf s).runs new = (.ok, accOf s')

theorem Frame.of_same {s s' : St} (h1 : s'.seq = s.seq) (h2 : s'.res = s.res) (h3 : s'.now = s.now)
    (h4 : s'.recs = s.recs) (h5 : s'.cancels = s.cancels) (h6 : s'.ran = s.ran) (h7 : s'.out = s.out) :
    Frame s s' :=
  ⟨h1, h2, h3, h4, h5, [], by simp [h7], by simp [Acc.runs, accOf, h1, h3, h4, h5, h6]⟩

theorem Frame.trans {s s1 s2 : St} (f1 : Frame s s1) (f2 : Frame s1 s2) : Frame s s2 := by
  obtain ⟨n1, ho1, hr1⟩ := f1.runs
  obtain ⟨n2, ho2, hr2⟩ := f2.runs
  refine ⟨f2.seq.trans f1.seq, f2.res.trans f1.res, f2.now.trans f1.now, f2.recs.trans f1.recs,
    f2.cancels.trans f1.cancels, n1 ++ n2, ?_, ?_⟩
  · rw [ho2, ho1]; simp
  · rw [runs_append _ _ _ _ hr1]; exact hr2

theorem Frame.run {s : St} {h : Item} {rest : List Item} (hc : Core { s with queue := h :: rest })
    (hnc : h.cancelled = false) (hdue : h.deadline ≤ s.now) :
    Frame s { runItem s h with queue := rest } := by
  refine ⟨rfl, rfl, rfl, rfl, rfl, [h.seq], rfl, ?_⟩
  simp only [Acc.runs, checkRun_ok hc hnc hdue]
  rfl


theorem Frame.run' {s : St} {h : Item} {rest : List Item} (hc : Core { s with queue := h :: rest })
    (hnc : h.cancelled = false) (hdue : h.deadline ≤ s.now) : Frame s (runItem s h) := by
  refine ⟨rfl, rfl, rfl, rfl, rfl, [h.seq], rfl, ?_⟩
  simp only [Acc.runs, checkRun_ok hc hnc hdue]
  rfl

/-! ### where the worker is blocked -/

/-- the part of the invariant that depends on the worker's program counter -/
def PcInv (s : St) : Prop :=
  match s.pc with
  | .crashed => False
  | .top => s.ev = true → s.queue ≠ []
  | .blockedEmpty => (s.ev = true → s.queue ≠ []) ∧ (s.ev = false → s.queue = [])
  | .sleeping0 => s.queue ≠ [] ∧ (s.ev = true → 2 ≤ s.queue.length)
  | .waiting dl pk => ∃ h rest, s.queue = h :: rest ∧ (s.ev = true → rest ≠ []) ∧ h.deadline ≤ dl ∧
      (s.ev = false → h.deadline = dl ∧ h.seq = pk)

structure Inv (s : St) : Prop where
  core : Core s
  pc : PcInv s

theorem Inv.init (res now0 : Nat) : Inv (init res now0) :=
  ⟨Core.init res now0, by simp [PcInv, TimerQ.init]⟩

theorem drain_ok (q : List Item) : ∀ s : St, Core { s with queue := q } → s.ev = false →
    Core (drain s q) ∧ PcInv (drain s q) ∧ Frame s (drain s q) := by
  induction q with
  | nil =>
    intro s hc hev
    refine ⟨hc.congr rfl rfl rfl rfl rfl rfl rfl, ?_, Frame.of_same rfl rfl rfl rfl rfl rfl rfl⟩
    simp [PcInv, drain, hev]
  | cons h rest ih =>
    intro s hc hev
    simp only [drain]
    split
    · rename_i hcanc
      exact ih s (hc.popDrop hcanc) hev
    · rename_i hnc
      have hnc' : h.cancelled = false := by simpa using hnc
      split
      · rename_i hlt
        refine ⟨hc.congr rfl rfl rfl rfl rfl rfl rfl, ?_, Frame.of_same rfl rfl rfl rfl rfl rfl rfl⟩
        simp only [PcInv]
        exact ⟨h, rest, rfl, by simp [hev], Nat.le_refl _, fun _ => ⟨rfl, rfl⟩⟩
      · rename_i hnlt
        have hdue : h.deadline ≤ s.now := Nat.le_of_not_lt hnlt
        obtain ⟨h1, h2, h3⟩ := ih (runItem s h) (hc.popRun hnc' hdue) hev
        exact ⟨h1, h2, (Frame.run' hc hnc' hdue).trans h3⟩

theorem top_ok {s : St} (hc : Core s) (hq : s.ev = true → s.queue ≠ []) :
    Core (top s) ∧ PcInv (top s) ∧ Frame s (top s) := by
  unfold top
  split
  · rename_i hev
    refine ⟨hc.congr rfl rfl rfl rfl rfl rfl rfl, ?_, Frame.of_same rfl rfl rfl rfl rfl rfl rfl⟩
    simp only [PcInv]
    exact ⟨hq hev, by simp⟩
  · rename_i hev
    exact drain_ok s.queue s hc (by simpa using hev)

theorem peek_ok {s : St} (hc : Core s) (hq : s.queue ≠ []) (h2 : s.ev = true → 2 ≤ s.queue.length) :
    Core (peek s) ∧ PcInv (peek s) ∧ Frame s (peek s) := by
  unfold peek
  cases hqq : s.queue with
  | nil => exact absurd hqq hq
  | cons h rest =>
    have hc' : Core { s with queue := h :: rest } := hc.congr hqq.symm rfl rfl rfl rfl rfl rfl
    have hrest : s.ev = true → rest ≠ [] := by
      intro hev hn
      have := h2 hev
      rw [hqq, hn] at this; simp at this
    simp only
    split
    · rename_i hcanc
      obtain ⟨a, b, c⟩ := top_ok (s := { s with queue := rest }) (hc'.popDrop hcanc) hrest
      exact ⟨a, b, Frame.trans (s1 := { s with queue := rest }) (Frame.of_same rfl rfl rfl rfl rfl rfl rfl) c⟩
    · rename_i hnc
      have hnc' : h.cancelled = false := by simpa using hnc
      split
      · rename_i hlt
        split
        · rename_i hev
          exact top_ok hc (fun _ => hq)
        · rename_i hev
          refine ⟨hc'.congr rfl rfl rfl rfl rfl rfl rfl, ?_, Frame.of_same rfl rfl rfl rfl rfl rfl rfl⟩
          simp only [PcInv]
          exact ⟨h, rest, rfl, fun he => absurd he hev, Nat.le_refl _, fun _ => ⟨rfl, rfl⟩⟩
      · rename_i hnlt
        have hdue : h.deadline ≤ s.now := Nat.le_of_not_lt hnlt
        obtain ⟨a, b, c⟩ := top_ok (s := runItem { s with queue := rest } h) (hc'.popRun hnc' hdue) hrest
        exact ⟨a, b, (Frame.run hc' hnc' hdue).trans c⟩

theorem timeoutPop_ok {s : St} {h : Item} {rest : List Item} (hc : Core s) (hqq : s.queue = h :: rest)
    (hrest : s.ev = true → rest ≠ []) (hdue : h.deadline ≤ s.now) :
    Core (timeoutPop s) ∧ PcInv (timeoutPop s) ∧ Frame s (timeoutPop s) := by
  unfold timeoutPop
  rw [hqq]
  have hc' : Core { s with queue := h :: rest } := hc.congr hqq.symm rfl rfl rfl rfl rfl rfl
  simp only
  split
  · rename_i hcanc
    obtain ⟨a, b, c⟩ := top_ok (s := { s with queue := rest }) (hc'.popDrop hcanc) hrest
    exact ⟨a, b, Frame.trans (s1 := { s with queue := rest }) (Frame.of_same rfl rfl rfl rfl rfl rfl rfl) c⟩
  · rename_i hnc
    have hnc' : h.cancelled = false := by simpa using hnc
    obtain ⟨a, b, c⟩ := top_ok (s := runItem { s with queue := rest } h) (hc'.popRun hnc' hdue) hrest
    exact ⟨a, b, (Frame.run hc' hnc' hdue).trans c⟩


/-! ### environment labels and the worker's blocking point -/

theorem insertSorted_ne_nil (x : Item) (q : List Item) : insertSorted x q ≠ [] := by
  cases q with
  | nil => simp [insertSorted]
  | cons y ys => simp only [insertSorted]; split <;> simp

theorem insertSorted_length (x : Item) (q : List Item) : (insertSorted x q).length = q.length + 1 := by
  rw [(insertSorted_perm x q).length_eq]; rfl

theorem schedule_ev (s : St) (d : Nat) :
    (schedule s d).ev = (match insertSorted ⟨ceilTo s.res d, s.seq + 1, false⟩ s.queue with
      | h :: _ => if h.deadline = ceilTo s.res d then true else s.ev
      | [] => s.ev) := rfl

theorem schedule_ev_mono (s : St) (d : Nat) (h : s.ev = true) : (schedule s d).ev = true := by
  rw [schedule_ev]; split
  · split <;> simp [h]
  · exact h

theorem schedule_ev_of_nil (s : St) (d : Nat) (h : s.queue = []) : (schedule s d).ev = true := by
  rw [schedule_ev, h]; simp [insertSorted]

theorem PcInv.schedule {s : St} (h : PcInv s) (d : Nat) : PcInv (schedule s d) := by
  have hne : (TimerQ.schedule s d).queue ≠ [] := by rw [schedule_queue]; exact insertSorted_ne_nil _ _
  have hlen : (TimerQ.schedule s d).queue.length = s.queue.length + 1 := by
    rw [schedule_queue]; exact insertSorted_length _ _
  unfold PcInv at h ⊢
  rw [schedule_pc]
  split
  · rename_i hpc; rw [hpc] at h; exact h
  · exact fun _ => hne
  · rename_i hpc; rw [hpc] at h
    refine ⟨fun _ => hne, fun hev => ?_⟩
    exfalso
    cases hs : s.ev with
    | true => rw [schedule_ev_mono s d hs] at hev; cases hev
    | false => rw [schedule_ev_of_nil s d (h.2 hs)] at hev; cases hev
  · rename_i hpc; rw [hpc] at h
    refine ⟨hne, fun _ => ?_⟩
    have : 1 ≤ s.queue.length := List.length_pos_iff.mpr h.1
    omega
  · rename_i dl pk hpc; rw [hpc] at h
    obtain ⟨hd, rest, hq, hrest, hle, hev⟩ := h
    by_cases hlt : Item.lt ⟨ceilTo s.res d, s.seq + 1, false⟩ hd
    · refine ⟨⟨ceilTo s.res d, s.seq + 1, false⟩, hd :: rest, ?_, fun _ => by simp, ?_, ?_⟩
      · rw [schedule_queue, hq]; simp [insertSorted, hlt]
      · exact Nat.le_trans (Item.lt_deadline_le hlt) hle
      · intro hev'
        rw [schedule_ev, hq] at hev'
        simp [insertSorted, hlt] at hev'
    · refine ⟨hd, insertSorted ⟨ceilTo s.res d, s.seq + 1, false⟩ rest, ?_, fun _ => insertSorted_ne_nil _ _,
        hle, ?_⟩
      · rw [schedule_queue, hq]; simp [insertSorted, hlt]
      · intro hev'
        rw [schedule_ev, hq] at hev'
        simp only [insertSorted, hlt, if_false] at hev'
        apply hev
        split at hev'
        · cases hev'
        · exact hev'

theorem PcInv.cancel {s : St} (h : PcInv s) (k : Nat) : PcInv (cancel s k) := by
  unfold PcInv at h ⊢
  rw [cancel_pc, cancel_ev, cancel_queue']
  split
  · rename_i hpc; rw [hpc] at h; exact h
  · rename_i hpc; rw [hpc] at h; simpa using h
  · rename_i hpc; rw [hpc] at h; simpa using h
  · rename_i hpc; rw [hpc] at h; simpa using h
  · rename_i dl pk hpc; rw [hpc] at h
    obtain ⟨hd, rest, hq, hrest, hle, hev⟩ := h
    refine ⟨flag k hd, rest.map (flag k), by rw [hq]; rfl, ?_, by simpa using hle, by simpa using hev⟩
    intro he; simpa using hrest he

theorem PcInv.congr {s s' : St} (h : PcInv s) (h1 : s'.pc = s.pc) (h2 : s'.ev = s.ev) (h3 : s'.queue = s.queue) :
    PcInv s' := by
  unfold PcInv at h ⊢
  rw [h1, h2, h3]; exact h


/-! ### quiescence -/

/-- no scheduler label enabled ⇒ every heap entry lies in the future -/
theorem quiescent_future {s : St} (hi : Inv s) (hq : resumable s = false) :
    ∀ i ∈ s.queue, s.now < i.deadline := by
  have hp := hi.pc
  unfold PcInv at hp
  unfold resumable at hq
  split at hp
  · exact hp.elim
  · rename_i hpc; simp [hpc] at hq
  · rename_i hpc
    simp only [hpc] at hq
    intro i hi'
    rw [hp.2 hq] at hi'; cases hi'
  · rename_i hpc; simp [hpc] at hq
  · rename_i dl pk hpc
    simp only [hpc, Bool.or_eq_false_iff, decide_eq_false_iff_not] at hq
    obtain ⟨hd, rest, hqq, _, _, hev⟩ := hp
    obtain ⟨hdl, _⟩ := hev hq.1
    intro i hi'
    rw [hqq] at hi'
    have hsorted := hi.core.sorted
    rw [hqq] at hsorted
    rcases List.mem_cons.mp hi' with rfl | hi'
    · omega
    · have := Item.lt_deadline_le ((List.pairwise_cons.mp hsorted).1 i hi')
      omega

theorem checkIdle_ok {s : St} (hi : Inv s) (hq : resumable s = false) : (accOf s).checkIdle = .ok := by
  have hfut := quiescent_future hi hq
  have hnone : (accOf s).recs.find? (fun r => !(accOf s).isCancelled r.seq && decide (r.rd ≤ (accOf s).clock)
      && !(accOf s).hasRun r.seq) = none := by
    rw [List.find?_eq_none]
    intro r hr hp
    simp only [Bool.and_eq_true, Bool.not_eq_true', decide_eq_true_eq] at hp
    obtain ⟨⟨hnc, hrd⟩, hnr⟩ := hp
    have hnr' : r.seq ∉ ranSeqs s := by
      intro hx; rw [(hasRun_iff s _).mpr hx] at hnr; cases hnr
    have hnc' : r.seq ∉ cancSeqs s := by
      intro hx; rw [(isCancelled_iff s _).mpr hx] at hnc; cases hnc
    rcases hi.core.acct r hr with h1 | h1 | h1
    · obtain ⟨i, hi', hie⟩ := List.mem_map.mp h1
      obtain ⟨r', hr', h3, h4⟩ := hi.core.q_rec i hi'
      have : r' = r := hi.core.rec_unique hr' hr (by rw [h3, hie])
      subst this
      have := hfut i hi'
      have hrd' : r'.rd ≤ s.now := hrd
      omega
    · exact hnr' h1
    · exact hnc' h1
  unfold Acc.checkIdle
  rw [hnone]

theorem checkCancel_ok {s : St} (hc : Core s) (k : Nat) : (accOf (cancel s k)).checkCancel k = .ok := by
  unfold Acc.checkCancel Acc.recOf
  cases hf : (accOf (TimerQ.cancel s k)).recs.find? (fun r => r.seq == k) with
  | none => rfl
  | some r =>
    have hr : r ∈ s.recs := List.mem_of_find?_eq_some hf
    have hk : r.seq = k := by simpa using List.find?_some hf
    simp only
    split
    · rename_i hcond
      exfalso
      simp only [Bool.and_eq_true, decide_eq_true_eq] at hcond
      obtain ⟨hlt, hrun⟩ := hcond
      have hrun' : k ∈ ranSeqs s := by
        have := (hasRun_iff (TimerQ.cancel s k) k).mp hrun
        simpa [ranSeqs] using this
      obtain ⟨p, hp, hpk⟩ := List.mem_map.mp hrun'
      obtain ⟨h1, r2, hr2, h2, h3⟩ := hc.ran_facts p hp
      have : r2 = r := hc.rec_unique hr2 hr (by rw [h2, hpk, hk])
      subst this
      have hlt' : s.now < r2.rd := hlt
      omega
    · rfl

/-! ### one transition -/

theorem specStep_of_frame {s s' : St} {l : Label}
    (hl : l = .start ∨ l = .resumeSet ∨ l = .resumeTimeout ∨ l = .resumeSleep)
    (f : Frame { s with out := [] } s') :
    specStep s.res (accOf s) l (.st (obsOf s')) = (.ok, accOf s') := by
  obtain ⟨new, ho, hr⟩ := f.runs
  have hobs : obsRan (.st (obsOf s')) = new := by
    simp [obsRan, obsOf, ho]
  have hacc : accOf { s with out := [] } = accOf s := rfl
  rw [hacc] at hr
  unfold specStep
  rw [hobs]
  rcases hl with rfl | rfl | rfl | rfl <;> simp [Acc.apply, Acc.preCheck, Acc.postCheck, hr]

theorem step_ok {s s' : St} {l : Label} (hi : Inv s) (hs : step s l = some s') :
    Inv s' ∧ s'.res = s.res ∧ specStep s.res (accOf s) l (.st (obsOf s')) = (.ok, accOf s') := by
  have hc0 : Core { s with out := [] } := hi.core.congr rfl rfl rfl rfl rfl rfl rfl
  have hp0 : PcInv { s with out := [] } := hi.pc.congr rfl rfl rfl
  cases l with
  | schedule d =>
    simp only [step, Option.some.injEq] at hs; subst hs
    refine ⟨⟨hc0.schedule d, hp0.schedule d⟩, rfl, ?_⟩
    simp [specStep, Acc.apply, Acc.preCheck, Acc.postCheck, obsRan, obsOf, Acc.runs, accOf,
      schedule_recs]
  | cancel k =>
    simp only [step] at hs
    split at hs
    · rename_i hk
      simp only [Option.some.injEq] at hs; subst hs
      refine ⟨⟨hc0.cancel k hk.2, hp0.cancel k⟩, rfl, ?_⟩
      have hcc := checkCancel_ok hc0 k
      have happ : (accOf s).apply s.res (.cancel k) = accOf (TimerQ.cancel { s with out := [] } k) := rfl
      simp only [specStep, happ, Acc.preCheck, hcc, obsRan, obsOf, cancel_out, List.reverse_nil, Acc.runs,
        Acc.postCheck]
    · cases hs
  | tick dt =>
    simp only [step, Option.some.injEq] at hs; subst hs
    refine ⟨⟨hc0.tick dt, hp0.congr rfl rfl rfl⟩, rfl, ?_⟩
    simp [specStep, Acc.apply, Acc.preCheck, Acc.postCheck, obsRan, obsOf, Acc.runs, accOf]
  | start =>
    simp only [step] at hs
    split at hs
    · rename_i hpc
      simp only [Option.some.injEq] at hs; subst hs
      have hp := hp0; unfold PcInv at hp; simp only [hpc] at hp
      obtain ⟨a, b, c⟩ := top_ok hc0 hp
      exact ⟨⟨a, b⟩, c.res, specStep_of_frame (Or.inl rfl) c⟩
    · cases hs
  | resumeSleep =>
    simp only [step] at hs
    split at hs
    · rename_i hpc
      simp only [Option.some.injEq] at hs; subst hs
      have hp := hp0; unfold PcInv at hp; simp only [hpc] at hp
      obtain ⟨a, b, c⟩ := peek_ok hc0 hp.1 hp.2
      exact ⟨⟨a, b⟩, c.res, specStep_of_frame (Or.inr (Or.inr (Or.inr rfl))) c⟩
    · cases hs
  | resumeSet =>
    simp only [step] at hs
    split at hs
    · rename_i hpc
      split at hs
      · rename_i hev
        simp only [Option.some.injEq] at hs; subst hs
        have hp := hp0; unfold PcInv at hp; simp only [hpc] at hp
        obtain ⟨a, b, c⟩ := top_ok hc0 hp.1
        exact ⟨⟨a, b⟩, c.res, specStep_of_frame (Or.inr (Or.inl rfl)) c⟩
      · cases hs
    · rename_i dl pk hpc
      split at hs
      · rename_i hev
        simp only [Option.some.injEq] at hs; subst hs
        have hp := hp0; unfold PcInv at hp; simp only [hpc] at hp
        obtain ⟨hd, rest, hq, _⟩ := hp
        obtain ⟨a, b, c⟩ := top_ok hc0 (fun _ => by rw [hq]; simp)
        exact ⟨⟨a, b⟩, c.res, specStep_of_frame (Or.inr (Or.inl rfl)) c⟩
      · cases hs
    · cases hs
  | resumeTimeout =>
    simp only [step] at hs
    split at hs
    · rename_i dl pk hpc
      split at hs
      · rename_i hdl
        simp only [Option.some.injEq] at hs; subst hs
        have hp := hp0; unfold PcInv at hp; simp only [hpc] at hp
        obtain ⟨hd, rest, hq, hrest, hle, _⟩ := hp
        obtain ⟨a, b, c⟩ := timeoutPop_ok hc0 hq hrest (Nat.le_trans hle hdl)
        exact ⟨⟨a, b⟩, c.res, specStep_of_frame (Or.inr (Or.inr (Or.inl rfl))) c⟩
      · cases hs
    · cases hs
  | idle =>
    simp only [step] at hs
    split at hs
    · cases hs
    · rename_i hq
      simp only [Option.some.injEq] at hs; subst hs
      have hq' : resumable s = false := by
        have : resumable { s with out := [] } = resumable s := rfl
        rw [← this]; simpa using hq
      refine ⟨⟨hc0, hp0⟩, rfl, ?_⟩
      have := checkIdle_ok hi hq'
      simp [specStep, Acc.apply, Acc.preCheck, Acc.postCheck, obsRan, obsOf, Acc.runs, this]
      rfl


/-! ### reachability -/

theorem reach_inv : ∀ (ls : List Label) (s s' : St), Inv s → runLabels s ls = some s' → Inv s' := by
  intro ls
  induction ls with
  | nil => intro s s' hi h; simp only [runLabels, Option.some.injEq] at h; subst h; exact hi
  | cons l ls ih =>
    intro s s' hi h
    simp only [runLabels] at h
    split at h
    · rename_i s1 hs1
      exact ih s1 s' (step_ok hi hs1).1 h
    · cases h

theorem reach_init_inv (c : Cfg) (ls : List Label) (s : St) (h : runLabels (initSt c) ls = some s) : Inv s :=
  reach_inv ls _ s (Inv.init c.res c.now0) h

theorem reach_res : ∀ (ls : List Label) (s s' : St), Inv s → runLabels s ls = some s' → s'.res = s.res := by
  intro ls
  induction ls with
  | nil => intro s s' _ h; simp only [runLabels, Option.some.injEq] at h; rw [h]
  | cons l ls ih =>
    intro s s' hi h
    simp only [runLabels] at h
    split at h
    · rename_i s1 hs1
      have h1 := step_ok hi hs1
      rw [ih s1 s' h1.1 h, h1.2.1]
    · cases h

theorem reach_init_res (c : Cfg) (ls : List Label) (s : St) (h : runLabels (initSt c) ls = some s) :
    s.res = c.res :=
  reach_res ls _ s (Inv.init c.res c.now0) h

/-! ### generic facts about the monitor -/

theorem runs_frame (a : Acc) (xs : List Nat) (v : Verdict) (a' : Acc) (h : a.runs xs = (v, a')) :
    a'.recs = a.recs ∧ a'.cancels = a.cancels ∧ a'.clock = a.clock ∧ a'.n = a.n := by
  induction xs generalizing a with
  | nil => simp only [Acc.runs, Prod.mk.injEq] at h; obtain ⟨_, rfl⟩ := h; exact ⟨rfl, rfl, rfl, rfl⟩
  | cons x xs ih =>
    simp only [Acc.runs] at h
    cases hx : a.checkRun x with
    | ok =>
      rw [hx] at h
      exact ih { a with ran := (x, a.clock) :: a.ran } h
    | fail c ps => rw [hx] at h; simp only [Prod.mk.injEq] at h; obtain ⟨_, rfl⟩ := h; exact ⟨rfl, rfl, rfl, rfl⟩

/-- every run of an accepted sequence was accepted in the monitor state of its own moment -/
theorem runs_split (a : Acc) (pre : List Nat) (k : Nat) (post : List Nat) (a' : Acc)
    (h : a.runs (pre ++ k :: post) = (.ok, a')) :
    ∃ a1 : Acc, a1.checkRun k = .ok ∧ a1.recs = a.recs ∧ a1.cancels = a.cancels ∧ a1.clock = a.clock ∧
      a1.ran.map (·.1) = pre.reverse ++ a.ran.map (·.1) := by
  induction pre generalizing a with
  | nil =>
    refine ⟨a, ?_, rfl, rfl, rfl, by simp⟩
    simp only [List.nil_append, Acc.runs] at h
    cases hx : a.checkRun k with
    | ok => rfl
    | fail c ps => rw [hx] at h; simp at h
  | cons x xs ih =>
    simp only [List.cons_append, Acc.runs] at h
    cases hx : a.checkRun x with
    | ok =>
      rw [hx] at h
      obtain ⟨a1, h1, h2, h3, h4, h5⟩ := ih { a with ran := (x, a.clock) :: a.ran } h
      exact ⟨a1, h1, h2, h3, h4, by rw [h5]; simp⟩
    | fail c ps => rw [hx] at h; simp at h

theorem specStep_ok_runs {res : Nat} {a a' : Acc} {l : Label} {o : Obs}
    (h : specStep res a l o = (.ok, a')) : (a.apply res l).runs (obsRan o) = (.ok, a') := by
  unfold specStep at h
  simp only at h
  cases hp : (a.apply res l).preCheck l with
  | ok =>
    rw [hp] at h
    simp only at h
    cases hr : (a.apply res l).runs (obsRan o) with
    | mk v a2 =>
      rw [hr] at h
      cases v with
      | ok => simp only [Prod.mk.injEq] at h; rw [h.2]
      | fail c ps => simp at h
  | fail c ps => rw [hp] at h; simp at h

/-- what an accepted run says about order -/
theorem checkRun_order {a : Acc} {k : Nat} (h : a.checkRun k = .ok) {rk r : Rec}
    (hnd : (a.recs.map (·.seq)).Nodup) (hrk : rk ∈ a.recs) (hk : rk.seq = k) (hr : r ∈ a.recs)
    (hne : r.seq ≠ k) (hnr : r.seq ∉ a.ran.map (·.1)) (hnc : r.seq ∉ a.cancels.map (·.1)) :
    rk.rd < r.rd ∨ (rk.rd = r.rd ∧ rk.seq < r.seq) := by
  unfold Acc.checkRun Acc.recOf at h
  rw [← hk, find?_seq hnd hrk] at h
  simp only at h
  split at h
  · cases h
  · split at h
    · cases h
    · split at h
      · cases h
      · split at h
        · cases h
        · rename_i hnone
          rw [List.find?_eq_none] at hnone
          have := hnone r hr
          simp only [Bool.and_eq_true, bne_iff_ne, ne_eq, Acc.pending, Acc.hasRun, Acc.isCancelled,
            Bool.not_eq_true', List.contains_eq_mem, decide_eq_false_iff_not, Rec.keyLt_iff, not_and] at this
          have h3 := this ⟨by rw [hk]; exact hne, hnr, hnc⟩
          omega


/-! ### the history fields are what the labels say -/

/-- agreement on the label-determined part of the monitor state -/
def Acc.same4 (a b : Acc) : Prop :=
  a.clock = b.clock ∧ a.n = b.n ∧ a.recs = b.recs ∧ a.cancels = b.cancels

theorem Acc.same4_apply {a b : Acc} (h : a.same4 b) (res : Nat) (l : Label) :
    (a.apply res l).same4 (b.apply res l) := by
  obtain ⟨h1, h2, h3, h4⟩ := h
  cases l <;> simp [Acc.apply, Acc.same4, h1, h2, h3, h4]

theorem step_same4 {s s' : St} {l : Label} (hi : Inv s) (hs : step s l = some s') :
    (accOf s').same4 ((accOf s).apply s.res l) := by
  have hruns := specStep_ok_runs (step_ok hi hs).2.2
  obtain ⟨h1, h2, h3, h4⟩ := runs_frame _ _ _ _ hruns
  exact ⟨h3, h4, h1, h2⟩

theorem reach_same4 (res : Nat) : ∀ (ls : List Label) (s s' : St) (a : Acc), Inv s → s.res = res →
    (accOf s).same4 a → runLabels s ls = some s' → (accOf s').same4 (ls.foldl (Acc.apply res) a) := by
  intro ls
  induction ls with
  | nil => intro s s' a _ _ h hr; simp only [runLabels, Option.some.injEq] at hr; subst hr; exact h
  | cons l ls ih =>
    intro s s' a hi hres h hr
    simp only [runLabels] at hr
    split at hr
    · rename_i s1 hs1
      have hk := step_ok hi hs1
      refine ih s1 s' (a.apply res l) hk.1 (hk.2.1.trans hres) ?_ hr
      have h1 := step_same4 hi hs1
      have h2 := Acc.same4_apply h res l
      rw [hres] at h1
      exact ⟨h1.1.trans h2.1, h1.2.1.trans h2.2.1, h1.2.2.1.trans h2.2.2.1, h1.2.2.2.trans h2.2.2.2⟩
    · cases hr

/-! ### progress: scheduler labels cannot go on for ever -/

def isSched : Label → Bool
  | .start | .resumeSet | .resumeTimeout | .resumeSleep => true
  | _ => false

/-- a bound on the number of scheduler labels that can still be taken without a new
    environment label -/
def mu (s : St) : Nat :=
  3 * s.queue.length + (if s.ev then 2 else 0) +
    (match s.pc with
     | .top => 2
     | .sleeping0 => 1
     | _ => 0)

theorem mu_drain (q : List Item) : ∀ s : St, s.ev = false → mu (drain s q) ≤ 3 * q.length := by
  induction q with
  | nil => intro s hev; simp [drain, mu, hev]
  | cons h rest ih =>
    intro s hev
    simp only [drain]
    split
    · have := ih s hev; simp only [List.length_cons]; omega
    · split
      · simp [mu, hev]
      · have := ih (runItem s h) hev; simp only [List.length_cons]; omega

theorem mu_top (s : St) : mu (top s) ≤ 3 * s.queue.length + 1 := by
  unfold top
  split
  · simp [mu]
  · rename_i hev
    have := mu_drain s.queue s (by simpa using hev)
    omega

theorem mu_step {s s' : St} {l : Label} (hi : Inv s) (hl : isSched l = true) (hs : step s l = some s') :
    mu s' < mu s := by
  have hp := hi.pc
  unfold PcInv at hp
  have hmu : mu s = 3 * s.queue.length + (if s.ev then 2 else 0) +
      (match s.pc with | .top => 2 | .sleeping0 => 1 | _ => 0) := rfl
  rcases l with d | k | dt | _ | _ | _ | _ | _
  · simp [isSched] at hl
  · simp [isSched] at hl
  · simp [isSched] at hl
  rotate_right
  · simp [isSched] at hl
  · -- start
    simp only [step] at hs
    split at hs
    · rename_i hpc
      simp only [Option.some.injEq] at hs; subst hs
      refine Nat.lt_of_le_of_lt (mu_top _) ?_
      rw [hmu, hpc]
      simp only
      omega
    · cases hs
  · -- resumeSet
    have key : s.ev = true → (s.pc = .blockedEmpty ∨ ∃ dl pk, s.pc = .waiting dl pk) →
        mu (top { s with out := [] }) < mu s := by
      intro hev hpc
      refine Nat.lt_of_le_of_lt (mu_top _) ?_
      rw [hmu, hev]
      rcases hpc with hpc | ⟨dl, pk, hpc⟩ <;> rw [hpc] <;> simp only [if_true] <;> omega
    simp only [step] at hs
    split at hs
    · rename_i hpc
      split at hs
      · rename_i hev
        simp only [Option.some.injEq] at hs; subst hs
        exact key hev (Or.inl hpc)
      · cases hs
    · rename_i dl pk hpc
      split at hs
      · rename_i hev
        simp only [Option.some.injEq] at hs; subst hs
        exact key hev (Or.inr ⟨dl, pk, hpc⟩)
      · cases hs
    · cases hs
  · -- resumeTimeout
    simp only [step] at hs
    split at hs
    · rename_i dl pk hpc
      split at hs
      · simp only [Option.some.injEq] at hs; subst hs
        simp only [hpc] at hp
        obtain ⟨hd, rest, hq, _⟩ := hp
        have hq' : ({ s with out := [] } : St).queue = hd :: rest := hq
        have hlen : s.queue.length = rest.length + 1 := by rw [hq]; rfl
        have hgoal : 3 * rest.length + 1 < mu s := by
          rw [hmu, hpc, hlen]; simp only; omega
        unfold timeoutPop
        rw [hq']
        simp only
        split
        · exact Nat.lt_of_le_of_lt (mu_top _) hgoal
        · exact Nat.lt_of_le_of_lt (mu_top _) hgoal
      · cases hs
    · cases hs
  · -- resumeSleep
    simp only [step] at hs
    split at hs
    · rename_i hpc
      simp only [Option.some.injEq] at hs; subst hs
      simp only [hpc] at hp
      obtain ⟨hd, rest, hq⟩ := List.exists_cons_of_ne_nil hp.1
      have hq' : ({ s with out := [] } : St).queue = hd :: rest := hq
      have hlen : s.queue.length = rest.length + 1 := by rw [hq]; rfl
      have hgoal : 3 * rest.length + 1 < mu s := by
        rw [hmu, hpc, hlen]; simp only; omega
      unfold peek
      rw [hq']
      simp only
      split
      · exact Nat.lt_of_le_of_lt (mu_top _) hgoal
      · split
        · split
          · rename_i hev
            have hev' : s.ev = true := hev
            refine Nat.lt_of_le_of_lt (mu_top _) ?_
            show 3 * (rest.length + 1) + 1 < mu s
            rw [hmu, hpc, hev', hlen]
            simp only [if_true]
            omega
          · rename_i hev
            have hev' : s.ev = false := by simpa using hev
            rw [hmu, hpc, hlen, hev']
            simp [mu]
        · exact Nat.lt_of_le_of_lt (mu_top _) hgoal
    · cases hs

theorem mu_run : ∀ (ws : List Label) (s s' : St), Inv s → (∀ l ∈ ws, isSched l = true) →
    runLabels s ws = some s' → ws.length + mu s' ≤ mu s := by
  intro ws
  induction ws with
  | nil => intro s s' _ _ h; simp only [runLabels, Option.some.injEq] at h; subst h; simp
  | cons l ls ih =>
    intro s s' hi hall h
    simp only [runLabels] at h
    split at h
    · rename_i s1 hs1
      have h1 := mu_step hi (hall l (List.mem_cons_self ..)) hs1
      have h2 := ih s1 s' (step_ok hi hs1).1 (fun x hx => hall x (List.mem_cons_of_mem _ hx)) h
      simp only [List.length_cons]; omega
    · cases h

end Scales.TimerQ
