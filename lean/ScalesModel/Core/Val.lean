/-
  Core/Val.lean — the wire format of the line protocol between the Python harness
  and the Lean driver.  A value is an integer, an atom or a list:

      v ::= -?[0-9]+ | atom | ( v* )

  atoms contain no blanks and no parentheses.  Byte strings travel as the atom
  `x<hex>` (the atom `x` is the empty byte string).  Import-free.
-/
namespace Scales

inductive V where
  | n : Int → V
  | a : String → V
  | l : List V → V
  deriving Repr, BEq, Inhabited

namespace V

mutual
  def toStr : V → String
    | .n i => toString i
    | .a s => s
    | .l xs => "(" ++ listToStr xs ++ ")"
  def listToStr : List V → String
    | [] => ""
    | [x] => toStr x
    | x :: xs => toStr x ++ " " ++ listToStr xs
end

instance : ToString V := ⟨toStr⟩

/-- tokenise: parentheses are their own tokens, everything else splits on blanks. -/
def tokens (s : String) : List String :=
  let padded := s.foldl (fun acc c =>
    if c == '(' then acc ++ " ( " else if c == ')' then acc ++ " ) "
    else if c == '\n' || c == '\r' || c == '\t' then acc ++ " " else acc.push c) ""
  (padded.splitOn " ").filter (· ≠ "")

def atomOrInt (t : String) : V :=
  match t.toInt? with
  | some i => .n i
  | none => .a t

/-- stack machine: `cur` is the reversed list being built, `stk` the enclosing ones. -/
def parseGo : List String → List V → List (List V) → Option (List V)
  | [], cur, [] => some cur.reverse
  | [], _, _ :: _ => none
  | "(" :: ts, cur, stk => parseGo ts [] (cur :: stk)
  | ")" :: ts, cur, stk =>
      match stk with
      | [] => none
      | up :: rest => parseGo ts (V.l cur.reverse :: up) rest
  | t :: ts, cur, stk => parseGo ts (atomOrInt t :: cur) stk

/-- parse a whole line into the list of top-level values on it. -/
def parseLine (s : String) : Option (List V) := parseGo (tokens s) [] []

def int? : V → Option Int
  | .n i => some i
  | _ => none

def nat? : V → Option Nat
  | .n i => if i ≥ 0 then some i.toNat else none
  | _ => none

def atom? : V → Option String
  | .a s => some s
  | _ => none

def list? : V → Option (List V)
  | .l xs => some xs
  | _ => none

def ofNat (k : Nat) : V := .n (Int.ofNat k)
def ofBool (b : Bool) : V := .a (if b then "T" else "F")
def bool? : V → Option Bool
  | .a "T" => some true
  | .a "F" => some false
  | _ => none

def natList? (v : V) : Option (List Nat) :=
  match v with
  | .l xs => xs.mapM nat?
  | _ => none

def intList? (v : V) : Option (List Int) :=
  match v with
  | .l xs => xs.mapM int?
  | _ => none

def ofNats (xs : List Nat) : V := .l (xs.map ofNat)
def ofInts (xs : List Int) : V := .l (xs.map .n)

/-! hex encoding of byte strings (lists of Nat < 256) -/

def hexDigit (k : Nat) : Char :=
  if k < 10 then Char.ofNat (48 + k) else Char.ofNat (87 + k)

def hexVal? (c : Char) : Option Nat :=
  if '0' ≤ c ∧ c ≤ '9' then some (c.toNat - 48)
  else if 'a' ≤ c ∧ c ≤ 'f' then some (c.toNat - 87)
  else none

def ofBytes (bs : List Nat) : V :=
  .a (bs.foldl (fun acc b => (acc.push (hexDigit (b / 16 % 16))).push (hexDigit (b % 16))) "x")

def hexPairs : List Char → Option (List Nat)
  | [] => some []
  | [_] => none
  | hi :: lo :: rest => do
      let a ← hexVal? hi
      let b ← hexVal? lo
      let r ← hexPairs rest
      pure ((a * 16 + b) :: r)

def bytes? : V → Option (List Nat)
  | .a s =>
      match s.toList with
      | 'x' :: cs => hexPairs cs
      | _ => none
  | _ => none

end V

/-- verdict of a specification predicate; `fail` names the clause and carries parameters
    that the known-findings file can match on. -/
inductive Verdict where
  | ok
  | fail (clause : String) (params : List V)
  deriving Repr, BEq, Inhabited

def Verdict.toV : Verdict → V
  | .ok => .a "ok"
  | .fail c ps => .l (.a "fail" :: .a c :: ps)

def Verdict.isOk : Verdict → Bool
  | .ok => true
  | _ => false

/-- first failure wins -/
def Verdict.and (a : Verdict) (b : Unit → Verdict) : Verdict :=
  match a with
  | .ok => b ()
  | f => f

def Verdict.all : List Verdict → Verdict
  | [] => .ok
  | .ok :: vs => Verdict.all vs
  | f :: _ => f

end Scales
