/-
  Core/Run.lean — generic typed component runner for the line protocol.  Import-free.
-/
import ScalesModel.Core.Val
namespace Scales

/-- a typed component: configuration, state, operations, observations, and the executable
    specification evaluated over a history of (operation, observation) pairs -/
structure TComp (Cfg σ Op Obs : Type) where
  decCfg : List V → Option Cfg
  init : Cfg → σ
  decOp : List V → Option Op
  step : Cfg → σ → Op → σ × Obs
  encObs : Obs → V
  decObs : V → Option Obs
  spec : Cfg → List (Op × Obs) → Verdict
  /-- hypotheses of the property theorems on (configuration, operation list) -/
  wf : Cfg → List Op → Bool

namespace TComp
variable {Cfg σ Op Obs : Type}

/-- the model's history for an operation list -/
def trace (c : TComp Cfg σ Op Obs) (cfg : Cfg) : σ → List Op → List (Op × Obs)
  | _, [] => []
  | s, op :: ops =>
    let (s', o) := c.step cfg s op
    (op, o) :: trace c cfg s' ops

def modelTrace (c : TComp Cfg σ Op Obs) (cfg : Cfg) (ops : List Op) : List (Op × Obs) :=
  c.trace cfg (c.init cfg) ops

/-- zip operations with decoded real observations; `none` if one is missing/undecodable -/
def realTrace (c : TComp Cfg σ Op Obs) : List Op → List (Option V) → Option (List (Op × Obs))
  | [], _ => some []
  | op :: ops, some v :: rs => do
      let o ← c.decObs v
      let rest ← realTrace c ops rs
      pure ((op, o) :: rest)
  | _ :: _, _ => none

/-- run one case; output lines -/
def run (c : TComp Cfg σ Op Obs) (cfgV : List V) (opsV : List (List V)) (real : List (Option V)) :
    List String :=
  match c.decCfg cfgV with
  | none => ["bad-cfg"]
  | some cfg =>
    match opsV.mapM c.decOp with
    | none => ["bad-op"]
    | some ops =>
      let tr := c.modelTrace cfg ops
      let obsLines := tr.map (fun p => "obs " ++ (c.encObs p.2).toStr)
      let mv := (c.spec cfg tr).toV.toStr
      let rv := match c.realTrace ops real with
        | some rt => (c.spec cfg rt).toV.toStr
        | none => "none"
      obsLines ++ ["verdict " ++ mv ++ " " ++ rv ++ " " ++ (V.ofBool (c.wf cfg ops)).toStr]

end TComp

/-- untyped face of a component, as the driver sees it -/
structure Comp where
  name : String
  run : List V → List (List V) → List (Option V) → List String

end Scales
