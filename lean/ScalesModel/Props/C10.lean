/-
  Props/C10.lean — property theorems for C10 (timer queue: once, never early, deadline order,
  cancel).  Model: Model/TimerQueue.lean; invariants and helper lemmas:
  Proofs/TimerQueueLemmas.lean; executable specification: Adapter/TimerQueue.lean.

  Quantification.  `c` is any configuration (resolution — 0 means none — and initial clock),
  `ls` any list of labels (Schedule calls with any deadline, cancel calls for any issued entry,
  clock advances of any size, and any scheduler choice `start / resumeSet / resumeTimeout /
  resumeSleep / idle`) every one of which is enabled when taken — that is the only hypothesis:
  `runLabels (initSt c) ls = some s`.  In particular `resumeTimeout` may be taken while the
  event is set (the time-out won the race against the notifier), Schedule may come with a past,
  equal or new-earliest deadline at any point, and the clock may pass a wake-up instant long
  before the worker is resumed.  No bound on lengths.

  `s.recs`, `s.cancels`, `s.ran` are the model's history of Schedule calls `(seq, d, ⌈d⌉)`,
  cancel calls `(seq, time)` and spawned actions `(seq, time)`; `s.out` lists the actions
  spawned during the last transition (newest first).  `C10_model_satisfies_spec` ties them to
  the monitor that the harness evaluates on the implementation's observations.
-/
import ScalesModel.Proofs.TimerQueueLemmas
namespace Scales.TimerQ

/-- The worker invariant: the heap is sorted; (i) a worker in a timed wait whose event is clear
    waits for exactly the current head (a Schedule that becomes the head, or ties it, sets the
    event), and in any case for an instant not earlier than the head's deadline; (ii) a worker
    blocked on the empty queue with a clear event really has an empty queue; (iii) a set event
    comes with a non-empty queue — and past the `clear()` of an iteration, with at least two
    entries. -/
theorem C10_inv (c : Cfg) (ls : List Label) (s : St) (h : runLabels (initSt c) ls = some s) :
    s.queue.Pairwise Item.lt ∧
    (∀ dl pk, s.pc = .waiting dl pk → ∃ hd rest, s.queue = hd :: rest ∧ hd.deadline ≤ dl ∧
        (s.ev = false → hd.deadline = dl ∧ hd.seq = pk) ∧ (s.ev = true → rest ≠ [])) ∧
    (s.pc = .blockedEmpty → s.ev = false → s.queue = []) ∧
    (s.ev = true → s.queue ≠ []) ∧
    (s.pc = .sleeping0 → s.queue ≠ [] ∧ (s.ev = true → 2 ≤ s.queue.length)) := by
  have hi := reach_init_inv c ls s h
  have hp := hi.pc
  unfold PcInv at hp
  refine ⟨hi.core.sorted, ?_, ?_, ?_, ?_⟩
  · intro dl pk hpc
    simp only [hpc] at hp
    obtain ⟨hd, rest, h1, h2, h3, h4⟩ := hp
    exact ⟨hd, rest, h1, h3, h4, h2⟩
  · intro hpc hev
    simp only [hpc] at hp
    exact hp.2 hev
  · intro hev
    split at hp
    · exact hp.elim
    · exact hp hev
    · exact hp.1 hev
    · exact hp.1
    · obtain ⟨hd, rest, h1, _⟩ := hp
      rw [h1]; simp
  · intro hpc
    simp only [hpc] at hp
    exact hp

/-- The worker greenlet never evaluates `self._queue[0]` or `heappop` on an empty queue — the
    one way it could die and stop every timer. -/
theorem C10_worker_never_crashes (c : Cfg) (ls : List Label) (s : St)
    (h : runLabels (initSt c) ls = some s) : s.pc ≠ .crashed := by
  have hp := (reach_init_inv c ls s h).pc
  intro hc
  unfold PcInv at hp
  simp [hc] at hp

/-- An action is spawned at most once, and only actions that were scheduled are spawned. -/
theorem C10_once (c : Cfg) (ls : List Label) (s : St) (h : runLabels (initSt c) ls = some s) :
    (s.ran.map (·.1)).Nodup ∧ ∀ p ∈ s.ran, ∃ r ∈ s.recs, r.seq = p.1 := by
  have hi := reach_init_inv c ls s h
  refine ⟨hi.core.ran_nodup, ?_⟩
  intro p hp
  obtain ⟨_, r, hr, h1, _⟩ := hi.core.ran_facts p hp
  exact ⟨r, hr, h1⟩

/-- An action runs at a clock not before its deadline — in fact not before its deadline rounded
    up to the resolution. -/
theorem C10_not_early (c : Cfg) (ls : List Label) (s : St) (h : runLabels (initSt c) ls = some s) :
    ∀ p ∈ s.ran, ∃ r ∈ s.recs, r.seq = p.1 ∧ r.rd = ceilTo c.res r.d ∧ r.d ≤ r.rd ∧ r.rd ≤ p.2 ∧
      p.2 ≤ s.now := by
  have hi := reach_init_inv c ls s h
  have hres : s.res = c.res := reach_init_res c ls s h
  intro p hp
  obtain ⟨h1, r, hr, h2, h3⟩ := hi.core.ran_facts p hp
  have h4 := hi.core.recs_rd r hr
  refine ⟨r, hr, h2, by rw [h4, hres], ?_, h3, h1⟩
  rw [h4]; exact le_ceilTo _ _


/-- No lost wake-up: in a state in which no scheduler label is enabled (the worker is blocked and
    neither its event nor its time-out can wake it — only a new Schedule/cancel/clock advance can
    change anything), every action that was not cancelled and whose rounded deadline the clock has
    reached has run.  With `C10_once`: exactly once, with no further scheduling activity. -/
theorem C10_no_lost_wakeup (c : Cfg) (ls : List Label) (s : St) (h : runLabels (initSt c) ls = some s)
    (hq : resumable s = false) :
    ∀ r ∈ s.recs, r.seq ∉ s.cancels.map (·.1) → r.rd ≤ s.now →
      ∃ t, (r.seq, t) ∈ s.ran ∧ r.rd ≤ t ∧ t ≤ s.now := by
  have hi := reach_init_inv c ls s h
  have hfut := quiescent_future hi hq
  intro r hr hnc hrd
  rcases hi.core.acct r hr with h1 | h1 | h1
  · exfalso
    obtain ⟨i, hi', hie⟩ := List.mem_map.mp h1
    obtain ⟨r', hr', h3, h4⟩ := hi.core.q_rec i hi'
    have : r' = r := hi.core.rec_unique hr' hr (by rw [h3, hie])
    subst this
    have := hfut i hi'
    omega
  · obtain ⟨p, hp, hpe⟩ := List.mem_map.mp h1
    obtain ⟨h2, r', hr', h3, h4⟩ := hi.core.ran_facts p hp
    have : r' = r := hi.core.rec_unique hr' hr (by rw [h3, hpe])
    subst this
    refine ⟨p.2, ?_, h4, h2⟩
    rw [← hpe]; exact hp
  · exact absurd h1 hnc

/-- Order: consider any transition `s —l→ s'` of a reachable state and any action `k` spawned
    during it, `pre` being the actions spawned earlier in the same transition.  Every other
    action `r` that is pending at that moment (scheduled, not run before the transition nor in
    `pre`, no cancel call) has a larger `(⌈d⌉, seq)` than `k`. -/
theorem C10_order (c : Cfg) (ls : List Label) (s s' : St) (l : Label)
    (h : runLabels (initSt c) ls = some s) (hs : step s l = some s')
    (pre post : List Nat) (k : Nat) (hsplit : s'.out.reverse = pre ++ k :: post)
    (rk r : Rec) (hrk : rk ∈ s'.recs) (hk : rk.seq = k) (hr : r ∈ s'.recs) (hne : r.seq ≠ k)
    (hnotran : r.seq ∉ s.ran.map (·.1)) (hnotpre : r.seq ∉ pre)
    (hnc : r.seq ∉ s'.cancels.map (·.1)) :
    rk.rd < r.rd ∨ (rk.rd = r.rd ∧ rk.seq < r.seq) := by
  have hi := reach_init_inv c ls s h
  obtain ⟨hi', _, hspec⟩ := step_ok hi hs
  have hruns := specStep_ok_runs hspec
  have hobs : obsRan (.st (obsOf s')) = pre ++ k :: post := by simp [obsRan, obsOf, hsplit]
  rw [hobs] at hruns
  have hfr := runs_frame _ _ _ _ hruns
  obtain ⟨a1, hchk, hrecs, hcanc, _, hran⟩ := runs_split _ _ _ _ _ hruns
  have hrecs' : a1.recs = s'.recs := by rw [hrecs, ← hfr.1]; rfl
  have hcanc' : a1.cancels = s'.cancels := by rw [hcanc, ← hfr.2.1]; rfl
  have hran0 : ((accOf s).apply s.res l).ran = s.ran := by cases l <;> rfl
  refine checkRun_order hchk (rk := rk) (r := r) ?_ (by rw [hrecs']; exact hrk) hk
    (by rw [hrecs']; exact hr) hne ?_ (by rw [hcanc']; exact hnc)
  · rw [hrecs']; exact hi'.core.recs_nodup
  · rw [hran, hran0]
    simp only [List.mem_append, List.mem_reverse, not_or]
    exact ⟨hnotpre, hnotran⟩

/-- A cancel call made while the clock is below the action's rounded deadline is effective: the
    action never runs (it has not run before the call either). -/
theorem C10_cancel_effective (c : Cfg) (ls : List Label) (s : St) (h : runLabels (initSt c) ls = some s)
    (r : Rec) (hr : r ∈ s.recs) (tc : Nat) (hc : (r.seq, tc) ∈ s.cancels) (hlt : tc < r.rd) :
    r.seq ∉ s.ran.map (·.1) := by
  have hi := reach_init_inv c ls s h
  intro hm
  obtain ⟨p, hp, hpe⟩ := List.mem_map.mp hm
  obtain ⟨_, r', hr', h3, h4⟩ := hi.core.ran_facts p hp
  have : r' = r := hi.core.rec_unique hr' hr (by rw [h3, hpe])
  subst this
  have := hi.core.ran_canc p hp (r'.seq, tc) hc hpe.symm
  simp only at this
  omega

/-- Cancelling never affects any other action.  (Frame) in any reachable state a cancel call
    changes nothing but the `cancelled` flag of its own entry and the call history: heap order,
    event, worker position, clock, sequence counter and the run history are untouched and
    every other entry is kept as it is.  (Guarantee) whatever was cancelled along `ls`, and
    when, an action without a cancel call of its own is still queued with a clear flag or has
    run — exactly once, not before its rounded deadline — and it has run in every quiescent
    state whose clock has reached its rounded deadline. -/
theorem C10_cancel_noninterference (c : Cfg) (ls : List Label) (s : St)
    (h : runLabels (initSt c) ls = some s) :
    (∀ k, (cancel s k).queue.map (fun i => (i.deadline, i.seq)) = s.queue.map (fun i => (i.deadline, i.seq)) ∧
      (∀ i ∈ s.queue, i.seq ≠ k → i ∈ (cancel s k).queue) ∧
      (cancel s k).ev = s.ev ∧ (cancel s k).pc = s.pc ∧ (cancel s k).now = s.now ∧
      (cancel s k).seq = s.seq ∧ (cancel s k).ran = s.ran ∧ (cancel s k).recs = s.recs) ∧
    (∀ r ∈ s.recs, r.seq ∉ s.cancels.map (·.1) →
      ((∃ i ∈ s.queue, i.seq = r.seq ∧ i.deadline = r.rd ∧ i.cancelled = false) ∨
        ∃ t, (r.seq, t) ∈ s.ran ∧ r.rd ≤ t) ∧
      ((s.ran.map (·.1)).count r.seq ≤ 1) ∧
      (resumable s = false → r.rd ≤ s.now → ∃ t, (r.seq, t) ∈ s.ran ∧ r.rd ≤ t)) := by
  have hi := reach_init_inv c ls s h
  constructor
  · intro k
    refine ⟨?_, ?_, rfl, rfl, rfl, rfl, rfl, rfl⟩
    · rw [cancel_queue', List.map_map]
      apply List.map_congr_left
      intro i _
      simp
    · intro i hi' hne
      rw [cancel_queue']
      refine List.mem_map.mpr ⟨i, hi', ?_⟩
      unfold flag; simp [hne]
  · intro r hr hnc
    refine ⟨?_, List.nodup_iff_count_le_one.mp hi.core.ran_nodup _, ?_⟩
    · rcases hi.core.acct r hr with h1 | h1 | h1
      · left
        obtain ⟨i, hi', hie⟩ := List.mem_map.mp h1
        obtain ⟨r', hr', h3, h4⟩ := hi.core.q_rec i hi'
        have : r' = r := hi.core.rec_unique hr' hr (by rw [h3, hie])
        subst this
        refine ⟨i, hi', hie, h4.symm, ?_⟩
        cases hcf : i.cancelled with
        | false => rfl
        | true =>
          have := (hi.core.q_canc i hi').mp hcf
          rw [hie] at this
          exact absurd this hnc
      · right
        obtain ⟨p, hp, hpe⟩ := List.mem_map.mp h1
        obtain ⟨_, r', hr', h3, h4⟩ := hi.core.ran_facts p hp
        have : r' = r := hi.core.rec_unique hr' hr (by rw [h3, hpe])
        subst this
        exact ⟨p.2, by rw [← hpe]; exact hp, h4⟩
      · exact absurd h1 hnc
    · intro hq hrd
      obtain ⟨t, h1, h2, _⟩ := C10_no_lost_wakeup c ls s h hq r hr hnc hrd
      exact ⟨t, h1, h2⟩

/-- The history fields the theorems above talk about are exactly what the labels say: the clock
    is the initial clock plus the ticks, Schedule calls are numbered 1, 2, … in call order and
    recorded with their deadline and its rounding `ceilTo res d`, cancel calls are recorded with
    the clock at the call (`Acc.apply` is the monitor's reading of a label). -/
theorem C10_history_faithful (c : Cfg) (ls : List Label) (s : St) (h : runLabels (initSt c) ls = some s) :
    s.now = (ls.foldl (Acc.apply c.res) (Acc.init c)).clock ∧
    s.seq = (ls.foldl (Acc.apply c.res) (Acc.init c)).n ∧
    s.recs = (ls.foldl (Acc.apply c.res) (Acc.init c)).recs ∧
    s.cancels = (ls.foldl (Acc.apply c.res) (Acc.init c)).cancels :=
  reach_same4 c.res ls (initSt c) s (Acc.init c) (Inv.init c.res c.now0) rfl ⟨rfl, rfl, rfl, rfl⟩ h

/-- Progress.  `idle` (quiescence) is enabled exactly when no scheduler label is; and from any
    reachable state at most `mu s ≤ 3·|queue| + 4` scheduler labels can be taken before the worker
    is quiescent again (every scheduler label decreases `mu`): the worker cannot spin, so under any
    scheduler that eventually resumes a resumable greenlet the quiescent states that
    `C10_no_lost_wakeup` speaks about are reached. -/
theorem C10_progress (c : Cfg) (ls : List Label) (s : St) (h : runLabels (initSt c) ls = some s) :
    (resumable s = true ↔ ∃ l, isSched l = true ∧ (step s l).isSome = true) ∧
    mu s ≤ 3 * s.queue.length + 4 ∧
    ∀ (ws : List Label) (s' : St), (∀ l ∈ ws, isSched l = true) → runLabels s ws = some s' →
      ws.length + mu s' ≤ mu s := by
  have hi := reach_init_inv c ls s h
  refine ⟨?_, ?_, fun ws s' hws hr => mu_run ws s s' hi hws hr⟩
  · constructor
    · intro hr
      unfold resumable at hr
      split at hr
      · rename_i hpc; exact ⟨.start, rfl, by simp [step, hpc]⟩
      · rename_i hpc; exact ⟨.resumeSleep, rfl, by simp [step, hpc]⟩
      · rename_i hpc; exact ⟨.resumeSet, rfl, by simp [step, hpc, hr]⟩
      · rename_i dl pk hpc
        simp only [Bool.or_eq_true, decide_eq_true_eq] at hr
        rcases hr with hr | hr
        · exact ⟨.resumeSet, rfl, by simp [step, hpc, hr]⟩
        · exact ⟨.resumeTimeout, rfl, by simp [step, hpc, hr]⟩
      · cases hr
    · rintro ⟨l, hl, hs⟩
      unfold resumable
      cases l <;> simp only [isSched] at hl <;> simp only [step] at hs
      all_goals first | (exact absurd hl (by decide)) | skip
      all_goals (split <;> rename_i hpc <;> simp [hpc] at hs ⊢)
      all_goals first | exact hs | (exact Or.inl hs) | (exact Or.inr hs)
  · unfold mu
    split <;> split <;> omega

/-- The model's observations satisfy the executable specification that the harness evaluates on
    the implementation's observations, for every configuration and every enabled label list. -/
theorem C10_model_satisfies_spec (c : Cfg) (ops : List Op) (hwf : wf c ops = true) :
    spec c (comp.modelTrace c ops) = .ok := by
  have key : ∀ (ops : List Op) (s : St), Inv s → s.res = c.res → (runLabels s ops).isSome = true →
      specGo c.res (accOf s) (comp.trace c s ops) = .ok := by
    intro ops
    induction ops with
    | nil => intro s _ _ _; rfl
    | cons l ls ih =>
      intro s hi hres hrun
      simp only [runLabels] at hrun
      cases hs : step s l with
      | none => rw [hs] at hrun; simp at hrun
      | some s1 =>
        rw [hs] at hrun
        obtain ⟨hi1, hres1, hspec⟩ := step_ok hi hs
        have htr : comp.trace c s (l :: ls) = (l, .st (obsOf s1)) :: comp.trace c s1 ls := by
          simp [TComp.trace, comp, stepT, hs]
        rw [htr]
        simp only [specGo]
        rw [← hres, hspec]
        simp only
        rw [hres]
        exact ih s1 hi1 (hres1.trans hres) hrun
  unfold spec TComp.modelTrace
  exact key ops (initSt c) (Inv.init c.res c.now0) rfl hwf

/-! non-vacuity: concrete label lists satisfying the hypothesis, reaching the interesting states -/

/-- a new earliest deadline arrives while the worker sleeps; both run in deadline order -/
example : (runLabels (initSt ⟨10, 1000⟩) [.schedule 1015, .start, .resumeSleep, .schedule 1005, .resumeSet,
    .resumeSleep, .idle, .tick 10, .resumeTimeout, .idle, .tick 10, .resumeTimeout, .idle]).map
    (fun s => (s.ran, s.pc)) = some ([(1, 1020), (2, 1010)], .blockedEmpty) := by decide

/-- the time-out wins the race against the notifier: the worker pops an entry it did not peek -/
example : (runLabels (initSt ⟨10, 1000⟩) [.schedule 1020, .start, .resumeSleep, .tick 20, .schedule 1000,
    .resumeTimeout]).map (fun s => (s.ran, s.pc, s.ev, s.queue.length)) =
    some ([(2, 1020)], .sleeping0, false, 1) := by decide

/-- a head cancelled before its rounded deadline is dropped, the next entry is served -/
example : (runLabels (initSt ⟨10, 1000⟩) [.schedule 1010, .schedule 1020, .start, .resumeSleep, .cancel 1,
    .tick 10, .resumeTimeout, .idle, .tick 10, .resumeTimeout, .idle]).map (fun s => (s.ran, s.cancels)) =
    some ([(2, 1020)], [(1, 1000)]) := by decide

example : wf ⟨10, 1000⟩ [.schedule 1015, .start, .resumeSleep, .schedule 1005, .resumeSet] = true := by decide

end Scales.TimerQ
