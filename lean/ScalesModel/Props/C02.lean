/-
  Props/C02.lean — a call only ever receives the reply to its own request: the multiplexed hop.

  The assembled Thrift / ThriftMux stacks are judged by the monitor `E2E.comp 2` (acceptance,
  harness/props/c02.py).  The theorems here are about the multiplexed transport itself, on the
  model of Model/Mux.lean that is compared step by step with the real `SocketTransportSink`
  (component `tagpool`): replies are routed by tag through `_tag_map`, and the tag map entry of
  a tag is the request whose frame the peer received under that tag.

  No assumption is made on the peer: `ops` contains arbitrary `process mtype tag` steps — replies
  in any order, repeated, on unknown, reserved or not yet transmitted tags.  The clause speaks
  about a delivery only when a written, unanswered request frame with that tag exists.
-/
import ScalesModel.Adapter.E2E
import ScalesModel.Proofs.TagPoolLemmas
namespace Scales.TagPool

/-- **Specification level.**  The executable `spec` (the C11 clauses and the `own-reply` clause)
    holds of every history of the model. -/
theorem C02_mux_model_satisfies_spec (cfg : Cfg) (ops : List Op) (hc : cfgWF cfg = true)
    (ho : opsOk cfg St.init ops = true) : spec cfg (comp.modelTrace cfg ops) = .ok := by
  simp only [cfgWF, decide_eq_true_eq] at hc
  exact spec_trace cfg hc ops {} St.init 0 (Inv_init cfg hc) ho

/-- **Step level.**  `_ProcessReply` hands a frame to a request exactly when the frame is not
    the ping answer, its tag is not 0 and `_tag_map` holds that request under the frame's tag;
    at most one request gets it. -/
theorem C02_mux_delivery_via_tagmap (s : St) (mt : Int) (t rid : Nat) :
    (rid ∈ (stepProcess s mt t).2.delivered ↔
      (¬(t = 1 ∧ mt = -65) ∧ t ≠ 0 ∧ tmLookup t s.tagmap = some rid)) ∧
    (stepProcess s mt t).2.delivered.length ≤ 1 := by
  unfold stepProcess
  by_cases hp : t = 1 ∧ mt = -65
  · simp [hp]
  · rw [if_neg hp]
    by_cases h0 : t ≠ 0
    · rw [if_pos h0]
      cases hl : tmLookup t s.tagmap with
      | none => rw [releaseTag_none hl]; simp [hp]
      | some r =>
        rw [releaseTag_some hl]
        simp only [List.mem_singleton, List.length_cons, List.length_nil, Nat.zero_add, Nat.le_refl, and_true]
        constructor
        · intro e; subst e; exact ⟨hp, h0, rfl⟩
        · intro h; injection h.2.2 with h'; exact h'.symm
    · rw [if_neg h0]; simp [hp, h0]

/-- no other step of the transport delivers anything to a request -/
theorem C02_mux_only_process_delivers (max : Nat) (s : St) (op : Op) (h : ∀ mt t, op ≠ .process mt t) :
    (stepOp max s op).2.delivered = [] := by
  cases op with
  | process mt t => exact absurd rfl (h mt t)
  | ping => rfl
  | reopen => rfl
  | req e popped =>
    simp only [stepOp, stepReq]
    split <;> rfl
  | fire rid =>
    simp only [stepOp, stepFire]
    split
    · split <;> rfl
    · rfl
  | notify rid =>
    simp only [stepOp, stepNotify]
    split
    · split
      · split <;> rfl
      · rfl
    · rfl
  | send =>
    simp only [stepOp]
    unfold stepSend
    split
    · rfl
    · rfl
    · rfl
    · simp only
      split
      · rfl
      · split
        · rfl
        · split
          · split <;> rfl
          · rfl
          · rfl

/-- **History level.**  For every pool size ≥ 2 and every legal sequence of transport steps:
    whenever a step processing a peer frame on tag `t` delivers to request `rid`, and a request
    frame carrying `t` was written on this connection and has not been answered since, that
    frame is the frame of request `rid` — the reply goes to the request the peer received
    under that tag, never to another call. -/
theorem C02_mux_own_reply (cfg : Cfg) (ops : List Op) (hc : cfgWF cfg = true)
    (ho : opsOk cfg St.init ops = true) (h1 h2 : List (Op × Obs)) (mt : Int) (t : Nat) (o : Obs)
    (htr : comp.modelTrace cfg ops = h1 ++ (.process mt t, o) :: h2)
    (rid : Nat) (hd : rid ∈ o.delivered) (rid' : Nat) (hw : (t, rid') ∈ unansweredPairs h1) :
    rid' = rid := by
  have hs := C02_mux_model_satisfies_spec cfg ops hc ho
  rw [htr] at hs
  have := specGo_split cfg h1 {} 0 (.process mt t) o h2 hs
  obtain ⟨_, _, _, _, _, hor⟩ := (specObs_ok_iff cfg _ _ _ o).mp this
  simp only [ownReplyBad, List.find?_eq_none, List.mem_filter, beq_iff_eq, List.any_eq_true, bne_iff_ne,
    ne_eq, not_exists, not_and, Decidable.not_not, and_imp] at hor
  exact (hor (t, rid') hw rfl rid hd).symm

/-- the written, unanswered frames known to the specification are the tag map's entries:
    `(t, rid)` unanswered ⇒ `_tag_map[t]` is request `rid` (so `C02_mux_delivery_via_tagmap`
    delivers the next frame on `t` to `rid`) -/
theorem C02_mux_unanswered_owner_in_tagmap (cfg : Cfg) (ops : List Op) (hc : cfgWF cfg = true)
    (ho : opsOk cfg St.init ops = true) (t rid : Nat)
    (hw : (t, rid) ∈ unansweredPairs (comp.modelTrace cfg ops)) :
    tmLookup t (reach cfg ops).tagmap = some rid := by
  simp only [cfgWF, decide_eq_true_eq] at hc
  exact (Inv_trace cfg hc ops {} St.init (Inv_init cfg hc) ho).own (t, rid) hw

/-! a concrete history: three requests written, answered out of order, one answered twice, one
    frame on an unknown tag — each delivery reaches the request that owns the tag -/
example : (comp.modelTrace ⟨2 ^ 24 - 1⟩
      [.req .noev 0, .req .noev 0, .req .noev 0, .send, .send, .send,
       .process (-2) 4, .process (-2) 2, .process (-2) 2, .process (-2) 9, .process (-2) 3]).map
      (fun p => p.2.delivered) = [[], [], [], [], [], [], [2], [0], [], [], [1]] := by decide

example : comp.wf ⟨2 ^ 24 - 1⟩
      [.req .noev 0, .req .noev 0, .req .noev 0, .send, .send, .send,
       .process (-2) 4, .process (-2) 2, .process (-2) 2, .process (-2) 9, .process (-2) 3] = true := by decide

end Scales.TagPool
