/-
  Props/C02.lean — a call only ever receives the reply to its own request: the multiplexed hop.

  The assembled Thrift / ThriftMux stacks are judged by the monitor `E2E.comp 2` (acceptance,
  harness/props/c02.py).  The theorems here are about the multiplexed transport itself, on the
  model of Model/Mux.lean that is compared step by step with the real `SocketTransportSink`
  (component `tagpool`): replies are routed by tag through `_tag_map`, and the tag map entry of
  a tag is the request whose frame the peer received under that tag.

  No assumption is made on the peer: `ops` contains arbitrary `process mtype tag` steps — replies
  in any order, repeated, on unknown, reserved or not yet transmitted tags.  The clause speaks
  about a delivery only when a written, unanswered request frame with that tag exists.
-/
import ScalesModel.Adapter.E2E
import ScalesModel.Proofs.TagPoolLemmas
import ScalesModel.Adapter.SerialC02
import ScalesModel.Props.C07
namespace Scales.TagPool

/-- **Specification level.**  The executable `spec` (the C11 clauses and the `own-reply` clause)
    holds of every history of the model. -/
theorem C02_mux_model_satisfies_spec (cfg : Cfg) (ops : List Op) (hc : cfgWF cfg = true)
    (ho : opsOk cfg (initSt cfg) ops = true) : spec cfg (comp.modelTrace cfg ops) = .ok := by
  exact spec_trace cfg (wf_max hc) ops (Acc.init cfg) (initSt cfg) 0 (Inv_init cfg hc) ho

/-- **Step level.**  `_ProcessReply` hands a frame to a request exactly when the frame is not
    the ping answer, its tag is not 0 and `_tag_map` holds that request under the frame's tag;
    at most one request gets it. -/
theorem C02_mux_delivery_via_tagmap (s : St) (mt : Int) (t rid : Nat) :
    (rid ∈ (stepProcess s mt t).2.delivered ↔
      (¬(t = 1 ∧ mt = -65) ∧ t ≠ 0 ∧ tmLookup t s.tagmap = some rid)) ∧
    (stepProcess s mt t).2.delivered.length ≤ 1 := by
  unfold stepProcess
  by_cases hp : t = 1 ∧ mt = -65
  · simp [hp]
  · rw [if_neg hp]
    by_cases h0 : t ≠ 0
    · rw [if_pos h0]
      cases hl : tmLookup t s.tagmap with
      | none => rw [releaseTag_none hl]; simp [hp]
      | some r =>
        rw [releaseTag_some hl]
        simp only [List.mem_singleton, List.length_cons, List.length_nil, Nat.zero_add, Nat.le_refl, and_true]
        constructor
        · intro e; subst e; exact ⟨hp, h0, rfl⟩
        · intro h; injection h.2.2 with h'; exact h'.symm
    · rw [if_neg h0]; simp [hp, h0]

/-- the same for the Kafka transport, where every reply goes through `_ProcessTaggedReply`
    with its correlation id: delivered exactly when `_tag_map` holds a request under that id -/
theorem C02_mux_delivery_via_tagmap_kafka (s : St) (t rid : Nat) :
    (rid ∈ (stepProcessKafka s t).2.delivered ↔ tmLookup t s.tagmap = some rid) ∧
    (stepProcessKafka s t).2.delivered.length ≤ 1 := by
  unfold stepProcessKafka
  cases hl : tmLookup t s.tagmap with
  | none => rw [releaseTag_none hl]; simp
  | some r =>
    rw [releaseTag_some hl]
    simp only [List.mem_singleton, List.length_cons, List.length_nil, Nat.zero_add, Nat.le_refl, and_true]
    constructor
    · intro e; subst e; rfl
    · intro h; injection h with h'; exact h'.symm

/-- an iteration of the send loop delivers nothing to a request -/
theorem C02_mux_send_delivers_nothing (s : St) : (stepSend s).2.delivered = [] := by
  unfold stepSend
  split
  · rfl
  · rfl
  · rfl
  · simp only
    split
    · rfl
    · split
      · rfl
      · split
        · split <;> rfl
        · rfl
        · rfl

/-- no other step of the transport delivers anything to a request -/
theorem C02_mux_only_process_delivers (fl : Flavour) (max : Nat) (s : St) (op : Op)
    (h : ∀ mt t, op ≠ .process mt t) : (stepOp fl max s op).2.delivered = [] := by
  cases op with
  | process mt t => exact absurd rfl (h mt t)
  | ping => cases fl <;> rfl
  | reopen => rfl
  | req e popped =>
    simp only [stepOp, stepReq]
    split <;> rfl
  | fire rid =>
    simp only [stepOp, stepFire]
    split
    · split <;> rfl
    · rfl
  | notify rid =>
    cases fl with
    | thriftmux =>
      simp only [stepOp, stepNotify]
      split
      · split
        · split <;> rfl
        · rfl
      · rfl
    | kafka =>
      simp only [stepOp, stepNotifyKafka]
      split
      · split <;> rfl
      · rfl
  | send =>
    simp only [stepOp]
    split
    · rfl
    · exact C02_mux_send_delivers_nothing s
  | wbegin =>
    simp only [stepOp, stepWBegin]
    split
    · rfl
    · split
      · rfl
      · exact C02_mux_send_delivers_nothing s
  | wend =>
    simp only [stepOp, stepWEnd]
    split <;> rfl
  | quiet =>
    simp only [stepOp, stepQuiet]
    split <;> rfl

/-- **History level.**  For every pool size ≥ 2, every well-formed starting pool (a connection of any
    age, tags of all three byte lengths: `cfgWF`) and every legal sequence of transport steps:
    whenever a step processing a peer frame on tag `t` delivers to request `rid`, and a request
    frame carrying `t` was written on this connection and has not been answered since, that
    frame is the frame of request `rid` — the reply goes to the request the peer received
    under that tag, never to another call. -/
theorem C02_mux_own_reply (cfg : Cfg) (ops : List Op) (hc : cfgWF cfg = true)
    (ho : opsOk cfg (initSt cfg) ops = true) (h1 h2 : List (Op × Obs)) (mt : Int) (t : Nat) (o : Obs)
    (htr : comp.modelTrace cfg ops = h1 ++ (.process mt t, o) :: h2)
    (rid : Nat) (hd : rid ∈ o.delivered) (rid' : Nat) (hw : (t, rid') ∈ unansweredPairs cfg h1) :
    rid' = rid := by
  have hs := C02_mux_model_satisfies_spec cfg ops hc ho
  rw [htr] at hs
  have := specGo_split cfg h1 (Acc.init cfg) 0 (.process mt t) o h2 hs
  obtain ⟨_, _, _, _, _, hor⟩ := (specObs_ok_iff cfg _ _ _ o).mp this
  simp only [ownReplyBad, List.find?_eq_none, List.mem_filter, beq_iff_eq, List.any_eq_true, bne_iff_ne,
    ne_eq, not_exists, not_and, Decidable.not_not, and_imp] at hor
  exact (hor (t, rid') hw rfl rid hd).symm

/-- the written, unanswered frames known to the specification are the tag map's entries:
    `(t, rid)` unanswered ⇒ `_tag_map[t]` is request `rid` (so `C02_mux_delivery_via_tagmap`
    delivers the next frame on `t` to `rid`) -/
theorem C02_mux_unanswered_owner_in_tagmap (cfg : Cfg) (ops : List Op) (hc : cfgWF cfg = true)
    (ho : opsOk cfg (initSt cfg) ops = true) (t rid : Nat)
    (hw : (t, rid) ∈ unansweredPairs cfg (comp.modelTrace cfg ops)) :
    tmLookup t (reach cfg ops).tagmap = some rid := by
  exact (Inv_trace cfg (wf_max hc) ops (Acc.init cfg) (initSt cfg) (Inv_init cfg hc) ho).own (t, rid) hw

/-! a concrete history: three requests written, answered out of order, one answered twice, one
    frame on an unknown tag — each delivery reaches the request that owns the tag -/
example : (comp.modelTrace { max := 2 ^ 24 - 1, fl := .thriftmux }
      [.req .noev 0, .req .noev 0, .req .noev 0, .send, .send, .send,
       .process (-2) 4, .process (-2) 2, .process (-2) 2, .process (-2) 9, .process (-2) 3]).map
      (fun p => p.2.delivered) = [[], [], [], [], [], [], [2], [0], [], [], [1]] := by decide

example : comp.wf { max := 2 ^ 24 - 1, fl := .thriftmux }
      [.req .noev 0, .req .noev 0, .req .noev 0, .send, .send, .send,
       .process (-2) 4, .process (-2) 2, .process (-2) 2, .process (-2) 9, .process (-2) 3] = true := by decide

/-! an aged connection: tags 256, 65792 (= 2^16 + 256), 2, 258, 65538 in flight together — they agree
    in two of their three bytes; replies in another order, one for a tag held since before the
    script (65537), one for a tag that differs from a tag in flight in the high byte only (131074) -/
example : (comp.modelTrace { max := 2 ^ 24 - 1, fl := .thriftmux, next := 131075, free := [256, 65792, 2, 258, 65538] }
      [.req .noev 256, .req .noev 65792, .req .noev 2, .req .noev 258, .req .noev 65538,
       .send, .send, .send, .send, .send,
       .process (-2) 65792, .process (-2) 65537, .process (-2) 131074, .process (-2) 2, .process (-2) 65538,
       .process (-2) 256, .process (-2) 258]).map
      (fun p => p.2.delivered) = [[], [], [], [], [], [], [], [], [], [], [1], [], [], [2], [4], [0], [3]] := by decide

example : comp.wf { max := 2 ^ 24 - 1, fl := .thriftmux, next := 131075, free := [256, 65792, 2, 258, 65538] }
      [.req .noev 256, .req .noev 65792, .req .noev 2, .req .noev 258, .req .noev 65538,
       .send, .send, .send, .send, .send,
       .process (-2) 65792, .process (-2) 65537, .process (-2) 131074, .process (-2) 2, .process (-2) 65538,
       .process (-2) 256, .process (-2) 258] = true := by decide

/-! ### serial connections

  On a serial connection the peer answers requests in the order it received them, one reply
  per request frame (the server hypothesis of C02).  The reply a transaction reads is therefore
  the reply to its own frame provided no *earlier* frame on the same connection is still
  unanswered.  The ghost `owed` below lists the request frames written on the current
  connection whose replies have not been consumed; it is reset whenever the connection is
  replaced or dropped.  The theorem: in every reachable state `owed` is empty, or holds exactly
  the transaction in flight (past its write) — so a consumed reply is the caller's own, and a
  request abandoned by a timeout or fault never leaves a stale reply on a connection that a
  later call will read. -/

namespace SerialGhost
open Scales.Serial Scales.Transport

inductive SOp where
  | openT (r : Conn)
  | request (id : Nat) (dl : DL)
  | io (o : IOOut)
  | timeoutHere (r : Conn)
  | timeoutBlock               -- the deadline passes, the re-connect takes time (Model/Serial.lean)
  | reconn (r : Conn)          -- the re-connect in progress concludes
  | close
  deriving Repr, DecidableEq

structure G where
  s : Serial.St
  owed : List Nat
  deriving Repr, DecidableEq

def G.init : G := ⟨Serial.St.init, []⟩

/-- replies consumed in a step: the `.stream` deliveries -/
def consumed (e : Eff) : List Nat := (e.dels.filter (fun p => p.2 == Resp.stream)).map (·.1)

/-- one step of the transport with the ghost bookkeeping -/
def G.step (g : G) : SOp → G
  | .openT r =>
    let (s', e) := g.s.openT r
    ⟨s', if e.conns > 0 ∨ s'.sockOpen ≠ g.s.sockOpen then [] else g.owed⟩
  | .request id dl =>
    let (s', o) := g.s.request id dl
    ⟨s', if o.eff.conns > 0 ∨ s'.sockOpen ≠ g.s.sockOpen then [] else g.owed ++ o.sent⟩
  | .io o =>
    let (s', out) := g.s.io o
    ⟨s', if out.eff.conns > 0 ∨ s'.sockOpen ≠ g.s.sockOpen then []
         else (g.owed ++ out.sent).filter (fun id => !(consumed out.eff).contains id)⟩
  | .timeoutHere r =>
    let (s', out) := g.s.timeoutHere r
    ⟨s', if out.eff.conns > 0 ∨ s'.sockOpen ≠ g.s.sockOpen then [] else g.owed⟩
  | .timeoutBlock =>
    let (s', out) := g.s.timeoutBlock
    ⟨s', if out.eff.conns > 0 ∨ s'.sockOpen ≠ g.s.sockOpen then [] else g.owed⟩
  | .reconn r =>
    let (s', out) := g.s.reconnDone r
    ⟨s', if out.eff.conns > 0 ∨ s'.sockOpen ≠ g.s.sockOpen then [] else g.owed⟩
  | .close => ⟨g.s.close, []⟩

/-- what `owed` must be: the transaction in flight, once its frame has been written — and until
    its time-out handler has dropped the connection (blocked in the re-connect, nothing is
    outstanding on a connection in use: there is none) -/
def owedOf (s : Serial.St) : List Nat :=
  match s.processing with
  | some t =>
    match t.phase with
    | .write => []
    | .reconn => []
    | _ => [t.id]
  | none => []

structure GInv (g : G) : Prop where
  k : g.s.sockOpen = true → g.s.openRes = true
  j : ∀ t, g.s.processing = some t →
        g.s.openRes = true ∧ (t.phase = .reconn ↔ g.s.sockOpen = false)
  owed : g.owed = owedOf g.s

theorem GInv_init : GInv G.init := ⟨by simp [G.init, Serial.St.init], by simp [G.init, Serial.St.init], rfl⟩

theorem GInv_step (g : G) (op : SOp) (h : GInv g) : GInv (g.step op) := by
  obtain ⟨hk, hj, ho⟩ := h
  obtain ⟨s, owed⟩ := g
  obtain ⟨cs, so, ores, pr⟩ := s
  simp only at hk hj ho
  cases pr with
  | none =>
    subst ho
    cases op with
    | close => exact ⟨by simp [G.step, Serial.St.close], by simp [G.step, Serial.St.close], by simp [G.step, Serial.St.close, owedOf]⟩
    | openT r =>
      cases r <;> cases so <;> cases ores <;> cases cs <;> constructor <;>
        simp_all [G.step, Serial.St.openT, Serial.St.openImpl, Serial.St.fault, Serial.St.state,
          Serial.St.close, owedOf]
    | request id dl =>
      cases dl with
      | none => cases so <;> constructor <;>
          simp_all [G.step, Serial.St.request, Serial.St.txnFail, Serial.St.fault, Serial.St.state,
            Serial.St.close, owedOf] <;> (try split) <;> simp_all [owedOf]
      | future => cases so <;> constructor <;>
          simp_all [G.step, Serial.St.request, Serial.St.txnFail, Serial.St.fault, Serial.St.state,
            Serial.St.close, owedOf] <;> (try split) <;> simp_all [owedOf]
      | past r => cases so <;> cases r <;> constructor <;>
          simp_all [G.step, Serial.St.request, Serial.St.txnTimeout, Serial.St.fault, Serial.St.state,
            Serial.St.close, owedOf] <;> (try split) <;> simp_all [owedOf]
      | pastBlock => cases so <;> constructor <;>
          simp_all [G.step, Serial.St.request, Serial.St.txnTimeoutStart, owedOf]
    | io o => constructor <;> simp_all [G.step, Serial.St.io, owedOf, consumed]
    | timeoutHere r => constructor <;> simp_all [G.step, Serial.St.timeoutHere, owedOf]
    | timeoutBlock => constructor <;> simp_all [G.step, Serial.St.timeoutBlock, owedOf]
    | reconn r => constructor <;> simp_all [G.step, Serial.St.reconnDone, owedOf]
  | some t =>
    obtain ⟨hor, hph⟩ := hj t rfl
    subst hor
    subst ho
    obtain ⟨tid, thd, tph⟩ := t
    simp only at hph
    cases op with
    | close => exact ⟨by simp [G.step, Serial.St.close], by simp [G.step, Serial.St.close], by simp [G.step, Serial.St.close, owedOf]⟩
    | openT r => constructor <;> simp_all [G.step, Serial.St.openT, owedOf]
    | request id dl => constructor <;> simp_all [G.step, Serial.St.request, owedOf]
    | io o =>
      cases o <;> cases tph <;> cases so <;> constructor <;>
        simp_all [G.step, Serial.St.io, Serial.St.txnFail, Serial.St.fault, Serial.St.state,
          Serial.St.close, owedOf, consumed] <;> (try split) <;> simp_all [owedOf]
    | timeoutHere r =>
      cases r <;> cases thd <;> cases tph <;> cases so <;> constructor <;>
        simp_all [G.step, Serial.St.timeoutHere, Serial.St.txnTimeout, Serial.St.fault, Serial.St.state,
          Serial.St.close, owedOf] <;> (try split) <;> simp_all [owedOf]
    | timeoutBlock =>
      cases thd <;> cases tph <;> cases so <;> constructor <;>
        simp_all [G.step, Serial.St.timeoutBlock, Serial.St.txnTimeoutStart, owedOf]
    | reconn r =>
      cases r <;> cases tph <;> cases so <;> constructor <;>
        simp_all [G.step, Serial.St.reconnDone, Serial.St.fault, Serial.St.state,
          Serial.St.close, owedOf] <;> (try split) <;> simp_all [owedOf]

def G.run (g : G) : List SOp → G
  | [] => g
  | op :: ops => (g.step op).run ops

theorem GInv_run : ∀ (ops : List SOp) (g : G), GInv g → GInv (g.run ops) := by
  intro ops
  induction ops with
  | nil => intro g h; exact h
  | cons op ops ih => intro g h; exact ih _ (GInv_step g op h)

end SerialGhost

open SerialGhost Scales.Serial Scales.Transport in
/-- **Serial connections: a consumed reply is the caller's own.**  After any history of opens,
    requests (with or without deadline, also already expired), I/O outcomes, time-outs with
    accepted or refused re-connects (concluding at once, or taking time with anything arriving in
    between) and closes: when a reply body is handed to request `id`, the
    frames written on the current connection whose replies had not been consumed are exactly
    `[id]` — no frame of an earlier, abandoned transaction is outstanding on it. -/
theorem C02_serial_own_reply (ops : List SOp) (o : IOOut) (id : Nat)
    (h : (id, Resp.stream) ∈ ((G.init.run ops).s.io o).2.eff.dels) : (G.init.run ops).owed = [id] := by
  have hinv := GInv_run ops G.init GInv_init
  generalize G.init.run ops = g at *
  obtain ⟨_, _, ho⟩ := hinv
  rw [ho]
  unfold Serial.St.io at h
  unfold owedOf
  cases hp : g.s.processing with
  | none => simp [hp] at h
  | some t =>
    simp only [hp] at h ⊢
    cases hph : t.phase <;> cases o <;> simp [hph, Serial.St.txnFail] at h ⊢ <;>
      (try (split at h <;> simp at h))
    exact h.symm

open SerialGhost Scales.Serial in
/-- a transaction that ended (reply, time-out, fault, refusal, close) leaves no unconsumed frame
    on a connection that stays in use: the next transaction starts on a clean connection -/
theorem C02_serial_abandon_clears (ops : List SOp) (h : (G.init.run ops).s.processing = none) :
    (G.init.run ops).owed = [] := by
  have hinv := GInv_run ops G.init GInv_init
  rw [hinv.owed]; simp [owedOf, h]

open Scales.Watermark in
/-- Pool: a connection is never lent to two calls at once (C07's exclusivity theorem, which is
    the pool's part of this property) -/
theorem C02_pool_exclusive (cfg : Watermark.Cfg) (ops : List Watermark.Op) (c1 c2 sid : Nat)
    (h1 : (runOps cfg Watermark.St.init ops).base.calls[c1]? = some (.started sid))
    (h2 : (runOps cfg Watermark.St.init ops).base.calls[c2]? = some (.started sid)) : c1 = c2 :=
  (C07_exclusive cfg ops c1 c2 sid h1 h2).1

namespace SerialSpec
open Scales.Serial Scales.Transport Scales.SerialC02

structure Rel (a : SerialC02.Acc) (s : Serial.St) : Prop where
  clean : a.dirty = false
  infl : a.inflight = s.processing.map (·.id)
  k : s.sockOpen = true → s.openRes = true
  j : ∀ t, s.processing = some t → s.openRes = true ∧ (t.phase = .reconn ↔ s.sockOpen = false)

theorem Rel_init : Rel {} Serial.St.init := ⟨rfl, rfl, by simp [Serial.St.init], by simp [Serial.St.init]⟩

theorem Rel_step (a : SerialC02.Acc) (s : Serial.St) (op : Serial.Op) (h : Rel a s) :
    Rel (a.after op (Serial.step () s op).2) (Serial.step () s op).1 := by
  obtain ⟨hc, hi, hk, hj⟩ := h
  obtain ⟨infl, dirty, idx⟩ := a
  obtain ⟨cs, so, ores, pr⟩ := s
  simp only at hc hi hk hj
  subst hc
  cases pr with
  | none =>
    simp only [Option.map_none] at hi
    subst hi
    cases op with
    | look => exact ⟨by simp [SerialC02.Acc.after, Serial.step, Serial.stepOut, Serial.obsOf, SerialC02.respOf], by simp [SerialC02.Acc.after, Serial.step, Serial.stepOut, Serial.obsOf, SerialC02.respOf], hk, hj⟩
    | close => exact ⟨rfl, rfl, by simp [Serial.step, stepOut, Serial.St.close], by simp [Serial.step, stepOut, Serial.St.close]⟩
    | openT r =>
      cases r <;> cases so <;> cases ores <;> cases cs <;> constructor <;>
        simp_all [SerialC02.Acc.after, Serial.step, Serial.stepOut, Serial.obsOf, SerialC02.respOf, Serial.St.openT, Serial.St.openImpl,
          Serial.St.fault, Serial.St.state, Serial.St.close, SerialC02.replaced]
    | io o => constructor <;> simp_all [SerialC02.Acc.after, Serial.step, Serial.stepOut, Serial.obsOf, SerialC02.respOf, Serial.St.io]
    | timeoutHere r => constructor <;>
        simp_all [SerialC02.Acc.after, Serial.step, Serial.stepOut, Serial.obsOf, SerialC02.respOf, Serial.St.timeoutHere]
    | timeoutBlock => constructor <;>
        simp_all [SerialC02.Acc.after, Serial.step, Serial.stepOut, Serial.obsOf, SerialC02.respOf, Serial.St.timeoutBlock]
    | reconn r => constructor <;>
        simp_all [SerialC02.Acc.after, Serial.step, Serial.stepOut, Serial.obsOf, SerialC02.respOf, Serial.St.reconnDone]
    | req id dl =>
      cases dl with
      | none => cases so <;> constructor <;>
          simp_all [SerialC02.Acc.after, Serial.step, Serial.stepOut, Serial.obsOf, SerialC02.respOf, Serial.St.request, Serial.St.txnFail,
            Serial.St.fault, Serial.St.state, Serial.St.close, SerialC02.replaced] <;> (try split) <;> simp_all
      | future => cases so <;> constructor <;>
          simp_all [SerialC02.Acc.after, Serial.step, Serial.stepOut, Serial.obsOf, SerialC02.respOf, Serial.St.request, Serial.St.txnFail,
            Serial.St.fault, Serial.St.state, Serial.St.close, SerialC02.replaced] <;> (try split) <;> simp_all
      | past r => cases so <;> cases r <;> constructor <;>
          simp_all [SerialC02.Acc.after, Serial.step, Serial.stepOut, Serial.obsOf, SerialC02.respOf, Serial.St.request, Serial.St.txnTimeout,
            Serial.St.fault, Serial.St.state, Serial.St.close, SerialC02.replaced] <;> (try split) <;> simp_all
      | pastBlock => cases so <;> constructor <;>
          simp_all [SerialC02.Acc.after, Serial.step, Serial.stepOut, Serial.obsOf, SerialC02.respOf, Serial.St.request, Serial.St.txnTimeoutStart,
            Serial.St.state, SerialC02.replaced]
  | some t =>
    obtain ⟨hor, hph⟩ := hj t rfl
    subst hor
    simp only [Option.map_some] at hi
    subst hi
    obtain ⟨tid, thd, tph⟩ := t
    simp only at hph
    cases op with
    | look => exact ⟨by simp [SerialC02.Acc.after, Serial.step, Serial.stepOut, Serial.obsOf, SerialC02.respOf], by simp [SerialC02.Acc.after, Serial.step, Serial.stepOut, Serial.obsOf, SerialC02.respOf], hk, hj⟩
    | close => exact ⟨rfl, rfl, by simp [Serial.step, stepOut, Serial.St.close], by simp [Serial.step, stepOut, Serial.St.close]⟩
    | openT r => constructor <;>
        simp_all [SerialC02.Acc.after, Serial.step, Serial.stepOut, Serial.obsOf, SerialC02.respOf, Serial.St.openT, Serial.St.state, SerialC02.replaced]
    | req id dl => constructor <;>
        simp_all [SerialC02.Acc.after, Serial.step, Serial.stepOut, Serial.obsOf, SerialC02.respOf, Serial.St.request, Serial.St.state, SerialC02.replaced]
    | io o =>
      cases o <;> cases tph <;> cases so <;> constructor <;>
        simp_all [SerialC02.Acc.after, Serial.step, Serial.stepOut, Serial.obsOf, SerialC02.respOf, Serial.St.io, Serial.St.txnFail,
          Serial.St.fault, Serial.St.state, Serial.St.close, SerialC02.replaced]
    | timeoutHere r =>
      cases r <;> cases thd <;> cases tph <;> cases so <;> cases cs <;> constructor <;>
        simp_all [SerialC02.Acc.after, Serial.step, Serial.stepOut, Serial.obsOf, SerialC02.respOf, Serial.St.timeoutHere, Serial.St.txnTimeout,
          Serial.St.fault, Serial.St.state, Serial.St.close, SerialC02.replaced]
    | timeoutBlock =>
      cases thd <;> cases tph <;> cases so <;> cases cs <;> constructor <;>
        simp_all [SerialC02.Acc.after, Serial.step, Serial.stepOut, Serial.obsOf, SerialC02.respOf, Serial.St.timeoutBlock, Serial.St.txnTimeoutStart,
          Serial.St.state, SerialC02.replaced]
    | reconn r =>
      cases r <;> cases tph <;> cases so <;> cases cs <;> constructor <;>
        simp_all [SerialC02.Acc.after, Serial.step, Serial.stepOut, Serial.obsOf, SerialC02.respOf, Serial.St.reconnDone,
          Serial.St.fault, Serial.St.state, Serial.St.close, SerialC02.replaced]

theorem specGo_ok : ∀ (ops : List Serial.Op) (a : SerialC02.Acc) (s : Serial.St), Rel a s →
    SerialC02.specGo a (SerialC02.comp.trace () s ops) = .ok := by
  intro ops
  induction ops with
  | nil => intros; rfl
  | cons op ops ih =>
    intro a s h
    simp only [TComp.trace, SerialC02.comp, SerialC02.specGo]
    have h' := Rel_step a s op h
    have hv : SerialC02.specObs a (Serial.step () s op).2 = .ok := by simp [SerialC02.specObs, h.clean]
    rw [hv]
    exact ih _ _ h'

end SerialSpec

open SerialSpec in
/-- the serial transport model satisfies the C02 clause evaluated by component `serial2` on
    every operation list (no hypothesis needed): a connection that saw an abandoned transaction
    never carries a later request -/
theorem C02_serial_model_satisfies_spec (ops : List Serial.Op) :
    SerialC02.spec () (SerialC02.comp.modelTrace () ops) = .ok :=
  specGo_ok ops {} Serial.St.init Rel_init

end Scales.TagPool
