import ScalesModel.Adapter.E2E
namespace Scales.E2E
theorem C02_placeholder : True := trivial
end Scales.E2E
