/-
  Props/C16.lean — property theorems for C16 (singleton pool, ref-counted sink, shared sink
  provider).  Statements rely on Model/Shared.lean and Adapter/Shared.lean only; helper lemmas
  live in Proofs/SharedLemmas.lean.

  Quantification: `ops` is *any* finite history — for the singleton pool any sequence of
  requests, pool Open()/Close() calls, completions (success or failure) of a pending open and
  faults of any sink, in any order (so requests, Open() and Close() may arrive while the first
  open is still in progress), where a pool Close() may run over an underlying Close() that calls
  a caller back who re-submits through the pool from inside it (`pcloseR`, `cresumeR`) or that
  yields and stays suspended while further operations arrive (`pcloseY` … `cresume`); for the
  ref-counted sink any sequence of Open/Close by any
  holders and faults of the underlying sink; for the provider any sequence of CreateSink calls
  with any keys by any holders, of holders calling Open()/Close() on what they hold, of holders
  dropping their reference, and of transport faults of any underlying sink (so CreateSink may
  come while the cached shared sink is Closed — faulted, or closed by its last holder — and
  older holders are alive).  No bounds, no hypotheses on the history.
-/
import ScalesModel.Proofs.SharedLemmas
import ScalesModel.Proofs.SharedProvLemmas
namespace Scales.Shared

/-! ## SingletonPoolSink -/

/-- After every history at most one underlying sink is live (being opened, or open). -/
theorem C16_singleton_at_most_one_live (ops : List SOp) :
    liveCount (Pool.run {} ops).sinks ≤ 1 := by
  have hi := run_inv ops PInv.init
  rw [← liveN_snap]
  exact hi.live_le_one

/-- Shares, sequential and concurrent: if after any history some sink `k` is live, it is the
    pool's current sink, and a request creates no other sink; it is handed to sink `k` at once
    if `k` is open, and if `k` is still being opened it joins the greenlets waiting for that
    open (all of which wait on sink `k`). -/
theorem C16_singleton_shares (ops : List SOp) (r k : Nat) (s : USink)
    (hk : (Pool.run {} ops).sinks[k]? = some s) (hl : s.live = true) :
    (Pool.run {} ops).next = some k ∧
    (((Pool.run {} ops).step (.req r)).1.sinks.length = (Pool.run {} ops).sinks.length) ∧
    (((Pool.run {} ops).step (.req r)).1.next = some k) ∧
    (s.st = .opened → ((Pool.run {} ops).step (.req r)).2 = [(r, some k)] ∧
        ((Pool.run {} ops).step (.req r)).1.waiters = []) ∧
    (s.st = .idle → ((Pool.run {} ops).step (.req r)).2 = [] ∧
        ((Pool.run {} ops).step (.req r)).1.waiters = (Pool.run {} ops).waiters ++ [⟨.req r, k⟩] ∧
        ∀ w ∈ ((Pool.run {} ops).step (.req r)).1.waiters, w.on = k) := by
  have hi := run_inv ops PInv.init
  generalize Pool.run {} ops = p at hi hk
  have hn : p.next = some k := by
    by_cases hn : p.next = some k
    · exact hn
    · have := hi.others k s hk hn
      simp [USink.live, this] at hl
  refine ⟨hn, ?_⟩
  simp only [Pool.step]
  cases hst : s.st with
  | closed => simp [USink.live, hst] at hl
  | opened =>
    rw [get_opened (.req r) hn hk hst]
    exact ⟨rfl, hn, fun _ => ⟨rfl, no_waiters_of_opened hi k s hn hk (by rw [hst]; simp)⟩,
      (fun h => nomatch h)⟩
  | idle =>
    have hres := (hi.pend k s hk).2 hst
    rw [get_idle (.req r) hn hk hst hres]
    refine ⟨by simp [upd_length], hn, (fun h => nomatch h), fun _ => ⟨rfl, rfl, ?_⟩⟩
    intro w hw
    have := ((hi.reopen k s hn hk hst (.req r)).wait w hw).1
    rw [hn] at this
    simpa using this.symm

/-- Concurrent first requests: when the pending open of sink `k` completes successfully, every
    request that was waiting (all of them waited on `k`) is handed to sink `k`, in arrival
    order, nobody keeps waiting, and no sink is created. -/
theorem C16_singleton_shares_concurrent (ops : List SOp) (k : Nat)
    (hp : isPending (Pool.run {} ops) k = true) :
    ((Pool.run {} ops).step (.ok k)).2 = (reqsOf (Pool.run {} ops).waiters).map (fun r => (r, some k)) ∧
    ((Pool.run {} ops).step (.ok k)).1.waiters = [] ∧
    ((Pool.run {} ops).step (.ok k)).1.sinks.length = (Pool.run {} ops).sinks.length ∧
    (∀ w ∈ (Pool.run {} ops).waiters, w.on = k) ∧
    ((Pool.run {} ops).step (.ok k)).1.next = some k := by
  have hi := run_inv ops PInv.init
  generalize Pool.run {} ops = p at hi hp
  obtain ⟨h1, h2⟩ := filter_waiters_of_pending hi k hp
  have hn := hi.pending_is_next hp
  refine ⟨?_, ?_, ?_, ?_, ?_⟩
  · simp only [Pool.step, hp, if_true, Pool.release, h2, flatMap_fwdOf, hn]
  · simp only [Pool.step, hp, if_true, Pool.release, h1]
  · simp only [Pool.step, hp, if_true, Pool.release, upd_length]
  rotate_left
  · simp only [Pool.step, hp, if_true, Pool.release]; exact hn
  intro w hw
  have := (hi.wait w hw).1
  rw [hn] at this
  simpa using this.symm

/-- Every hand-over to a sink, in every step of every history, goes to the pool's current sink
    — the sink in the slot after the step, which is the one that was in the slot before it unless
    the step is a `Close()` with a request arriving from inside the underlying `Close()` (then it
    is the fresh sink that request created) — and every other sink is closed at that moment:
    requests are never spread over two connections. -/
theorem C16_singleton_forward_target (ops : List SOp) (op : SOp) (r k : Nat)
    (h : (r, some k) ∈ ((Pool.run {} ops).step op).2) :
    ((Pool.run {} ops).step op).1.next = some k ∧
    ((Pool.run {} ops).next = some k ∨ ∃ r', op = .pcloseR r') ∧
    ∀ i s, ((Pool.run {} ops).step op).1.sinks[i]? = some s → i ≠ k → s.st = .closed := by
  have hi := run_inv ops PInv.init
  generalize Pool.run {} ops = p at hi h
  have hinv := step_inv hi op
  have key : (p.step op).1.next = some k ∧ (p.next = some k ∨ ∃ r', op = .pcloseR r') := by
    rcases step_ok hi op with hs | ⟨k', r', hop, _, _, hp', hf⟩
    · rcases hs.fw with ⟨hf, _⟩ | ⟨k', hk', _, _, _, hf, htgt⟩
      · rw [hf] at h; cases h
      · rw [hf] at h
        simp only [List.mem_map, Prod.mk.injEq] at h
        obtain ⟨_, _, _, hnx⟩ := h
        rcases htgt with h1 | ⟨h1, _, _⟩
        · have hkk : k' = k := by rw [h1] at hnx; simpa using hnx
          subst hkk
          exact ⟨h1, Or.inl hk'⟩
        · rw [h1] at hnx; cases hnx
    · rw [hf] at h
      simp only [List.mem_map, Prod.mk.injEq, Option.some.injEq] at h
      obtain ⟨_, _, _, hnx⟩ := h
      subst hnx
      exact ⟨by rw [hp'], Or.inr ⟨r', hop⟩⟩
  refine ⟨key.1, key.2, fun i s hs' hik => ?_⟩
  exact hinv.others i s hs' (by rw [key.1]; simpa using fun h => hik h.symm)

/-- The one way a request leaves the pool without being handed to a sink (the real code does
    this: `_Get` re-reads `next_sink` after waiting for the open; outside what C16 demands): it
    was waiting for the open of the pool's sink when the pool's `Close()` closed that sink.  In
    every other step of every history every request that leaves `_Get` is handed to a sink. -/
theorem C16_singleton_lost_only_when_closed_during_open (ops : List SOp) (op : SOp) (r : Nat)
    (h : (r, none) ∈ ((Pool.run {} ops).step op).2) :
    (op = .pclose ∨ op = .pcloseY) ∧ r ∈ reqsOf (Pool.run {} ops).waiters ∧
    ((Pool.run {} ops).step op).1.next = none ∧
    liveCount ((Pool.run {} ops).step op).1.sinks = 0 := by
  have hi := run_inv ops PInv.init
  generalize Pool.run {} ops = p at hi h
  rcases step_ok hi op with hs | ⟨_, _, _, _, _, _, hf⟩
  · rcases hs.fw with ⟨hf, _⟩ | ⟨k', _, _, _, _, hf, htgt⟩
    · rw [hf] at h; cases h
    · rw [hf] at h
      simp only [List.mem_map, Prod.mk.injEq] at h
      obtain ⟨r', hr', rfl, hnx⟩ := h
      rcases htgt with h1 | ⟨h1, hcl, hac⟩
      · rw [h1] at hnx; cases hnx
      · have hop : op = .pclose ∨ op = .pcloseY := by cases op <;> simp [isClose] at hcl ⊢
        refine ⟨hop, ?_, h1, ?_⟩
        · rcases hop with hop | hop <;> subst hop <;> simpa [opReq] using hr'
        · rw [liveCount_eq_zero_iff]; exact hac
  · rw [hf] at h
    simp at h

/-- A sink that fails — a fault of the current sink at any time, or the failure of its pending
    open — leaves no live sink. -/
theorem C16_singleton_failed_not_live (ops : List SOp) (k : Nat)
    (hk : (Pool.run {} ops).next = some k) :
    liveCount ((Pool.run {} ops).step (.fault k)).1.sinks = 0 ∧
    (isPending (Pool.run {} ops) k = true →
      liveCount ((Pool.run {} ops).step (.fail k)).1.sinks = 0) := by
  have hi := run_inv ops PInv.init
  generalize Pool.run {} ops = p at hi hk
  have key : allClosed (upd p.sinks k USink.shut) := by
    rw [allClosed_iff]
    intro i s hs
    rw [getElem?_upd] at hs
    split at hs
    · cases ho : p.sinks[i]? with
      | none => simp [ho] at hs
      | some s0 => simp [ho] at hs; subst hs; simp [USink.shut]
    · rename_i hik
      exact hi.others i s hs (by rw [hk]; simpa using fun h => hik h.symm)
  constructor
  · rw [liveCount_eq_zero_iff]
    simp only [Pool.step]
    split <;> exact key
  · intro hp
    rw [liveCount_eq_zero_iff]
    simp only [Pool.step, hp, if_true, Pool.release]
    exact key

/-- Replaces: whenever no sink is live — at the start, after the sink has failed, after the
    pool closed it — the next request creates exactly one fresh sink, opens it (one `Open()`
    call, open pending), makes it the pool's current sink and waits for it; the failed sinks are
    left as they are. -/
theorem C16_singleton_replaces_failed (ops : List SOp) (r : Nat)
    (h : liveCount (Pool.run {} ops).sinks = 0) :
    ((Pool.run {} ops).step (.req r)).1.sinks = (Pool.run {} ops).sinks ++ [⟨.idle, .pending, 1, 0⟩] ∧
    ((Pool.run {} ops).step (.req r)).1.next = some (Pool.run {} ops).sinks.length ∧
    ⟨.req r, (Pool.run {} ops).sinks.length⟩ ∈ ((Pool.run {} ops).step (.req r)).1.waiters ∧
    ((Pool.run {} ops).step (.req r)).2 = [] := by
  have hi := run_inv ops PInv.init
  generalize Pool.run {} ops = p at hi h
  rw [liveCount_eq_zero_iff] at h
  have hg : p.get (.req r) = (p.create (.req r), []) := by
    rcases Option.eq_none_or_eq_some p.next with hn | ⟨k, hn⟩
    · exact get_none _ hn
    · have hlt := hi.nextLt k hn
      have hs : p.sinks[k]? = some p.sinks[k] := List.getElem?_eq_getElem hlt
      exact get_closed _ hn hs (h _ (List.getElem_mem hlt))
  rw [show p.step (.req r) = p.get (.req r) from rfl, hg]
  exact ⟨rfl, rfl, by simp [Pool.create], rfl⟩

/-- **A request arriving during `Close()`.**  The last holder closes the pool (`rc ≤ 1`, sink `k`
    in the slot) and, while the underlying `Close()` of sink `k` is still running, a request
    reaches the pool — (a) re-entrantly, from a caller whose in-flight request that `Close()` has
    just failed (`pcloseR r`), or (b) from another greenlet while that `Close()` is suspended at a
    yield (`pcloseY`, then `req r`).  In both cases the history ends with exactly one live
    connection, and it is the pool's: a fresh sink `n` (the only sink created), in the slot,
    being opened, with request `r` waiting for it; everything handed over in that step goes to
    it.  The end of the suspended `Close()` (`cresume`) then changes nothing, and a request
    re-submitted at that point (`cresumeR`) is an ordinary request — it shares sink `n`. -/
theorem C16_singleton_request_during_close (ops : List SOp) (r k : Nat)
    (hk : (Pool.run {} ops).next = some k) (hrc : (Pool.run {} ops).rc ≤ 1) :
    (∀ q f, (q, f) = (Pool.run {} ops).step (.pcloseR r) ∨
            (q, f) = ((Pool.run {} ops).step .pcloseY).1.step (.req r) →
      q.sinks.length = (Pool.run {} ops).sinks.length + 1 ∧
      q.next = some (Pool.run {} ops).sinks.length ∧
      (∃ s, q.sinks[(Pool.run {} ops).sinks.length]? = some s ∧ s.live = true ∧ s.opens = 1) ∧
      liveCount q.sinks = 1 ∧
      ⟨.req r, (Pool.run {} ops).sinks.length⟩ ∈ q.waiters ∧
      (∀ x ∈ f, x.2 = some (Pool.run {} ops).sinks.length)) ∧
    (∀ (q : Pool) (j r' : Nat), q.step (.cresume j) = (q, []) ∧
      q.step (.cresumeR j r') = q.step (.req r')) := by
  have hi := run_inv ops PInv.init
  generalize Pool.run {} ops = p at hi hk hrc
  have hrc' : p.rc - 1 ≤ 0 := by omega
  have hcl : allClosed (upd p.sinks k USink.callClose) :=
    allClosed_upd_next hi hk _ (fun s => by simp [USink.callClose, USink.shut])
  have hlive : liveCount (upd p.sinks k USink.callClose ++ [freshSink]) = 1 := by
    have := (liveCount_eq_zero_iff _).2 hcl
    simp only [liveCount, List.countP_append] at this ⊢
    rw [this]; rfl
  refine ⟨?_, fun q j r' => ⟨rfl, rfl⟩⟩
  intro q f hq
  rcases hq with hq | hq
  · have he : p.step (.pcloseR r) = p.closeR r := rfl
    rw [he, closeR_main hi r hk hrc'] at hq
    cases hq
    refine ⟨by simp [upd_length], rfl, ⟨freshSink, by simp [upd_length], rfl, rfl⟩, hlive,
      by simp, ?_⟩
    intro x hx
    simp only [List.mem_map] at hx
    obtain ⟨_, _, rfl⟩ := hx
    rfl
  · have he : (p.step .pcloseY).1 = p.close.1 := rfl
    obtain ⟨h1, h2⟩ := close_main hk hrc'
    rw [he, show p.close.1.step (.req r) = p.close.1.get (.req r) from rfl, get_none _ h1] at hq
    cases hq
    refine ⟨by simp [Pool.create, h2, upd_length], by simp [Pool.create, h2, upd_length],
      ⟨freshSink, by simp [Pool.create, h2, upd_length, freshSink], rfl, rfl⟩, ?_,
      by simp [Pool.create, h2, upd_length], fun x hx => by cases hx⟩
    simp only [Pool.create, h2]
    exact hlive

/-! ## RefCountedSink -/

/-- Open touches the underlying sink exactly at the transition 0 → 1 holders: the underlying
    `Open()` is called iff nobody held the sink, never `Close()`, and every Open — first or
    not — returns the result of the underlying open that is current. -/
theorem C16_refcount_open_iff_0_to_1 (ops : List ROp) (h : Nat) :
    (((RC.run {} ops).step (.ropen h)).1.opens = (RC.run {} ops).opens + 1 ↔ holders 0 ops = 0) ∧
    (((RC.run {} ops).step (.ropen h)).1.opens = (RC.run {} ops).opens ↔ holders 0 ops ≠ 0) ∧
    ((RC.run {} ops).step (.ropen h)).1.closes = (RC.run {} ops).closes ∧
    ((RC.run {} ops).step (.ropen h)).2 = ((RC.run {} ops).step (.ropen h)).1.opens ∧
    ((RC.run {} ops).step (.ropen h)).2 ≠ 0 := by
  have hi := RC.run_inv ops RInv.init
  have hc := RC.run_count ops {}
  generalize RC.run {} ops = s at hi hc
  rw [show (({} : RC).count) = 0 from rfl] at hc
  rw [← hc]
  obtain ⟨hb, ha⟩ := hi
  simp only [RC.step]
  by_cases h0 : s.count = 0
  · simp [h0]
  · have hp : 0 < s.count := Nat.pos_of_ne_zero h0
    have hb1 : s.opens = s.closes + 1 := by rw [hb]; simp [hp]
    simp [h0, ha hp]
    omega

/-- Close touches the underlying sink exactly at the transition 1 → 0 holders: the underlying
    `Close()` is called iff the caller was the last holder; the underlying `Open()` never. -/
theorem C16_refcount_close_iff_1_to_0 (ops : List ROp) (h : Nat) :
    (((RC.run {} ops).step (.rclose h)).1.closes = (RC.run {} ops).closes + 1 ↔ holders 0 ops = 1) ∧
    (((RC.run {} ops).step (.rclose h)).1.closes = (RC.run {} ops).closes ↔ holders 0 ops ≠ 1) ∧
    ((RC.run {} ops).step (.rclose h)).1.opens = (RC.run {} ops).opens := by
  have hc := RC.run_count ops {}
  generalize RC.run {} ops = s at hc
  rw [show (({} : RC).count) = 0 from rfl] at hc
  rw [← hc]
  simp only [RC.step]
  by_cases h0 : s.count = 0
  · simp [h0]
  · by_cases h1 : s.count = 1
    · simp [h1]
    · have : s.count - 1 ≠ 0 := by omega
      simp [h0, h1, this]

/-- A Close when nobody holds the sink changes nothing at all. -/
theorem C16_surplus_close_ignored (ops : List ROp) (h : Nat) (h0 : holders 0 ops = 0) :
    (RC.run {} ops).step (.rclose h) = (RC.run {} ops, 0) := by
  have hc := RC.run_count ops {}
  rw [show (({} : RC).count) = 0 from rfl, h0] at hc
  simp [RC.step, hc]

/-- After every history (faults of the underlying sink included) the underlying sink has been
    opened exactly once more than closed if somebody holds it, and exactly as often otherwise. -/
theorem C16_underlying_balance (ops : List ROp) :
    (RC.run {} ops).opens = (RC.run {} ops).closes + (if 0 < holders 0 ops then 1 else 0) ∧
    (RC.run {} ops).count = holders 0 ops := by
  have hi := RC.run_inv ops RInv.init
  have hc := RC.run_count ops {}
  rw [show (({} : RC).count) = 0 from rfl] at hc
  rw [← hc]
  exact ⟨hi.bal, rfl⟩

/-! ## SharedSinkProvider -/

/-- A holder is alive from its CreateSink until it drops its reference or asks again:
    operations of other holders, anybody's Open()/Close() and faults of underlying sinks do not
    affect what it holds. -/
theorem C16_holder_alive_until_it_drops (p : Prov) (h key : Nat) :
    (h, key, (p.step (.create h key)).2) ∈ (p.step (.create h key)).1.held ∧
    (∀ x ∈ p.held, ∀ h' key', x.1 ≠ h' →
      x ∈ (p.step (.create h' key')).1.held ∧ x ∈ (p.step (.drop h')).1.held) ∧
    (∀ h' s, (p.step (.hopen h')).1.held = p.held ∧ (p.step (.hclose h')).1.held = p.held ∧
      (p.step (.fault s)).1.held = p.held) := by
  refine ⟨?_, ?_, ?_⟩
  · simp only [Prov.step]
    split <;> (try split) <;> simp
  · intro x hx h' key' hne
    have hf : x ∈ p.held.filter (fun y => y.1 != h') := by
      rw [List.mem_filter]; exact ⟨hx, by simpa using hne⟩
    constructor
    · simp only [Prov.step]
      split <;> (try split) <;> simp [hf]
    · simp only [Prov.step]; exact hf
  · intro h' s
    refine ⟨?_, ?_, rfl⟩ <;> (simp only [Prov.step]; split <;> rfl)

/-- The same sharing key yields the same sink for as long as any holder is alive: if after any
    history — Open()/Close() calls by holders and faults of underlying sinks included, so
    whatever the state of the shared sink — holder `h` holds sink `s` obtained under key
    `key ≠ 0`, then CreateSink with that key, by anybody, returns `s`; the next provider is not
    asked for another underlying sink and no underlying sink is touched. -/
theorem C16_same_key_same_sink_while_alive (ops : List POp) (h key s h2 : Nat) (hk : key ≠ 0)
    (hh : (h, key, s) ∈ (Prov.run {} ops).held) :
    ((Prov.run {} ops).step (.create h2 key)).2 = s ∧
    ((Prov.run {} ops).step (.create h2 key)).1.created = (Prov.run {} ops).created ∧
    ((Prov.run {} ops).step (.create h2 key)).1.sinks = (Prov.run {} ops).sinks := by
  have hi := Prov.run_inv ops PInvP.init
  generalize Prov.run {} ops = p at hi hh
  have hs := create_same hi hh hk h2
  simp only at hs
  rw [hs]
  exact ⟨rfl, rfl, rfl⟩

/-- Exactly one shared sink per key while alive: after every history any two live holders that
    asked with the same sharing key hold the same sink — a `RefCountedSink` around one
    underlying sink that exists. -/
theorem C16_same_key_holders_hold_one_sink (ops : List POp) (x y : Hold)
    (hx : x ∈ (Prov.run {} ops).held) (hy : y ∈ (Prov.run {} ops).held)
    (hk : x.2.1 ≠ 0) (hxy : x.2.1 = y.2.1) :
    x.2.2 = y.2.2 ∧ 1 ≤ x.2.2 ∧ x.2.2 ≤ (Prov.run {} ops).created ∧
    (sinkAt (Prov.run {} ops).sinks x.2.2).shared = true := by
  have hi := Prov.run_inv ops PInvP.init
  generalize Prov.run {} ops = p at hi hx hy
  have h1 := hi.look x hx hk
  have h2 := hi.look y hy (by rw [← hxy]; exact hk)
  rw [hxy, h2] at h1
  obtain ⟨a, b, c⟩ := hi.hold x hx
  refine ⟨(Option.some.inj h1).symm, a, b, ?_⟩
  rw [c]; simpa using hk

/-- Exactly one underlying sink per key while alive: in every step of every history the next
    provider is asked for an underlying sink only by a CreateSink without sharing key or with a
    key under which no live holder holds a sink, and then for exactly one. -/
theorem C16_underlying_created_only_without_live_holder (ops : List POp) (op : POp) :
    ((Prov.run {} ops).step op).1.created = (Prov.run {} ops).created ∨
    (((Prov.run {} ops).step op).1.created = (Prov.run {} ops).created + 1 ∧
      ∃ h key, op = .create h key ∧ (key = 0 ∨ ∀ x ∈ (Prov.run {} ops).held, x.2.1 ≠ key)) := by
  have hi := Prov.run_inv ops PInvP.init
  generalize Prov.run {} ops = p at hi
  cases op with
  | drop h => exact Or.inl rfl
  | fault s => left; simp [Prov.step, Prov.created, modAt_length]
  | hopen h => left; simp only [Prov.step]; split <;> simp [Prov.created, modAt_length]
  | hclose h => left; simp only [Prov.step]; split <;> simp [Prov.created, modAt_length]
  | create h key =>
    by_cases hkey : key = 0
    · subst hkey
      rw [step_create_plain]
      exact Or.inr ⟨by simp [Prov.created], h, 0, rfl, Or.inl rfl⟩
    · cases hl : lookup p.cache key with
      | some s => rw [step_create_hit p h key s hkey hl]; exact Or.inl rfl
      | none =>
        rw [step_create_miss p h key hkey hl]
        refine Or.inr ⟨by simp [Prov.created], h, key, rfl, Or.inr ?_⟩
        intro x hx hxk
        have := hi.look x hx (by rw [hxk]; exact hkey)
        rw [hxk, hl] at this
        cases this

/-- Through the provider, too, a shared underlying sink is opened on the first Open and closed
    only when its last holder closes: after every history (faults included) every shared
    underlying sink has seen exactly one more `Open()` than `Close()` if some holder has it
    open, and exactly as many otherwise. -/
theorem C16_shared_underlying_balance (ops : List POp) (s : Nat)
    (hs : (sinkAt (Prov.run {} ops).sinks s).shared = true) :
    (sinkAt (Prov.run {} ops).sinks s).opens =
      (sinkAt (Prov.run {} ops).sinks s).closes + (if 0 < (sinkAt (Prov.run {} ops).sinks s).rc then 1 else 0) :=
  (Prov.run_inv ops PInvP.init).bal s hs

/-- A holder's Open()/Close() on the shared sink it holds reaches the underlying sink exactly at
    the transitions 0 → 1 and 1 → 0 of the wrapper's count, a surplus Close changes nothing, and
    no other sink is touched. -/
theorem C16_shared_open_close_at_transitions (ops : List POp) (h : Nat) (x : Hold)
    (hx : heldBy (Prov.run {} ops).held h = some x) (hk : x.2.1 ≠ 0) :
    let ps := sinkAt (Prov.run {} ops).sinks x.2.2
    let po := sinkAt ((Prov.run {} ops).step (.hopen h)).1.sinks x.2.2
    let pc := sinkAt ((Prov.run {} ops).step (.hclose h)).1.sinks x.2.2
    (po.opens = ps.opens + (if ps.rc = 0 then 1 else 0) ∧ po.closes = ps.closes ∧ po.rc = ps.rc + 1) ∧
    (pc.opens = ps.opens ∧ pc.closes = ps.closes + (if ps.rc = 1 then 1 else 0) ∧ pc.rc = ps.rc - 1) ∧
    (ps.rc = 0 → pc = ps) ∧
    (∀ s', s' ≠ x.2.2 →
      sinkAt ((Prov.run {} ops).step (.hopen h)).1.sinks s' = sinkAt (Prov.run {} ops).sinks s' ∧
      sinkAt ((Prov.run {} ops).step (.hclose h)).1.sinks s' = sinkAt (Prov.run {} ops).sinks s') := by
  have hi := Prov.run_inv ops PInvP.init
  generalize Prov.run {} ops = p at hi hx
  obtain ⟨h1, h2, h3⟩ := hi.hold x (heldBy_mem hx)
  have hsh : (sinkAt p.sinks x.2.2).shared = true := by rw [h3]; simpa using hk
  have ho : (p.step (.hopen h)).1.sinks = modAt p.sinks x.2.2 PSink.hopen := by simp [Prov.step, hx]
  have hc : (p.step (.hclose h)).1.sinks = modAt p.sinks x.2.2 PSink.hclose := by simp [Prov.step, hx]
  simp only [ho, hc]
  refine ⟨?_, ?_, ?_, ?_⟩
  · rw [sinkAt_modAt]; simp only [h1, h2, and_self, if_true]; exact hopen_of_shared _ hsh
  · rw [sinkAt_modAt]; simp only [h1, h2, and_self, if_true]; exact hclose_of_shared _ hsh
  · intro h0
    rw [sinkAt_modAt]; simp only [h1, h2, and_self, if_true]
    simp [PSink.hclose, hsh, h0]
  · intro s' hne
    exact ⟨sinkAt_modAt_ne _ _ _ _ (Ne.symm hne), sinkAt_modAt_ne _ _ _ _ (Ne.symm hne)⟩

/-- A transport fault of an underlying sink only closes that sink: it calls neither `Open()`
    nor `Close()`, leaves the wrapper's count, every other sink, the cache and what the
    holders hold as they are. -/
theorem C16_fault_only_closes (p : Prov) (s : Nat) (hs : 1 ≤ s ∧ s ≤ p.created) :
    sinkAt (p.step (.fault s)).1.sinks s = { sinkAt p.sinks s with st := .closed } ∧
    (∀ s', s' ≠ s → sinkAt (p.step (.fault s)).1.sinks s' = sinkAt p.sinks s') ∧
    (p.step (.fault s)).1.cache = p.cache ∧ (p.step (.fault s)).1.held = p.held := by
  refine ⟨?_, fun s' hne => sinkAt_modAt_ne _ _ _ _ (Ne.symm hne), rfl, rfl⟩
  show sinkAt (modAt p.sinks s PSink.ufault) s = _
  rw [sinkAt_modAt, if_pos ⟨rfl, hs.1, hs.2⟩]
  rfl

/-! ## the model's observations always satisfy the executable specifications

  `singleton.spec`, `refcount.spec`, `sharedprov.spec` are the predicates the harness
  evaluates on the implementation's observations. -/

theorem C16_singleton_model_satisfies_spec (cfg : Unit) (ops : List SOp)
    (_ : singleton.wf cfg ops = true) :
    singleton.spec cfg (singleton.modelTrace cfg ops) = .ok := by
  rw [show singleton = guarded singletonCore from rfl, guarded_model_spec]
  exact spec_singleton_go ops {} {} 0 PInv.init ⟨rfl, rfl⟩

theorem C16_refcount_model_satisfies_spec (cfg : Bool) (ops : List ROp)
    (_ : refcount.wf cfg ops = true) :
    refcount.spec cfg (refcount.modelTrace cfg ops) = .ok := by
  rw [show refcount = guarded refcountCore from rfl, guarded_model_spec]
  exact spec_refcount_go cfg ops {} {} 0 RInv.init ⟨rfl, rfl, rfl⟩

theorem C16_sharedprov_model_satisfies_spec (cfg : Unit) (ops : List POp)
    (_ : sharedprov.wf cfg ops = true) :
    sharedprov.spec cfg (sharedprov.modelTrace cfg ops) = .ok := by
  rw [show sharedprov = guarded sharedprovCore from rfl, guarded_model_spec]
  exact spec_sharedprov_go ops {} {} 0 PInvP.init PRel.init

/-- An exception that escapes the implementation where the model predicts a normal outcome is
    judged, never accepted: a history of outcomes of any of the three components that contains
    a raised outcome does not satisfy the component's specification. -/
theorem C16_raised_outcome_is_a_violation :
    (∀ (h : List (SOp × Res SObs)) op w, (op, Res.raised w) ∈ h → singleton.spec () h ≠ .ok) ∧
    (∀ (y : Bool) (h : List (ROp × Res RObs)) op w, (op, Res.raised w) ∈ h → refcount.spec y h ≠ .ok) ∧
    (∀ (h : List (POp × Res PObs)) op w, (op, Res.raised w) ∈ h → sharedprov.spec () h ≠ .ok) :=
  ⟨fun h op w hm => guardSpec_raised _ h op w hm, fun _ h op w hm => guardSpec_raised _ h op w hm,
   fun h op w hm => guardSpec_raised _ h op w hm⟩

/-- **C16, specification level**: for every history of each of the three components the
    model's observations satisfy the executable specification. -/
theorem C16_model_satisfies_spec :
    (∀ (ops : List SOp), singleton.wf () ops = true →
        singleton.spec () (singleton.modelTrace () ops) = .ok) ∧
    (∀ (y : Bool) (ops : List ROp), refcount.wf y ops = true →
        refcount.spec y (refcount.modelTrace y ops) = .ok) ∧
    (∀ (ops : List POp), sharedprov.wf () ops = true →
        sharedprov.spec () (sharedprov.modelTrace () ops) = .ok) :=
  ⟨fun ops h => C16_singleton_model_satisfies_spec () ops h,
   fun y ops h => C16_refcount_model_satisfies_spec y ops h,
   fun ops h => C16_sharedprov_model_satisfies_spec () ops h⟩

/-! non-vacuity: the hypotheses of the theorems above are met by concrete histories -/

-- two concurrent first requests wait on sink 0, which is pending
example : isPending (Pool.run {} [.req 1, .req 2]) 0 = true := by decide
example : ((Pool.run {} [.req 1, .req 2]).step (.ok 0)).2 = [(1, some 0), (2, some 0)] := by decide
-- the pool is closed while a request waits for the open: the request is handed to nobody
example : ((Pool.run {} [.popen, .req 1]).step .pclose).2 = [(1, none)] := by decide
-- the last holder closes the pool over an open sink; request 2 arrives from inside the underlying
-- Close(), or from another greenlet while that Close() is suspended: sink 1 is created, is the
-- pool's, and is the only live one
example : (Pool.run {} [.req 1, .ok 0]).next = some 0 ∧ (Pool.run {} [.req 1, .ok 0]).rc ≤ 1 := by decide
example : ((Pool.run {} [.req 1, .ok 0]).step (.pcloseR 2)).1.next = some 1 ∧
    liveCount ((Pool.run {} [.req 1, .ok 0]).step (.pcloseR 2)).1.sinks = 1 := by decide
example : (Pool.run {} [.req 1, .ok 0, .pcloseY, .req 2, .cresume 0]).next = some 1 ∧
    liveCount (Pool.run {} [.req 1, .ok 0, .pcloseY, .req 2, .cresume 0]).sinks = 1 := by decide
-- … and the greenlets that were waiting for the closed sink's open are handed to the fresh sink
example : ((Pool.run {} [.req 1]).step (.pcloseR 2)).2 = [(1, some 1)] := by decide
-- after a fault of the open sink nothing is live; the next request creates sink 1
example : liveCount (Pool.run {} [.req 1, .ok 0, .fault 0]).sinks = 0 := by decide
example : ((Pool.run {} [.req 1, .ok 0, .fault 0]).step (.req 2)).1.next = some 1 := by decide
-- a live, open sink exists
example : (Pool.run {} [.req 1, .ok 0]).sinks[0]? = some ⟨.opened, .done, 1, 0⟩ := by decide
-- holders: two opens, one close, surplus closes
example : holders 0 [.ropen 1, .ropen 2, .rclose 1] = 1 := by decide
example : holders 0 [.ropen 1, .rclose 1, .rclose 1, .rclose 2] = 0 := by decide
-- a holder holding a shared sink
example : (1, 7, 1) ∈ (Prov.run {} [.create 1 7, .create 2 7, .drop 2]).held := by decide
-- … which is Closed because its underlying sink faulted while two holders had it open, or
-- because its last holder closed it; a new holder of the key still gets sink 1
example : (1, 7, 1) ∈ (Prov.run {} [.create 1 7, .create 2 7, .hopen 1, .hopen 2, .fault 1]).held ∧
    (sinkAt (Prov.run {} [.create 1 7, .create 2 7, .hopen 1, .hopen 2, .fault 1]).sinks 1).st = .closed ∧
    ((Prov.run {} [.create 1 7, .create 2 7, .hopen 1, .hopen 2, .fault 1]).step (.create 3 7)).2 = 1 := by
  decide
example : (sinkAt (Prov.run {} [.create 1 7, .hopen 1, .hclose 1]).sinks 1).st = .closed ∧
    ((Prov.run {} [.create 1 7, .hopen 1, .hclose 1]).step (.create 2 7)).2 = 1 := by decide
-- a holder of a shared sink, as `heldBy` sees it
example : heldBy (Prov.run {} [.create 1 7, .hopen 1]).held 1 = some (1, 7, 1) := by decide
-- a key without live holder: the entry was collected, the next CreateSink makes sink 2
example : ((Prov.run {} [.create 1 7, .drop 1]).step (.create 2 7)).2 = 2 := by decide

end Scales.Shared
