/-
  Props/C09.lean — property C09: failed endpoints fail fast and are used again once reachable.

  Components (Adapter/Resurrector.lean, Adapter/ResPool.lean):
    `Res.comp`   ResurrectorSink over abstract channels, turn by turn   (Model/Resurrector.lean)
    `Pool.comp`  ResurrectorSink → WatermarkPoolSink → serial Thrift transport, at quiescence,
                 every operation's tasks under an arbitrary schedule, for every pool configuration
                 (min_watermark `lo` ∈ ℕ — with 0 the pool keeps no connection: the probe connection of
                 `Open()` / of a reconnection is closed again and every request opens its own —,
                 max_watermark `hi` ≥ 1)                                 (Model/ResChain.lean)
    `ResMux.comp` ResurrectorSink → ThriftMux SocketTransportSink (the chain the ThriftMux builder assembles;
                 no pool in between), at quiescence after every stimulus: connect accepted / refused, each
                 write and read of the connection (also bursts, and a fault between the dispatch of the
                 handshake's Rping and the resumption of the opener), the clock with the retry sleep, the 5 s
                 ping helper and the ping loop, traffic, `Close()`            (Model/ResMux.lean on Model/MuxT.lean)
    `Heap.comp9` HeapBalancerSink over channels whose state the environment sets (Model/Heap.lean,
                 Adapter/HeapC09.lean): the balancer's down list — a member whose channel is Open
                 again takes part in the choice again at the next dispatch (theorems `C09_heap_*`)

  Quantification: every configuration with `0 < init ≤ max` and a back-off function that grows
  below the maximum (`Grows`; for the adapters: a table of waits growing until capped), every operation list
  satisfying `wf` (the clock moves only when nothing is queued and never past the retry
  greenlet's wake instant; a channel is opened once and not after `Close()`), every reachability
  history, every placement of faults, connects, requests and `Close()` among the turns.
-/
import ScalesModel.Proofs.ResurrectorFacts
import ScalesModel.Proofs.ResPoolLemmas
import ScalesModel.Proofs.HeapC09
import ScalesModel.Proofs.ResMuxFacts
namespace Scales.Res
open Scales.Chain

/-- The executable specification (the predicate the harness evaluates on the implementation's
    observations) accepts the model's history, for every admissible configuration and operation
    list: fail-fast while known down, delays non-decreasing and capped, recovery within one
    maximum interval of the endpoint being reachable, traffic resumes, no connect after close. -/
theorem C09_model_satisfies_spec (cfg : Cfg) (ops : List Op) (h : comp.wf cfg ops = true) :
    comp.spec cfg (comp.modelTrace cfg ops) = .ok := by
  have h' : cfgWF cfg = true ∧ wfGo cfg.par {} false false ops = true := by
    simpa [comp, Bool.and_eq_true] using h
  exact spec_trace cfg h'.1 ops {} {} false false 0 (cpl_init cfg.par) h'.2

/-- The same for the resurrector over the real pool and transport (Thrift stack), for every pool
    configuration (any `min_watermark`, also 0; any `max_watermark ≥ 1`), whatever the order in
    which the tasks of each operation run. -/
theorem C09_model_satisfies_spec_respool (cfg : Pool.Cfg) (ops : List Pool.Op)
    (h : Pool.comp.wf cfg ops = true) : Pool.comp.spec cfg (Pool.comp.modelTrace cfg ops) = .ok := by
  have h' : (cfgWF cfg.r = true ∧ 1 ≤ cfg.w.hi) ∧ Pool.wfGo cfg.r.par cfg.w {} false false ops = true := by
    simpa [Pool.comp, Pool.cfgWF, Bool.and_eq_true] using h
  exact Pool.spec_trace cfg h'.1.1 h'.1.2 ops {} {} false false 0 (Pool.inv_init cfg.r.par) h'.2

/-- **recovery with every pool configuration, `min_watermark = 0` included.**  In every reachable
    state of the Thrift chain in which the resurrector fails fast with its retry greenlet asleep,
    whatever the pool's watermarks: the wake instant lies at most one maximum interval ahead; and
    if the endpoint accepts connections at that instant then — under every schedule of the
    attempt's tasks — the attempt makes exactly one connect, clears `_down_on`, installs the new
    pool as next sink and reports Open (although, with `min_watermark = 0`, the pool has closed the
    probe connection again), and the next request — under every schedule — is answered by the
    peer: on the kept connection (`min_watermark ≥ 1`, no connect) or on a connection of its own
    (`min_watermark = 0`, one connect), and the channel stays up. -/
theorem C09_respool_recovers_within_max (cfg : Pool.Cfg) (ops : List Pool.Op) (h : Pool.comp.wf cfg ops = true)
    (hd : (Pool.runOps cfg {} ops).mode = some .down) :
    (Pool.runOps cfg {} ops).now < (Pool.runOps cfg {} ops).wakeAt ∧
    (Pool.runOps cfg {} ops).wakeAt ≤ (Pool.runOps cfg {} ops).now + cfg.r.maxW ∧
    ((Pool.runOps cfg {} ops).reach = true → ∀ sched sched' : List Nat,
      (Pool.stepSt cfg.r.par cfg.w (Pool.runOps cfg {} ops)
        (.tick ((Pool.runOps cfg {} ops).wakeAt - (Pool.runOps cfg {} ops).now) sched)).mode = some .up ∧
      (Pool.obsOf (Pool.stepSt cfg.r.par cfg.w (Pool.runOps cfg {} ops)
        (.tick ((Pool.runOps cfg {} ops).wakeAt - (Pool.runOps cfg {} ops).now) sched))).connects = 1 ∧
      (Pool.obsOf (Pool.stepSt cfg.r.par cfg.w (Pool.runOps cfg {} ops)
        (.tick ((Pool.runOps cfg {} ops).wakeAt - (Pool.runOps cfg {} ops).now) sched))).down = false ∧
      (Pool.obsOf (Pool.stepSt cfg.r.par cfg.w (Pool.runOps cfg {} ops)
        (.tick ((Pool.runOps cfg {} ops).wakeAt - (Pool.runOps cfg {} ops).now) sched))).next =
          some (Pool.runOps cfg {} ops).pools ∧
      (Pool.obsOf (Pool.stepSt cfg.r.par cfg.w (Pool.runOps cfg {} ops)
        (.tick ((Pool.runOps cfg {} ops).wakeAt - (Pool.runOps cfg {} ops).now) sched))).state = .opened ∧
      (Pool.obsOf (Pool.stepSt cfg.r.par cfg.w (Pool.stepSt cfg.r.par cfg.w (Pool.runOps cfg {} ops)
        (.tick ((Pool.runOps cfg {} ops).wakeAt - (Pool.runOps cfg {} ops).now) sched))
        (.req false sched'))).resp = .ok ∧
      (Pool.obsOf (Pool.stepSt cfg.r.par cfg.w (Pool.stepSt cfg.r.par cfg.w (Pool.runOps cfg {} ops)
        (.tick ((Pool.runOps cfg {} ops).wakeAt - (Pool.runOps cfg {} ops).now) sched))
        (.req false sched'))).connects = (if 1 ≤ cfg.w.lo then 0 else 1) ∧
      (Pool.stepSt cfg.r.par cfg.w (Pool.stepSt cfg.r.par cfg.w (Pool.runOps cfg {} ops)
        (.tick ((Pool.runOps cfg {} ops).wakeAt - (Pool.runOps cfg {} ops).now) sched))
        (.req false sched')).mode = some .up) := by
  have h' : (cfgWF cfg.r = true ∧ 1 ≤ cfg.w.hi) ∧ Pool.wfGo cfg.r.par cfg.w {} false false ops = true := by
    simpa [Pool.comp, Pool.cfgWF, Bool.and_eq_true] using h
  obtain ⟨a, o, c, hI⟩ := Pool.inv_run cfg h'.1.1 h'.1.2 ops {} {} false false (Pool.inv_init cfg.r.par) h'.2
  exact Pool.recovers cfg h'.1.1 h'.1.2 _ a o c hI hd

/-- The chain-level core of it: for every pair of watermarks with `max_watermark ≥ 1` and every
    schedule, a reconnection attempt against a reachable endpoint ends — one connect made — in the
    quiescent state "up" of that configuration, and a request issued in that state against an
    answering peer ends there again, answered; it made a connect of its own exactly when
    `min_watermark = 0`. -/
theorem C09_respool_reconnect_every_watermark (w : WM) (hw : 1 ≤ w.hi) (sched sched' : List Nat) :
    Pool.outcome w (Pool.drain w (opWake (Pool.canon w .down true)) sched) = ⟨some .up, 1, .none, .none⟩ ∧
    Pool.outcome w (Pool.drain w (opReq (Pool.canon w .up true) false) sched') =
      ⟨some .up, if 1 ≤ w.lo then 0 else 1, .ok, .none⟩ := by
  refine ⟨by simpa using Pool.T_wake w hw true sched, ?_⟩
  have := Pool.T_req_up w hw true false sched'
  simpa [Pool.reqFails, Pool.keep] using this

/-- While the resurrector is in fail-fast mode (`_down_on` set) it has no next sink, and a request
    is answered FailedFast without reaching any sink — in every reachable state. -/
theorem C09_failfast_while_down (cfg : Cfg) (ops : List Op) (h : comp.wf cfg ops = true)
    (hd : (runOps cfg {} ops).down = true) :
    (runOps cfg {} ops).next = none ∧
    (doReq cfg.par (clearEv (runOps cfg {} ops))).2 = .ff ∧
    ∀ e ∈ (doReq cfg.par (clearEv (runOps cfg {} ops))).1.ev, isFwd e = false := by
  have h' : cfgWF cfg = true ∧ wfGo cfg.par {} false false ops = true := by
    simpa [comp, Bool.and_eq_true] using h
  obtain ⟨a, o, c, hC, _⟩ := cpl_run cfg h'.1 ops {} {} false false (cpl_init cfg.par) (Nat.le_refl _) h'.2
  obtain ⟨hn, _, _⟩ := down_no_next cfg.par _ a o c hC hd
  exact ⟨hn, req_failfast cfg.par _ hn⟩

/-- The waits of consecutive failed attempts never shrink and never exceed the maximum, whenever
    the back-off function does not shrink its argument below the maximum (`wait ** 1.2` for
    `wait ≥ 1`). -/
theorem C09_backoff_monotone_capped (p : Par) (hf : ∀ w, w ≤ p.maxW → w ≤ p.f w) (hi : p.init ≤ p.maxW)
    (k : Nat) : waits p k ≤ waits p (k + 1) ∧ waits p k ≤ p.maxW := by
  refine ⟨?_, waits_le_max p hi k⟩
  have hk := waits_le_max p hi k
  show waits p k ≤ nextWait p (waits p k)
  unfold nextWait
  exact Nat.le_min.mpr ⟨hf _ hk, hk⟩

/-- If the function grows below the maximum (`wait ** 1.2` for `wait > 1`), each wait is larger
    than the one before until the maximum is reached. -/
theorem C09_backoff_grows_until_capped (p : Par) (hf : Grows p) (hi : p.init ≤ p.maxW) (k : Nat) :
    waits p k < waits p (k + 1) ∨ waits p (k + 1) = p.maxW :=
  waits_strict p hf hi k

/-- … and these are the waits of the model: the first sleep of a down period lasts `init`, a
    refused attempt after a sleep of `w` is followed by a sleep of `min (f w) max`, starting at once. -/
theorem C09_backoff_follows_waits (p : Par) (s : St) (w : Nat) :
    (s.res = .start → s.down = true →
      (runTask p s .resStart).res = .sleep (s.now + waits p 0) (waits p 0)) ∧
    (s.reach = .down →
      (resWake p s w).res = .sleep (s.now + nextWait p w) (nextWait p w)) ∧
    (∀ k, s.res = .opening k w .fail →
      (runTask p s .resume).res = .sleep (s.now + nextWait p w) (nextWait p w)) := by
  refine ⟨?_, ?_, ?_⟩
  · intro h1 h2; simp [runTask, h1, h2, waits]
  · intro h; simp [resWake, createSink, openSink, resFailure, closeSink, emit, updSink, h]
  · intro k h; simp [runTask, h, resFailure, closeSink, emit, updSink]

/-- In every reachable fail-fast state whose retry greenlet is asleep, the wake instant is at
    most one maximum interval ahead; and if the endpoint is reachable at that instant, the attempt
    made then installs a fresh sink, leaves fail-fast mode, and the next request goes to that sink. -/
theorem C09_recovers_within_max (cfg : Cfg) (ops : List Op) (h : comp.wf cfg ops = true)
    (hd : (runOps cfg {} ops).down = true) (wk w : Nat) (hr : (runOps cfg {} ops).res = .sleep wk w) :
    (runOps cfg {} ops).now < wk ∧ wk ≤ (runOps cfg {} ops).now + cfg.maxW ∧
    ((runOps cfg {} ops).reach = .up →
      (doTick cfg.par (clearEv (runOps cfg {} ops)) (wk - (runOps cfg {} ops).now)).down = false ∧
      (doTick cfg.par (clearEv (runOps cfg {} ops)) (wk - (runOps cfg {} ops).now)).next =
        some (runOps cfg {} ops).sinks.length ∧
      (doReq cfg.par (clearEv (doTick cfg.par (clearEv (runOps cfg {} ops))
        (wk - (runOps cfg {} ops).now)))).2 = .fwd (runOps cfg {} ops).sinks.length) := by
  have h' : cfgWF cfg = true ∧ wfGo cfg.par {} false false ops = true := by
    simpa [comp, Bool.and_eq_true] using h
  obtain ⟨a, o, c, hC, hle⟩ := cpl_run cfg h'.1 ops {} {} false false (cpl_init cfg.par) (Nat.le_refl _) h'.2
  generalize runOps cfg {} ops = s at *
  obtain ⟨hlt, hub⟩ := sleep_bound cfg.par s a o c hC hle hd wk w hr
  obtain ⟨_, hsub, _⟩ := down_no_next cfg.par s a o c hC hd
  refine ⟨hlt, hub, ?_⟩
  intro hup
  have hdt : doTick cfg.par (clearEv s) (wk - s.now) =
      resWake cfg.par (advance (clearEv s) (wk - s.now)) w := by
    have : wk ≤ s.now + (wk - s.now) := by omega
    simp [doTick, hr, this]
  rw [hdt]
  obtain ⟨_, _, _, _, _, r6⟩ := resWake_fields cfg.par (advance (clearEv s) (wk - s.now)) w
    (by simpa using hd) (by simpa using hsub) (by simp)
  simp only [advance_fields, clearEv_fields, hup] at r6
  obtain ⟨t1, t2, _, _⟩ := r6
  refine ⟨t1, t2, ?_⟩
  simp [doReq, t2]

/-- After `Close()` the model makes no connect attempt, whatever follows (further opens of the
    closed channel are excluded by `wf`). -/
theorem C09_closed_stops_retry (cfg : Cfg) (ops1 ops2 : List Op)
    (h : comp.wf cfg (ops1 ++ Op.close :: ops2) = true) :
    ∀ x ∈ comp.trace cfg (runOps cfg {} (ops1 ++ [Op.close])) ops2, firstCreate x.2.ev = none := by
  have hspec := C09_model_satisfies_spec cfg _ h
  simp only [comp, TComp.modelTrace] at hspec
  change specGo cfg {} 0 (comp.trace cfg {} (ops1 ++ Op.close :: ops2)) = .ok at hspec
  have e : ops1 ++ Op.close :: ops2 = (ops1 ++ [Op.close]) ++ ops2 := by simp
  rw [e, trace_append, trace_append] at hspec
  have h1 := specGo_append cfg _ _ _ _ hspec
  rw [List.append_assoc] at hspec
  have h0 := specGo_append cfg _ _ _ _ hspec
  -- the state of the automaton after the `close` step is closed
  have hst : (specState cfg {} 0 (comp.trace cfg {} ops1 ++ comp.trace cfg (runOps cfg {} ops1) [Op.close])).closed
      = true := by
    have happ : ∀ (h1 h2 : List (Op × Obs)) (a : SS) (i : Nat),
        specState cfg a i (h1 ++ h2) = specState cfg (specState cfg a i h1) (i + h1.length) h2 := by
      intro h1
      induction h1 with
      | nil => intro h2 a i; rfl
      | cons y r ih =>
        intro h2 a i
        obtain ⟨op, o⟩ := y
        simp only [List.cons_append, specState, List.length_cons]
        rw [ih, show i + (r.length + 1) = i + 1 + r.length by omega]
    rw [happ]
    simp only [TComp.trace, specState]
    exact specStep_close_closed cfg _ _ _
  exact specGo_closed cfg _ hst _ _ h1

/-- Thrift stack, repaired code, every pool configuration (`max_watermark ≥ 1`): whenever the
    endpoint refuses the first connect, refuses a reconnection attempt, or the peer closes the
    connection under a request (a kept connection, or — `min_watermark = 0` — the request's own),
    the resurrector ends up in fail-fast mode with its retry greenlet asleep — under *every* order
    in which the subscription, notification, wake-up and request tasks run; and every schedule of
    at least `fuel` = 20 steps has run them all. -/
theorem C09_fault_reaches_resurrector_thrift (w : WM) (hw : 1 ≤ w.hi) (picks : List Nat) :
    ∀ c0 ∈ [opOpen (Pool.canon w .idle false), opWake (Pool.canon w .down false),
            opReq (Pool.canon w .up true) true, opReq (Pool.canon w .up false) true],
      (20 ≤ picks.length → (run w c0 picks).tasks = []) ∧
      ((run w c0 picks).tasks = [] → learned (run w c0 picks)) := by
  intro c0 hc0
  simp only [List.mem_cons, List.not_mem_nil, or_false] at hc0
  rcases hc0 with rfl | rfl | rfl | rfl
  · exact all_learned w hw (fun v => opOpen (Pool.canon v .idle false)) (by simp) (by decide) picks
  · exact all_learned w hw (fun v => opWake (Pool.canon v .down false)) (by simp) (by decide) picks
  · exact all_learned w hw (fun v => opReq (Pool.canon v .up true) true) (by simp) (by decide) picks
  · exact all_learned w hw (fun v => opReq (Pool.canon v .up false) true) (by simp) (by decide) picks

/-- With `min_watermark = 0` a request opens its own connection; if that connect is refused the
    fault signal of the transport the *caller* created crosses pool and resurrector all the same:
    fail-fast mode, retry greenlet asleep, under every schedule. -/
theorem C09_fault_reaches_resurrector_thrift_request_connect (w : WM) (hw : 1 ≤ w.hi) (hlo : w.lo = 0)
    (eof : Bool) (picks : List Nat) :
    (20 ≤ picks.length → (run w (opReq (Pool.canon w .up false) eof) picks).tasks = []) ∧
    ((run w (opReq (Pool.canon w .up false) eof) picks).tasks = [] →
      learned (run w (opReq (Pool.canon w .up false) eof) picks)) := by
  cases eof
  · exact all_learned_of _ w (clamp_mem_lo0 w hw hlo) (fun v => opReq (Pool.canon v .up false) false) (by simp)
      (by decide) picks
  · exact all_learned_of _ w (clamp_mem_lo0 w hw hlo) (fun v => opReq (Pool.canon v .up false) true) (by simp)
      (by decide) picks

/-- The code as found (F5: the pool subscribes after `Open().wait()` and `_OpenImpl` sets the pool
    Open after `_Release` closed it), shipped watermarks: under gevent's FIFO order a refused first
    connect leaves the resurrector up, with a pool that calls itself Open over a closed transport. -/
theorem C09_fault_reaches_resurrector_thrift_counterexample :
    let c := run {} (opOpen { Pool.canon {} .idle false with fixed := false }) (List.replicate 20 0)
    c.tasks = [] ∧ c.rDown = false ∧ c.rNext = true ∧ c.pSt = .opened ∧ c.tSt = .closed ∧ c.connects = 1 := by
  decide


/-! ### the balancer hop: `HeapBalancerSink.__Get`'s walk over the down list (component `heap9`)

  The ResurrectorSink below the balancer reconnects and reports Open again; the balancer resumes
  sending the member traffic only once the walk over its list of downed nodes takes the penalty
  off it.  `Heap.Inv` is the invariant of Props/C03.lean (preserved by every operation,
  `C03_inv_*`); the bound on the number of dispatches is the one of C03/C04 (below 2^31−1 a load
  ≥ 0 always means "marked down"). -/

/-- **recovery at the balancer, state level.**  In every state with the invariant, whatever the
    down list holds and in whatever order its nodes went down: every node that is in the heap with
    an Open channel when a dispatch starts is, when the dispatch returns, still in the heap, not
    marked down (load < 0: no penalty) and not on the down list — it competes for traffic again. -/
theorem C09_heap_open_member_marked_up (s : Heap.HS) (h : Heap.Inv s) (hb : s.reqs.length + 1 < 2147483647)
    (id : Nat) (hin : Heap.InHeap s id) (hop : (s.node id).chan = Heap.chOpen) :
    Heap.InHeap (s.get Heap.noHook).1 id ∧ ((s.get Heap.noHook).1.node id).chan = Heap.chOpen ∧
    ((s.get Heap.noHook).1.node id).load < 0 ∧ id ∉ (s.get Heap.noHook).1.down :=
  Heap.get_recovers_open s h hb id hin hop

/-- the same along histories: after every legal operation list (members joining and leaving,
    channels going down and coming back in any order, dispatches and completions in between) the
    next dispatch marks up every member whose channel is Open -/
theorem C09_heap_open_member_marked_up_reachable (ops : List Heap.Op) (hok : Heap.opsOk Heap.HS.init ops = true)
    (hb : Heap.getCount ops + 1 < 2147483647) (id : Nat)
    (hin : Heap.InHeap (Heap.runOps Heap.HS.init ops) id)
    (hop : ((Heap.runOps Heap.HS.init ops).node id).chan = Heap.chOpen) :
    Heap.InHeap ((Heap.runOps Heap.HS.init ops).get Heap.noHook).1 id ∧
    (((Heap.runOps Heap.HS.init ops).get Heap.noHook).1.node id).load < 0 ∧
    id ∉ ((Heap.runOps Heap.HS.init ops).get Heap.noHook).1.down := by
  obtain ⟨hi, hl⟩ := Heap.run_reqs_le ops Heap.HS.init Heap.Inv_init hok (by
    show 0 + Heap.getCount ops < Heap.maxReqs
    unfold Heap.maxReqs; omega)
  have hl' : (Heap.runOps Heap.HS.init ops).reqs.length ≤ Heap.getCount ops := by
    have : Heap.HS.init.reqs.length = 0 := rfl
    omega
  obtain ⟨a, _, c, d⟩ := Heap.get_recovers_open _ hi (by unfold Heap.maxReqs; omega) id hin hop
  exact ⟨a, c, d⟩

/-- **the recovered member is used again.**  An Open member with strictly fewer outstanding
    requests than every other Open member receives the dispatch — no matter whether it was on the
    down list before, where on the list it was, or which other members are still down. -/
theorem C09_heap_recovered_member_is_used (s : Heap.HS) (h : Heap.Inv s) (m : Nat) (hin : Heap.InHeap s m)
    (hop : (s.node m).chan = Heap.chOpen)
    (hleast : ∀ m', Heap.InHeap s m' → (s.node m').chan = Heap.chOpen → m' ≠ m → Heap.outOf s m < Heap.outOf s m') :
    (s.get Heap.noHook).2 = Heap.GetRes.node m (s.node m).ep s.reqs.length :=
  Heap.get_uses_recovered s h m hin hop hleast

/-- **C09 at the balancer hop, specification level.**  For every legal operation list with fewer
    than 2^31−1 dispatches (`wf` of the component, as for C03/C04) the model's history satisfies the
    executable specification `specC09`, the predicate the check evaluates on the observations of
    the real HeapBalancerSink: after every dispatch no member whose channel is Open is marked down. -/
theorem C09_heap_model_satisfies_spec (ops : List Heap.Op) (h : Heap.comp9.wf () ops = true) :
    Heap.comp9.spec () (Heap.comp9.modelTrace () ops) = Verdict.ok := by
  have h' : (Heap.opsOk Heap.HS.init ops && decide (Heap.getCount ops < 2147483647)) = true := h
  rw [Bool.and_eq_true, decide_eq_true_eq] at h'
  apply Heap.spec9_ok ops Heap.HS.init {} 0 Heap.Inv_init Heap.Sim0_init Heap.PrevOk_init h'.1
  show 0 + Heap.getCount ops < Heap.maxReqs
  unfold Heap.maxReqs; omega


/-! ### the ThriftMux stack: ResurrectorSink → SocketTransportSink (component `resmux`)

  Quantification: every configuration with `0 < init ≤ max`, a table of waits growing until capped
  and a positive ping period; every operation list satisfying `ResMux.comp.wf` (`Open()` once and
  first, `Close()` once, fresh request ids, I/O outcomes only for a greenlet that is blocked there,
  the clock never past an instant at which something is due) — every reachability history, every
  placement of refused connects, write errors, read errors, end-of-stream, bursts, ping silence
  and `Close()` relative to the handshakes, to traffic and to the retry sleep. -/

/-- **C09, ThriftMux chain, specification level.**  The executable specification evaluated on the
    real chain's observations accepts the model's history: fail-fast while the connection is down,
    delays between reconnection attempts growing and capped, an attempt within one maximum interval
    while the endpoint accepts connections, requests accepted once a handshake was answered, no
    connect after `Close()`. -/
theorem C09_mux_chain_model_satisfies_spec (cfg : ResMux.Cfg) (ops : List ResMux.Op)
    (h : ResMux.comp.wf cfg ops = true) :
    ResMux.comp.spec cfg (ResMux.comp.modelTrace cfg ops) = .ok :=
  ResMux.model_satisfies_spec cfg ops h

/-- In every reachable state in fail-fast mode (`_down_on` set) the resurrector has no next sink,
    and a request is answered FailedFast on the spot: nothing is connected, nothing is written,
    the state does not change. -/
theorem C09_mux_failfast_while_down (cfg : ResMux.Cfg) (ops : List ResMux.Op) (h : ResMux.comp.wf cfg ops = true)
    (hd : (ResMux.runOps cfg.par {} ops).down = true) (id : Nat) :
    (ResMux.runOps cfg.par {} ops).inst = false ∧
    ResMux.doReq cfg.par (ResMux.runOps cfg.par {} ops) id =
      (ResMux.runOps cfg.par {} ops, { dels := [(id, ResMux.RK.ff)] }) := by
  have hi := (ResMux.reach_inv cfg ops h).dn hd
  exact ⟨hi.1, by simp [ResMux.doReq, hi.1]⟩

/-- **the fault signal crosses transport → resurrector.**  In every reachable state in which the
    resurrector is subscribed to its transport, every connection failure of that transport (a
    refused connect does not arise here; a write that raises, a read that raises or meets
    end-of-stream — alone or behind other reads of a burst —, five seconds of ping silence; C08's
    `connFailure`) puts the resurrector into fail-fast mode within the same drain: `_down_on` set, no
    next sink, the retry greenlet asleep for the initial wait, the balancer notified once, and every
    request that was in flight handed a ClientError. -/
theorem C09_mux_fault_reaches_resurrector (cfg : ResMux.Cfg) (ops : List ResMux.Op)
    (h : ResMux.comp.wf cfg ops = true) (hsub : (ResMux.runOps cfg.par {} ops).sub = true) (op : MuxT.Op)
    (hf : MuxT.connFailure (ResMux.runOps cfg.par {} ops).tr op = true) :
    (ResMux.absorb cfg.par (ResMux.runOps cfg.par {} ops)
        (MuxT.stepOut (ResMux.runOps cfg.par {} ops).tr op).1 (MuxT.stepOut (ResMux.runOps cfg.par {} ops).tr op).2).1.down = true ∧
    (ResMux.absorb cfg.par (ResMux.runOps cfg.par {} ops)
        (MuxT.stepOut (ResMux.runOps cfg.par {} ops).tr op).1 (MuxT.stepOut (ResMux.runOps cfg.par {} ops).tr op).2).1.inst = false ∧
    (ResMux.absorb cfg.par (ResMux.runOps cfg.par {} ops)
        (MuxT.stepOut (ResMux.runOps cfg.par {} ops).tr op).1 (MuxT.stepOut (ResMux.runOps cfg.par {} ops).tr op).2).1.rg =
      .sleep ((ResMux.runOps cfg.par {} ops).now + cfg.init) cfg.init ∧
    (ResMux.absorb cfg.par (ResMux.runOps cfg.par {} ops)
        (MuxT.stepOut (ResMux.runOps cfg.par {} ops).tr op).1 (MuxT.stepOut (ResMux.runOps cfg.par {} ops).tr op).2).1.ups =
      (ResMux.runOps cfg.par {} ops).ups + 1 ∧
    ∀ q ∈ (ResMux.runOps cfg.par {} ops).tr.tagMap,
      (q.2, ResMux.RK.cerr) ∈ (ResMux.absorb cfg.par (ResMux.runOps cfg.par {} ops)
        (MuxT.stepOut (ResMux.runOps cfg.par {} ops).tr op).1 (MuxT.stepOut (ResMux.runOps cfg.par {} ops).tr op).2).2.dels := by
  have hc := ResMux.reach_inv cfg ops h
  generalize ResMux.runOps cfg.par {} ops = s at *
  have hdn : s.down = false := by
    cases hd : s.down with
    | false => rfl
    | true => have := (hc.dn hd).2.1; rw [hsub] at this; cases this
  have hinv := ResMux.inv_of s.tr hc.tr
  obtain ⟨g1, _, _⟩ := MuxT.shutdown_fails_all_once s.tr op hinv hf
  obtain ⟨_, g2, _⟩ := MuxT.closed_and_signalled s.tr op hinv hf
  obtain ⟨a1, a2, _, a4, a5, a6⟩ := ResMux.absorb_fault cfg.par s (MuxT.stepOut s.tr op).1 (MuxT.stepOut s.tr op).2
    hsub hdn (hc.up hdn) (by omega)
  refine ⟨a1, a2, a4, a5, ?_⟩
  intro q hq
  have := a6 (q.2, Transport.Resp.cerr) (by rw [g1]; exact List.mem_map.mpr ⟨q, hq, rfl⟩)
  exact this

/-- The retry sleeps follow the back-off: a reconnection attempt whose connect is refused, and one
    whose handshake fails — whichever step fails it: a write or read error, end-of-stream, five
    seconds without an Rping, a fault right behind the Rping — is followed at once by a sleep of
    `min (f w) max`, `w` being the sleep before it.  (The first sleep of a down period lasts the
    initial wait: `C09_mux_fault_reaches_resurrector`; the sequence grows and is capped:
    `C09_backoff_monotone_capped`, `C09_backoff_grows_until_capped`.) -/
theorem C09_mux_backoff_follows_waits (p : ResMux.P) (s : ResMux.St) (w : Nat) (hsub : s.sub = false) :
    (s.reach = false →
      (ResMux.resWake p s w).1.rg = .sleep (s.now + nextWait p.r w) (nextWait p.r w) ∧
      (ResMux.resWake p s w).2.conns = 1) ∧
    (∀ (t' : MuxT.St) (o : MuxT.Out), s.rg = .opening w → t'.openRes = .failed →
      (ResMux.absorb p s t' o).1.rg = .sleep (s.now + nextWait p.r w) (nextWait p.r w) ∧
      (ResMux.absorb p s t' o).1.inst = s.inst ∧ (ResMux.absorb p s t' o).1.down = s.down) := by
  refine ⟨?_, ?_⟩
  · intro hr
    rw [ResMux.resWake_down p s w hr hsub]
    exact ⟨rfl, rfl⟩
  · intro t' o hrg hfl
    obtain ⟨a, b, c, _⟩ := ResMux.absorb_failed p s t' o w hrg hsub hfl
    exact ⟨a, c, b⟩

/-- **recovery.**  In every reachable fail-fast state whose retry greenlet is asleep, the wake
    instant is at most one maximum interval ahead.  If the endpoint accepts connections at that
    instant, the greenlet connects then (one connect); and if the peer takes the Tping and answers
    it (write ok, header read ok, Rping read), the resurrector leaves fail-fast mode, has the new
    transport installed and reports Open; the next request is not answered on the spot, is entered
    in the tag map and queued for transmission (every successful write of the send loop then puts
    the head of the queue on the wire: `C08_mux_open_carries`). -/
theorem C09_mux_recovers_within_max (cfg : ResMux.Cfg) (ops : List ResMux.Op) (h : ResMux.comp.wf cfg ops = true)
    (wk w : Nat) (hr : (ResMux.runOps cfg.par {} ops).rg = .sleep wk w) :
    (ResMux.runOps cfg.par {} ops).now < wk ∧ wk ≤ (ResMux.runOps cfg.par {} ops).now + cfg.maxW ∧
    ((ResMux.runOps cfg.par {} ops).reach = true →
      (ResMux.doTick cfg.par (ResMux.runOps cfg.par {} ops) (wk - (ResMux.runOps cfg.par {} ops).now)).2.conns = 1 ∧
      (ResMux.doBurst cfg.par (ResMux.doBurst cfg.par (ResMux.doWr cfg.par
        (ResMux.doTick cfg.par (ResMux.runOps cfg.par {} ops) (wk - (ResMux.runOps cfg.par {} ops).now)).1
        .ok).1 [(.ok, .junk)]).1 [(.ok, .rping)]).1.down = false ∧
      (ResMux.doBurst cfg.par (ResMux.doBurst cfg.par (ResMux.doWr cfg.par
        (ResMux.doTick cfg.par (ResMux.runOps cfg.par {} ops) (wk - (ResMux.runOps cfg.par {} ops).now)).1
        .ok).1 [(.ok, .junk)]).1 [(.ok, .rping)]).1.inst = true ∧
      ResMux.stateOf (ResMux.doBurst cfg.par (ResMux.doBurst cfg.par (ResMux.doWr cfg.par
        (ResMux.doTick cfg.par (ResMux.runOps cfg.par {} ops) (wk - (ResMux.runOps cfg.par {} ops).now)).1
        .ok).1 [(.ok, .junk)]).1 [(.ok, .rping)]).1 = .opened ∧
      ∀ id,
        (ResMux.doReq cfg.par (ResMux.doBurst cfg.par (ResMux.doBurst cfg.par (ResMux.doWr cfg.par
          (ResMux.doTick cfg.par (ResMux.runOps cfg.par {} ops) (wk - (ResMux.runOps cfg.par {} ops).now)).1
          .ok).1 [(.ok, .junk)]).1 [(.ok, .rping)]).1 id).2.dels = [] ∧
        (ResMux.tagOf id, id) ∈ (ResMux.doReq cfg.par (ResMux.doBurst cfg.par (ResMux.doBurst cfg.par (ResMux.doWr cfg.par
          (ResMux.doTick cfg.par (ResMux.runOps cfg.par {} ops) (wk - (ResMux.runOps cfg.par {} ops).now)).1
          .ok).1 [(.ok, .junk)]).1 [(.ok, .rping)]).1 id).1.tr.tagMap ∧
        MuxT.Item.req (ResMux.tagOf id) id ∈ MuxT.qItems (ResMux.doReq cfg.par (ResMux.doBurst cfg.par
          (ResMux.doBurst cfg.par (ResMux.doWr cfg.par
          (ResMux.doTick cfg.par (ResMux.runOps cfg.par {} ops) (wk - (ResMux.runOps cfg.par {} ops).now)).1
          .ok).1 [(.ok, .junk)]).1 [(.ok, .rping)]).1 id).1.tr) := by
  have h' : ResMux.cfgWF cfg = true := by
    have := h; simp only [ResMux.comp, Bool.and_eq_true] at this; exact this.1
  exact ResMux.recovers cfg.par (ResMux.ph_of_cfg cfg h') _ (ResMux.reach_inv cfg ops h) wk w hr

/-- After `Close()` the chain makes no connect attempt, whatever follows: clock ticks past every
    timer, traffic, the outcome of I/O on a connection whose handshake was still in progress. -/
theorem C09_mux_closed_stops_connects (cfg : ResMux.Cfg) (ops1 ops2 : List ResMux.Op)
    (h : ResMux.comp.wf cfg (ops1 ++ ResMux.Op.close :: ops2) = true) :
    ∀ x ∈ ResMux.comp.trace cfg (ResMux.runOps cfg.par {} (ops1 ++ [ResMux.Op.close])) ops2, x.2.conns = 0 := by
  have h' : ResMux.cfgWF cfg = true ∧ ResMux.wfGo cfg.par {} false false [] (ops1 ++ ResMux.Op.close :: ops2) = true := by
    simpa [ResMux.comp, Bool.and_eq_true] using h
  exact ResMux.closed_stops_connects cfg (ResMux.ph_of_cfg cfg h'.1) ops2 ops1 {} false false []
    (ResMux.ginv_init cfg.par) h'.2

/-- **a transport that failed while opening is never installed (finding F16).**  In every reachable
    state in which the retry greenlet is opening a transport whose receive loop waits for a frame's
    body: if that frame is the handshake's Rping and the read behind it fails before the opener
    has resumed, the open fails — the resurrector stays in fail-fast mode with no next sink, the
    transport is closed, and the retry greenlet backs off.  (The code as found reported the
    transport Open; the resurrector installed it with a closed socket.) -/
theorem C09_mux_rping_then_fault_is_not_open (cfg : ResMux.Cfg) (ops : List ResMux.Op)
    (h : ResMux.comp.wf cfg ops = true) (w : Nat) (hr : (ResMux.runOps cfg.par {} ops).rg = .opening w)
    (hb : (ResMux.runOps cfg.par {} ops).tr.rl = .body) (o : Transport.IOOut) (ho : o ≠ .ok) :
    (ResMux.doRace cfg.par (ResMux.runOps cfg.par {} ops) .rping o).1.inst = false ∧
    (ResMux.doRace cfg.par (ResMux.runOps cfg.par {} ops) .rping o).1.down = true ∧
    (ResMux.doRace cfg.par (ResMux.runOps cfg.par {} ops) .rping o).1.rg =
      .sleep ((ResMux.runOps cfg.par {} ops).now + nextWait cfg.par.r w) (nextWait cfg.par.r w) ∧
    (ResMux.doRace cfg.par (ResMux.runOps cfg.par {} ops) .rping o).1.tr.cstate = .closed := by
  have hc := ResMux.reach_inv cfg ops h
  generalize ResMux.runOps cfg.par {} ops = s at *
  obtain ⟨o1, _, _⟩ := hc.og w hr
  have hdn : s.down = true := by
    cases hd : s.down with
    | true => rfl
    | false => have := hc.up hd; rw [hr] at this; cases this
  obtain ⟨hin, hsub, _⟩ := hc.dn hdn
  obtain ⟨ts, tc, _⟩ := ResMux.tstep_race hc.tr hb .rping o ho
  have hfl := ts.fail o1 tc
  obtain ⟨a, b, c, _⟩ := ResMux.absorb_failed cfg.par s _ (ResMux.raceT s.tr .rping o).2 w hr hsub hfl
  obtain ⟨_, f2, _⟩ := ResMux.settle_facts cfg.par s _ ts.inv
  refine ⟨by show (ResMux.absorb cfg.par s _ _).1.inst = false; rw [c]; exact hin,
    by show (ResMux.absorb cfg.par s _ _).1.down = true; rw [b]; exact hdn, a, ?_⟩
  show (ResMux.absorb cfg.par s _ _).1.tr.cstate = _
  rw [ResMux.absorb_tr, f2]; exact tc

/-! ### the hypotheses are satisfiable -/

/-- three members; 0 and 1 go down one after the other (1 is the head of the down list, 0 behind
    it), 0 comes back first (non-LIFO), dispatches in between, then 1 comes back -/
def c09HeapHist : List Heap.Op :=
  [.join 7, .join 8, .join 9, .chan 0 2, .chan 1 2, .chan 2 2, .get, .chan 0 4, .get, .get, .chan 1 4, .get, .get,
   .chan 0 2, .get, .put 0 0, .chan 1 2, .get, .get]

set_option maxRecDepth 8000 in
example : Heap.comp9.wf () c09HeapHist = true := by
  simp [Heap.comp9, c09HeapHist, Heap.wfOps, Heap.opsOk, Heap.getCount, Heap.step, Heap.HS.join,
    Heap.HS.addSink,
    Heap.HS.fixUp, Heap.HS.fixDown, Heap.HS.init, Heap.HS.size, Heap.HS.at, Heap.HS.idAt, Heap.HS.node, Heap.Node.lt,
    Heap.HS.swap, Heap.HS.setIndex, Heap.HS.setNode,
    Heap.HS.setChan, Heap.HS.get, Heap.HS.getLoop, Heap.HS.scan, Heap.noHook, Heap.HS.put, Heap.HS.putNode,
    Heap.HS.putDraws, Heap.Idle, Heap.Penalty, Heap.chOpen]

/-- the specification is not vacuous: a history in which member 0 is Open at a dispatch and still
    carries the penalty afterwards is rejected -/
example : Heap.specC09 () [(.join 7, ⟨none, [⟨0, 7, Heap.Idle, 1, 0⟩], [], []⟩),
      (.chan 0 2, ⟨none, [⟨0, 7, 3, 1, 0⟩], [], []⟩),
      (.get, ⟨some (.node 0 7 0), [⟨0, 7, 4, 1, 0⟩], [], []⟩)] =
    .fail "open-member-still-marked-down" [V.ofNat 2, V.ofNat 0] := by
  rfl

example : cfgWF defaultCfg = true := by decide
example : ∀ w ∈ defaultCfg.table, w ≤ defaultCfg.par.f w ∧ (w < defaultCfg.maxW → w < defaultCfg.par.f w) := by decide
example : Grows defaultCfg.par := cfg_grows defaultCfg (by decide)
example : comp.wf ⟨5, 60, [5, 7, 10]⟩
    [.opn, .req, .fault 0, .turn, .req, .reach .down, .tick 5, .tick 7, .reach .up, .tick 10, .req, .close] = true := by
  decide
example : Pool.comp.wf ⟨⟨5, 60, [5, 7, 10]⟩, {}⟩
    [.reach false, .opn [], .req false [], .tick 5 [2, 1], .reach true, .tick 7 [], .req true [1], .close []] = true := by
  decide
/-- `min_watermark = 0`: down at first connect, a refused and an accepted reconnection, a request
    on a connection of its own, one whose own connect is refused, fail-fast, recovery, `Close()` -/
example : Pool.comp.wf ⟨⟨5, 60, [5, 7, 10]⟩, ⟨0, 1⟩⟩
    [.reach false, .opn [], .req false [], .tick 5 [2, 1], .reach true, .tick 7 [], .req false [1],
     .reach false, .req false [], .req false [], .reach true, .tick 5 [], .req true [0, 2], .close []] = true := by
  decide
/-- … and the hypothesis of `C09_respool_recovers_within_max` is met on the way -/
example : (Pool.runOps ⟨⟨5, 60, [5, 7, 10]⟩, ⟨0, 1⟩⟩ {}
    [.reach false, .opn [], .req false [], .tick 5 [2, 1], .reach true]).mode = some .down := by
  decide
/-- the specification is not vacuous for a pool that keeps nothing: the observations of the seeded
    change `C09-openimpl-tests-probe-sink` (the successful probe of a reconnection is taken for a
    failure: the endpoint accepted the connect, the client keeps failing fast) are rejected -/
example : Pool.spec ⟨⟨5, 60, [5, 7, 10]⟩, ⟨0, 1⟩⟩
    [(.reach false, ⟨none, false, .idle, .none, 0, 0, .none, 0, 0, [], true⟩),
     (.opn [], ⟨none, true, .closed, .sleep 5, 1, 0, .none, 1, 1, [.closed], true⟩),
     (.reach true, ⟨none, true, .closed, .sleep 5, 0, 0, .none, 1, 1, [.closed], true⟩),
     (.tick 5 [], ⟨none, true, .closed, .sleep 7, 1, 0, .none, 1, 2, [.closed], true⟩),
     (.req false [], ⟨none, true, .closed, .sleep 7, 0, 0, .ff, 1, 2, [.closed], true⟩)] =
    .fail "not-resumed" [V.ofNat 4, Pool.encResp .ff] := by
  rfl


/-- the ThriftMux chain: down at first connect, a refused and an accepted reconnection, the handshake, traffic,
    end-of-stream, fail-fast, `Close()` while a reconnection's handshake is in progress -/
example : ResMux.comp.wf ⟨5, 60, [5, 7, 10], 30⟩
    [.reach false, .opn, .req 1, .tick 5, .reach true, .tick 7, .wr .ok, .rd .ok .junk, .rd .ok .rping, .req 2,
     .wr .ok, .rd .ok .junk, .rd .ok (.reply 2), .rd .eof .junk, .req 3, .tick 5, .rd .ok .junk, .race .rping .raise, .tick 7,
     .close, .tick 5, .tick 100] = true := by
  decide

/-- the specification is not vacuous: the observations of the code as found on the failing replay of F16 (the
    transport reported Open after `_Shutdown`, the resurrector installed it, a request was accepted) are rejected -/
example : ResMux.spec ⟨5000000, 60000000, [5000000, 6898648], 30000000⟩
    [(.reach false, ⟨none, false, .idle, .none, 0, 0, [], [], 0, 0, .idle, [], none⟩),
     (.opn, ⟨none, true, .closed, .sleep 5000000, 1, 0, [], [], 1, 1, .closed, [], some 5000000⟩),
     (.reach true, ⟨none, true, .closed, .sleep 5000000, 0, 0, [], [], 1, 1, .closed, [], some 5000000⟩),
     (.tick 5000000, ⟨none, true, .closed, .opening, 1, 1, [], [], 1, 2, .idle, [], some 5000000⟩),
     (.rd .ok .junk, ⟨none, true, .closed, .opening, 0, 1, [], [], 1, 2, .idle, [], some 5000000⟩),
     (.race .rping .raise, ⟨some 1, false, .opened, .none, 0, 0, [], [], 1, 2, .opened, [], some 30000000⟩),
     (.req 1, ⟨some 1, false, .opened, .none, 0, 0, [], [], 1, 2, .opened, [1], some 30000000⟩)] =
    .fail "failfast" [V.ofNat 6, V.ofNat 1, V.ofNat 0] := by
  rfl

end Scales.Res
