/-
  Props/C15.lean — property theorems for C15 (Kafka produce requests and responses are
  well-formed for every input).  Statements only rely on Model/KafkaCodec.lean and
  Adapter/KafkaCodec.lean; helper lemmas live in Proofs/KafkaCodecLemmas.lean.

  Quantification: every client id `cid`, correlation id `tag`, `acks`, topic, partition and
  list of payloads (arbitrary byte lists, arbitrary lengths); every produce / metadata
  response whose fields fit their wire formats (`prWF`, `mWF`); every in-flight map.  No size
  bounds other than those of the wire formats themselves, which are characterised exactly by
  `C15_request_encodable_iff`.
-/
import ScalesModel.Proofs.KafkaCodecLemmas
namespace Scales.Kafka

/-- the bitwise CRC-32 of the model is the standard one: check value of "123456789" -/
theorem C15_crc_check_value :
    crc32 [0x31, 0x32, 0x33, 0x34, 0x35, 0x36, 0x37, 0x38, 0x39] = 0xCBF43926 := by
  decide +kernel

/-- on byte strings the CRC is a 32-bit value, so the `& 0xffffffff` of the serializer and the
    `% 2^32` of the parser are the identity -/
theorem C15_crc_is_32_bit (bs : Bytes) (h : ∀ b ∈ bs, b < 256) :
    crc32 bs % 4294967296 = crc32 bs :=
  Nat.mod_eq_of_lt (crc32_lt bs h)

/-- A produce request is written exactly when every field fits its wire format: acks in int16,
    topic and client id at most 32767 bytes, partition and correlation id in int32, and the
    whole request (34 + client id + topic + 26 per message + payload bytes) within the int32
    size prefix.  For all other inputs nothing is written (the caller gets an error). -/
theorem C15_request_encodable_iff (cid : Bytes) (tag acks : Int) (topic : Bytes) (partition : Int)
    (payloads : List Bytes) :
    (produceRequest cid tag acks topic partition payloads).isSome = true ↔
      ((-32768 ≤ acks ∧ acks ≤ 32767) ∧ topic.length ≤ 32767 ∧
       (-2147483648 ≤ partition ∧ partition ≤ 2147483647) ∧ cid.length ≤ 32767 ∧
       34 + cid.length + topic.length + msgSetLen payloads ≤ 2147483647 ∧
       (-2147483648 ≤ tag ∧ tag ≤ 2147483647)) := by
  rw [produceRequest_isSome_iff]
  unfold putDomain requestSize
  simp only [Bool.and_eq_true, decide_eq_true_eq, inI16_def, inI32_def]
  constructor
  · rintro ⟨⟨⟨⟨⟨h1, h2⟩, h3⟩, h4⟩, h5⟩, h6⟩; exact ⟨h1, h2, h3, h4, h5, h6⟩
  · rintro ⟨h1, h2, h3, h4, h5, h6⟩; exact ⟨⟨⟨⟨⟨h1, h2⟩, h3⟩, h4⟩, h5⟩, h6⟩

/-- Header (after F10): the request is the int32 size of everything that follows, API key 0,
    API version 0, the correlation id, the client id as an int16-prefixed string, then the
    serialized body. -/
theorem C15_header_fields (cid : Bytes) (tag acks : Int) (topic : Bytes) (partition : Int)
    (payloads : List Bytes) (r : Bytes)
    (h : produceRequest cid tag acks topic partition payloads = some r) :
    ∃ body, produceBody acks topic partition payloads = some body ∧
      r = i32 (10 + (cid.length : Int) + (body.length : Int)) ++ i16 0 ++ i16 0 ++ i32 tag ++
          i16 (cid.length : Int) ++ cid ++ body := by
  obtain ⟨body, hb, _, _, _, hr⟩ := produceRequest_shape cid tag acks topic partition payloads r h
  exact ⟨body, hb, hr⟩

/-- Sizes: the size prefix read back as an int32 is the number of bytes that follow it, and the
    request ends with the message set, preceded by its length as an int32, which is the
    `msg_set_len` the serializer computed. -/
theorem C15_sizes_consistent (cid : Bytes) (tag acks : Int) (topic : Bytes) (partition : Int)
    (payloads : List Bytes) (r : Bytes)
    (h : produceRequest cid tag acks topic partition payloads = some r) :
    rdI32 r = some (((r.length - 4 : Nat) : Int), r.drop 4) ∧
    ∃ pre ms, r = pre ++ i32 (ms.length : Int) ++ ms ∧ encMessages payloads = some ms ∧
      ms.length = msgSetLen payloads := by
  obtain ⟨body, hb, c1, _, _, hr⟩ := produceRequest_shape cid tag acks topic partition payloads r h
  obtain ⟨_, _, _, _, ms, h5, hbody⟩ := produceBody_some _ _ _ _ _ hb
  have hl := (encMessages_parse payloads ms h5).1
  constructor
  · subst hr
    simp only [List.append_assoc]
    rw [rdI32_i32 _ c1]
    have e1 : ((i32 (10 + (cid.length : Int) + (body.length : Int)) ++
        (i16 0 ++ (i16 0 ++ (i32 tag ++ (i16 (cid.length : Int) ++ (cid ++ body)))))).length - 4 : Nat)
          = 10 + cid.length + body.length := by
      simp; omega
    rw [e1, List.drop_left' (i32_length _)]
    congr 2
  · refine ⟨i32 (10 + (cid.length : Int) + (body.length : Int)) ++ i16 0 ++ i16 0 ++ i32 tag ++
        i16 (cid.length : Int) ++ cid ++ (i16 acks ++ i32 1000 ++ i32 1 ++
        (i16 (topic.length : Int) ++ topic) ++ i32 1 ++ i32 partition), ms, ?_, h5, hl⟩
    rw [hr, hbody, hl]
    simp only [List.append_assoc]

/-- Sizes, per message: offset (8 bytes), then the int32 message size, then exactly that many
    bytes: 4 of Crc and `10 + len(payload)` of magic, attributes, null key and value. -/
theorem C15_message_size (p m : Bytes) (h : encMessage p = some m) :
    ∃ rest, m = i64 0 ++ i32 (rest.length : Int) ++ rest ∧ rest.length = p.length + 14 := by
  rw [encMessage_eq] at h
  split at h
  · injection h with h
    refine ⟨be 4 (crc32 (msgCovered p) % 4294967296) ++ msgCovered p, ?_, ?_⟩
    · rw [← h]
      have : ((be 4 (crc32 (msgCovered p) % 4294967296) ++ msgCovered p).length : Int)
          = (p.length : Int) + 14 := by
        simp [be_length, msgCovered_length]; omega
      rw [this]
      simp only [List.append_assoc]
    · simp [be_length, msgCovered_length]; omega
  · cases h

/-- CRC: in every message the serializer writes, the Crc field (bytes 12–15) is the CRC-32 of
    all the bytes after it (magic byte … value), which are `msgCovered p`. -/
theorem C15_crc_verifies (p m : Bytes) (h : encMessage p = some m) :
    m.drop 16 = msgCovered p ∧
    rdU32 (m.drop 12) = some (crc32 (m.drop 16) % 4294967296, m.drop 16) := by
  rw [encMessage_eq] at h
  split at h
  · injection h with h
    subst h
    have h12 : (i64 0 ++ i32 ((p.length : Int) + 14)).length = 12 := by simp
    have h16 : (i64 0 ++ i32 ((p.length : Int) + 14) ++ be 4 (crc32 (msgCovered p) % 4294967296)).length = 16 := by
      simp [be_length]
    have d16 : (i64 0 ++ i32 ((p.length : Int) + 14) ++ be 4 (crc32 (msgCovered p) % 4294967296) ++
        msgCovered p).drop 16 = msgCovered p := List.drop_left' h16
    have d12 : (i64 0 ++ i32 ((p.length : Int) + 14) ++ be 4 (crc32 (msgCovered p) % 4294967296) ++
        msgCovered p).drop 12 = be 4 (crc32 (msgCovered p) % 4294967296) ++ msgCovered p := by
      rw [List.append_assoc]; exact List.drop_left' h12
    rw [d16, d12]
    exact ⟨rfl, rdU32_be _ (Nat.mod_lt _ (by decide)) _⟩
  · cases h

/-- Round trip: the broker-side parser, which accepts a request only if every declared size
    matches the bytes present and nothing is left over, reads back API key 0, version 0, the
    correlation id, the client id, the acks, one topic, one partition and one message per
    payload, in order, each with the payload as value, a null key, magic 0, attributes 0 and a
    Crc field equal to the CRC-32 the parser computes itself (`expectedMsg`). -/
theorem C15_request_roundtrip (cid : Bytes) (tag acks : Int) (topic : Bytes) (partition : Int)
    (payloads : List Bytes) (r : Bytes)
    (h : produceRequest cid tag acks topic partition payloads = some r) :
    parseRequest r = some (expectedProduce cid tag acks topic partition payloads) :=
  parse_produce cid tag acks topic partition payloads r h

/-- Produce responses: whatever the broker encodes (fields within their formats) under any
    correlation id, with any trailing bytes, decodes to exactly the topic / partition / error /
    offset rows encoded, in order. -/
theorem C15_produce_response_roundtrip (corr : Int) (r : List PRTopic) (rest : Bytes)
    (h : prWF r = true) :
    decodeReply .produce (i32 corr ++ (encProduceResp r ++ rest)) = .produce (flattenPR r) := by
  unfold decodeReply
  simp only [List.drop_left' (i32_length corr), decProduceResp_enc r h rest]

/-- Metadata responses: the decoded broker and topic dictionaries are exactly the brokers
    (node id ↦ id, host, port) and, per topic, the partitions (id ↦ topic, id, leader,
    replicas, isr) the broker encoded, in order. -/
theorem C15_metadata_response_roundtrip (corr : Int) (m : MResp) (rest : Bytes)
    (h : mWF m = true) :
    decodeReply .metadata (i32 corr ++ (encMetadataResp m ++ rest)) = .metadata (metaPlain m) := by
  unfold decodeReply
  simp only [List.drop_left' (i32_length corr), decMetadataResp_enc m h rest, metaView_plain m h]

/-- Routing: a reply frame is delivered to the request registered under its correlation id, and
    only to it; that request leaves the map, every other stays; a reply under a correlation id
    nobody waits for is delivered to nobody.  `fl` is any in-flight map with distinct tags
    (C11's guarantee; `C15_inflight_tags_distinct` shows the model keeps it). -/
theorem C15_reply_routed_by_correlation_id (fl : List InFlight) (corr : Int) (body : Bytes)
    (hc : inI32 corr = true) (hl : lenOk (4 + body.length) = true)
    (hn : (fl.map (·.tag)).Nodup) :
    (∀ e ∈ fl, e.tag = corr →
      routeReply fl (replyFrame corr body) =
        (removeTag corr fl, [(e.id, decodeReply e.kind (i32 corr ++ body))]) ∧
      ∀ x ∈ fl, x ≠ e → x ∈ removeTag corr fl) ∧
    ((∀ e ∈ fl, e.tag ≠ corr) → routeReply fl (replyFrame corr body) = (fl, [])) := by
  constructor
  · intro e he hec
    have hlk := lookupTag_of_mem_nodup fl e hn he
    rw [hec] at hlk
    refine ⟨?_, ?_⟩
    · unfold routeReply
      rw [recvFrame_reply corr body hc hl]
      simp only [hlk]
    · intro x hx hxe
      apply removeTag_keeps fl corr x hx
      intro hxc
      apply hxe
      have h1 := lookupTag_of_mem_nodup fl x hn hx
      rw [hxc, hlk] at h1
      injection h1 with h1
      exact h1.symm
  · intro hall
    have hnone : lookupTag corr fl = none := by
      cases hlk : lookupTag corr fl with
      | none => rfl
      | some e =>
        exfalso
        have hmem : ∀ (l : List InFlight), lookupTag corr l = some e → e ∈ l ∧ e.tag = corr := by
          intro l
          induction l with
          | nil => intro h; cases h
          | cons x xs ih =>
            intro h
            unfold lookupTag at h
            split at h
            · rename_i hx; injection h with h; subst h; exact ⟨by simp, hx⟩
            · obtain ⟨h1, h2⟩ := ih h; exact ⟨List.mem_cons_of_mem _ h1, h2⟩
        obtain ⟨h1, h2⟩ := hmem fl hlk
        exact hall e h1 h2
    unfold routeReply
    rw [recvFrame_reply corr body hc hl]
    simp only [hnone]

/-- the model's in-flight map has distinct tags in every state reachable by a legal history -/
theorem C15_inflight_tags_distinct (cfg : Cfg) (ops : List Op) (h : comp.wf cfg ops = true) :
    ((run cfg ⟨[]⟩ ops).inflight.map (·.tag)).Nodup :=
  run_nodup cfg ops ⟨[]⟩ (by simp) h

/-- The executable specification (`spec`, the predicate the harness evaluates on the
    implementation's observations) holds of the model's own history, for every client id and
    every history in which each request reaching the transport got an int32 tag that was not
    in flight and fits a frame, and each reply frame's size and correlation id are int32. -/
theorem C15_model_satisfies_spec (cfg : Cfg) (ops : List Op) (h : comp.wf cfg ops = true) :
    spec cfg (comp.modelTrace cfg ops) = .ok :=
  spec_trace cfg ops ⟨[]⟩ 0 h

/-- the specification has teeth: the observation of the unrepaired code (F10: every request
    raises `struct.error` in `_BuildHeader`) is rejected for every encodable request -/
theorem C15_unrepaired_header_counterexample (cfg : Cfg) (id : Nat) (tag acks : Int) (topic : Bytes)
    (partition : Int) (payloads : List Bytes) (h : putDomain cfg acks topic partition payloads = true) :
    spec cfg [(.put id tag acks topic partition payloads, .raised)] =
      .fail "request-raised" [V.ofNat 0] := by
  simp [spec, specGo, specStep, h, Verdict.and]

/-! ### the hypotheses are satisfiable on non-trivial instances -/

/-- a history with an accepted and a rejected request, a metadata request, replies of both
    kinds, a reply of the wrong kind, an unknown correlation id and arbitrary bytes is legal -/
example : comp.wf ⟨[115, 99]⟩
    [.put 0 2 1 [116] 3 [[1, 2, 3], []], .put 1 0 40000 [116] 3 [], .mdreq 2 3,
     .presp 2 [⟨[116], [⟨3, 0, 5⟩]⟩],
     .mresp 3 ⟨[⟨0, [104], 9092⟩], [⟨0, [116], [⟨0, 3, 0, [0, 1], [0]⟩]⟩]⟩,
     .put 3 2 (-1) [] (-2147483648) [[255]], .mresp 2 ⟨[], []⟩, .presp 77 [], .raw 9 [1, 2]] = true := by
  decide +kernel

example : (produceRequest [115] 2 1 [116] 3 [[1, 2, 3], []]).isSome = true := by decide +kernel

example : prWF [⟨[116], [⟨3, 0, 5⟩, ⟨4, -1, 9223372036854775807⟩]⟩, ⟨[], []⟩] = true := by decide +kernel

example : mWF ⟨[⟨0, [104], 9092⟩, ⟨1, [], -1⟩],
    [⟨0, [116], [⟨0, 3, 0, [0, 1], [0]⟩, ⟨9, 4, -1, [], []⟩]⟩, ⟨3, [], []⟩]⟩ = true := by decide +kernel

end Scales.Kafka
