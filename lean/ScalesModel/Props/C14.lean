/-
  Props/C14.lean — property theorems for C14 (framed Thrift calls and replies agree with the
  Thrift library's codec).  Statements rely on Model/ThriftCodec.lean and
  Adapter/ThriftCodec.lean; helper lemmas live in Proofs/ThriftCodecLemmas.lean.

  Quantification: `name` any method name, `args`/`v` any value of the value language (bool,
  i32, i64, string/binary, struct, nested to any depth) whose integers, lengths and field ids
  are in range (`wf`), `sig` any result-class shape (void or not, any list of declared
  exception ids, gaps allowed), `r` any reply the server side can produce, `ps` any chunking
  of the byte stream into non-empty pieces.  No bound on sizes or depths.

  Second component (Model/ThriftShared.lean, Adapter/ThriftShared.lean): one serializer behind
  several connections, several calls open at once.  `cfg` is any interface (any list of result
  class shapes with distinct method names), `ops` any interleaving of the operations of any
  number of calls (call k sent on connection c / answered / the next n bytes of its reply
  delivered / its connection closed by the server).  No bound on the number of calls,
  connections or pieces.
-/
import ScalesModel.Proofs.ThriftCodecLemmas
import ScalesModel.Proofs.ThriftSharedLemmas
namespace Scales.ThriftCodec

/-- The frame is a 4-byte prefix followed by the payload, and the prefix read as a signed
    big-endian integer (`unpack('!i')`) is the payload's length. -/
theorem C14_frame_prefix_is_length (payload : Bytes) (h : payload.length < 2147483648) :
    ∃ pfx, frame payload = pfx ++ payload ∧ pfx.length = 4 ∧ (∀ b ∈ pfx, b < 256) ∧
      toSigned 4 (fromBE pfx) = (payload.length : Int) := by
  obtain ⟨ht, _, _, hsz⟩ := frame_prefix payload h
  refine ⟨encInt 4 payload.length, rfl, encInt_length _ _, ?_, ?_⟩
  · intro b hb; exact beNat_lt _ _ b hb
  · rw [← ht]; exact hsz

/-- What scales sends for a call is the frame of a strict binary-protocol CALL message with
    sequence id 0 carrying exactly the method name and the arguments: the decoder of the
    binary protocol applied to the bytes after the length prefix returns them. -/
theorem C14_call_roundtrip (name : Bytes) (args : TFields) (hn : name.length < 2147483648)
    (hw : args.wf = true) (hl : (callPayload name args).length < 2147483648) :
    (callBytes name args).length = (callPayload name args).length + 4 ∧
    decMsg ((callBytes name args).drop 4) = some ⟨name, mtCall, 0, args⟩ := by
  obtain ⟨_, hd, hlen, _⟩ := frame_prefix _ hl
  refine ⟨hlen, ?_⟩
  unfold callBytes
  rw [hd]
  exact decMsg_enc ⟨name, mtCall, 0, args⟩ hn fits4_zero hw

/-- Everything in a framed call is a byte (the model's byte strings are lists of naturals):
    provided the method name and the string/binary arguments consist of bytes. -/
theorem C14_call_bytes_are_bytes (name : Bytes) (args : TFields) (hn : ∀ b ∈ name, b < 256)
    (hb : args.bytesOk = true) : ∀ b ∈ callBytes name args, b < 256 := by
  intro b hm
  simp only [callBytes, frame, List.mem_append] at hm
  rcases hm with hm | hm
  · exact encInt_lt _ _ b hm
  · exact encMsg_lt ⟨name, mtCall, 0, args⟩ hn (by simp [mtCall]) hb b hm

/-- decode ∘ encode = id for every value, whatever follows it in the buffer and for every
    amount of fuel not smaller than the encoding's length + 1. -/
theorem C14_value_roundtrip (v : TVal) (rest : Bytes) (fuel : Nat) (hw : v.wf = true)
    (hf : (encVal v).length + 1 ≤ fuel) :
    decVal fuel (tyCode v) (encVal v ++ rest) = some (v, rest) :=
  decVal_enc v fuel rest hw (Nat.le_trans (needV_le v) hf)

/-- the same for a struct's field list (arguments, results, exception structs) -/
theorem C14_struct_roundtrip (fs : TFields) (rest : Bytes) (fuel : Nat) (hw : fs.wf = true)
    (hf : (encFields fs).length ≤ fuel) :
    decFields fuel (encFields fs ++ rest) = some (fs, rest) :=
  decFields_enc fs fuel rest hw (Nat.le_trans (needF_le fs) hf)

/-- `readAll(n)` over any chunking of the stream into non-empty pieces: it never runs out of
    fuel; if the stream has at least `n` bytes the result is its first `n` bytes and what is
    left is the rest of the stream; otherwise (and only then) it is EOF. -/
theorem C14_readAll_chunk_independent (n : Nat) (ps : List Bytes) (hne : ∀ p ∈ ps, p ≠ []) :
    (n ≤ ps.flatten.length →
       ∃ rest, readAll n ps = .ok (ps.flatten.take n) rest ∧ rest.flatten = ps.flatten.drop n ∧
               (∀ p ∈ rest, p ≠ [])) ∧
    (ps.flatten.length < n → readAll n ps = .eof) ∧
    (readAll n ps = .eof → ps.flatten.length < n) := by
  obtain ⟨h1, h2⟩ := readAll_spec n ps hne
  refine ⟨h1, h2, ?_⟩
  intro he
  by_cases hlt : ps.flatten.length < n
  · exact hlt
  · obtain ⟨rest, hr, _⟩ := h1 (by omega)
    rw [hr] at he; cases he

/-- The caller-visible outcome of the client's read path (length prefix, payload,
    deserialize, decide) depends only on the bytes of the stream, not on how they are split
    across socket reads — for every stream, well-formed or not. -/
theorem C14_outcome_chunk_independent (sig : Sig) (ps ps' : List Bytes)
    (hne : ∀ p ∈ ps, p ≠ []) (hne' : ∀ p ∈ ps', p ≠ []) (h : ps.flatten = ps'.flatten) :
    clientOutcome sig ps = clientOutcome sig ps' := by
  rw [clientOutcome_eq_stream sig ps hne, clientOutcome_eq_stream sig ps' hne', h]

/-- The reply decision: whatever reply `r` the server side wrote for the method, however the
    frame is chunked and whatever follows it on the stream, the caller gets `expected sig r`. -/
theorem C14_reply_decision (sig : Sig) (r : Reply) (ps : List Bytes) (extra : Bytes)
    (hne : ∀ p ∈ ps, p ≠ []) (hflat : ps.flatten = replyBytes sig.name r ++ extra)
    (hn : sig.name.length < 2147483648) (hw : replyWf r = true)
    (hl : (encMsg (replyMsg sig.name r)).length < 2147483648) :
    clientOutcome sig ps = expected sig r := by
  rw [clientOutcome_eq_stream sig ps hne, hflat]
  exact streamOutcome_full sig r extra hn hw hl

/-- `expected`, spelled out: an EXCEPTION message is raised as the library's error carrying the
    application exception; a success field is the return value; a declared exception that
    is set is raised as the library's error carrying it; a void result with nothing set is
    `None`; a non-void result with nothing set is the MISSING_RESULT application exception,
    raised as an error. -/
theorem C14_reply_decision_table (sig : Sig) :
    (∀ ty msg, expected sig (.app ty msg) = .err true (.app ty msg)) ∧
    (∀ v, sig.nonvoid = true → expected sig (.result (.cons 0 v .nil)) = .val v) ∧
    (∀ fid v, fid ∈ sig.declared → (sig.nonvoid = true → fid ≠ 0) →
        expected sig (.result (.cons fid v .nil)) = .err true (.declared fid v)) ∧
    (sig.nonvoid = false → expected sig (.result .nil) = .none_) ∧
    (sig.nonvoid = true →
        expected sig (.result .nil) = .err true (.app 5 (some (missingMsg sig.name)))) := by
  refine ⟨fun _ _ => rfl, ?_, ?_, ?_, ?_⟩
  · intro v hv
    simp [expected, hv, TFields.lookup]
  · intro fid v hmem hz
    have hfd := firstDeclared_single fid v sig.declared hmem
    cases hnv : sig.nonvoid with
    | false => simp [expected, hfd, hnv]
    | true =>
      have : fid ≠ 0 := hz hnv
      simp [expected, TFields.lookup, this, hfd, hnv]
  · intro hv
    simp [expected, hv, firstDeclared_nil]
  · intro hv
    simp [expected, hv, TFields.lookup, firstDeclared_nil]

/-- A reply frame cut short anywhere (inside the length prefix or inside the payload) ends in
    EOFError, for every chunking of what did arrive. -/
theorem C14_truncated_reply_is_eof (sig : Sig) (payload : Bytes) (k : Nat) (ps : List Bytes)
    (hne : ∀ p ∈ ps, p ≠ []) (hl : payload.length < 2147483648) (hk : k < (frame payload).length)
    (hflat : ps.flatten = (frame payload).take k) :
    clientOutcome sig ps = .err true .eof := by
  rw [clientOutcome_eq_stream sig ps hne, hflat]
  exact streamOutcome_trunc sig payload k hl hk

/-- The executable specification the harness evaluates on the implementation's observations
    holds of the model's own observations, for every method shape and every operation list
    within the hypotheses `wf` (values in range, replies a generated Processor can produce). -/
theorem C14_codec_model_satisfies_spec (cfg : Cfg) (ops : List Op) (h : wf cfg ops = true) :
    spec cfg (comp.modelTrace cfg ops) = .ok := by
  simp only [wf, Bool.and_eq_true, List.all_eq_true] at h
  obtain ⟨hcfg, hops⟩ := h
  exact specGo_trace cfg hcfg ops 0 0 hops

/-! ### one serializer, several connections, several calls open at once -/

open Scales.ThriftShared in
/-- Non-interference, over all interleavings: the operations of call `k` and what is observed
    at them (the bytes sent for it, the reply frame, what its caller has got after every
    delivery) inside ANY history — whatever other calls are made, answered, delivered or cut off
    in between — are exactly the history of the operations of call `k` run alone.
    Unconditional: it holds for every interface and every operation list. -/
theorem C14_calls_independent (cfg : ThriftShared.Cfg) (ops : List ThriftShared.Op) (k : Nat) :
    (ThriftShared.comp.modelTrace cfg ops).filter (fun p => decide (p.1.id = k))
      = ThriftShared.comp.modelTrace cfg (ops.filter (fun op => decide (op.id = k))) := by
  show (ThriftShared.comp.trace cfg ThriftShared.St.init ops).filter _
    = ThriftShared.comp.trace cfg ThriftShared.St.init _
  rw [ThriftShared.comp_trace_eq, ThriftShared.comp_trace_eq]
  exact ThriftShared.run_filter cfg k ops _ _ rfl

/-- The result class a reply is decided with is named by the reply: for the reply message the
    server wrote for method number `m` of an interface with distinct method names, the shared
    serializer's decision is the decision with the result class of method `m` — `expected`. -/
theorem C14_result_class_named_by_reply (cfg : ThriftShared.Cfg) (m : Nat) (sig : Sig) (r : Reply)
    (hd : ThriftShared.distinctNames cfg = true) (hm : cfg[m]? = some sig) :
    ThriftShared.decideI cfg (replyMsg sig.name r) = expected sig r :=
  ThriftShared.decideI_replyMsg cfg m sig r hd hm

/-- The reply decision under interleaving.  In any history whose operations of call `k` are:
    the call of method `m` (on any connection, with any arguments), the server's answer `r`,
    and deliveries of sizes covering the whole reply frame — with the operations of any other
    calls anywhere in between — the last thing observed for call `k` is that its caller has got
    `expected sig r`: the return value for a normal reply, the library's error carrying the
    declared / application exception, `None` for a void result. -/
theorem C14_interleaved_reply_decision (cfg : ThriftShared.Cfg) (ops : List ThriftShared.Op)
    (k m c : Nat) (args : TFields) (r : Reply) (sizes : List Nat) (sig : Sig)
    (hcfg : ThriftShared.cfgOk cfg = true) (hm : cfg[m]? = some sig)
    (hproj : ops.filter (fun op => decide (op.id = k))
      = .call k m c args :: .answer k r :: sizes.map (.chunk k))
    (hw : replyWf r = true) (hl : (encMsg (replyMsg sig.name r)).length < 2147483648)
    (hcov : (replyBytes sig.name r).length ≤ listSum sizes) :
    ∃ n, ((ThriftShared.comp.modelTrace cfg ops).filter (fun p => decide (p.1.id = k))).getLast?
      = some (.chunk k n, .out (some (expected sig r))) := by
  rw [C14_calls_independent, hproj]
  show ∃ n, (ThriftShared.comp.trace cfg ThriftShared.St.init _).getLast? = _
  rw [ThriftShared.comp_trace_eq]
  simp only [ThriftShared.cfgOk, Bool.and_eq_true, List.all_eq_true, decide_eq_true_eq] at hcfg
  have hn : sig.name.length < 2147483648 := hcfg.1 sig (List.mem_of_getElem? hm)
  have hne : sizes ≠ [] := by
    intro e
    have h4 : (frame (encMsg (replyMsg sig.name r))).length = (encMsg (replyMsg sig.name r)).length + 4 :=
      (frame_prefix _ hl).2.2.1
    have h5 : (replyBytes sig.name r).length = (frame (encMsg (replyMsg sig.name r))).length := rfl
    rw [e] at hcov; simp only [listSum] at hcov; omega
  obtain ⟨o1, o2, s2, hrun, hs2⟩ := ThriftShared.run_alone_prefix cfg k m c args r sig hm (sizes.map (.chunk k))
  obtain ⟨n, hn'⟩ := ThriftShared.run_chunks_last cfg k sizes s2 _ hs2 rfl hne
  refine ⟨n, ?_⟩
  have hne2 : ThriftShared.run cfg s2 (sizes.map (.chunk k)) ≠ [] := by
    intro e; rw [e] at hn'; simp at hn'
  rw [hrun, List.getLast?_cons_of_ne_nil (by simp), List.getLast?_cons_of_ne_nil hne2, hn']
  simp only [ThriftShared.Call.outcome, ThriftShared.Call.pieces, ThriftShared.Call.stream, hm, List.nil_append]
  rw [ThriftShared.sharedOutcome_splitBy cfg m sig r sizes false hcfg.2 hm hn hw hl]
  have hflat : (splitBy sizes (replyBytes sig.name r)).flatten = replyBytes sig.name r ++ [] := by
    rw [splitBy_flatten_full _ _ hcov]; simp
  have hc : clientOutcome sig (splitBy sizes (replyBytes sig.name r)) = expected sig r := by
    rw [clientOutcome_eq_stream sig _ (splitBy_nonempty _ _), hflat]
    exact streamOutcome_full sig r [] hn hw hl
  simp [hcov, hc]

/-- Nothing is reported early: under the same conditions but with deliveries that do NOT cover
    the reply frame (and the connection still up), the caller of call `k` is still pending after
    the last delivery. -/
theorem C14_pending_until_complete (cfg : ThriftShared.Cfg) (ops : List ThriftShared.Op)
    (k m c : Nat) (args : TFields) (r : Reply) (sizes : List Nat) (sig : Sig)
    (hcfg : ThriftShared.cfgOk cfg = true) (hm : cfg[m]? = some sig)
    (hproj : ops.filter (fun op => decide (op.id = k))
      = .call k m c args :: .answer k r :: sizes.map (.chunk k))
    (hw : replyWf r = true) (hl : (encMsg (replyMsg sig.name r)).length < 2147483648)
    (hne : sizes ≠ []) (hshort : listSum sizes < (replyBytes sig.name r).length) :
    ∃ n, ((ThriftShared.comp.modelTrace cfg ops).filter (fun p => decide (p.1.id = k))).getLast?
      = some (.chunk k n, .out none) := by
  rw [C14_calls_independent, hproj]
  show ∃ n, (ThriftShared.comp.trace cfg ThriftShared.St.init _).getLast? = _
  rw [ThriftShared.comp_trace_eq]
  simp only [ThriftShared.cfgOk, Bool.and_eq_true, List.all_eq_true, decide_eq_true_eq] at hcfg
  have hn : sig.name.length < 2147483648 := hcfg.1 sig (List.mem_of_getElem? hm)
  obtain ⟨o1, o2, s2, hrun, hs2⟩ := ThriftShared.run_alone_prefix cfg k m c args r sig hm (sizes.map (.chunk k))
  obtain ⟨n, hn'⟩ := ThriftShared.run_chunks_last cfg k sizes s2 _ hs2 rfl hne
  refine ⟨n, ?_⟩
  have hne2 : ThriftShared.run cfg s2 (sizes.map (.chunk k)) ≠ [] := by
    intro e; rw [e] at hn'; simp at hn'
  rw [hrun, List.getLast?_cons_of_ne_nil (by simp), List.getLast?_cons_of_ne_nil hne2, hn']
  simp only [ThriftShared.Call.outcome, ThriftShared.Call.pieces, ThriftShared.Call.stream, hm, List.nil_append]
  rw [ThriftShared.sharedOutcome_splitBy cfg m sig r sizes false hcfg.2 hm hn hw hl]
  have : ¬ ((replyBytes sig.name r).length ≤ listSum sizes) := by omega
  simp [this]

/-- The outcome of a call among others equals the outcome of the same call in the
    one-call-at-a-time component.  In any history whose operations of call `k` are: the call
    of method `m`, the answer `r`, deliveries of ANY sizes (covering the frame or not), and
    finally the server closing the connection, the last observation for call `k` is the very
    outcome the single-call model (`step` of this file's first component, operation
    `reply r sizes`) reports for method `m` alone on one connection. -/
theorem C14_interleaved_outcome_is_single_call (cfg : ThriftShared.Cfg) (ops : List ThriftShared.Op)
    (k m c : Nat) (args : TFields) (r : Reply) (sizes : List Nat) (sig : Sig) (st : St)
    (hcfg : ThriftShared.cfgOk cfg = true) (hm : cfg[m]? = some sig)
    (hproj : ops.filter (fun op => decide (op.id = k))
      = .call k m c args :: .answer k r :: (sizes.map (.chunk k) ++ [.close k]))
    (hw : replyWf r = true) (hl : (encMsg (replyMsg sig.name r)).length < 2147483648) :
    ∃ out, (step sig st (.reply r sizes)).2 = .reply (replyBytes sig.name r) out ∧
      ((ThriftShared.comp.modelTrace cfg ops).filter (fun p => decide (p.1.id = k))).getLast?
        = some (.close k, .out (some out)) := by
  refine ⟨clientOutcome sig (splitBy sizes (replyBytes sig.name r)), rfl, ?_⟩
  rw [C14_calls_independent, hproj]
  show (ThriftShared.comp.trace cfg ThriftShared.St.init _).getLast? = _
  rw [ThriftShared.comp_trace_eq]
  simp only [ThriftShared.cfgOk, Bool.and_eq_true, List.all_eq_true, decide_eq_true_eq] at hcfg
  have hn : sig.name.length < 2147483648 := hcfg.1 sig (List.mem_of_getElem? hm)
  obtain ⟨o1, o2, s2, hrun, hs2⟩ :=
    ThriftShared.run_alone_prefix cfg k m c args r sig hm (sizes.map (.chunk k) ++ [.close k])
  have hs3 := ThriftShared.exec_chunks cfg k sizes s2 _ hs2 rfl
  rw [hrun, ThriftShared.run_append]
  have hlast : ∀ (a b : ThriftShared.Op × ThriftShared.Obs) (L : List (ThriftShared.Op × ThriftShared.Obs))
      (y : ThriftShared.Op × ThriftShared.Obs), (a :: b :: (L ++ [y])).getLast? = some y := by
    intro a b L y
    rw [← List.cons_append, ← List.cons_append, List.getLast?_concat]
  simp only [ThriftShared.run]
  rw [hlast]
  simp only [ThriftShared.step, ThriftShared.Op.id, hs3, ThriftShared.obsOf, ThriftShared.Call.close,
    ThriftShared.Call.outcome, ThriftShared.Call.pieces, ThriftShared.Call.stream, hm, List.nil_append]
  rw [ThriftShared.sharedOutcome_splitBy cfg m sig r sizes true hcfg.2 hm hn hw hl]
  simp

/-- The executable specification of the second component holds of the model's own
    observations, for every interface with distinct method names and every interleaving of
    operations within the hypotheses `wf`. -/
theorem C14_shared_model_satisfies_spec (cfg : ThriftShared.Cfg) (ops : List ThriftShared.Op)
    (h : ThriftShared.wf cfg ops = true) :
    ThriftShared.spec cfg (ThriftShared.comp.modelTrace cfg ops) = .ok := by
  simp only [ThriftShared.wf, Bool.and_eq_true] at h
  show ThriftShared.specGo cfg ThriftShared.St.init 0 (ThriftShared.comp.trace cfg ThriftShared.St.init ops) = .ok
  rw [ThriftShared.comp_trace_eq]
  exact ThriftShared.specGo_run cfg h.1.1 ops _ 0 (ThriftShared.inv_init cfg) h.1.2

/-- Both components: the predicate the harness evaluates on the implementation's observations
    is the one the theorems are about. -/
theorem C14_model_satisfies_spec :
    (∀ (cfg : Cfg) (ops : List Op), wf cfg ops = true → spec cfg (comp.modelTrace cfg ops) = .ok) ∧
    (∀ (cfg : ThriftShared.Cfg) (ops : List ThriftShared.Op), ThriftShared.wf cfg ops = true →
      ThriftShared.spec cfg (ThriftShared.comp.modelTrace cfg ops) = .ok) :=
  ⟨C14_codec_model_satisfies_spec, C14_shared_model_satisfies_spec⟩

/-! ### the hypotheses are satisfiable; concrete instances -/

/-- `hi("é")` on the Hello interface: the bytes of the unit test's kind, decoded back -/
example : decMsg ((callBytes [104, 105] (.cons 1 (.str [195, 169]) .nil)).drop 4)
    = some ⟨[104, 105], 1, 0, .cons 1 (.str [195, 169]) .nil⟩ := by decide

/-- a void reply delivered one byte at a time is `None` -/
example : clientOutcome ⟨[112], false, [1]⟩
    (splitBy (List.replicate 40 1) (replyBytes [112] (.result .nil))) = .none_ := by decide

/-- a declared exception behind a gap in the ids (`throws (1: …, 3: …)`), split inside the prefix -/
example : clientOutcome ⟨[102], true, [1, 3]⟩
    (splitBy [2, 100] (replyBytes [102] (.result (.cons 3 (.struct (.cons 1 (.i32 (-7)) .nil)) .nil))))
    = .err true (.declared 3 (.struct (.cons 1 (.i32 (-7)) .nil))) := by decide

example : wf ⟨[102], true, [1, 3]⟩
    [.call (.cons 1 (.str [195, 169]) (.cons 2 (.i64 (-9223372036854775808)) .nil)),
     .reply (.result (.cons 3 (.struct (.cons 1 (.i32 (-7)) .nil)) .nil)) [2, 100],
     .reply (.app 6 (some [111])) [1, 1, 1]] = true := by decide

/- two calls of different methods open at once on two connections, the later one answered
    and delivered first, the earlier one's reply cut inside the length prefix: inside `wf` -/
example : ThriftShared.wf [⟨[112], false, []⟩, ⟨[102], true, [1, 3]⟩]
    [.call 0 1 0 (.cons 1 (.str [195, 169]) .nil), .call 1 0 1 .nil,
     .answer 1 (.result .nil), .chunk 1 100,
     .answer 0 (.result (.cons 0 (.i32 (-7)) .nil)), .chunk 0 3, .call 2 0 1 .nil, .chunk 0 100,
     .close 2] = true := by decide

/- … and what their callers get: the value for the earlier call although a call of another
    method was serialized and its reply deserialized in between -/
set_option maxRecDepth 8000 in
example : ((ThriftShared.comp.modelTrace [⟨[112], false, []⟩, ⟨[102], true, [1, 3]⟩]
    [.call 0 1 0 .nil, .call 1 0 1 .nil, .answer 1 (.result .nil), .chunk 1 100,
     .answer 0 (.result (.cons 0 (.i32 (-7)) .nil)), .chunk 0 3, .chunk 0 100]).map (·.2)).drop 3
    = [.out (some .none_), .frame (replyBytes [102] (.result (.cons 0 (.i32 (-7)) .nil))),
       .out none, .out (some (.val (.i32 (-7))))] := by decide

end Scales.ThriftCodec
