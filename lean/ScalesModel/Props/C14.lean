/-
  Props/C14.lean — property theorems for C14 (framed Thrift calls and replies agree with the
  Thrift library's codec).  Statements rely on Model/ThriftCodec.lean and
  Adapter/ThriftCodec.lean; helper lemmas live in Proofs/ThriftCodecLemmas.lean.

  Quantification: `name` any method name, `args`/`v` any value of the value language (bool,
  i32, i64, string/binary, struct, nested to any depth) whose integers, lengths and field ids
  are in range (`wf`), `sig` any result-class shape (void or not, any list of declared
  exception ids, gaps allowed), `r` any reply the server side can produce, `ps` any chunking
  of the byte stream into non-empty pieces.  No bound on sizes or depths.
-/
import ScalesModel.Proofs.ThriftCodecLemmas
namespace Scales.ThriftCodec

/-- The frame is a 4-byte prefix followed by the payload, and the prefix read as a signed
    big-endian integer (`unpack('!i')`) is the payload's length. -/
theorem C14_frame_prefix_is_length (payload : Bytes) (h : payload.length < 2147483648) :
    ∃ pfx, frame payload = pfx ++ payload ∧ pfx.length = 4 ∧ (∀ b ∈ pfx, b < 256) ∧
      toSigned 4 (fromBE pfx) = (payload.length : Int) := by
  obtain ⟨ht, _, _, hsz⟩ := frame_prefix payload h
  refine ⟨encInt 4 payload.length, rfl, encInt_length _ _, ?_, ?_⟩
  · intro b hb; exact beNat_lt _ _ b hb
  · rw [← ht]; exact hsz

/-- What scales sends for a call is the frame of a strict binary-protocol CALL message with
    sequence id 0 carrying exactly the method name and the arguments: the decoder of the
    binary protocol applied to the bytes after the length prefix returns them. -/
theorem C14_call_roundtrip (name : Bytes) (args : TFields) (hn : name.length < 2147483648)
    (hw : args.wf = true) (hl : (callPayload name args).length < 2147483648) :
    (callBytes name args).length = (callPayload name args).length + 4 ∧
    decMsg ((callBytes name args).drop 4) = some ⟨name, mtCall, 0, args⟩ := by
  obtain ⟨_, hd, hlen, _⟩ := frame_prefix _ hl
  refine ⟨hlen, ?_⟩
  unfold callBytes
  rw [hd]
  exact decMsg_enc ⟨name, mtCall, 0, args⟩ hn fits4_zero hw

/-- Everything in a framed call is a byte (the model's byte strings are lists of naturals):
    provided the method name and the string/binary arguments consist of bytes. -/
theorem C14_call_bytes_are_bytes (name : Bytes) (args : TFields) (hn : ∀ b ∈ name, b < 256)
    (hb : args.bytesOk = true) : ∀ b ∈ callBytes name args, b < 256 := by
  intro b hm
  simp only [callBytes, frame, List.mem_append] at hm
  rcases hm with hm | hm
  · exact encInt_lt _ _ b hm
  · exact encMsg_lt ⟨name, mtCall, 0, args⟩ hn (by simp [mtCall]) hb b hm

/-- decode ∘ encode = id for every value, whatever follows it in the buffer and for every
    amount of fuel not smaller than the encoding's length + 1. -/
theorem C14_value_roundtrip (v : TVal) (rest : Bytes) (fuel : Nat) (hw : v.wf = true)
    (hf : (encVal v).length + 1 ≤ fuel) :
    decVal fuel (tyCode v) (encVal v ++ rest) = some (v, rest) :=
  decVal_enc v fuel rest hw (Nat.le_trans (needV_le v) hf)

/-- the same for a struct's field list (arguments, results, exception structs) -/
theorem C14_struct_roundtrip (fs : TFields) (rest : Bytes) (fuel : Nat) (hw : fs.wf = true)
    (hf : (encFields fs).length ≤ fuel) :
    decFields fuel (encFields fs ++ rest) = some (fs, rest) :=
  decFields_enc fs fuel rest hw (Nat.le_trans (needF_le fs) hf)

/-- `readAll(n)` over any chunking of the stream into non-empty pieces: it never runs out of
    fuel; if the stream has at least `n` bytes the result is its first `n` bytes and what is
    left is the rest of the stream; otherwise (and only then) it is EOF. -/
theorem C14_readAll_chunk_independent (n : Nat) (ps : List Bytes) (hne : ∀ p ∈ ps, p ≠ []) :
    (n ≤ ps.flatten.length →
       ∃ rest, readAll n ps = .ok (ps.flatten.take n) rest ∧ rest.flatten = ps.flatten.drop n ∧
               (∀ p ∈ rest, p ≠ [])) ∧
    (ps.flatten.length < n → readAll n ps = .eof) ∧
    (readAll n ps = .eof → ps.flatten.length < n) := by
  obtain ⟨h1, h2⟩ := readAll_spec n ps hne
  refine ⟨h1, h2, ?_⟩
  intro he
  by_cases hlt : ps.flatten.length < n
  · exact hlt
  · obtain ⟨rest, hr, _⟩ := h1 (by omega)
    rw [hr] at he; cases he

/-- The caller-visible outcome of the client's read path (length prefix, payload,
    deserialize, decide) depends only on the bytes of the stream, not on how they are split
    across socket reads — for every stream, well-formed or not. -/
theorem C14_outcome_chunk_independent (sig : Sig) (ps ps' : List Bytes)
    (hne : ∀ p ∈ ps, p ≠ []) (hne' : ∀ p ∈ ps', p ≠ []) (h : ps.flatten = ps'.flatten) :
    clientOutcome sig ps = clientOutcome sig ps' := by
  rw [clientOutcome_eq_stream sig ps hne, clientOutcome_eq_stream sig ps' hne', h]

/-- The reply decision: whatever reply `r` the server side wrote for the method, however the
    frame is chunked and whatever follows it on the stream, the caller gets `expected sig r`. -/
theorem C14_reply_decision (sig : Sig) (r : Reply) (ps : List Bytes) (extra : Bytes)
    (hne : ∀ p ∈ ps, p ≠ []) (hflat : ps.flatten = replyBytes sig.name r ++ extra)
    (hn : sig.name.length < 2147483648) (hw : replyWf r = true)
    (hl : (encMsg (replyMsg sig.name r)).length < 2147483648) :
    clientOutcome sig ps = expected sig r := by
  rw [clientOutcome_eq_stream sig ps hne, hflat]
  exact streamOutcome_full sig r extra hn hw hl

/-- `expected`, spelled out: an EXCEPTION message is raised as the library's error carrying the
    application exception; a success field is the return value; a declared exception that
    is set is raised as the library's error carrying it; a void result with nothing set is
    `None`; a non-void result with nothing set is the MISSING_RESULT application exception,
    raised as an error. -/
theorem C14_reply_decision_table (sig : Sig) :
    (∀ ty msg, expected sig (.app ty msg) = .err true (.app ty msg)) ∧
    (∀ v, sig.nonvoid = true → expected sig (.result (.cons 0 v .nil)) = .val v) ∧
    (∀ fid v, fid ∈ sig.declared → (sig.nonvoid = true → fid ≠ 0) →
        expected sig (.result (.cons fid v .nil)) = .err true (.declared fid v)) ∧
    (sig.nonvoid = false → expected sig (.result .nil) = .none_) ∧
    (sig.nonvoid = true →
        expected sig (.result .nil) = .err true (.app 5 (some (missingMsg sig.name)))) := by
  refine ⟨fun _ _ => rfl, ?_, ?_, ?_, ?_⟩
  · intro v hv
    simp [expected, hv, TFields.lookup]
  · intro fid v hmem hz
    have hfd := firstDeclared_single fid v sig.declared hmem
    cases hnv : sig.nonvoid with
    | false => simp [expected, hfd, hnv]
    | true =>
      have : fid ≠ 0 := hz hnv
      simp [expected, TFields.lookup, this, hfd, hnv]
  · intro hv
    simp [expected, hv, firstDeclared_nil]
  · intro hv
    simp [expected, hv, TFields.lookup, firstDeclared_nil]

/-- A reply frame cut short anywhere (inside the length prefix or inside the payload) ends in
    EOFError, for every chunking of what did arrive. -/
theorem C14_truncated_reply_is_eof (sig : Sig) (payload : Bytes) (k : Nat) (ps : List Bytes)
    (hne : ∀ p ∈ ps, p ≠ []) (hl : payload.length < 2147483648) (hk : k < (frame payload).length)
    (hflat : ps.flatten = (frame payload).take k) :
    clientOutcome sig ps = .err true .eof := by
  rw [clientOutcome_eq_stream sig ps hne, hflat]
  exact streamOutcome_trunc sig payload k hl hk

/-- The executable specification the harness evaluates on the implementation's observations
    holds of the model's own observations, for every method shape and every operation list
    within the hypotheses `wf` (values in range, replies a generated Processor can produce). -/
theorem C14_model_satisfies_spec (cfg : Cfg) (ops : List Op) (h : wf cfg ops = true) :
    spec cfg (comp.modelTrace cfg ops) = .ok := by
  simp only [wf, Bool.and_eq_true, List.all_eq_true] at h
  obtain ⟨hcfg, hops⟩ := h
  exact specGo_trace cfg hcfg ops 0 0 hops

/-! ### the hypotheses are satisfiable; concrete instances -/

/-- `hi("é")` on the Hello interface: the bytes of the unit test's kind, decoded back -/
example : decMsg ((callBytes [104, 105] (.cons 1 (.str [195, 169]) .nil)).drop 4)
    = some ⟨[104, 105], 1, 0, .cons 1 (.str [195, 169]) .nil⟩ := by decide

/-- a void reply delivered one byte at a time is `None` -/
example : clientOutcome ⟨[112], false, [1]⟩
    (splitBy (List.replicate 40 1) (replyBytes [112] (.result .nil))) = .none_ := by decide

/-- a declared exception behind a gap in the ids (`throws (1: …, 3: …)`), split inside the prefix -/
example : clientOutcome ⟨[102], true, [1, 3]⟩
    (splitBy [2, 100] (replyBytes [102] (.result (.cons 3 (.struct (.cons 1 (.i32 (-7)) .nil)) .nil))))
    = .err true (.declared 3 (.struct (.cons 1 (.i32 (-7)) .nil))) := by decide

example : wf ⟨[102], true, [1, 3]⟩
    [.call (.cons 1 (.str [195, 169]) (.cons 2 (.i64 (-9223372036854775808)) .nil)),
     .reply (.result (.cons 3 (.struct (.cons 1 (.i32 (-7)) .nil)) .nil)) [2, 100],
     .reply (.app 6 (some [111])) [1, 1, 1]] = true := by decide

end Scales.ThriftCodec
