/-
  Props/C19.lean — property theorems for C19 (ZooKeeper server set reports exactly the
  membership changes that occurred).  Model: Model/ServerSet.lean; helper lemmas:
  Proofs/ServerSet{Lemmas,Steps,Runs,Alt,Keys,Settle}.lean.

  Quantification: `cfg` is any member filter and any choice of raising callbacks; `ops` is any
  list of tree operations (create/delete the watched path, create/delete children — any
  names, re-used freely), construction of the ServerSet at any point, listings of the members by
  the consumer (`get_members()`, begun at any point after construction, any number of them,
  overlapping each other and everything else — each holds the worker back from *beginning* an
  update until the last one has returned), and scheduler steps (deliver the oldest fired watch
  event, serve / return the member read in flight of the worker or of any listing) in any
  interleaving, with any legal choice of which node the worker / a listing reads next.
  `wf cfg ops` says no more than that every operation is enabled when it is issued (there is a
  fired event to deliver, a read to serve / return, the tree operation is possible in
  ZooKeeper) and that its label is a legal choice — in particular the watched path may be
  deleted and re-created at any time, also before the client has been told.
  `quiet` = no scheduler step is enabled: no fired event undelivered, no read in flight, no
  listing in progress (nothing about the worker's queue: that it is empty then is part of what is
  proved — `C19_worker_not_held_without_listing`).
  `exec cfg St.init ops = (final state, all notifications in order)`.

  Members by content: `cfg.keyOf n` is the Member znode `n` carries, up to `Member.__eq__` (which
  ignores the znode name) — any assignment, so different znodes may carry equal Members (a server
  that re-registers).  `keyNote cfg.keyOf` turns a notification into what a consumer sees that
  identifies members that way (as LoadBalancerSink does).  `distinctAlong cfg Tree.init ops`:
  after none of the operations do two member znodes carry equal Members *at the same time*.
-/
import ScalesModel.Proofs.ServerSetKeys
import ScalesModel.Proofs.ServerSetSettle
namespace Scales.ServerSet

/-- At every point of every history the fold of the delivered joins/leaves is the worker's
    `_members`; the tree the model holds is the tree the history's operations built; and
    whenever nothing is on its way the consumer holds exactly the members present. -/
theorem C19_view_eq_tree_at_quiescence (cfg : Cfg) (ops : List Op) (hwf : wf cfg ops = true) :
    viewOf [] (exec cfg St.init ops).2 = (exec cfg St.init ops).1.members ∧
    (exec cfg St.init ops).1.tree = ops.foldl specTree Tree.init ∧
    ((exec cfg St.init ops).1.quiet = true →
      ∀ n, n ∈ viewOf [] (exec cfg St.init ops).2 ↔
           n ∈ (ops.foldl specTree Tree.init).present cfg.lim) := by
  obtain ⟨hi, _, hv, ht⟩ := exec_inv ops St.init (Inv_init cfg) hwf
  refine ⟨hv, ht, ?_⟩
  intro hq n
  have hv' : viewOf [] (exec cfg St.init ops).2 = (exec cfg St.init ops).1.members := hv
  have ht' : (exec cfg St.init ops).1.tree = ops.foldl specTree Tree.init := ht
  rw [hv', ← ht']
  exact quiet_members hi hq n

/-- The blocker never leaves the worker stranded: whenever no listing is in progress and the
    worker is not in the middle of an update, no update is waiting — the worker went on when
    the last listing returned (or was never held back).  For *every* operation list (operations
    that are not enabled are skipped).  This is what lets the quiet-state clause hold with
    listings interleaved anywhere. -/
theorem C19_worker_not_held_without_listing (cfg : Cfg) (ops : List Op)
    (hl : (exec cfg St.init ops).1.lists = []) (hj : (exec cfg St.init ops).1.job = none) :
    (exec cfg St.init ops).1.queue = [] :=
  (exec_inv0 cfg ops St.init (Inv_init cfg).i0).1.wok.idle hj (by rw [hl]; rfl)

/-- "Once everything is quiet" always comes: after any history (the ServerSet constructed), the
    scheduler steps alone — deliver the oldest fired event, serve / return the read in flight of
    the worker or of a listing; no tree operation, no new listing — can be continued, with legal
    labels, to a quiet state, in which (the tree being what the history made it) the consumer
    holds exactly the members present.  In particular no listing, however it overlaps the
    notification activity, leaves the worker behind the blocker: every state that is not quiet has
    an enabled scheduler step, and each such step decreases a measure (`Proofs/ServerSetSettle`:
    `progress`), so *every* schedule that keeps taking steps gets there. -/
theorem C19_settles (cfg : Cfg) (ops : List Op) (hwf : wf cfg ops = true)
    (hst : (exec cfg St.init ops).1.started = true) :
    ∃ sched : List Op, (∀ op ∈ sched, op.isSched = true) ∧ wf cfg (ops ++ sched) = true ∧
      (exec cfg St.init (ops ++ sched)).1.quiet = true ∧
      ∀ n, n ∈ viewOf [] (exec cfg St.init (ops ++ sched)).2 ↔
           n ∈ (ops.foldl specTree Tree.init).present cfg.lim := by
  obtain ⟨sched, h1, h2, h3⟩ := settles_from cfg _ (exec cfg St.init ops).1 (Nat.le_refl _) hst
  have hwf' : wf cfg (ops ++ sched) = true := wfGo_append' cfg ops sched St.init hwf h2
  have hq : (exec cfg St.init (ops ++ sched)).1.quiet = true := by
    rw [exec_append]; exact h3
  refine ⟨sched, h1, hwf', hq, ?_⟩
  obtain ⟨_, _, h⟩ := C19_view_eq_tree_at_quiescence cfg (ops ++ sched) hwf'
  have ht : (ops ++ sched).foldl specTree Tree.init = ops.foldl specTree Tree.init := by
    rw [List.foldl_append]; exact foldl_specTree_sched sched h1 _
  rw [← ht]
  exact h hq

/-- No member is reported as joining while the consumer holds it, nor as leaving while the
    consumer does not hold it (so joins and leaves of a name alternate, starting with a join),
    and the fold of the notifications is the worker's `_members` — for *every* operation list:
    operations that are not enabled are skipped by `exec`, so not even `wf` is needed. -/
theorem C19_alternation (cfg : Cfg) (ops : List Op) :
    altOk [] (exec cfg St.init ops).2 = true ∧
    viewOf [] (exec cfg St.init ops).2 = (exec cfg St.init ops).1.members :=
  (exec_inv0 cfg ops St.init (Inv_init cfg).i0).2

/-- Which callbacks raise has no influence on what the ServerSet does next: the state reached
    and the notifications delivered are the same as with callbacks that never raise.  (With
    `C19_view_eq_tree_at_quiescence`, which holds for every `cfg`: errors in callbacks never
    stop later notifications.) -/
theorem C19_callback_errors_isolated (cfg : Cfg) (ops : List Op) :
    exec cfg St.init ops = exec { cfg with raiseJoin := [], raiseLeave := [] } St.init ops := by
  have hnext : ∀ s op, next cfg s op = next { cfg with raiseJoin := [], raiseLeave := [] } s op := by
    intro s op
    cases op <;> rfl
  generalize St.init = s
  induction ops generalizing s with
  | nil => rfl
  | cons op ops ih =>
    simp only [exec, ← hnext]
    cases next cfg s op with
    | none => exact ih s
    | some p => simp only [ih p.1]

/-- An empty child list (what the repaired `_data_changed` queues when the path is deleted)
    makes the worker report every announced member as leaving, once, and forget them all. -/
theorem C19_empty_listing_removes_all (members : List Nat) :
    finishJob members [] [] = ([], members.map (fun n => (false, n))) := by
  simp only [finishJob, List.contains_nil, List.filter_false, List.append_nil, List.map_nil,
    Bool.not_false]
  congr 2
  exact List.filter_eq_self.mpr (fun _ _ => rfl)

/-- After the watched path has been deleted, once nothing is on its way the consumer holds
    nothing: every member it was told about has been reported as leaving. -/
theorem C19_parent_delete_reports_all (cfg : Cfg) (ops : List Op) (hwf : wf cfg ops = true)
    (hq : (exec cfg St.init ops).1.quiet = true)
    (hgone : (ops.foldl specTree Tree.init).parent = none) :
    viewOf [] (exec cfg St.init ops).2 = [] := by
  obtain ⟨_, _, h⟩ := C19_view_eq_tree_at_quiescence cfg ops hwf
  apply List.eq_nil_iff_forall_not_mem.mpr
  intro n hn
  have := (h hq n).mp hn
  simp [Tree.present, hgone] at this

/-- Re-creation: if the consumer held nothing at some quiet point (e.g. after the path was
    deleted) and `n` is present at a later quiet point, then a join for `n` was delivered in
    between — also when `n` had been announced and removed before. -/
theorem C19_recreate_reannounces (cfg : Cfg) (ops1 ops2 : List Op) (n : Nat)
    (hwf : wf cfg (ops1 ++ ops2) = true)
    (hq1 : (exec cfg St.init ops1).1.quiet = true)
    (hgone : (ops1.foldl specTree Tree.init).parent = none)
    (hq2 : (exec cfg St.init (ops1 ++ ops2)).1.quiet = true)
    (hn : n ∈ ((ops1 ++ ops2).foldl specTree Tree.init).present cfg.lim) :
    (true, n) ∈ (exec cfg (exec cfg St.init ops1).1 ops2).2 := by
  obtain ⟨hwf1, _⟩ := wfGo_append cfg ops1 ops2 St.init hwf
  have h1 := C19_parent_delete_reports_all cfg ops1 hwf1 hq1 hgone
  obtain ⟨_, _, h2⟩ := C19_view_eq_tree_at_quiescence cfg (ops1 ++ ops2) hwf
  have hin := (h2 hq2 n).mpr hn
  rw [exec_append] at hin
  simp only [viewOf_append, h1] at hin
  rcases mem_viewOf_join _ _ _ hin with h | h
  · cases h
  · exact h

/-- A member whose read was in flight when it (or the whole path) was removed is never left
    behind: if `n` is not present at a quiet point, every join of `n` delivered so far is
    followed by a leave of `n`. -/
theorem C19_inflight_read_ordered_before_removal (cfg : Cfg) (ops : List Op) (n : Nat)
    (hwf : wf cfg ops = true) (hq : (exec cfg St.init ops).1.quiet = true)
    (hn : n ∉ (ops.foldl specTree Tree.init).present cfg.lim)
    (pre post : List Note) (hsplit : (exec cfg St.init ops).2 = pre ++ (true, n) :: post) :
    (false, n) ∈ post := by
  obtain ⟨_, _, h⟩ := C19_view_eq_tree_at_quiescence cfg ops hwf
  by_contra hno
  apply hn
  apply (h hq n).mp
  rw [hsplit, viewOf_append]
  simp only [viewOf, List.foldl_cons]
  apply mem_viewOf_stays _ _ _ _ hno
  simp [applyNote]

/-- **C19, specification level.**  For every configuration and every operation list that
    satisfies the hypotheses, the history of the model satisfies the executable specification
    `spec` — the predicate the harness evaluates on the implementation's observations. -/
theorem C19_model_satisfies_spec (cfg : Cfg) (ops : List Op) (h : comp.wf cfg ops = true) :
    comp.spec cfg (comp.modelTrace cfg ops) = .ok :=
  spec_trace cfg ops St.init [] true 0 (Inv_init cfg) h
    (fun _ => ⟨KInv_init _, rfl, rfl⟩)

/-- **Members by content** (`Member.__eq__`, not the znode name).  As long as no two member znodes
    carry equal Members at the same time: a consumer that identifies members by content is never
    told of a join of a Member it holds nor of a leave of a Member it does not hold; what it holds
    is always the content of `_members`; and whenever nothing is on its way it holds exactly the
    Members of the znodes present — in particular a server whose znode went and which
    re-registered under another znode is held, whether or not the client saw the two changes in
    one children update. -/
theorem C19_member_view_eq_tree_at_quiescence (cfg : Cfg) (ops : List Op) (hwf : wf cfg ops = true)
    (hd : distinctAlong cfg Tree.init ops = true) :
    altOk [] ((exec cfg St.init ops).2.map (keyNote cfg.keyOf)) = true ∧
    viewOf [] ((exec cfg St.init ops).2.map (keyNote cfg.keyOf)) =
      (exec cfg St.init ops).1.members.map cfg.keyOf ∧
    ((exec cfg St.init ops).1.quiet = true →
      ∀ m, m ∈ viewOf [] ((exec cfg St.init ops).2.map (keyNote cfg.keyOf)) ↔
           m ∈ ((ops.foldl specTree Tree.init).present cfg.lim).map cfg.keyOf) := by
  obtain ⟨_, ha, hv⟩ := exec_keys ops St.init (Inv_init cfg) hwf (KInv_init _) rfl hd
  obtain ⟨hi, _, _, ht⟩ := exec_inv ops St.init (Inv_init cfg) hwf
  refine ⟨ha, hv, ?_⟩
  intro hq
  have hv' : viewOf [] ((exec cfg St.init ops).2.map (keyNote cfg.keyOf)) =
      (exec cfg St.init ops).1.members.map cfg.keyOf := hv
  have ht' : (exec cfg St.init ops).1.tree = ops.foldl specTree Tree.init := ht
  rw [hv', ← ht']
  exact mem_map_iff (quiet_members hi hq)

/-- One update — the worker holds `members`, takes the child list `listing` and has read `got` —
    delivers its leaves before its joins; so if the nodes of `listing` carry pairwise different
    Members, a Member that is both leaving (under an old znode) and joining (under a new one:
    `b ∈ got`) is held by the Member-equality consumer afterwards, and no notification of the
    update is a join of a Member held or a leave of a Member not held. -/
theorem C19_restart_within_one_update (k : Nat → Nat) (members listing got : List Nat)
    (hm : members.Nodup) (hg : got.Nodup) (hgm : ∀ n ∈ got, n ∉ members)
    (hgl : ∀ n ∈ got, n ∈ listing) (hkm : (members.map k).Nodup) (hkl : (listing.map k).Nodup)
    (b : Nat) (hb : b ∈ got) :
    altOk (members.map k) ((finishJob members listing got).2.map (keyNote k)) = true ∧
    k b ∈ viewOf (members.map k) ((finishJob members listing got).2.map (keyNote k)) := by
  obtain ⟨_, h2, h3⟩ := finishJob_keys k members listing got hm hg hgm hgl hkm hkl
  refine ⟨h2, ?_⟩
  rw [h3]
  exact List.mem_map_of_mem (by simp [finishJob, hb])

/-! ### non-vacuity: the hypotheses are satisfiable on non-trivial histories
  (`demoOps`: three children, one filtered; a read misses; the path is torn down and re-created
  with an old name; on_join/on_leave of that name raise) -/

example : wf ⟨3, [1], [1], []⟩ demoOps = true := by decide
example : (exec ⟨3, [1], [1], []⟩ St.init demoOps).1.quiet = true := by decide
example : (exec ⟨3, [1], [1], []⟩ St.init demoOps).2 = [(true, 1), (false, 1), (true, 1)] := by decide
example : ((demoOps.take 16).foldl specTree Tree.init).parent = none := by decide
example : (exec ⟨3, [1], [1], []⟩ St.init (demoOps.take 16)).1.quiet = true := by decide
/- the path is re-created before the DataWatch was told of its deletion, the ChildrenWatch of the
   old incarnation ends on the vanished path: the new incarnation gets a watch of its own -/
example : wf ⟨3, [], [], []⟩ recreateUnobservedOps = true := by decide
example : (exec ⟨3, [], [], []⟩ St.init recreateUnobservedOps).1.quiet = true := by decide
example : (exec ⟨3, [], [], []⟩ St.init recreateUnobservedOps).2 = [(true, 0), (false, 0), (true, 1)] := by decide

/- a server restarts (`restartOps`, znodes 0 and 1 carry equal Members): the client learns of the
   removal of znode 0 and the creation of znode 1 in one children update, and is told
   leave-then-join; the hypotheses of `C19_member_view_eq_tree_at_quiescence` hold, and the
   other order (join-then-leave) is one the specification rejects -/
example : wf ⟨2, [], [], [0, 0]⟩ restartOps = true := by decide
example : distinctAlong ⟨2, [], [], [0, 0]⟩ Tree.init restartOps = true := by decide
example : (exec ⟨2, [], [], [0, 0]⟩ St.init restartOps).1.quiet = true := by decide
example : (exec ⟨2, [], [], [0, 0]⟩ St.init restartOps).2 = [(true, 0), (false, 0), (true, 1)] := by decide
example : altOk [] ([(true, 0), (true, 1), (false, 0)].map (keyNote (Cfg.keyOf ⟨2, [], [], [0, 0]⟩))) = false := by
  decide
example : viewOf [] ([(true, 0), (false, 0), (true, 1)].map (keyNote (Cfg.keyOf ⟨2, [], [], [0, 0]⟩))) = [0] := by
  decide


/- listings by the consumer (`listDemoOps`): the client lists right after construction, a second
   listing overlaps the first; the worker finishes the update it is in, is held back on the next
   two, and goes on when the second listing returns; the listings return [0] and [1] -/
example : wf ⟨3, [], [], []⟩ listDemoOps = true := by decide
example : (exec ⟨3, [], [], []⟩ St.init listDemoOps).1.quiet = true := by decide
example : (exec ⟨3, [], [], []⟩ St.init listDemoOps).2 = [(true, 0), (true, 1), (false, 0)] := by decide
example : viewOf [] (exec ⟨3, [], [], []⟩ St.init listDemoOps).2 = [1] := by decide
example : (exec ⟨3, [], [], []⟩ St.init listDemoOps).1.done = [(0, [0]), (1, [1])] := by decide
/- … after `lret 0` (first listing returned, second still reading) two updates are waiting and the
   worker is held back; it has delivered nothing but the first join -/
example : (exec ⟨3, [], [], []⟩ St.init (listDemoOps.take 13)).1.queue = [[0, 1], [1]] := by decide
example : (exec ⟨3, [], [], []⟩ St.init (listDemoOps.take 13)).1.lists.length = 1 := by decide
example : (exec ⟨3, [], [], []⟩ St.init (listDemoOps.take 13)).2 = [(true, 0)] := by decide
/- … a state to which `C19_settles` applies (not quiet, ServerSet constructed) -/
example : wf ⟨3, [], [], []⟩ (listDemoOps.take 13) = true := by decide
example : (exec ⟨3, [], [], []⟩ St.init (listDemoOps.take 13)).1.started = true := by decide
example : (exec ⟨3, [], [], []⟩ St.init (listDemoOps.take 13)).1.quiet = false := by decide

end Scales.ServerSet
