/-
  Props/C03.lean — the balancer sends each request to a least-loaded open member.

  Model: Model/Heap.lean (HeapBalancerSink with the FixUp-after-FixDown repair).  The system
  invariant `Inv` (Proofs/HeapInv.lean: H1 index agreement, heap order on loads, load accounting,
  down list, close discipline, membership) is preserved by every operation, for every legal
  `random.randint` draw; from it the choice made by `get` and the executable specification
  `specC03` follow.  Hypothesis throughout: fewer than 2^31−1 dispatches in the history.
-/
import ScalesModel.Proofs.HeapMisc
namespace Scales.Heap

theorem C03_inv_init : Inv HS.init := Inv_init

theorem C03_inv_join (s : HS) (ep : Nat) (h : Inv s) : Inv (s.join ep) := Inv_join s h ep

theorem C03_inv_leave (s : HS) (ep : Nat) (h : Inv s) : Inv (s.leave ep) := Inv_leave s h ep

/-- a dispatch keeps the invariant as long as the dispatch counter stays below 2^31−1 -/
theorem C03_inv_get (s : HS) (h : Inv s) (hb : s.reqs.length + 1 < 2147483647) : Inv (s.get noHook).1 :=
  Inv_get s h hb

/-- a completion keeps the invariant for every draw `j` the code may have made (1 ≤ j ≤ size
    whenever `__Put` takes the idle branch; `j` is ignored otherwise) -/
theorem C03_inv_put (s : HS) (r j : Nat) (h : Inv s)
    (hj : ∀ nid, s.reqs[r]? = some (nid, false) → s.putDraws nid = true → 1 ≤ j ∧ j ≤ s.size) :
    Inv (s.put r j) := Inv_put s h r j hj

theorem C03_inv_chan (s : HS) (nid st : Nat) (h : Inv s) : Inv (s.setChan nid st) := Inv_setChan s h nid st

/-- the invariant holds after every legal operation list with fewer than 2^31−1 dispatches -/
theorem C03_inv_reachable (ops : List Op) (hok : opsOk HS.init ops = true) (hb : getCount ops < 2147483647) :
    Inv (runOps HS.init ops) := by
  apply Inv_run ops HS.init Inv_init hok
  show 0 + getCount ops < maxReqs
  unfold maxReqs; omega

/-- the fuel given to the mark-down loop suffices: `__Get` returns through its regular exit, with
    the root of the heap, which is Open or marked down; the invariant holds again, and after the
    last scan no listed node is Open -/
theorem C03_getLoop_fuel_suffices (s : HS) (h : Inv s) (hsz : 1 ≤ s.size) :
    Inv (s.getLoop noHook (s.nodes.length + 1)).1 ∧
    (s.getLoop noHook (s.nodes.length + 1)).2 = (s.getLoop noHook (s.nodes.length + 1)).1.idAt 1 ∧
    (((s.getLoop noHook (s.nodes.length + 1)).1.node (s.getLoop noHook (s.nodes.length + 1)).2).chan = chOpen ∨
      ((s.getLoop noHook (s.nodes.length + 1)).1.node (s.getLoop noHook (s.nodes.length + 1)).2).load ≥ 0) ∧
    (∀ id ∈ (s.getLoop noHook (s.nodes.length + 1)).1.down,
      ((s.getLoop noHook (s.nodes.length + 1)).1.node id).chan ≠ chOpen) := by
  have gk := getLoop_ok s h hsz
  exact ⟨gk.inv, gk.top, gk.ok, gk.scanned⟩

/-- **least-loaded dispatch.**  `get` answers `noMembers` exactly when the heap is empty; otherwise
    it answers a node of the heap (with its endpoint and the next dispatch number), and if any heap
    node's channel is Open, the chosen node's channel is Open and its outstanding count is minimal
    among the heap nodes with an Open channel. -/
theorem C03_get_least_loaded (s : HS) (h : Inv s) :
    ((s.get noHook).2 = GetRes.noMembers ↔ s.size = 0) ∧
    (∀ id ep r, (s.get noHook).2 = GetRes.node id ep r →
      InHeap s id ∧ ep = (s.node id).ep ∧ r = s.reqs.length ∧
      ((∃ m, InHeap s m ∧ (s.node m).chan = chOpen) →
        (s.node id).chan = chOpen ∧
        ∀ m, InHeap s m → (s.node m).chan = chOpen → outOf s id ≤ outOf s m)) := by
  by_cases hsz : s.size = 0
  · rw [get_empty s hsz]
    exact ⟨⟨fun _ => hsz, fun _ => rfl⟩, fun id ep r hc => by simp at hc⟩
  · obtain ⟨nid, hres, hin, _, _, _, _, hch⟩ := get_facts s h hsz
    rw [hres]
    refine ⟨⟨fun hc => by simp at hc, fun hc => absurd hc hsz⟩, ?_⟩
    intro id ep r hc
    simp only [GetRes.node.injEq] at hc
    obtain ⟨rfl, rfl, rfl⟩ := hc
    exact ⟨hin, rfl, rfl, hch⟩

/-- **C03, specification level.**  For every legal operation list (`opsOk`: completions name
    existing dispatches, recorded draws are in range, channel flips name existing nodes) with
    fewer than 2^31−1 dispatches, the history of the model satisfies the executable
    specification `specC03`, the predicate the check evaluates on the implementation. -/
theorem C03_model_satisfies_spec (ops : List Op) (hok : opsOk HS.init ops = true)
    (hb : getCount ops < 2147483647) : specC03 () ((comp 3).modelTrace () ops) = Verdict.ok := by
  apply spec_ok 3 ops HS.init {} 0 Inv_init Sim0_init PrevOk_init hok
  show 0 + getCount ops < maxReqs
  unfold maxReqs; omega

/-- the same with the hypothesis predicate `wf` of the component, as the driver reports it -/
theorem C03_wf_model_satisfies_spec (ops : List Op) (h : (comp 3).wf () ops = true) :
    (comp 3).spec () ((comp 3).modelTrace () ops) = Verdict.ok := by
  have h' : (opsOk HS.init ops && decide (getCount ops < 2147483647)) = true := h
  rw [Bool.and_eq_true, decide_eq_true_eq] at h'
  exact C03_model_satisfies_spec ops h'.1 h'.2

/-! non-vacuity: the hypotheses hold on a concrete history with joins, a resurrection-free
    dispatch sequence, an idle completion with a drawn slot, and a removal -/
def c03Hist : List Op :=
  [.join 7, .join 8, .join 9, .chan 0 2, .chan 1 2, .get, .get, .put 0 2, .leave 8, .get, .put 1 0]

set_option maxRecDepth 8000 in
example : (comp 3).wf () c03Hist = true := by
  simp [comp, c03Hist, wfOps, opsOk, getCount, step, HS.join, HS.leave, HS.addSink, HS.removeSink, HS.findByEp,
    HS.fixUp, HS.fixDown, HS.init, HS.size, HS.at, HS.idAt, HS.node, Node.lt, HS.swap, HS.setIndex, HS.setNode,
    HS.setChan, HS.get, HS.getLoop, HS.scan, noHook, HS.put, HS.putNode, HS.putDraws, Idle, Penalty, chOpen]

example : Inv HS.init := C03_inv_init
example : ∃ s : HS, Inv s ∧ s.size = 1 := ⟨HS.init.join 7, C03_inv_join _ 7 C03_inv_init, by
  simp [HS.join, HS.addSink, HS.fixUp, HS.init, HS.size]⟩

end Scales.Heap
