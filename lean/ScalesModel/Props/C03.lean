/-
  Props/C03.lean — the balancer sends each request to a least-loaded open member.
  (statements; proofs to be completed — see Proofs/HeapInv.lean)
-/
import ScalesModel.Proofs.HeapInv
namespace Scales.Heap
theorem C03_placeholder : True := trivial
end Scales.Heap
