/-
  Props/C03.lean — the balancer sends each request to a least-loaded open member.

  Model: Model/Heap.lean (HeapBalancerSink with the FixUp-after-FixDown repair).  The system
  invariant `Inv` (Proofs/HeapInv.lean: H1 index agreement, heap order on loads, load accounting,
  down list, close discipline, membership) is preserved by every operation, for every legal
  `random.randint` draw; from it the choice made by `get` and the executable specification
  `specC03` follow.  Hypothesis throughout: fewer than 2^31−1 dispatches in the history.

  `ApertureBalancerSink` inherits `__Get`; its `_OnNodeDown` hook (called inside the mark-down loop) makes
  the aperture take in an idle endpoint: `_AddSink` appends a node and sifts it up.  The `C03_aperture_*`
  theorems decide the property on that balancer (and on the heap balancer behind base.py's gate): model
  Model/LBBase.lean over Model/Aperture.lean over Model/Heap.lean, invariant `HInv` (= `Inv` without the
  conjunct that ties `_servers` to the heap, which is false for an aperture), executable specification
  `specC03A` (Adapter/ApertureHeap.lean), component `aperture3`.  The hook runs after `Heap.FixDown`
  (`AS.getLoop`), i.e. on an ordered heap; that is what `C03_aperture_getLoop_ok` uses.
-/
import ScalesModel.Proofs.HeapMisc
import ScalesModel.Proofs.LBHeap
namespace Scales.Heap

theorem C03_inv_init : Inv HS.init := Inv_init

theorem C03_inv_join (s : HS) (ep : Nat) (h : Inv s) : Inv (s.join ep) := Inv_join s h ep

theorem C03_inv_leave (s : HS) (ep : Nat) (h : Inv s) : Inv (s.leave ep) := Inv_leave s h ep

/-- a dispatch keeps the invariant as long as the dispatch counter stays below 2^31−1 -/
theorem C03_inv_get (s : HS) (h : Inv s) (hb : s.reqs.length + 1 < 2147483647) : Inv (s.get noHook).1 :=
  Inv_get s h hb

/-- a completion keeps the invariant for every draw `j` the code may have made (1 ≤ j ≤ size
    whenever `__Put` takes the idle branch; `j` is ignored otherwise) -/
theorem C03_inv_put (s : HS) (r j : Nat) (h : Inv s)
    (hj : ∀ nid, s.reqs[r]? = some (nid, false) → s.putDraws nid = true → 1 ≤ j ∧ j ≤ s.size) :
    Inv (s.put r j) := Inv_put s h r j hj

theorem C03_inv_chan (s : HS) (nid st : Nat) (h : Inv s) : Inv (s.setChan nid st) := Inv_setChan s h nid st

/-- the invariant holds after every legal operation list with fewer than 2^31−1 dispatches -/
theorem C03_inv_reachable (ops : List Op) (hok : opsOk HS.init ops = true) (hb : getCount ops < 2147483647) :
    Inv (runOps HS.init ops) := by
  apply Inv_run ops HS.init Inv_init hok
  show 0 + getCount ops < maxReqs
  unfold maxReqs; omega

/-- the fuel given to the mark-down loop suffices: `__Get` returns through its regular exit, with
    the root of the heap, which is Open or marked down; the invariant holds again, and after the
    last scan no listed node is Open -/
theorem C03_getLoop_fuel_suffices (s : HS) (h : Inv s) (hsz : 1 ≤ s.size) :
    Inv (s.getLoop noHook (s.nodes.length + 1)).1 ∧
    (s.getLoop noHook (s.nodes.length + 1)).2 = (s.getLoop noHook (s.nodes.length + 1)).1.idAt 1 ∧
    (((s.getLoop noHook (s.nodes.length + 1)).1.node (s.getLoop noHook (s.nodes.length + 1)).2).chan = chOpen ∨
      ((s.getLoop noHook (s.nodes.length + 1)).1.node (s.getLoop noHook (s.nodes.length + 1)).2).load ≥ 0) ∧
    (∀ id ∈ (s.getLoop noHook (s.nodes.length + 1)).1.down,
      ((s.getLoop noHook (s.nodes.length + 1)).1.node id).chan ≠ chOpen) := by
  have gk := getLoop_ok s h hsz
  exact ⟨gk.inv, gk.top, gk.ok, gk.scanned⟩

/-- **least-loaded dispatch.**  `get` answers `noMembers` exactly when the heap is empty; otherwise
    it answers a node of the heap (with its endpoint and the next dispatch number), and if any heap
    node's channel is Open, the chosen node's channel is Open and its outstanding count is minimal
    among the heap nodes with an Open channel. -/
theorem C03_get_least_loaded (s : HS) (h : Inv s) :
    ((s.get noHook).2 = GetRes.noMembers ↔ s.size = 0) ∧
    (∀ id ep r, (s.get noHook).2 = GetRes.node id ep r →
      InHeap s id ∧ ep = (s.node id).ep ∧ r = s.reqs.length ∧
      ((∃ m, InHeap s m ∧ (s.node m).chan = chOpen) →
        (s.node id).chan = chOpen ∧
        ∀ m, InHeap s m → (s.node m).chan = chOpen → outOf s id ≤ outOf s m)) := by
  by_cases hsz : s.size = 0
  · rw [get_empty s hsz]
    exact ⟨⟨fun _ => hsz, fun _ => rfl⟩, fun id ep r hc => by simp at hc⟩
  · obtain ⟨nid, hres, hin, _, _, _, _, hch⟩ := get_facts s h hsz
    rw [hres]
    refine ⟨⟨fun hc => by simp at hc, fun hc => absurd hc hsz⟩, ?_⟩
    intro id ep r hc
    simp only [GetRes.node.injEq] at hc
    obtain ⟨rfl, rfl, rfl⟩ := hc
    exact ⟨hin, rfl, rfl, hch⟩

/-- **C03, specification level.**  For every legal operation list (`opsOk`: completions name
    existing dispatches, recorded draws are in range, channel flips name existing nodes) with
    fewer than 2^31−1 dispatches, the history of the model satisfies the executable
    specification `specC03`, the predicate the check evaluates on the implementation. -/
theorem C03_model_satisfies_spec (ops : List Op) (hok : opsOk HS.init ops = true)
    (hb : getCount ops < 2147483647) : specC03 () ((comp 3).modelTrace () ops) = Verdict.ok := by
  apply spec_ok 3 ops HS.init {} 0 Inv_init Sim0_init PrevOk_init hok
  show 0 + getCount ops < maxReqs
  unfold maxReqs; omega

/-- the same with the hypothesis predicate `wf` of the component, as the driver reports it -/
theorem C03_wf_model_satisfies_spec (ops : List Op) (h : (comp 3).wf () ops = true) :
    (comp 3).spec () ((comp 3).modelTrace () ops) = Verdict.ok := by
  have h' : (opsOk HS.init ops && decide (getCount ops < 2147483647)) = true := h
  rw [Bool.and_eq_true, decide_eq_true_eq] at h'
  exact C03_model_satisfies_spec ops h'.1 h'.2

/-! non-vacuity: the hypotheses hold on a concrete history with joins, a resurrection-free
    dispatch sequence, an idle completion with a drawn slot, and a removal -/
def c03Hist : List Op :=
  [.join 7, .join 8, .join 9, .chan 0 2, .chan 1 2, .get, .get, .put 0 2, .leave 8, .get, .put 1 0]

set_option maxRecDepth 8000 in
example : (comp 3).wf () c03Hist = true := by
  simp [comp, c03Hist, wfOps, opsOk, getCount, step, HS.join, HS.leave, HS.addSink, HS.removeSink, HS.findByEp,
    HS.fixUp, HS.fixDown, HS.init, HS.size, HS.at, HS.idAt, HS.node, Node.lt, HS.swap, HS.setIndex, HS.setNode,
    HS.setChan, HS.get, HS.getLoop, HS.scan, noHook, HS.put, HS.putNode, HS.putDraws, Idle, Penalty, chOpen]

example : Inv HS.init := C03_inv_init
example : ∃ s : HS, Inv s ∧ s.size = 1 := ⟨HS.init.join 7, C03_inv_join _ 7 C03_inv_init, by
  simp [HS.join, HS.addSink, HS.fixUp, HS.init, HS.size]⟩

/-! ### the balancers that inherit `__Get`: aperture balancer, heap balancer behind base.py's gate -/

/-- the heap invariant holds after every legal operation list (`LB.wf`: protocol order, every recorded random
    choice legal) with fewer than 2^31−1 dispatches: joins, leaves, requests before and after the open
    result, completions, channel faults and recoveries, slow/failed opens, load-driven expansion and
    contraction, jitter rounds -/
theorem C03_aperture_inv_reachable (cfg : Scales.Aperture.Cfg) (ops : List Scales.LB.Op)
    (h : Scales.LB.wfH cfg ops = true) :
    HInv (Scales.LB.runSt cfg (Scales.LB.init cfg) ops).sub.hs := by
  obtain ⟨hw, hb⟩ := (Scales.LB.wfH_iff cfg ops).1 h
  exact (Scales.LB.run_HInv cfg ops _ _ (Scales.LB.RInv.init cfg) Scales.LB.HInv_init (Scales.LB.wf_proto hw) hb).1

/-- **the mark-down loop with the aperture's hook in it.**  From a state with the invariant and a non-empty
    heap, `__Get` leaves through its regular exit (the fuel `nodes + idle + 1` suffices: every round either
    uses up a candidate or an idle endpoint), the invariant holds again although the hook has appended nodes
    (it runs after `FixDown`, on an ordered heap), the chosen node is the root, which is Open or marked down,
    no listed node is Open, no node left the heap, and the nodes created on the way are Idle -/
theorem C03_aperture_getLoop_ok (cfg : Scales.Aperture.Cfg) (a : Scales.Aperture.AS)
    (inv : Scales.Aperture.PInv cfg a) (h : HInv a.hs) (hsz : 1 ≤ a.hs.size) :
    HInv (a.getLoop cfg (a.hs.nodes.length + a.idle.length + 1)).1.hs ∧
    (a.getLoop cfg (a.hs.nodes.length + a.idle.length + 1)).2 =
      (a.getLoop cfg (a.hs.nodes.length + a.idle.length + 1)).1.hs.idAt 1 ∧
    (((a.getLoop cfg (a.hs.nodes.length + a.idle.length + 1)).1.hs.node
        (a.getLoop cfg (a.hs.nodes.length + a.idle.length + 1)).2).chan = chOpen ∨
      ((a.getLoop cfg (a.hs.nodes.length + a.idle.length + 1)).1.hs.node
        (a.getLoop cfg (a.hs.nodes.length + a.idle.length + 1)).2).load ≥ 0) ∧
    (∀ id ∈ (a.getLoop cfg (a.hs.nodes.length + a.idle.length + 1)).1.hs.down,
      ((a.getLoop cfg (a.hs.nodes.length + a.idle.length + 1)).1.hs.node id).chan ≠ chOpen) ∧
    (∀ id, InHeap a.hs id → InHeap (a.getLoop cfg (a.hs.nodes.length + a.idle.length + 1)).1.hs id) ∧
    (∀ id, a.hs.nodes.length ≤ id → id < (a.getLoop cfg (a.hs.nodes.length + a.idle.length + 1)).1.hs.nodes.length →
      ((a.getLoop cfg (a.hs.nodes.length + a.idle.length + 1)).1.hs.node id).chan = 1) := by
  have gk := Scales.Aperture.getLoop_ok cfg (a.hs.nodes.length + a.idle.length + 1) a (List.range a.hs.nodes.length)
    inv h hsz (fun id hin _ => List.mem_range.mpr (inHeap_lt a.hs h.wf id hin)) (by simp)
  refine ⟨gk.hinv, gk.top, gk.ok, gk.scanned, gk.mf.old, ?_⟩
  intro id h1 h2
  rw [node_chan _ _ h2, gk.ch.getD]
  unfold chans
  simp only [List.getD_eq_getElem?_getD]
  rw [List.getElem?_eq_none (by simpa using h1)]
  rfl

/-- **least-loaded dispatch on the aperture.**  `_AsyncProcessRequestImpl` answers `noMembers` exactly when
    the aperture is empty; otherwise it answers a node that is a member of the aperture it started with or was
    taken in on the way, and if any member it started with is Open, the chosen node is such a member, its
    channel is Open and its outstanding count is minimal among the Open members; the invariant holds again -/
theorem C03_aperture_get_least_loaded (cfg : Scales.Aperture.Cfg) (a : Scales.Aperture.AS)
    (inv : Scales.Aperture.PInv cfg a) (h : HInv a.hs) (hb : a.hs.reqs.length + 1 < 2147483647) :
    HInv (a.get cfg).1.hs ∧
    ((a.get cfg).2 = GetRes.noMembers ↔ a.hs.size = 0) ∧
    (∀ nid ep r, (a.get cfg).2 = GetRes.node nid ep r →
      (InHeap a.hs nid ∨ a.hs.nodes.length ≤ nid) ∧
      ((∃ m, InHeap a.hs m ∧ (a.hs.node m).chan = chOpen) →
        InHeap a.hs nid ∧ (a.hs.node nid).chan = chOpen ∧
        ∀ m, InHeap a.hs m → (a.hs.node m).chan = chOpen → outOf a.hs nid ≤ outOf a.hs m)) := by
  obtain ⟨i, _, g0, g1⟩ := Scales.Aperture.get_ok cfg inv h (fun _ => hb)
  exact ⟨i, g0, fun nid ep r hr => (g1 nid ep r hr).2⟩

/-- **C03 on the aperture balancer, specification level.**  For every configuration (heap or aperture
    balancer, any min_size/max_size/load band, slow or immediate channel opens, any initial server set) and
    every operation list satisfying the component's hypothesis predicate `wfH` (= the hypotheses of C05/C06 and
    fewer than 2^31−1 dispatches), the history of the model satisfies the executable specification `specC03A`,
    the predicate `./check C03` evaluates on the real balancer's observations (component `aperture3`). -/
theorem C03_aperture_model_satisfies_spec (cfg : Scales.Aperture.Cfg) (ops : List Scales.LB.Op)
    (h : Scales.LB.comp3A.wf cfg ops = true) :
    Scales.LB.comp3A.spec cfg (Scales.LB.comp3A.modelTrace cfg ops) = Verdict.ok := by
  have h' : Scales.LB.wfH cfg ops = true := h
  obtain ⟨hw, hb⟩ := (Scales.LB.wfH_iff cfg ops).1 h'
  exact Scales.LB.specC03A_trace cfg ops _ _ {} 0 (Scales.LB.RInv.init cfg) Scales.LB.HInv_init
    Scales.LB.Sim3.init rfl (Scales.LB.GInv.init cfg) (Scales.LB.wf_proto hw) hb

/-! non-vacuity: an aperture of min_size 2 over three members; one request outstanding on node 0; node 1 (the
    root) faults; the next request marks it down inside `__Get`, the hook takes in the idle endpoint 2 as node 2
    (appended and sifted up after `FixDown`), node 2 is not open yet and is marked down in the next round,
    the request goes to node 0; then a completion -/
def c03ApCfg : Scales.Aperture.Cfg := ⟨true, 2, 10, 1 / 2, 2, false, [0, 1, 2]⟩
def c03ApHist : List Scales.LB.Op :=
  [.opn, .loaded [0, 1, 2] ⟨[], []⟩, .chan 0 2, .chan 1 2, .get ⟨[], [⟨0, 0, 0⟩]⟩, .chan 1 4,
   .get ⟨[2], [⟨0, 0, 0⟩]⟩, .put 0 0 ⟨[], [⟨0, 0, 0⟩]⟩]

example : Scales.LB.comp3A.wf c03ApCfg c03ApHist = true := by decide +kernel
example : (Scales.LB.runSt c03ApCfg (Scales.LB.init c03ApCfg) c03ApHist).sub.hs.size = 3 ∧
    (Scales.LB.runSt c03ApCfg (Scales.LB.init c03ApCfg) c03ApHist).sub.hs.down = [2, 1] ∧
    (Scales.LB.runSt c03ApCfg (Scales.LB.init c03ApCfg) c03ApHist).sub.idle = [] := by decide +kernel

/-! "requests outstanding" does not include a request that completed before it was dispatched.  A request
    with a deadline waits for the open result, its deadline passes (`expire 0`: its caller has its
    TimeoutError); the observations say it was dispatched to node 0 all the same when the open result
    completed.  Nothing is outstanding on node 0: after one more request to node 1, a request that goes to
    node 1 again has not gone to a least-loaded open member.  The same observations are accepted when the
    deadline has not passed (one request outstanding on each node then). -/
def c03LateObs (res : List Scales.LB.ResV) (load0 load1 : Int) (queued : Nat) : Scales.LB.Obs :=
  { res := res, heap := if queued == 0 then [⟨0, 0, load0, 1, 0, 2⟩, ⟨1, 1, load1, 2, 0, 2⟩] else [], down := [],
    off := [], servers := [0, 1], idle := [], pending := [], initDone := queued == 0, blocked := 0,
    openAr := queued == 0, queued := queued, jitter := false, total := 0, adj := [], gActive := 0, gIdle := 0 }

def c03LateHist (expired : Bool) : List (Scales.LB.Op × Scales.LB.Obs) :=
  [(.opn, c03LateObs [] 0 0 1), (.getd ⟨[], []⟩, c03LateObs [.queued] 0 0 1)] ++
  (if expired then [(Scales.LB.Op.expire 0, c03LateObs [] 0 0 1)] else []) ++
  [(.loaded [0, 1] ⟨[], []⟩, c03LateObs [.node 0 0 0] (Idle + 1) Idle 0),
   (.chan 0 2, c03LateObs [] (Idle + 1) Idle 0), (.chan 1 2, c03LateObs [] (Idle + 1) Idle 0),
   (.get ⟨[], []⟩, c03LateObs [.node 1 1 1] (Idle + 1) (Idle + 1) 0),
   (.get ⟨[], []⟩, c03LateObs [.node 1 1 2] (Idle + 1) (Idle + 2) 0)]

example : Scales.LB.specC03A c03ApCfg (c03LateHist true) =
    .fail "not-least-loaded" [V.ofNat 7, V.ofNat 1, V.ofNat 1] := by rfl
example : Scales.LB.specC03A c03ApCfg (c03LateHist false) = .ok := by rfl

end Scales.Heap
