/-
  Props/C13.lean — property theorems for C13 (ThriftMux frames are byte-exact).

  Encoder side (Model/MuxCodec.lean): `wire tag m` is what the client writes to the connection
  for message `m` under `tag`; `marshal`, `writeContext`, `buildHeader`, `readHeader`,
  `unmarshal` are its parts.  Decoder side (Adapter/MuxCodec.lean): `parseFrame`,
  `parseTdispatch`, `parseTdiscarded`, `decodeWire`, `utf8Decode`, `i64?` are written from the
  frame description and share no code with the encoder.

  The connection's byte stream: `splitStream` / `parseStream` (Adapter) split a stream by its
  length prefixes alone; `streamOf items` (the model) is what the send loop — the only writer —
  puts on the connection for the messages queued, whole frame after whole frame.

  Quantification: every message type in int8, every tag < 2^24, every sequence of property
  and header assignments with text (Unicode scalar values, UTF-8 length < 2^15) or deadline
  (two int64) values, every payload; no size bounds other than the format's own
  (`Msg.inDomain`), and `C13_dispatch_written_iff_in_domain` shows that this domain is
  exactly the set of dispatches the code writes at all.
-/
import ScalesModel.Proofs.MuxCodecLemmas
namespace Scales.MuxCodec

/-! ## text -/

/-- the strict UTF-8 decoder recovers the code points from the encoder's bytes -/
theorem C13_utf8_roundtrip (s : Text) (bs : Bytes) (h : utf8 s = some bs) : utf8Decode bs = some s :=
  utf8Decode_enc s bs h

/-- the encoder is defined exactly on sequences of Unicode scalar values -/
theorem C13_utf8_defined_iff_scalar (s : Text) :
    (utf8 s).isSome = s.all (fun c => decide (c < 1114112) && !(decide (55296 ≤ c) && decide (c < 57344))) :=
  utf8_isSome_iff s

/-! ## frames -/

/-- every frame written is a 4-byte big-endian length followed by exactly that many bytes:
    one type byte, three tag bytes and the body (no hypothesis: holds whenever anything is
    written at all) -/
theorem C13_frame_length_exact (tag : Nat) (m : Msg) (bs : Bytes) (h : wire tag m = .ok bs) :
    ∃ rest t body, bs = be32 rest.length ++ rest ∧ rest = [t] ++ encodeTag tag ++ body ∧
      t < 256 ∧ rest.length < 2147483648 := by
  obtain ⟨ty, body, hty, hlen, rfl⟩ := wire_inv tag m bs h
  simp only [inI8, Bool.and_eq_true, decide_eq_true_eq] at hty
  refine ⟨[toU 256 ty] ++ encodeTag tag ++ body, toU 256 ty, body, ?_, rfl, toU_lt ty hty.1 hty.2, ?_⟩
  · have : ([toU 256 ty] ++ encodeTag tag ++ body).length = 4 + body.length := by
      simp [encodeTag]; omega
    rw [this]; simp
  · simp [encodeTag]; omega

/-- header + body of any type in int8, any 24-bit tag and any body parses back to exactly
    that type, tag and body -/
theorem C13_frame_roundtrip (tag : Nat) (ty : Int) (body : Bytes) (hty : -128 ≤ ty ∧ ty ≤ 127)
    (htag : tag < 16777216) (hlen : 4 + body.length < 2147483648) :
    ∃ bs, frameOf tag ty body = .ok bs ∧ parseFrame bs = some ⟨ty, tag, body⟩ := by
  have h8 : inI8 ty = true := by simp [inI8, hty.1, hty.2]
  exact ⟨_, frameOf_ok tag ty body h8 hlen, parseFrame_enc tag ty body h8 (by omega) htag⟩

/-- `_BuildHeader`: the 8 bytes are length 4 + data_len, the signed type byte and the tag -/
theorem C13_header_exact (tag : Nat) (ty : Int) (len : Nat) (hty : -128 ≤ ty ∧ ty ≤ 127)
    (htag : tag < 16777216) (hlen : 4 + len < 2147483648) :
    ∃ bs, buildHeader tag ty len = .ok bs ∧ parseHeader bs = some (4 + len, ty, tag) := by
  have h8 : inI8 ty = true := by simp [inI8, hty.1, hty.2]
  exact ⟨_, buildHeader_ok tag ty len h8 hlen, parseHeader_enc tag ty (4 + len) h8 (by omega) htag⟩

/-- the independent decoder recovers exactly the type, tag, contexts, (empty) destination and
    delegation table, and payload that were supplied — for every in-domain message and tag -/
theorem C13_roundtrip (tag : Nat) (m : Msg) (hd : m.inDomain = true) (htag : tag < 16777216) :
    ∃ bs, wire tag m = .ok bs ∧ decodeWire bs = some (expectedOf tag m) := by
  exact ⟨_, wire_ok tag m hd, decodeWire_of_parse tag m hd _ (parseFrame_wire tag m hd htag)⟩

/-- the domain guard is not narrower than the code: a dispatch is written (no exception) if
    and only if it is in the domain -/
theorem C13_dispatch_written_iff_in_domain (tag : Nat) (props hdrs : List (Text × CtxVal)) (payload : Bytes) :
    (∃ bs, wire tag (.call props hdrs payload) = .ok bs) ↔ (Msg.call props hdrs payload).inDomain = true := by
  constructor
  · rintro ⟨bs, h⟩
    simp only [wire, marshal] at h
    split at h
    · cases h
    · rename_i ty body hm
      split at hm
      · cases hm
      · rename_i c hc
        cases hm
        obtain ⟨hok, rfl⟩ := writeContext_inv _ _ hc
        obtain ⟨_, hlen, _⟩ := frameOf_inv _ _ _ _ h
        have hb := bodyOf_length (.call props hdrs payload)
        simp only [bodyOf] at hb
        rw [hb] at hlen
        simp [Msg.inDomain, hok, hlen]
  · intro h; exact ⟨_, wire_ok tag _ h⟩

/-! ## contexts -/

/-- `_WriteContext` (F7 repaired): a 2-byte count, then for every entry of the dictionary, in
    order, the UTF-8 key preceded by its byte length and the value (UTF-8 text, or the 16
    bytes of a deadline) preceded by its byte length -/
theorem C13_context_lengths_are_byte_lengths (d : Dict) (bs : Bytes) (h : writeContext d = .ok bs) :
    bs = be16 d.length ++ (d.map (fun kv =>
        be16 (rawEntry kv).1.length ++ ((rawEntry kv).1 ++ (be16 (rawEntry kv).2.length ++ (rawEntry kv).2)))).flatten ∧
      ∀ kv ∈ d, utf8 kv.1 = some (rawEntry kv).1 ∧ rawVal kv.2 = some (rawEntry kv).2 := by
  obtain ⟨hok, rfl⟩ := writeContext_inv d bs h
  refine ⟨rfl, ?_⟩
  intro kv hkv
  simp only [dictOk, Bool.and_eq_true, List.all_eq_true] at hok
  have he := hok.2 kv hkv
  obtain ⟨k, v⟩ := kv
  simp only [entryOk, Bool.and_eq_true] at he
  obtain ⟨b, hb, _⟩ := textOk_inv k he.1
  refine ⟨by simp [rawEntry, hb], ?_⟩
  cases v with
  | other => simp [valOk] at he
  | deadline ts timeout => simp [rawEntry, rawVal]
  | text s =>
    obtain ⟨b', hb', _⟩ := textOk_inv s he.2
    simp [rawEntry, rawVal, hb']

/-- before the repair the character count was written as the length: for the one-character
    text "é" the independent reader gets back one byte, not the two bytes of its UTF-8 form -/
theorem C13_charcount_lengths_counterexample :
    writeTextOld [233] = .ok [0, 1, 195] ∧ sized16? [0, 1, 195] = some ([195], []) ∧
      utf8 [233] = some [195, 169] := by decide

/-- a dispatch body is the contexts, then an empty destination and an empty delegation table
    (four zero bytes), then the Thrift call, and its type is Tdispatch -/
theorem C13_dst_dtab_empty (props hdrs : List (Text × CtxVal)) (payload : Bytes) (ty : Int) (body : Bytes)
    (h : marshal (.call props hdrs payload) = .ok (ty, body)) :
    ty = 2 ∧ ∃ c, writeContext (dispatchCtx props hdrs) = .ok c ∧ body = c ++ [0, 0, 0, 0] ++ payload := by
  simp only [marshal] at h
  split at h
  · cases h
  · rename_i c hc
    cases h
    exact ⟨rfl, c, hc, by simp⟩

/-- a discard body carries the discarded tag (3 bytes) and the reason, and its type is Tdiscarded -/
theorem C13_discard_body (which : Nat) (reason : Text) (ty : Int) (body : Bytes)
    (h : marshal (.discard which reason) = .ok (ty, body)) :
    ty = 66 ∧ ∃ r, utf8 reason = some r ∧ body = be24 which ++ r ∧
      (which < 16777216 → parseTdiscarded body = some (which, r)) := by
  simp only [marshal] at h
  split at h
  · cases h
  · rename_i r hr
    cases h
    exact ⟨rfl, r, utf8E_inv _ _ hr, rfl, fun hw => parseTdiscarded_enc which r hw⟩

/-- the context dictionary has one entry per key … -/
theorem C13_ctx_keys_unique (props hdrs : List (Text × CtxVal)) :
    ((dispatchCtx props hdrs).map Prod.fst).Nodup :=
  dispatchCtx_nodup props hdrs

/-- … and holds, for every key, the header assigned last (client id, deadline) if there is
    one, else the caller property assigned last unless the key is private (`__…`) -/
theorem C13_ctx_lookup (props hdrs : List (Text × CtxVal)) (k : Text) :
    (dispatchCtx props hdrs).get? k = want props hdrs k :=
  dispatchCtx_get? props hdrs k

/-- the byte strings of an in-domain entry decode back to the typed key and value supplied:
    strict UTF-8 decoding for text, two signed 64-bit integers for a deadline -/
theorem C13_typed_contexts_recovered (k : Text) (v : CtxVal) (h : entryOk (k, v) = true) :
    utf8Decode (rawEntry (k, v)).1 = some k ∧
    (∀ s, v = .text s → utf8Decode (rawEntry (k, v)).2 = some s) ∧
    (∀ ts timeout, v = .deadline ts timeout →
      i64? ((rawEntry (k, v)).2.take 8) = some ts ∧ i64? ((rawEntry (k, v)).2.drop 8) = some timeout) := by
  simp only [entryOk, Bool.and_eq_true] at h
  obtain ⟨b, hb, _⟩ := textOk_inv k h.1
  refine ⟨by simp [rawEntry, hb, utf8Decode_enc k b hb], ?_, ?_⟩
  · rintro s rfl
    obtain ⟨b', hb', _⟩ := textOk_inv s h.2
    simp [rawEntry, rawVal, hb', utf8Decode_enc s b' hb']
  · rintro ts timeout rfl
    simp only [valOk, Bool.and_eq_true] at h
    have e1 : (be64 (toU 18446744073709551616 ts) ++ be64 (toU 18446744073709551616 timeout)).take 8
        = be64 (toU 18446744073709551616 ts) := by
      simp [be64, be32]
    have e2 : (be64 (toU 18446744073709551616 ts) ++ be64 (toU 18446744073709551616 timeout)).drop 8
        = be64 (toU 18446744073709551616 timeout) := by
      simp [be64, be32]
    simp only [rawEntry, rawVal, Option.getD_some, e1, e2]
    exact ⟨i64?_be64 ts h.2.1, i64?_be64 timeout h.2.2⟩

/-! ## the decoder accepts a single byte string per value -/

/-- a byte string the frame decoder accepts is the canonical encoding of what it returns -/
theorem C13_frame_decoder_canonical (bs : Bytes) (f : Frame) (hb : ∀ b ∈ bs, b < 256)
    (h : parseFrame bs = some f) :
    bs = be32 (4 + f.body.length) ++ ([toU 256 f.ty] ++ encodeTag f.tag) ++ f.body :=
  (parseFrame_inv bs f hb h).1

/-- the same for a Tdispatch body -/
theorem C13_tdispatch_decoder_canonical (bs : Bytes) (d : Tdispatch) (hb : ∀ b ∈ bs, b < 256)
    (h : parseTdispatch bs = some d) :
    bs = be16 d.ctxs.length ++ ((d.ctxs.map pairBytes).flatten ++
      (be16 d.dst.length ++ (d.dst ++ (be16 d.dtab.length ++ ((d.dtab.map pairBytes).flatten ++ d.payload))))) :=
  parseTdispatch_inv bs d hb h

/-! ## replies -/

/-- `ReadHeader` (F8 repaired) returns the signed type byte and the 24-bit tag, for every
    four bytes -/
theorem C13_readHeader_decodes (b0 b1 b2 b3 : Nat) (rest : Bytes) (h0 : b0 < 256) (h1 : b1 < 256)
    (h2 : b2 < 256) (h3 : b3 < 256) :
    readHeader (b0 :: b1 :: b2 :: b3 :: rest) = .ok (sgn8 b0, b1 * 65536 + b2 * 256 + b3) :=
  readHeader_eq b0 b1 b2 b3 rest h0 h1 h2 h3

/-- the reply-header reader inverts the header writer for every type byte and every tag -/
theorem C13_readHeader_inverts (tag : Nat) (ty : Int) (len : Nat) (bs : Bytes) (htag : tag < 16777216)
    (h : buildHeader tag ty len = .ok bs) : readHeader (bs.drop 4) = .ok (ty, tag) := by
  obtain ⟨hty, _, rfl⟩ := buildHeader_inv tag ty len bs h
  simp only [inI8, Bool.and_eq_true, decide_eq_true_eq] at hty
  have hd : (be32 (4 + len) ++ ([toU 256 ty] ++ encodeTag tag)).drop 4 = [toU 256 ty] ++ encodeTag tag := by
    simp [be32]
  rw [hd]
  simp only [encodeTag, List.cons_append, List.nil_append]
  rw [readHeader_eq _ _ _ _ [] (toU_lt ty hty.1 hty.2) (by omega) (by omega) (by omega),
    sgn8_toU ty hty.1 hty.2]
  congr 2; omega

/-- before the repair every non-negative type byte came back 256 too small: BAD_Rerr (127),
    which the unmarshal map knows, was read as −129 -/
theorem C13_readHeader_old_counterexample :
    buildHeader 5 127 0 = .ok [0, 0, 0, 4, 127, 0, 0, 5] ∧
      readHeaderOld [127, 0, 0, 5] = .ok (-129, 5) ∧ readHeader [127, 0, 0, 5] = .ok (127, 5) := by decide

/-- `_Unmarshal_Rdispatch` skips the reply contexts (whatever they contain) and hands exactly
    the remaining bytes to the Thrift deserializer when the status is OK -/
theorem C13_unmarshal_skips_contexts (cs : List (Bytes × Bytes)) (rest : Bytes) (hn : cs.length < 32768)
    (h : ∀ kv ∈ cs, kv.1.length < 32768 ∧ kv.2.length < 32768) :
    unmarshal (-2) ([0] ++ be16 cs.length ++ (cs.map pairBytes).flatten ++ rest) = .ok (.ret rest) := by
  simp only [unmarshal, rDispatch, if_true, be16, List.cons_append, List.nil_append, unmarshalRdispatch]
  rw [s16_be16 _ hn]
  simp only [Int.toNat_natCast, skipContexts_enc cs rest h, s8]
  simp

/-! ## the byte stream of a connection -/

/-- framing, for all frames: the bytes of any sequence of frames — any type in int8, any
    24-bit tag, any body — written one after the other split, by the length prefixes alone,
    into exactly those frames (`parseStream (frames.flatten) = frames`) -/
theorem C13_stream_framing (fs : List Frame) (bss : List Bytes)
    (hw : List.Forall₂ (fun f bs => frameOf f.tag f.ty f.body = .ok bs) fs bss)
    (htag : ∀ f ∈ fs, f.tag < 16777216) :
    parseStream bss.flatten = some fs := by
  have key : bss = fs.map encFrame ∧ ∀ f ∈ fs, frameOk f = true := by
    induction hw with
    | nil => exact ⟨rfl, by simp⟩
    | @cons f bs fs bss h _ ih =>
      obtain ⟨e, hok⟩ := ih (fun g hg => htag g (List.mem_cons_of_mem _ hg))
      obtain ⟨h1, h2, h3⟩ := frameOf_inv _ _ _ _ h
      refine ⟨by rw [List.map_cons, ← e, h3]; rfl, ?_⟩
      intro g hg
      rcases List.mem_cons.1 hg with rfl | hg
      · simp only [frameOk, h1, Bool.true_and, Bool.and_eq_true, decide_eq_true_eq]
        exact ⟨htag _ List.mem_cons_self, by omega⟩
      · exact hok g hg
  rw [key.1]
  exact parseStream_enc fs key.2

/-- prefix code, with no hypothesis on the messages: whatever byte strings the client writes
    for a sequence of queued messages, their concatenation splits back into exactly those
    byte strings — the send loop being the only writer, the peer sees the frames it was sent -/
theorem C13_stream_splits_into_written_frames (items : List (Nat × Msg)) (bss : List Bytes)
    (hw : List.Forall₂ (fun it bs => wire it.1 it.2 = .ok bs) items bss) :
    splitStream bss.flatten = some bss := by
  apply splitStream_flatten
  induction hw with
  | nil => simp
  | @cons it bs items bss h _ ih =>
    intro c hc
    rcases List.mem_cons.1 hc with rfl | hc
    · obtain ⟨ty, body, _, hlen, rfl⟩ := wire_inv _ _ _ h
      exact isChunk_encFrame ⟨ty, it.1, body⟩ (by simp only []; omega)
    · exact ih c hc

/-- the stream of any in-domain messages queued under 24-bit tags (calls, the transport's
    Tdiscarded, keep-alive pings, in any number and order) splits into one byte string per
    message, and the independent decoder recovers from each exactly the message supplied -/
theorem C13_stream_of_queued_messages (items : List (Nat × Msg))
    (h : ∀ it ∈ items, it.2.inDomain = true ∧ it.1 < 16777216) :
    ∃ bss, splitStream (streamOf items) = some bss ∧
      bss.map decodeWire = items.map (fun it => some (expectedOf it.1 it.2)) :=
  ⟨_, splitStream_streamOf items (items_all_ok items h), decode_items items h⟩

/-- no two different sequences of frames have the same byte stream -/
theorem C13_stream_unambiguous (fs gs : List Frame) (bss css : List Bytes)
    (hf : List.Forall₂ (fun f bs => frameOf f.tag f.ty f.body = .ok bs) fs bss)
    (hg : List.Forall₂ (fun f bs => frameOf f.tag f.ty f.body = .ok bs) gs css)
    (htf : ∀ f ∈ fs, f.tag < 16777216) (htg : ∀ f ∈ gs, f.tag < 16777216)
    (h : bss.flatten = css.flatten) : fs = gs := by
  have h1 := C13_stream_framing fs bss hf htf
  have h2 := C13_stream_framing gs css hg htg
  rw [h, h2] at h1
  exact (Option.some.inj h1).symm

/-- a stream has one reading: a byte stream the stream decoder accepts is the concatenation
    of the canonical encodings of the frames it returns -/
theorem C13_stream_decoder_canonical (bs : Bytes) (fs : List Frame) (hb : ∀ b ∈ bs, b < 256)
    (h : parseStream bs = some fs) :
    bs = (fs.map (fun f => be32 (4 + f.body.length) ++ ([toU 256 f.ty] ++ encodeTag f.tag) ++ f.body)).flatten :=
  (parseStream_inv bs fs hb h).1

/-- what goes wrong when the send loop is not the only writer: a Tping written after the
    first 6 bytes of a Tdispatch leaves a stream that is not a sequence of frames, while the
    same two frames written whole, in either order, are read back -/
theorem C13_interleaved_write_counterexample :
    wire 2 (.call [] [] [7, 8]) = .ok [0, 0, 0, 12, 2, 0, 0, 2, 0, 0, 0, 0, 0, 0, 7, 8] ∧
    wire 1 .ping = .ok [0, 0, 0, 4, 65, 0, 0, 1] ∧
    parseStream ([0, 0, 0, 12, 2, 0, 0, 2, 0, 0, 0, 0, 0, 0, 7, 8] ++ [0, 0, 0, 4, 65, 0, 0, 1])
      = some [⟨2, 2, [0, 0, 0, 0, 0, 0, 7, 8]⟩, ⟨65, 1, []⟩] ∧
    parseStream ([0, 0, 0, 12, 2, 0] ++ [0, 0, 0, 4, 65, 0, 0, 1] ++ [0, 2, 0, 0, 0, 0, 0, 0, 7, 8]) = none := by
  decide

/-! ## the model satisfies the executable specification the harness evaluates -/

theorem C13_model_satisfies_spec (cfg : Cfg) (ops : List Op) (_h : wf cfg ops = true) :
    spec cfg (comp.modelTrace cfg ops) = .ok := by
  unfold spec TComp.modelTrace
  exact specGo_trace ops 0

/-! non-vacuity: concrete instances -/
example : (Msg.call [([107, 233, 121], .text [118, 228, 108, 8364]), ([95, 95, 84], .other)]
    [([99], .deadline 1000000000 (-5))] [128, 1]).inDomain = true := by decide
example : wire 16777215 (.discard 77 [67, 108]) = .ok [0, 0, 0, 9, 66, 255, 255, 255, 0, 0, 77, 67, 108] := by decide
example : decodeWire [0, 0, 0, 9, 66, 255, 255, 255, 0, 0, 77, 67, 108] = some (.discarded 16777215 77 [67, 108]) := by
  decide
example : dispatchCtx [([97], .text [1]), ([95, 95, 98], .other), ([97], .text [2])] [([99], .deadline 1 2)]
    = [([97], .text [2]), ([99], .deadline 1 2)] := by decide
example : utf8 [107, 233, 8364, 128512] = some [107, 195, 169, 226, 130, 172, 240, 159, 152, 128] := by decide
example : unmarshal (-2) [0, 0, 1, 0, 1, 97, 0, 2, 98, 99, 7, 8] = .ok (.ret [7, 8]) := by decide

end Scales.MuxCodec
