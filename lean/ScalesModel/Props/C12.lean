/-
  Props/C12.lean — timed-out calls are never transmitted afterwards; sent ones are discarded.

  One lemma per hop of the request path, on the component models, for every state / history:
  the front end (expired at dispatch → nothing goes below the timeout sink; the deadline event
  is raised when the timer fires) and the multiplexed transport (a request whose deadline event
  has fired is dropped by the send loop; one that was already written gets a Tdiscarded naming
  its tag).  The serial transport and pool hops are stated on their own models (Props of C08 / C07); the
  balancer hop — `LoadBalancerSink.AsyncProcessRequest`: a request that arrives before the open
  result is complete waits for it, and `_on_open_done` forwards it only if its deadline event is
  absent or not set — is stated at the end of this file on the balancer model of C05/C06
  (Model/LBBase.lean over Model/Aperture.lean, component `lbgate`, spec `LB.specGate`); the assembled
  stacks are judged by the monitor `E2E.comp 12`.
-/
import ScalesModel.Adapter.E2E
import ScalesModel.Adapter.TagPool
import ScalesModel.Adapter.FrontEnd
import ScalesModel.Proofs.MuxWriteLemmas
import ScalesModel.Adapter.SerialC12
import ScalesModel.Props.C07
import ScalesModel.Proofs.LBGate
namespace Scales.C12

open Scales.TagPool in
/-- Send-queue hop: the send loop never writes a request whose deadline event has fired. -/
theorem C12_mux_drop_before_send (s : St) (t rid : Nat) (f : Frame)
    (hf : f ∈ (stepSend s).2.wrote) (hk : f.kind = .req) (harg : f.arg = rid) (_ht : f.tag = t) :
    ∃ r, s.reqs[rid]? = some r ∧ r.ev ≠ .fired := by
  unfold stepSend at hf
  split at hf
  · simp at hf
  · simp at hf; subst hf; cases hk
  · simp at hf; subst hf; cases hk
  · rename_i rid' t' q
    simp only at hf
    split at hf
    · simp at hf
    · rename_i r hr
      split at hf
      · simp at hf
      · split at hf
        · split at hf <;> simp at hf
        · simp at hf; subst hf
          simp only at harg; subst harg
          exact ⟨r, hr, by simp_all⟩
        · simp at hf; subst hf
          simp only at harg; subst harg
          exact ⟨r, hr, by simp_all⟩

open Scales.TagPool in
/-- a step touches the request table only by appending or by rewriting the key / subscription
    flag of one entry, or by raising an entry's event -/
def SameEv (l l' : List Req) : Prop :=
  ∀ (rid : Nat) (r : Req), l[rid]? = some r → r.ev = Ev.fired → ∃ r' : Req, l'[rid]? = some r' ∧ r'.ev = Ev.fired

open Scales.TagPool in
theorem SameEv.refl (l : List Req) : SameEv l l := fun _ r h1 h2 => ⟨r, h1, h2⟩

open Scales.TagPool in
theorem SameEv.set (l : List Req) (j : Nat) (r0 n : Req) (h0 : l[j]? = some r0)
    (hn : r0.ev = .fired → n.ev = .fired) : SameEv l (l.set j n) := by
  intro rid r hr hf
  have hlt : rid < l.length := (List.getElem?_eq_some_iff.mp hr).1
  by_cases h : j = rid
  · subst h
    rw [hr] at h0; cases h0
    exact ⟨n, by simp [List.getElem?_set, hlt], hn hf⟩
  · exact ⟨r, by simp [List.getElem?_set, h, hr], hf⟩

open Scales.TagPool in
theorem SameEv.append (l x : List Req) : SameEv l (l ++ x) := by
  intro rid r hr hf
  have hlt : rid < l.length := (List.getElem?_eq_some_iff.mp hr).1
  exact ⟨r, by simp [List.getElem?_append_left hlt, hr], hf⟩

open Scales.TagPool in
theorem sameEv_send (s : St) : SameEv s.reqs (stepSend s).1.reqs := by
  unfold stepSend
  split
  · exact SameEv.refl _
  · exact SameEv.refl _
  · exact SameEv.refl _
  · simp only
    split
    · exact SameEv.refl _
    · rename_i r hr
      split
      · exact SameEv.refl _
      · split
        · split
          · simp only [releaseTag]
            split <;> exact SameEv.set _ _ r _ hr (fun h => h)
          · exact SameEv.set _ _ r _ hr (fun h => h)
        · exact SameEv.set _ _ r _ hr (fun h => h)
        · exact SameEv.refl _

open Scales.TagPool in
theorem sameEv_process (s : St) (mt : Int) (t : Nat) : SameEv s.reqs (stepProcess s mt t).1.reqs := by
  unfold stepProcess
  split
  · exact SameEv.refl _
  · split
    · cases hl : tmLookup t s.tagmap with
      | none => simp only [releaseTag, hl]; exact SameEv.refl _
      | some rid =>
        simp only [releaseTag, hl, setKey]
        split
        · rename_i r0 hr0
          exact SameEv.set _ _ r0 _ hr0 (fun h => h)
        · exact SameEv.refl _
    · exact SameEv.refl _

open Scales.TagPool in
theorem sameEv_processKafka (s : St) (t : Nat) : SameEv s.reqs (stepProcessKafka s t).1.reqs := by
  unfold stepProcessKafka
  cases hl : tmLookup t s.tagmap with
  | none => simp only [releaseTag, hl]; exact SameEv.refl _
  | some rid =>
    simp only [releaseTag, hl, setKey]
    split
    · rename_i r0 hr0
      exact SameEv.set _ _ r0 _ hr0 (fun h => h)
    · exact SameEv.refl _

open Scales.TagPool in
/-- the deadline event of a request stays fired (until the connection is replaced), on either
    transport -/
theorem C12_mux_fired_stays (fl : Flavour) (max : Nat) (s : St) (op : Op) (rid : Nat) (r : Req)
    (hop : op ≠ .reopen) (hr : s.reqs[rid]? = some r) (hfired : r.ev = .fired) :
    ∃ r', (stepOp fl max s op).1.reqs[rid]? = some r' ∧ r'.ev = .fired := by
  have key : SameEv s.reqs (stepOp fl max s op).1.reqs := by
    cases op with
    | reopen => exact absurd rfl hop
    | ping => cases fl <;> exact SameEv.refl _
    | req e popped =>
      simp only [stepOp, stepReq]
      split
      · exact SameEv.append _ _
      · exact SameEv.refl _
      · exact SameEv.append _ _
    | fire rid' =>
      simp only [stepOp, stepFire]
      split
      · rename_i r0 hr0
        split
        · exact SameEv.set _ _ r0 _ hr0 (fun _ => rfl)
        · exact SameEv.refl _
      · exact SameEv.refl _
    | notify rid' =>
      cases fl with
      | thriftmux =>
        simp only [stepOp, stepNotify]
        split
        · rename_i r0 hr0
          split
          · split <;> exact SameEv.set _ _ r0 _ hr0 (fun h => h)
          · exact SameEv.refl _
        · exact SameEv.refl _
      | kafka =>
        simp only [stepOp, stepNotifyKafka]
        split
        · rename_i r0 hr0
          split
          · exact SameEv.set _ _ r0 _ hr0 (fun h => h)
          · exact SameEv.refl _
        · exact SameEv.refl _
    | send =>
      simp only [stepOp]
      split
      · exact SameEv.refl _
      · exact sameEv_send s
    | wbegin =>
      simp only [stepOp, stepWBegin]
      split
      · exact SameEv.refl _
      · split
        · exact SameEv.refl _
        · exact sameEv_send s
    | wend =>
      simp only [stepOp, stepWEnd]
      split <;> exact SameEv.refl _
    | quiet =>
      simp only [stepOp, stepQuiet]
      split <;> exact SameEv.refl _
    | process mt t =>
      cases fl with
      | thriftmux => exact sameEv_process s mt t
      | kafka => exact sameEv_processKafka s t
  exact key rid r hr hfired

open Scales.TagPool in
/-- On-the-wire hop: when the timeout notification of a request that was written (its tag is
    still in its properties) runs, a Tdiscarded naming exactly that tag is queued, and the send
    loop writes a queued Tdiscarded unconditionally. -/
theorem C12_mux_discard_after_send (s : St) (rid t : Nat) (r : Req)
    (hr : s.reqs[rid]? = some r) (hfired : r.ev = .fired) (hsub : r.sub = true) (hkey : r.key = .tag t) :
    (stepNotify s rid).1.sendq = s.sendq ++ [.discard t] ∧
    ∀ q (s' : St), s'.sendq = .discard t :: q → (stepSend s').2.wrote = [⟨.discard, 0, t⟩] := by
  constructor
  · simp [stepNotify, hr, hfired, hsub, hkey]
  · intro q s' hq
    simp [stepSend, hq]

/-! ### history level, multiplexed transport

  `cfg.max` is any pool size ≥ 2 and `ops` any sequence of atomic transport steps with `opsOk`
  (every label is one the code can take in its state) — requests, deadline events firing at any
  point, send-loop iterations, time-out callbacks, arbitrary peer frames, pings, re-opens.
  `comp.spec` (= `spec12`: the C11 and C02 clauses and the three C12 clauses) is the predicate the
  harness evaluates on the observations of the real `SocketTransportSink`. -/

open Scales.TagPool in
/-- **Specification level.**  The component's executable specification, C12 clauses included,
    holds of every history of the model. -/
theorem C12_mux_model_satisfies_spec (cfg : Cfg) (ops : List Op) (hc : cfgWF cfg = true)
    (ho : opsOk cfg (initSt cfg) ops = true) : comp.spec cfg (comp.modelTrace cfg ops) = .ok := by
  exact spec12_trace cfg (wf_max hc) ops (Acc.init cfg) (initSt cfg) 0 (Inv_init cfg hc) (Inv12_init cfg) (InvM_init cfg) ho

open Scales.TagPool in
/-- **No transmission after the time-out.**  Once the deadline event of request `rid` has fired,
    no later step writes a request frame of `rid` (as long as the connection is not replaced,
    which starts the request numbering afresh). -/
theorem C12_mux_no_write_after_fire (cfg : Cfg) (ops : List Op) (hc : cfgWF cfg = true)
    (ho : opsOk cfg (initSt cfg) ops = true) (h1 h2 h3 : List (Op × Obs)) (rid : Nat) (o1 : Obs) (op : Op) (o : Obs)
    (htr : comp.modelTrace cfg ops = h1 ++ (.fire rid, o1) :: (h2 ++ (op, o) :: h3))
    (hno : ∀ p ∈ h2, p.1 ≠ .reopen) :
    ∀ f ∈ o.wrote, f.kind = .req → f.arg ≠ rid := by
  have hs := C12_mux_model_satisfies_spec cfg ops hc ho
  have e : h1 ++ (Op.fire rid, o1) :: (h2 ++ (op, o) :: h3) = (h1 ++ (Op.fire rid, o1) :: h2) ++ (op, o) :: h3 := by
    simp
  rw [htr, e] at hs
  have h12 := (specGo12_split cfg _ (Acc.init cfg) 0 op o h3 hs).2
  have hnw := ((specObs12_ok_iff cfg _ _ op o).mp h12).1
  have hfired : rid ∈ (accAfter (Acc.init cfg) (h1 ++ (Op.fire rid, o1) :: h2)).fired := by
    have e2 : h1 ++ (Op.fire rid, o1) :: h2 = h1 ++ ([(Op.fire rid, o1)] ++ h2) := by simp
    rw [e2, accAfter_append, accAfter_append]
    apply fired_mono rid h2 _ hno
    simp [accAfter, Acc.after]
  intro f hf hk e3
  have hp : (f.tag, f.arg) ∈ reqPairs o.wrote := by
    simp only [reqPairs, List.mem_map, List.mem_filter]
    exact ⟨f, ⟨hf, by simp [hk]⟩, rfl⟩
  have := hnw _ hp
  simp only at this
  rw [e3] at this
  exact this hfired

open Scales.TagPool in
/-- the same for a request whose deadline had already passed when it was handed to the transport
    (`req .pre`): it is the `nreq`-th request of the connection and is never written -/
theorem C12_mux_no_write_if_expired_at_issue (cfg : Cfg) (ops : List Op) (hc : cfgWF cfg = true)
    (ho : opsOk cfg (initSt cfg) ops = true) (h1 h2 h3 : List (Op × Obs)) (popped : Nat) (o1 : Obs) (op : Op) (o : Obs)
    (htr : comp.modelTrace cfg ops = h1 ++ (.req .pre popped, o1) :: (h2 ++ (op, o) :: h3))
    (hno : ∀ p ∈ h2, p.1 ≠ .reopen) :
    ∀ f ∈ o.wrote, f.kind = .req → f.arg ≠ (accAfter (Acc.init cfg) h1).nreq := by
  have hs := C12_mux_model_satisfies_spec cfg ops hc ho
  have e : h1 ++ (Op.req .pre popped, o1) :: (h2 ++ (op, o) :: h3)
      = (h1 ++ (Op.req .pre popped, o1) :: h2) ++ (op, o) :: h3 := by simp
  rw [htr, e] at hs
  have h12 := (specGo12_split cfg _ (Acc.init cfg) 0 op o h3 hs).2
  have hnw := ((specObs12_ok_iff cfg _ _ op o).mp h12).1
  have hfired : (accAfter (Acc.init cfg) h1).nreq ∈ (accAfter (Acc.init cfg) (h1 ++ (Op.req .pre popped, o1) :: h2)).fired := by
    have e2 : h1 ++ (Op.req .pre popped, o1) :: h2 = h1 ++ ([(Op.req .pre popped, o1)] ++ h2) := by simp
    rw [e2, accAfter_append, accAfter_append]
    apply fired_mono _ h2 _ hno
    simp [accAfter, Acc.after]
  intro f hf hk e3
  have hp : (f.tag, f.arg) ∈ reqPairs o.wrote := by
    simp only [reqPairs, List.mem_map, List.mem_filter]
    exact ⟨f, ⟨hf, by simp [hk]⟩, rfl⟩
  have := hnw _ hp
  simp only at this
  rw [e3] at this
  exact this hfired

open Scales.TagPool in
/-- **A sent request that times out is discarded** (ThriftMux; Kafka has no discard message,
    there the tag simply stays leased — `C11_release_only_answered_or_unsent`).  Request `rid`'s frame was written with tag
    `t` and not answered since (`(t, rid) ∈ unansweredPairs cfg h1`); its time-out callback runs
    (`notify rid`, which requires the fired event); when afterwards, on the same connection, the
    send queue is found empty, a Tdiscarded naming `t` has been written in between. -/
theorem C12_mux_discard_written (cfg : Cfg) (ops : List Op) (hc : cfgWF cfg = true)
    (ho : opsOk cfg (initSt cfg) ops = true) (h1 h2 h3 : List (Op × Obs)) (rid t : Nat) (o1 : Obs) (op : Op) (o : Obs)
    (htr : comp.modelTrace cfg ops = h1 ++ (.notify rid, o1) :: (h2 ++ (op, o) :: h3))
    (hfl : cfg.fl = .thriftmux) (hw : (t, rid) ∈ unansweredPairs cfg h1)
    (hno : ∀ p ∈ h2, p.1 ≠ .reopen) (hop : op ≠ .reopen) (hdrain : o.qlen = 0) :
    ∃ p ∈ (Op.notify rid, o1) :: (h2 ++ [(op, o)]), ∃ f ∈ p.2.wrote, f.kind = .discard ∧ f.arg = t := by
  have hs := C12_mux_model_satisfies_spec cfg ops hc ho
  have e : h1 ++ (Op.notify rid, o1) :: (h2 ++ (op, o) :: h3)
      = (h1 ++ (Op.notify rid, o1) :: h2) ++ (op, o) :: h3 := by simp
  rw [htr, e] at hs
  have h12 := (specGo12_split cfg _ (Acc.init cfg) 0 op o h3 hs).2
  have hdd := ((specObs12_ok_iff cfg _ _ op o).mp h12).2.2 hfl hdrain
  -- the accumulator just before the notify step, and what is due in that step
  have hdue : t ∈ dueNow (accAfter (Acc.init cfg) h1) (.notify rid) := by
    simp only [dueNow, List.mem_append]
    right
    simp only [tagsOf, List.mem_map, List.mem_filter, beq_iff_eq]
    exact ⟨(t, rid), ⟨hw, rfl⟩, rfl⟩
  -- at the end nothing is due
  have hend : t ∉ (accAfter ((accAfter (Acc.init cfg) h1).after (.notify rid) o1) (h2 ++ [(op, o)])).owed := by
    have e2 : accAfter ((accAfter (Acc.init cfg) h1).after (.notify rid) o1) (h2 ++ [(op, o)])
        = (accAfter (Acc.init cfg) (h1 ++ (Op.notify rid, o1) :: h2)).after op o := by
      have e3 : h1 ++ (Op.notify rid, o1) :: h2 = h1 ++ ([(Op.notify rid, o1)] ++ h2) := by simp
      rw [e3, accAfter_append, accAfter_append, accAfter_append]
      simp [accAfter]
    rw [e2, hdd]; simp
  have toFrame : ∀ (p : Op × Obs), t ∈ discTags p.2.wrote → ∃ f ∈ p.2.wrote, f.kind = .discard ∧ f.arg = t := by
    intro p hp
    simp only [discTags, List.mem_map, List.mem_filter, beq_iff_eq] at hp
    obtain ⟨f, ⟨hf, hk⟩, ha⟩ := hp
    exact ⟨f, hf, hk, ha⟩
  by_cases hd : t ∈ discTags o1.wrote
  · exact ⟨(Op.notify rid, o1), by simp, toFrame _ hd⟩
  · have hin : t ∈ ((accAfter (Acc.init cfg) h1).after (.notify rid) o1).owed := by
      rw [after_owed _ _ _ (by simp)]
      exact mem_eraseAll _ _ hdue hd
    have hno' : ∀ p ∈ h2 ++ [(op, o)], p.1 ≠ .reopen := by
      intro p hp
      simp only [List.mem_append, List.mem_singleton] at hp
      rcases hp with hp | hp
      · exact hno p hp
      · subst hp; exact hop
    obtain ⟨p, hp, hpd⟩ := owed_consumed t _ _ hno' hin hend
    exact ⟨p, List.mem_cons_of_mem _ hp, toFrame p hpd⟩

open Scales.TagPool in
/-- **Exactly one Tdiscarded becomes due per timed-out, written request.**  At the time-out
    callback of request `rid`, whose frame was written with tag `t` and is unanswered, the tags
    that become due are exactly `[t]`. -/
theorem C12_mux_due_once (cfg : Cfg) (ops : List Op) (hc : cfgWF cfg = true)
    (ho : opsOk cfg (initSt cfg) ops = true) (h1 h2 : List (Op × Obs)) (rid t : Nat) (o1 : Obs)
    (htr : comp.modelTrace cfg ops = h1 ++ (.notify rid, o1) :: h2)
    (hw : (t, rid) ∈ unansweredPairs cfg h1) :
    dueAdded (accAfter (Acc.init cfg) h1) (.notify rid) = [t] := by
  obtain ⟨o1', o2', hops, hh1, hok1, hh2, hok2⟩ := trace_prefix cfg ops h1 _ ho htr
  have hinv := Inv_trace cfg (wf_max hc) o1' (Acc.init cfg) (initSt cfg) (Inv_init cfg hc) hok1
  have hinv12 := Inv12_trace cfg (wf_max hc) o1' (Acc.init cfg) (initSt cfg) (Inv_init cfg hc) (Inv12_init cfg) hok1
  rw [← hh1] at hinv hinv12
  -- the first operation of the rest is the notify, and it is enabled
  cases o2' with
  | nil => simp [TComp.trace] at hh2
  | cons op' rest =>
    simp only [TComp.trace, List.cons.injEq, Prod.mk.injEq] at hh2
    obtain ⟨⟨hop', _⟩, _⟩ := hh2
    subst hop'
    simp only [opsOk, Bool.and_eq_true] at hok2
    have hen := hok2.1
    have hs : reachFrom cfg (initSt cfg) o1' = reach cfg o1' := rfl
    rw [hs] at hinv hinv12
    -- the callback is enabled: the request exists and is subscribed (either transport)
    have hex : ∃ r, (reach cfg o1').reqs[rid]? = some r ∧ r.sub = true := by
      simp only [opEnabled, stepOp] at hen
      cases hfl : cfg.fl with
      | thriftmux =>
        simp only [hfl, stepNotify] at hen
        cases hr : (reach cfg o1').reqs[rid]? with
        | none => simp [hr] at hen
        | some r =>
          simp only [hr] at hen
          by_cases hev : r.ev = .fired ∧ r.sub = true
          · exact ⟨r, rfl, hev.2⟩
          · simp [hev] at hen
      | kafka =>
        simp only [hfl, stepNotifyKafka] at hen
        cases hr : (reach cfg o1').reqs[rid]? with
        | none => simp [hr] at hen
        | some r =>
          simp only [hr] at hen
          by_cases hev : r.ev = .fired ∧ r.sub = true
          · exact ⟨r, rfl, hev.2⟩
          · simp [hev] at hen
    obtain ⟨r, hr, hsub⟩ := hex
    have hsk := hinv12.subkey rid r hr hsub
    have hk : r.key = .tag t := (hsk t).mpr hw
    have hall : ∀ t', (t', rid) ∈ (accAfter (Acc.init cfg) h1).unans → t' = t := by
      intro t' ht'
      have := (hsk t').mpr ht'
      rw [hk] at this; injection this with e; exact e.symm
    exact tagsOf_single hw hinv12.tnd hall

open Scales.TagPool in
/-- **… and each is written once.**  Over any stretch of a model history without re-open, from
    any point on: the Tdiscarded frames written naming `t`, plus the entries for `t` still due at
    the end, are exactly the entries due at the start plus those that became due in between — no
    Tdiscarded is written that was not due, none is written twice, none is lost. -/
theorem C12_mux_discard_exactly_once (cfg : Cfg) (ops : List Op) (hc : cfgWF cfg = true)
    (ho : opsOk cfg (initSt cfg) ops = true) (hfl : cfg.fl = .thriftmux) (h1 h2 h3 : List (Op × Obs)) (t : Nat)
    (htr : comp.modelTrace cfg ops = h1 ++ h2 ++ h3) (hno : ∀ p ∈ h2, p.1 ≠ .reopen) :
    discardsWritten t h2 + (owedAfter cfg (h1 ++ h2)).count t
      = (owedAfter cfg h1).count t + madeDue t (accAfter (Acc.init cfg) h1) h2 := by
  have hs := C12_mux_model_satisfies_spec cfg ops hc ho
  rw [htr] at hs
  have hs12 : specGo12 cfg (accAfter (Acc.init cfg) h1) (0 + h1.length) h2 = .ok := by
    have h1' := specGo12_prefix cfg (h1 ++ h2) h3 (Acc.init cfg) 0 hs
    exact specGo12_suffix cfg h1 h2 (Acc.init cfg) 0 h1'
  have hok := discStepsOk_of_spec12 cfg hfl h2 _ _ hs12
  have := discard_accounting t h2 (accAfter (Acc.init cfg) h1) hno hok
  simp only [owedAfter, accAfter_append]
  exact this

/-! ### the write as a yield point

  `self._socket.write(payload)` is the one place inside an iteration of `_SendLoop` at which the
  greenlet can be parked (slow peer).  `wbegin` is the iteration up to the issue of a write call
  that blocks — from then on the frame counts as written, the peer may already hold a prefix of
  it — and `wend` is that call returning; every other step can happen in between.  The deadline
  subscription is made *before* the call is issued, so a deadline that expires while the call is
  blocked finds it: the caller gets its TimeoutError, the time-out callback queues a Tdiscarded
  behind the frame being written, and the send loop writes it once the write has returned. -/

open Scales.TagPool in
/-- Function level: when the send loop blocks in the write of a request frame, the loop is
    parked, and a request whose deadline is still pending is subscribed to its deadline event
    (`_HandleTimeout` ran before `write` was called). -/
theorem C12_mux_blocked_write_is_subscribed (s : St) (t rid : Nat)
    (hf : (⟨.req, t, rid⟩ : Frame) ∈ (stepWBegin s).2.wrote) :
    (stepWBegin s).1.writing = true ∧
    ∃ r, (stepWBegin s).1.reqs[rid]? = some r ∧ r.ev ≠ .fired ∧ (r.ev = .unfired → r.sub = true) := by
  unfold stepWBegin at hf ⊢
  by_cases hw : s.writing = true
  · simp [hw] at hf
  · simp only [hw] at hf ⊢
    cases he : (stepSend s).2.wrote.isEmpty with
    | true => simp [he] at hf
    | false =>
      simp only [he, if_false, Bool.false_eq_true] at hf ⊢
      refine ⟨by trivial, ?_⟩
      show ∃ r, (stepSend s).1.reqs[rid]? = some r ∧ r.ev ≠ .fired ∧ (r.ev = .unfired → r.sub = true)
      clear he hw
      unfold stepSend at hf ⊢
      cases hq : s.sendq with
      | nil => simp [hq] at hf
      | cons i q =>
        cases i with
        | ping => simp [hq] at hf
        | discard w => simp [hq] at hf
        | req rid' t' =>
          simp only [hq] at hf ⊢
          cases hr : s.reqs[rid']? with
          | none => simp [hr] at hf
          | some r =>
            simp only [hr] at hf ⊢
            cases hk : r.key with
            | answered => simp [hk] at hf
            | tag k =>
              simp only [hk] at hf ⊢
              cases hev : r.ev with
              | fired => simp [hev] at hf
              | unfired =>
                simp only [hev, List.mem_singleton, Frame.mk.injEq, true_and] at hf ⊢
                obtain ⟨_, e⟩ := hf; subst e
                exact ⟨_, set_self hr _, by simp, fun _ => rfl⟩
              | noev =>
                simp only [hev, List.mem_singleton, Frame.mk.injEq, true_and] at hf ⊢
                obtain ⟨_, e⟩ := hf; subst e
                exact ⟨r, hr, by simp [hev], fun h => by rw [hev] at h; cases h⟩
            | absent =>
              simp only [hk] at hf ⊢
              cases hev : r.ev with
              | fired => simp [hev] at hf
              | unfired =>
                simp only [hev, List.mem_singleton, Frame.mk.injEq, true_and] at hf ⊢
                obtain ⟨_, e⟩ := hf; subst e
                exact ⟨_, set_self hr _, by simp, fun _ => rfl⟩
              | noev =>
                simp only [hev, List.mem_singleton, Frame.mk.injEq, true_and] at hf ⊢
                obtain ⟨_, e⟩ := hf; subst e
                exact ⟨r, hr, by simp [hev], fun h => by rw [hev] at h; cases h⟩

open Scales.TagPool in
/-- Function level: the deadline of a written request expires while the send loop is parked in a
    write (of this request's frame or of another one): the time-out callback queues a Tdiscarded
    naming the tag behind whatever waits, and the loop stays parked. -/
theorem C12_mux_expiry_during_write_queues_discard (s : St) (rid t : Nat) (r : Req) (hw : s.writing = true)
    (hr : s.reqs[rid]? = some r) (hfired : r.ev = .fired) (hsub : r.sub = true) (hkey : r.key = .tag t) :
    (stepNotify s rid).1.sendq = s.sendq ++ [.discard t] ∧ (stepNotify s rid).1.writing = true ∧
    (stepNotify s rid).2.res = .ok := by
  simp [stepNotify, hr, hfired, hsub, hkey, hw]

open Scales.TagPool in
/-- **A request that was written — or whose write was in progress — when its caller got
    TimeoutError is discarded** (ThriftMux), stated on what caller and peer see only.
    The write call for request `rid`'s frame with tag `t` was issued in step `opw` (an iteration
    that completed, `send`, or one that blocks, `wbegin`); later, on the same connection and
    with no frame of the peer on tag `t` in between, the deadline event of `rid` fires (`fire rid`:
    the caller is handed TimeoutError).  Then at the first moment afterwards at which nothing is
    runnable, the send queue is empty and no write is in progress (`quiet`), a Tdiscarded naming
    `t` has been written since the deadline fired — unless the peer answered `t` meanwhile. -/
theorem C12_mux_timed_out_written_is_discarded (cfg : Cfg) (ops : List Op) (hc : cfgWF cfg = true)
    (ho : opsOk cfg (initSt cfg) ops = true) (h1 h2 h3 h4 : List (Op × Obs)) (opw : Op) (ow : Obs) (rid t : Nat)
    (o2 o : Obs)
    (htr : comp.modelTrace cfg ops = h1 ++ (opw, ow) :: (h2 ++ (.fire rid, o2) :: (h3 ++ (.quiet, o) :: h4)))
    (hfl : cfg.fl = .thriftmux)
    (hw : (⟨.req, t, rid⟩ : Frame) ∈ ow.wrote) (hopw : opw ≠ .reopen)
    (hno : ∀ p ∈ h2 ++ (Op.fire rid, o2) :: h3, p.1 ≠ .reopen)
    (hna : ∀ p ∈ h2 ++ (Op.fire rid, o2) :: h3, ∀ m, p.1 ≠ .process m t)
    (hq : o.qlen = 0)
    (hidle : writeInProgress cfg (h1 ++ (opw, ow) :: (h2 ++ (Op.fire rid, o2) :: h3)) = false) :
    ∃ p ∈ (Op.fire rid, o2) :: h3, ∃ f ∈ p.2.wrote, f.kind = .discard ∧ f.arg = t := by
  have hs := C12_mux_model_satisfies_spec cfg ops hc ho
  have e : h1 ++ (opw, ow) :: (h2 ++ (Op.fire rid, o2) :: (h3 ++ (Op.quiet, o) :: h4))
      = (h1 ++ (opw, ow) :: (h2 ++ (Op.fire rid, o2) :: h3)) ++ (Op.quiet, o) :: h4 := by simp
  rw [htr, e] at hs
  have hM := specGo12_splitM cfg _ (Acc.init cfg) 0 .quiet o h4 hs
  -- at the quiet point nothing is due
  have hend := specObsM_quiet_ok cfg _ _ o hM hfl hq hidle
  -- the accumulator along the history
  have e2 : h1 ++ (opw, ow) :: (h2 ++ (Op.fire rid, o2) :: h3)
      = h1 ++ ([(opw, ow)] ++ (h2 ++ ([(Op.fire rid, o2)] ++ h3))) := by simp
  rw [e2, accAfter_append, accAfter_append, accAfter_append, accAfter_append] at hend
  have hno2 : ∀ p ∈ h2, p.1 ≠ .reopen := fun p hp => hno p (List.mem_append_left _ hp)
  have hno3 : ∀ p ∈ h3, p.1 ≠ .reopen := fun p hp => hno p (List.mem_append_right _ (List.mem_cons_of_mem _ hp))
  have hna2 : ∀ p ∈ h2, ∀ m, p.1 ≠ .process m t := fun p hp => hna p (List.mem_append_left _ hp)
  have hna3 : ∀ p ∈ h3, ∀ m, p.1 ≠ .process m t :=
    fun p hp => hna p (List.mem_append_right _ (List.mem_cons_of_mem _ hp))
  -- the frame is among the written, unanswered ones when the deadline fires
  have hpair : (t, rid) ∈ reqPairs ow.wrote := by
    simp only [reqPairs, List.mem_map, List.mem_filter]
    exact ⟨⟨.req, t, rid⟩, ⟨hw, rfl⟩, rfl⟩
  have hu1 : (t, rid) ∈ (accAfter (accAfter (Acc.init cfg) h1) [(opw, ow)]).unans := by
    simp only [accAfter, List.foldl_cons, List.foldl_nil]
    cases opw with
    | reopen => exact absurd rfl hopw
    | process m t' => rw [after_pairs_process]; exact List.mem_append_right _ hpair
    | req e p' => rw [after_pairs_other _ _ _ (by simp) (by simp)]; exact List.mem_append_right _ hpair
    | fire r' => rw [after_pairs_other _ _ _ (by simp) (by simp)]; exact List.mem_append_right _ hpair
    | send => rw [after_pairs_other _ _ _ (by simp) (by simp)]; exact List.mem_append_right _ hpair
    | notify r' => rw [after_pairs_other _ _ _ (by simp) (by simp)]; exact List.mem_append_right _ hpair
    | ping => rw [after_pairs_other _ _ _ (by simp) (by simp)]; exact List.mem_append_right _ hpair
    | wbegin => rw [after_pairs_other _ _ _ (by simp) (by simp)]; exact List.mem_append_right _ hpair
    | wend => rw [after_pairs_other _ _ _ (by simp) (by simp)]; exact List.mem_append_right _ hpair
    | quiet => rw [after_pairs_other _ _ _ (by simp) (by simp)]; exact List.mem_append_right _ hpair
  have hu2 := unans_persist (t, rid) h2 _ hno2 hna2 hu1
  have toFrame : ∀ (p : Op × Obs), t ∈ discTags p.2.wrote → ∃ f ∈ p.2.wrote, f.kind = .discard ∧ f.arg = t := by
    intro p hp
    simp only [discTags, List.mem_map, List.mem_filter, beq_iff_eq] at hp
    obtain ⟨f, ⟨hf, hk⟩, ha⟩ := hp
    exact ⟨f, hf, hk, ha⟩
  by_cases hd : t ∈ discTags o2.wrote
  · exact ⟨(Op.fire rid, o2), by simp, toFrame _ hd⟩
  · -- the firing makes `t` due
    have hdue : t ∈ (accAfter (accAfter (accAfter (accAfter (Acc.init cfg) h1) [(opw, ow)]) h2) [(Op.fire rid, o2)]).must := by
      simp only [accAfter, List.foldl_cons, List.foldl_nil]
      rw [after_must]
      simp only [mustAfter]
      refine mem_dropDiscarded.mpr ⟨List.mem_append_right _ ?_, hd⟩
      simp only [tagsOf, List.mem_map, List.mem_filter, beq_iff_eq]
      exact ⟨(t, rid), ⟨hu2, rfl⟩, rfl⟩
    have hgone : t ∉ (accAfter (accAfter (accAfter (accAfter (accAfter (Acc.init cfg) h1) [(opw, ow)]) h2)
        [(Op.fire rid, o2)]) h3).must := by rw [hend]; simp
    obtain ⟨p, hp, hpd⟩ := must_consumed t h3 _ hno3 hna3 hdue hgone
    exact ⟨p, List.mem_cons_of_mem _ hp, toFrame p hpd⟩

open Scales.TagPool in
/-- **The deadline expires while the request's frame is being written.**  The send loop blocked
    in the write of request `rid`'s frame (`wbegin`), the write has not returned (`h2` contains no
    `wend`) when the deadline event of `rid` fires.  The write is indeed still in progress at that
    moment, and — the frame does go out — a Tdiscarded naming its tag has been written by the
    first idle moment after the write returned (same side conditions as above). -/
theorem C12_mux_timeout_during_write_is_discarded (cfg : Cfg) (ops : List Op) (hc : cfgWF cfg = true)
    (ho : opsOk cfg (initSt cfg) ops = true) (h1 h2 h3 h4 : List (Op × Obs)) (ow : Obs) (rid t : Nat) (o2 o : Obs)
    (htr : comp.modelTrace cfg ops = h1 ++ (.wbegin, ow) :: (h2 ++ (.fire rid, o2) :: (h3 ++ (.quiet, o) :: h4)))
    (hfl : cfg.fl = .thriftmux)
    (hw : (⟨.req, t, rid⟩ : Frame) ∈ ow.wrote)
    (hblocked : ∀ p ∈ h2, p.1 ≠ .wend)
    (hno : ∀ p ∈ h2 ++ (Op.fire rid, o2) :: h3, p.1 ≠ .reopen)
    (hna : ∀ p ∈ h2 ++ (Op.fire rid, o2) :: h3, ∀ m, p.1 ≠ .process m t)
    (hq : o.qlen = 0)
    (hidle : writeInProgress cfg (h1 ++ (Op.wbegin, ow) :: (h2 ++ (Op.fire rid, o2) :: h3)) = false) :
    writeInProgress cfg (h1 ++ (Op.wbegin, ow) :: h2) = true ∧
    ∃ p ∈ (Op.fire rid, o2) :: h3, ∃ f ∈ p.2.wrote, f.kind = .discard ∧ f.arg = t := by
  refine ⟨?_, C12_mux_timed_out_written_is_discarded cfg ops hc ho h1 h2 h3 h4 .wbegin ow rid t o2 o htr hfl hw
    (by simp) hno hna hq hidle⟩
  have e : h1 ++ (Op.wbegin, ow) :: h2 = h1 ++ ([(Op.wbegin, ow)] ++ h2) := by simp
  rw [writeInProgress, e, accAfter_append, accAfter_append]
  have hno2 : ∀ p ∈ h2, p.1 ≠ .reopen := fun p hp => hno p (List.mem_append_left _ hp)
  have key : ∀ (h : List (Op × Obs)) (a : Acc), (∀ p ∈ h, p.1 ≠ .wend) → (∀ p ∈ h, p.1 ≠ .reopen) →
      a.inprog = true → (accAfter a h).inprog = true := by
    intro h
    induction h with
    | nil => intro a _ _ ha; exact ha
    | cons q h ih =>
      intro a hb hn ha
      simp only [accAfter, List.foldl_cons]
      refine ih _ (fun x hx => hb x (List.mem_cons_of_mem _ hx)) (fun x hx => hn x (List.mem_cons_of_mem _ hx)) ?_
      rw [after_inprog]
      have b1 := hb q (by simp)
      have b2 := hn q (by simp)
      obtain ⟨op, o'⟩ := q
      cases op <;> first | exact ha | rfl | exact absurd rfl b1 | exact absurd rfl b2
  exact key h2 _ hblocked hno2 rfl

open Scales.TagPool in
/-- non-vacuity: request 0 (with a deadline) blocks in its write, request 1 queues up behind it,
    the deadline fires while the write is blocked, the callback queues the Tdiscarded behind
    request 1, the write returns, request 1 and the Tdiscarded go out -/
example : comp.wf { max := 2 ^ 24 - 1, fl := .thriftmux }
    [.req .ev 0, .wbegin, .req .noev 0, .quiet, .fire 0, .notify 0, .quiet, .wend, .send, .send, .quiet] = true := by
  decide

open Scales.TagPool in
example : (comp.modelTrace { max := 2 ^ 24 - 1, fl := .thriftmux }
    [.req .ev 0, .wbegin, .req .noev 0, .quiet, .fire 0, .notify 0, .quiet, .wend, .send, .send, .quiet]).map
      (fun p => (p.2.wrote, p.2.qlen)) =
    [([], 1), ([⟨.req, 2, 0⟩], 0), ([], 1), ([], 1), ([], 1), ([], 2), ([], 2), ([], 2),
     ([⟨.req, 3, 1⟩], 1), ([⟨.discard, 0, 2⟩], 0), ([], 0)] := by
  decide

open Scales.TagPool in
/-- the same on Kafka: `_OnTimeout` is a no-op, nothing is queued, the tag stays leased -/
example : (comp.modelTrace { max := 2 ^ 24 - 1, fl := .kafka }
    [.req .ev 0, .wbegin, .fire 0, .notify 0, .quiet, .wend, .quiet]).map (fun p => (p.2.wrote, p.2.qlen, p.2.tagmap)) =
    [([], 1, [2]), ([⟨.req, 2, 0⟩], 0, [2]), ([], 0, [2]), ([], 0, [2]), ([], 0, [2]), ([], 0, [2]), ([], 0, [2])] := by
  decide

open Scales.TagPool in
/-- an aged connection (high-water mark 0x010203, tags 2, 258 and 65538 released — they differ in one
    tag byte only): the three requests hold them together, the one holding 65538 times out on the
    wire, the Tdiscarded names exactly 65538; a request past its deadline on issue gives 258 back unsent -/
example : (comp.modelTrace { max := 2 ^ 24 - 1, fl := .thriftmux, next := 0x010203, free := [2, 258, 65538] }
    [.req .noev 2, .req .ev 65538, .req .pre 258, .send, .send, .send, .quiet, .fire 1, .notify 1, .send, .quiet]).map
      (fun p => (p.2.wrote, p.2.tagmap, p.2.free)) =
    [([], [2], [258, 65538]), ([], [2, 65538], [258]), ([], [2, 258, 65538], []),
     ([⟨.req, 2, 0⟩], [2, 258, 65538], []), ([⟨.req, 65538, 1⟩], [2, 258, 65538], []), ([], [2, 65538], [258]),
     ([], [2, 65538], [258]), ([], [2, 65538], [258]), ([], [2, 65538], [258]),
     ([⟨.discard, 0, 65538⟩], [2, 65538], [258]), ([], [2, 65538], [258])] := by
  decide

open Scales.TagPool in
example : comp.wf { max := 2 ^ 24 - 1, fl := .thriftmux, next := 0x010203, free := [2, 258, 65538] }
    [.req .noev 2, .req .ev 65538, .req .pre 258, .send, .send, .send, .quiet, .fire 1, .notify 1, .send, .quiet] = true := by
  decide

open Scales.TagPool in
/-- what a transport that subscribes to the deadline event only *after* `write` returned shows
    (seeded/C12-mux-watch-after-write): the deadline fires during the blocked write, no callback
    ever runs, the frame goes out, no Tdiscarded follows — the specification rejects the history at
    the first idle moment after the write -/
theorem C12_mux_watch_after_write_rejected :
    spec12 { max := 2 ^ 24 - 1, fl := .thriftmux }
      [(.req .ev 0, ⟨.ok, 2, [], [], [2], [], 2, 1⟩),
       (.wbegin, ⟨.ok, 0, [⟨.req, 2, 0⟩], [], [2], [], 2, 0⟩),
       (.fire 0, ⟨.ok, 0, [], [], [2], [], 2, 0⟩),
       (.quiet, ⟨.ok, 0, [], [], [2], [], 2, 0⟩),
       (.wend, ⟨.ok, 0, [], [], [2], [], 2, 0⟩),
       (.quiet, ⟨.ok, 0, [], [], [2], [], 2, 0⟩)]
      = .fail "timeout-not-discarded" [V.ofNat 5, V.ofNats [2]] := by
  rfl

open Scales.FrontEnd in
/-- Dispatch hop: a call whose deadline has passed when it is dispatched gets TimeoutError at
    once and its request is never handed to the sink below the timeout sink. -/
theorem C12_frontend_refuses_expired (cl : Call) (now : Nat) (g : Option Nat) (hp : cl.phase = .waitOpen g)
    (hT : cl.T ≠ 0) (hd : cl.issueT + cl.T < now) (hl : cl.lowerGot = false) :
    (cl.dispatch now).lowerGot = false ∧ (cl.dispatch now).sets = cl.sets ++ [(now, .timeout)] := by
  simp [Call.dispatch, hp, hT, hd, hl]

open Scales.FrontEnd in
/-- the timer action of a dispatched call raises the call's deadline event before anything else,
    so every hop below that looks at the event afterwards sees it set -/
theorem C12_frontend_timer_raises_event (cl : Call) (now : Nat) (hd : ∀ g, cl.phase ≠ .waitOpen g) :
    (cl.fire now).evtSet = true := by
  unfold Call.fire; split <;> first | rfl | (rename_i h; exact absurd h (hd _))

open Scales.FrontEnd in
/-- Dispatch hop, call issued while the client is still opening: when the dispatcher's own timer
    times the call out, the call is over; the open result completing later does not dispatch it —
    its request is never handed to the sink below, and its result is not touched again. -/
theorem C12_frontend_timed_out_while_opening_never_dispatched (cl : Call) (due t now : Nat)
    (hp : cl.phase = .waitOpen (some due)) (hl : cl.lowerGot = false) :
    ((cl.fire t).dispatch now).lowerGot = false ∧
    ((cl.fire t).dispatch now).sets = cl.sets ++ [(t, .timeout)] := by
  simp [Call.fire, Call.dispatch, hp, hl]

open Scales.Serial Scales.Transport in
/-- Serial transport hop (pre-write check): a request whose deadline has already passed when the
    transaction starts is answered with TimeoutError, nothing is written, and the transaction is
    gone (so no later I/O step can write it). -/
theorem C12_serial_expired_not_written (s : Serial.St) (id : Nat) (r : Conn) (hp : s.processing = none) :
    (s.request id (.past r)).2.sent = [] ∧ (s.request id (.past r)).1.processing = none ∧
    (id, Resp.timeout) ∈ (s.request id (.past r)).2.eff.dels := by
  unfold Serial.St.request
  simp only [hp]
  unfold Serial.St.txnTimeout
  simp only
  split
  · cases r <;> simp [Serial.St.fault] <;> split <;> simp
  · simp

open Scales.Serial Scales.Transport in
/-- Serial transport hop (in flight): when the transaction's timeout fires (and the re-connect of
    the handler concludes at once), the transaction is gone; a step of the transport can put a
    frame on the wire only for the transaction in flight, so nothing of that request is written
    afterwards. -/
theorem C12_serial_timeout_ends_transaction (s : Serial.St) (r : Conn) (t : Txn)
    (hp : s.processing = some t) (hd : t.hasDl = true) (hph : t.phase ≠ .reconn) :
    (s.timeoutHere r).1.processing = none ∧ (s.timeoutHere r).2.sent = [] ∧
    (∀ o, ((s.timeoutHere r).1.io o).2.sent = []) := by
  have hb : (t.hasDl && t.phase != .reconn) = true := by simp [hd, hph]
  have h1 : (s.timeoutHere r).1.processing = none := by
    unfold Serial.St.timeoutHere Serial.St.txnTimeout
    simp only [hp, hb, if_true]
    split
    · cases r <;> simp [Serial.St.fault] <;> split <;> simp
    · simp
  refine ⟨h1, ?_, ?_⟩
  · unfold Serial.St.timeoutHere; simp [hp, hb]
  · intro o; unfold Serial.St.io; simp [h1]

open Scales.Serial Scales.Transport in
/-- Serial transport hop, the re-connect of the time-out handler takes time: from the moment the
    transaction's deadline has passed (its timeout fired, or it was expired at the pre-write
    check) it is blocked in the re-connect, and whatever happens then — I/O outcomes, further
    requests, the re-connect concluding either way, `Close()` — no frame is written, and the
    transaction is either still blocked there or gone.  (So the request handed its TimeoutError
    when the re-connect concludes has not been written meanwhile, and is not afterwards.) -/
theorem C12_serial_reconnecting_never_writes (s : Serial.St) (t : Txn) (op : Serial.Op)
    (hp : s.processing = some t) (hph : t.phase = .reconn) :
    (Serial.stepOut s op).2.sent = [] ∧
    ((Serial.stepOut s op).1.processing = none ∨ (Serial.stepOut s op).1.processing = some t) := by
  obtain ⟨cs, so, ores, pr⟩ := s
  simp only at hp; subst hp
  obtain ⟨tid, thd, tph⟩ := t
  simp only at hph; subst hph
  cases op with
  | openT r =>
    cases r <;> cases ores <;>
      simp [Serial.stepOut, Serial.St.openT, Serial.St.openImpl, Serial.St.fault, Serial.St.close] <;>
      (try split) <;> simp
  | req id dl => simp [Serial.stepOut, Serial.St.request]
  | io o => simp [Serial.stepOut, Serial.St.io]
  | timeoutHere r => simp [Serial.stepOut, Serial.St.timeoutHere]
  | timeoutBlock => simp [Serial.stepOut, Serial.St.timeoutBlock]
  | reconn r => simp [Serial.stepOut, Serial.St.reconnDone]
  | close => simp [Serial.stepOut, Serial.St.close]
  | look => simp [Serial.stepOut]

open Scales.Serial Scales.Transport in
/-- the two ways into that state write nothing either: the timeout firing with a re-connect that
    takes time, and a request already expired at the pre-write check -/
theorem C12_serial_timeout_block_not_written (s : Serial.St) (id : Nat) :
    (s.timeoutBlock).2.sent = [] ∧ (s.request id .pastBlock).2.sent = [] ∧
    (∀ t', (s.timeoutBlock).1.processing = some t' → s.processing ≠ some t' → t'.phase = .reconn) ∧
    (∀ t', s.processing = none → (s.request id .pastBlock).1.processing = some t' → t'.phase = .reconn) := by
  obtain ⟨cs, so, ores, pr⟩ := s
  refine ⟨?_, ?_, ?_, ?_⟩
  · cases pr with
    | none => simp [Serial.St.timeoutBlock]
    | some t => simp [Serial.St.timeoutBlock]; split <;> simp
  · cases pr <;> simp [Serial.St.request]
  · intro t'
    cases pr with
    | none => simp [Serial.St.timeoutBlock]
    | some t =>
      simp only [Serial.St.timeoutBlock, Serial.St.txnTimeoutStart]
      split
      · cases so <;> simp
        intro h _; rw [← h]
      · intro h1 h2; exact absurd h1 h2
  · intro t' hp
    simp only at hp; subst hp
    cases so <;> simp [Serial.St.request, Serial.St.txnTimeoutStart]
    intro h; rw [← h]

open Scales.Serial in
/-- a frame reaches the peer only in an `io ok` step of a transaction blocked in its write -/
theorem C12_serial_writes_only_in_flight (s : Serial.St) (o : Transport.IOOut) (id : Nat)
    (h : id ∈ (s.io o).2.sent) : ∃ t, s.processing = some t ∧ t.id = id ∧ t.phase = .write := by
  obtain ⟨cs, so, ores, pr⟩ := s
  cases pr with
  | none => simp [Serial.St.io] at h
  | some t =>
    cases o <;> cases hp : t.phase <;> simp [Serial.St.io, hp, Serial.St.txnFail] at h
    exact ⟨t, rfl, h.symm, hp⟩

open Scales.Watermark in
/-- Pool hop: a waiter that completed (timed out) while queued is skipped by the hand-off and
    the connection goes to the oldest waiter that is still pending — C07's theorem, restated
    here because it is the pool's part of this property. -/
theorem C12_pool_skips_timed_out (cfg : Watermark.Cfg) (ops : List Watermark.Op) (sid c : Nat)
    (rest w1 w2 : List Nat)
    (ht : (runOps cfg Watermark.St.init ops).tasks = sid :: rest)
    (hw : (runOps cfg Watermark.St.init ops).waiters = w1 ++ c :: w2)
    (hgone : ∀ x ∈ w1, (runOps cfg Watermark.St.init ops).base.calls[x]? ≠ some .pending)
    (hc : (runOps cfg Watermark.St.init ops).base.calls[c]? = some .pending) :
    -- only the pending waiter `c` is handed the connection: no request of a completed waiter
    -- is started
    (Watermark.step cfg (runOps cfg Watermark.St.init ops) .run).2.evs = [.sent sid c] :=
  (C07_timed_out_waiter_skipped cfg ops sid c rest w1 w2 ht hw hgone hc).1

namespace SerialSpec
open Scales.Serial Scales.Transport

theorem sent_in_flight (s : Serial.St) (op : Serial.Op) (id : Nat) (h : id ∈ (Serial.stepOut s op).2.sent) :
    ∃ t, s.processing = some t ∧ t.id = id ∧ t.phase ≠ .reconn := by
  obtain ⟨cs, so, ores, pr⟩ := s
  cases op with
  | openT r => simp [Serial.stepOut] at h
  | close => simp [Serial.stepOut] at h
  | look => simp [Serial.stepOut] at h
  | timeoutHere r =>
    cases pr with
    | none => simp [Serial.stepOut, Serial.St.timeoutHere] at h
    | some t => simp [Serial.stepOut, Serial.St.timeoutHere] at h; split at h <;> simp at h
  | timeoutBlock =>
    cases pr with
    | none => simp [Serial.stepOut, Serial.St.timeoutBlock] at h
    | some t => simp [Serial.stepOut, Serial.St.timeoutBlock] at h; split at h <;> simp at h
  | reconn r =>
    cases pr with
    | none => simp [Serial.stepOut, Serial.St.reconnDone] at h
    | some t => simp [Serial.stepOut, Serial.St.reconnDone] at h; split at h <;> simp at h
  | req id' dl =>
    cases pr with
    | some t => simp [Serial.stepOut, Serial.St.request] at h
    | none =>
      cases dl <;> cases so <;> simp [Serial.stepOut, Serial.St.request] at h
  | io o =>
    cases pr with
    | none => simp [Serial.stepOut, Serial.St.io] at h
    | some t =>
      cases o <;> cases hp : t.phase <;> simp [Serial.stepOut, Serial.St.io, hp] at h
      exact ⟨t, rfl, h.symm, by simp [hp]⟩

theorem timeout_ends (s : Serial.St) (op : Serial.Op) (id : Nat)
    (h : id ∈ SerialC12.timeoutsIn (Serial.stepOut s op).2.eff.dels) :
    (Serial.stepOut s op).1.processing = none ∧
    ((∃ t, s.processing = some t ∧ t.id = id) ∨ (∃ dl, op = .req id dl ∧ s.processing = none)) := by
  obtain ⟨cs, so, ores, pr⟩ := s
  unfold SerialC12.timeoutsIn at h
  cases op with
  | openT r =>
    cases r <;> cases ores <;>
      simp [Serial.stepOut, Serial.St.openT, Serial.St.openImpl, Serial.St.fault] at h <;>
      (try (split at h <;> simp at h))
  | close => simp [Serial.stepOut] at h
  | look => simp [Serial.stepOut] at h
  | timeoutHere r =>
    cases pr with
    | none => simp [Serial.stepOut, Serial.St.timeoutHere] at h
    | some t =>
      obtain ⟨tid, thd, tph⟩ := t
      cases thd <;> cases tph <;> cases so <;> cases r <;>
        simp [Serial.stepOut, Serial.St.timeoutHere, Serial.St.txnTimeout, Serial.St.fault] at h ⊢ <;>
        (try split) <;> simp_all
  | timeoutBlock =>
    cases pr with
    | none => simp [Serial.stepOut, Serial.St.timeoutBlock] at h
    | some t =>
      obtain ⟨tid, thd, tph⟩ := t
      cases thd <;> cases tph <;> cases so <;>
        simp [Serial.stepOut, Serial.St.timeoutBlock, Serial.St.txnTimeoutStart] at h ⊢ <;> simp_all
  | reconn r =>
    cases pr with
    | none => simp [Serial.stepOut, Serial.St.reconnDone] at h
    | some t =>
      obtain ⟨tid, thd, tph⟩ := t
      cases tph <;> cases r <;>
        simp [Serial.stepOut, Serial.St.reconnDone, Serial.St.fault] at h ⊢ <;>
        (try split) <;> simp_all
  | req id' dl =>
    cases pr with
    | some t => simp [Serial.stepOut, Serial.St.request] at h
    | none =>
      cases dl with
      | none => cases so <;> simp [Serial.stepOut, Serial.St.request, Serial.St.txnFail, Serial.St.fault] at h <;>
          (try (split at h <;> simp at h))
      | future => cases so <;> simp [Serial.stepOut, Serial.St.request, Serial.St.txnFail, Serial.St.fault] at h <;>
          (try (split at h <;> simp at h))
      | past r =>
        cases so <;> cases r <;>
          simp [Serial.stepOut, Serial.St.request, Serial.St.txnTimeout, Serial.St.fault] at h ⊢ <;>
          (try split) <;> simp_all
      | pastBlock =>
        cases so <;>
          simp [Serial.stepOut, Serial.St.request, Serial.St.txnTimeoutStart] at h ⊢ <;> simp_all
  | io o =>
    cases pr with
    | none => simp [Serial.stepOut, Serial.St.io] at h
    | some t =>
      cases o <;> cases hp : t.phase <;>
        simp [Serial.stepOut, Serial.St.io, hp, Serial.St.txnFail, Serial.St.fault] at h <;>
        (try (split at h <;> simp at h))

/-- where the transaction in flight after a step comes from: it was in flight before (and if it
    is not blocked in the re-connect now, it was not before), or it is the request just issued
    (and if that was already expired, it is blocked in the re-connect) -/
theorem processing_origin (s : Serial.St) (op : Serial.Op) (t' : Txn)
    (h : (Serial.stepOut s op).1.processing = some t') :
    (∃ t, s.processing = some t ∧ t.id = t'.id ∧ (t'.phase ≠ .reconn → t.phase ≠ .reconn)) ∨
    (∃ dl, op = .req t'.id dl ∧ s.processing = none ∧
      (SerialC12.expiredOf op ≠ [] → t'.phase = .reconn)) := by
  obtain ⟨cs, so, ores, pr⟩ := s
  cases op with
  | openT r =>
    cases r <;> cases ores <;> cases pr <;>
      simp_all [Serial.stepOut, Serial.St.openT, Serial.St.openImpl, Serial.St.fault, Serial.St.close] <;>
      (try (split at h <;> simp_all [Serial.St.close]))
  | close => simp [Serial.stepOut, Serial.St.close] at h
  | look => left; exact ⟨t', by simpa [Serial.stepOut] using h, rfl, id⟩
  | timeoutHere r =>
    cases pr with
    | none => simp [Serial.stepOut, Serial.St.timeoutHere] at h
    | some t =>
      obtain ⟨tid, thd, tph⟩ := t
      left
      cases thd <;> cases tph <;> cases so <;> cases r <;>
        simp [Serial.stepOut, Serial.St.timeoutHere, Serial.St.txnTimeout, Serial.St.fault] at h <;>
        (try (split at h <;> simp at h)) <;> (subst h; simp)
  | timeoutBlock =>
    cases pr with
    | none => simp [Serial.stepOut, Serial.St.timeoutBlock] at h
    | some t =>
      obtain ⟨tid, thd, tph⟩ := t
      left
      cases thd <;> cases tph <;> cases so <;>
        simp [Serial.stepOut, Serial.St.timeoutBlock, Serial.St.txnTimeoutStart] at h <;> (subst h; simp)
  | reconn r =>
    cases pr with
    | none => simp [Serial.stepOut, Serial.St.reconnDone] at h
    | some t =>
      obtain ⟨tid, thd, tph⟩ := t
      left
      cases tph <;> cases r <;>
        simp [Serial.stepOut, Serial.St.reconnDone, Serial.St.fault] at h <;>
        (try (split at h <;> simp at h)) <;> (subst h; simp)
  | req id' dl =>
    cases pr with
    | some t => left; simp [Serial.stepOut, Serial.St.request] at h; exact ⟨t, rfl, by rw [h], by rw [h]; exact id⟩
    | none =>
      right
      cases dl with
      | none => cases so <;> simp [Serial.stepOut, Serial.St.request, Serial.St.txnFail, Serial.St.fault] at h <;>
          (try (split at h <;> simp at h)) <;> exact ⟨_, by rw [← h], rfl, by simp [SerialC12.expiredOf]⟩
      | future => cases so <;> simp [Serial.stepOut, Serial.St.request, Serial.St.txnFail, Serial.St.fault] at h <;>
          (try (split at h <;> simp at h)) <;> exact ⟨_, by rw [← h], rfl, by simp [SerialC12.expiredOf]⟩
      | past r =>
        cases so <;> cases r <;>
          simp [Serial.stepOut, Serial.St.request, Serial.St.txnTimeout, Serial.St.fault] at h <;>
          (try (split at h <;> simp at h))
      | pastBlock =>
        cases so <;>
          simp [Serial.stepOut, Serial.St.request, Serial.St.txnTimeoutStart] at h
        exact ⟨_, by rw [← h], rfl, by intro _; rw [← h]⟩
  | io o =>
    cases pr with
    | none => simp [Serial.stepOut, Serial.St.io] at h
    | some t =>
      left
      cases o <;> cases hp : t.phase <;>
        simp [Serial.stepOut, Serial.St.io, hp, Serial.St.txnFail, Serial.St.fault] at h <;>
        (try (split at h <;> simp at h)) <;> exact ⟨t, rfl, by rw [← h], by rw [← h]; simp [hp]⟩

structure Rel (a : SerialC12.Acc) (s : Serial.St) (seen : List Nat) : Prop where
  r1 : ∀ id ∈ a.timedOut, id ∈ seen
  r2 : ∀ t, s.processing = some t → t.id ∈ seen ∧ (t.phase ≠ .reconn → t.id ∉ a.timedOut)

theorem specGo_ok : ∀ (ops : List Serial.Op) (a : SerialC12.Acc) (s : Serial.St) (seen : List Nat),
    Rel a s seen → Serial.opsOk s seen ops = true →
    SerialC12.specGo a (SerialC12.comp.trace () s ops) = .ok := by
  intro ops
  induction ops with
  | nil => intros; rfl
  | cons op ops ih =>
    intro a s seen hrel hok
    simp only [Serial.opsOk, Bool.and_eq_true] at hok
    obtain ⟨hen, hrest⟩ := hok
    simp only [TComp.trace, SerialC12.comp, Serial.step, SerialC12.specGo]
    have hsent := sent_in_flight s op
    -- an expired request is fresh
    have hexp : ∀ id ∈ SerialC12.expiredOf op, id ∉ seen ∧ Serial.isReq op = some id := by
      intro id hid
      cases op with
      | req id' dl =>
        cases dl with
        | past r =>
          simp only [SerialC12.expiredOf, List.mem_singleton] at hid; subst hid
          simp only [Serial.enabled, Bool.not_eq_true', List.contains_eq_mem, decide_eq_false_iff_not] at hen
          exact ⟨hen, rfl⟩
        | pastBlock =>
          simp only [SerialC12.expiredOf, List.mem_singleton] at hid; subst hid
          simp only [Serial.enabled, Bool.not_eq_true', List.contains_eq_mem, decide_eq_false_iff_not] at hen
          exact ⟨hen, rfl⟩
        | none => simp [SerialC12.expiredOf] at hid
        | future => simp [SerialC12.expiredOf] at hid
      | _ => simp [SerialC12.expiredOf] at hid
    -- nothing of the request just issued is written in the operation that issues it
    have hnew : ∀ id, Serial.isReq op = some id →
        ¬ id ∈ (Serial.obsOf (Serial.stepOut s op).1 (Serial.stepOut s op).2).sent := by
      intro id hreq hid
      obtain ⟨t, ht, hte, _⟩ := hsent id hid
      have hs := (hrel.r2 t ht).1
      have hfresh : id ∉ seen := by
        cases op <;> simp [Serial.isReq] at hreq
        subst hreq
        simpa [Serial.enabled] using hen
      rw [hte] at hs; exact hfresh hs
    -- this step's verdict
    have hv : SerialC12.specObs a op (Serial.obsOf (Serial.stepOut s op).1 (Serial.stepOut s op).2) = .ok := by
      unfold SerialC12.specObs
      have h1 : (Serial.obsOf (Serial.stepOut s op).1 (Serial.stepOut s op).2).sent.find?
          (fun id => a.timedOut.contains id) = none := by
        rw [List.find?_eq_none]
        intro id hid
        obtain ⟨t, ht, rfl, hph⟩ := hsent id hid
        simpa using (hrel.r2 t ht).2 hph
      rw [h1]
      cases op with
      | req id dl =>
        cases dl with
        | past r => simp [hnew id rfl]
        | pastBlock => simp [hnew id rfl]
        | none => rfl
        | future => rfl
      | _ => rfl
    rw [hv]
    apply ih _ _ _ _ hrest
    -- the relation after the step
    constructor
    · intro id hid
      simp only [SerialC12.Acc.after, List.mem_append] at hid
      rcases hid with (hid | hid) | hid
      · have := hrel.r1 id hid
        cases h : Serial.isReq op <;> simp [this]
      · rw [(hexp id hid).2]; simp
      · obtain ⟨_, hor⟩ := timeout_ends s op id hid
        rcases hor with ⟨t, ht, rfl⟩ | ⟨dl, rfl, _⟩
        · have := (hrel.r2 t ht).1
          cases h : Serial.isReq op <;> simp [this]
        · simp [Serial.isReq]
    · intro t' ht'
      have hnone : ∀ id ∈ SerialC12.timeoutsIn (Serial.stepOut s op).2.eff.dels, False := by
        intro id hid
        have := (timeout_ends s op id hid).1
        rw [this] at ht'; cases ht'
      have hto : SerialC12.timeoutsIn (Serial.obsOf (Serial.stepOut s op).1 (Serial.stepOut s op).2).dels = [] := by
        rw [List.eq_nil_iff_forall_not_mem]; intro id hid; exact hnone id hid
      simp only [SerialC12.Acc.after, hto, List.append_nil]
      rcases processing_origin s op t' ht' with ⟨t, ht, hte, hphase⟩ | ⟨dl, rfl, hpn, hexpd⟩
      · obtain ⟨h1, h2⟩ := hrel.r2 t ht
        rw [← hte]
        refine ⟨?_, ?_⟩
        · cases h : Serial.isReq op <;> simp [h1]
        · intro hph hin
          rcases List.mem_append.mp hin with hin | hin
          · exact h2 (hphase hph) hin
          · exact (hexp _ hin).1 h1
      · simp only [Serial.enabled, Bool.not_eq_true', List.contains_eq_mem, decide_eq_false_iff_not] at hen
        refine ⟨by simp [Serial.isReq], ?_⟩
        intro hph hin
        rcases List.mem_append.mp hin with hin | hin
        · exact hen (hrel.r1 _ hin)
        · -- an expired request is answered at once or blocked in the re-connect: it is not a
          -- transaction that can still write
          exact hph (hexpd (List.ne_nil_of_mem hin))

end SerialSpec

open SerialSpec in
/-- the serial transport model satisfies the C12 clauses evaluated by component `serial12` on
    every legal operation list (request ids fresh): no frame of a request is written once it has
    been handed TimeoutError; a request already expired at the pre-write check is never written -/
theorem C12_serial_model_satisfies_spec (ops : List Serial.Op) (h : Serial.opsOk Serial.St.init [] ops = true) :
    SerialC12.spec () (SerialC12.comp.modelTrace () ops) = .ok :=
  specGo_ok ops {} Serial.St.init [] ⟨by simp, by simp [Serial.St.init]⟩ h

/-! ### balancer hop: the gate in front of the open result

  `LB.Cfg.aperture = false` is the `HeapBalancerSink`, `true` the `ApertureBalancerSink`.  A history is
  the model's trace for an operation list; `get`/`getd` issue a request without / with a deadline
  event, `expire k` sets the event of the `k`-th waiting request (its caller has its TimeoutError).
  `LB.specGateGo` rebuilds the queue of waiting requests from the history and judges the observation
  in which the open result completed: its results, oldest first, are what became of them. -/

open Scales.LBBase in
/-- Function level, any subclass: requests whose deadline event is set leave no trace — serving a
    queue does to the balancer exactly what serving its live requests alone does. -/
theorem C12_gate_dropped_leave_no_trace {σ ρ : Type} (S : Sub σ ρ) (q : List (Option Bool)) (s : σ) :
    (flush S q s).1 = (flush S (q.filter live) s).1 ∧
    (flush S q s).2.filterMap id = (flush S (q.filter live) s).2.filterMap id := by
  have hlive : ∀ (e : Option Bool) (q : List (Option Bool)) (s : σ), live e = true →
      flush S (e :: q) s = ((flush S q (S.request s).1).1, some (S.request s).2 :: (flush S q (S.request s).1).2) := by
    intro e q s h; rw [flush]; simp [h]
  have hdead : ∀ (e : Option Bool) (q : List (Option Bool)) (s : σ), live e = false →
      flush S (e :: q) s = ((flush S q s).1, none :: (flush S q s).2) := by
    intro e q s h; rw [flush]; simp [h]
  induction q generalizing s with
  | nil => exact ⟨rfl, rfl⟩
  | cons e q ih =>
    by_cases hl : live e = true
    · rw [List.filter_cons_of_pos hl, hlive e q s hl, hlive e _ s hl]
      obtain ⟨i1, i2⟩ := ih (S.request s).1
      refine ⟨i1, ?_⟩
      show List.filterMap id (some _ :: _) = List.filterMap id (some _ :: _)
      simp only [List.filterMap_cons, id]
      exact congrArg _ i2
    · rw [List.filter_cons_of_neg hl]
      have hl' : live e = false := by simpa using hl
      rw [hdead e q s hl']
      obtain ⟨i1, i2⟩ := ih s
      refine ⟨i1, ?_⟩
      show List.filterMap id (none :: _) = _
      simp only [List.filterMap_cons, id]
      exact i2

open Scales.LB Scales.LBBase in
/-- Function level, both balancers: when the open result completes there is one result per waiting
    request, oldest first; a request whose deadline event is set is dropped, every other one is
    forwarded (to a member or to the no-members sink), and the forwarded ones receive growing
    dispatch numbers, i.e. they are forwarded in arrival order. -/
theorem C12_gate_flush (cfg : Aperture.Cfg) (q : List (Option Bool)) (a : Aperture.AS) :
    dropOk q ((flush (sub cfg) q a).2.map ResV.ofFlush) = true ∧
    liveOk q ((flush (sub cfg) q a).2.map ResV.ofFlush) = true ∧
    increasing (dispatchIds ((flush (sub cfg) q a).2.map ResV.ofFlush)) = true := by
  obtain ⟨h1, h2, h3, _⟩ := flush_gate cfg q a
  exact ⟨h1, h2, h3.increasing⟩

open Scales.LB in
/-- **History level, both balancers: a waiting request whose deadline event was set before the open
    result completed is never forwarded** — in the observation in which the open result completes
    its entry is `dropped` (no dispatch to any member, no answer from the balancer), and the
    balancer keeps no record of it afterwards.  Holds for every configuration and every operation
    list (`wf` is not even needed). -/
theorem C12_gate_drops_timed_out (cfg : Aperture.Cfg) (ops : List Scales.LB.Op) (_hwf : Scales.LB.wf cfg ops = true) :
    specGateDrop cfg (compGate.modelTrace cfg ops) = .ok :=
  specGate_trace cfg 1 ops (Scales.LB.init cfg) 0 (GInv.init cfg)

open Scales.LB in
/-- **History level, both balancers: a waiting request whose deadline event is absent or not set is
    forwarded exactly once, in arrival order** — one result per waiting request, a dispatch for
    every live one, dispatch numbers growing along the queue. -/
theorem C12_gate_forwards_live (cfg : Aperture.Cfg) (ops : List Scales.LB.Op) (_hwf : Scales.LB.wf cfg ops = true) :
    specGateLive cfg (compGate.modelTrace cfg ops) = .ok :=
  specGate_trace cfg 2 ops (Scales.LB.init cfg) 0 (GInv.init cfg)

open Scales.LB in
/-- the model satisfies the specification the harness evaluates on the real balancers (component `lbgate`) -/
theorem C12_gate_model_satisfies_spec (cfg : Aperture.Cfg) (ops : List Scales.LB.Op) (_hwf : Scales.LB.wf cfg ops = true) :
    specGate cfg (compGate.modelTrace cfg ops) = .ok :=
  specGate_trace cfg 0 ops (Scales.LB.init cfg) 0 (GInv.init cfg)

end Scales.C12
