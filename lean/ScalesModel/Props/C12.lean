/-
  Props/C12.lean — timed-out calls are never transmitted afterwards; sent ones are discarded.

  One lemma per hop of the request path, on the component models, for every state / history:
  the front end (expired at dispatch → nothing goes below the timeout sink; the deadline event
  is raised when the timer fires) and the multiplexed transport (a request whose deadline event
  has fired is dropped by the send loop; one that was already written gets a Tdiscarded naming
  its tag).  The serial transport, pool and balancer-gate hops are stated on their own models
  (Props of C08 / C07 / C05); the assembled stacks are judged by the monitor `E2E.comp 12`.
-/
import ScalesModel.Adapter.E2E
import ScalesModel.Adapter.TagPool
import ScalesModel.Adapter.FrontEnd
namespace Scales.C12

open Scales.TagPool in
/-- Send-queue hop: the send loop never writes a request whose deadline event has fired. -/
theorem C12_mux_drop_before_send (s : St) (t rid : Nat) (f : Frame)
    (hf : f ∈ (stepSend s).2.wrote) (hk : f.kind = .req) (harg : f.arg = rid) (_ht : f.tag = t) :
    ∃ r, s.reqs[rid]? = some r ∧ r.ev ≠ .fired := by
  unfold stepSend at hf
  split at hf
  · simp at hf
  · simp at hf; subst hf; cases hk
  · simp at hf; subst hf; cases hk
  · rename_i rid' t' q
    simp only at hf
    split at hf
    · simp at hf
    · rename_i r hr
      split at hf
      · simp at hf
      · split at hf
        · split at hf <;> simp at hf
        · simp at hf; subst hf
          simp only at harg; subst harg
          exact ⟨r, hr, by simp_all⟩
        · simp at hf; subst hf
          simp only at harg; subst harg
          exact ⟨r, hr, by simp_all⟩

open Scales.TagPool in
/-- a step touches the request table only by appending or by rewriting the key / subscription
    flag of one entry, or by raising an entry's event -/
def SameEv (l l' : List Req) : Prop :=
  ∀ (rid : Nat) (r : Req), l[rid]? = some r → r.ev = Ev.fired → ∃ r' : Req, l'[rid]? = some r' ∧ r'.ev = Ev.fired

open Scales.TagPool in
theorem SameEv.refl (l : List Req) : SameEv l l := fun _ r h1 h2 => ⟨r, h1, h2⟩

open Scales.TagPool in
theorem SameEv.set (l : List Req) (j : Nat) (r0 n : Req) (h0 : l[j]? = some r0)
    (hn : r0.ev = .fired → n.ev = .fired) : SameEv l (l.set j n) := by
  intro rid r hr hf
  have hlt : rid < l.length := (List.getElem?_eq_some_iff.mp hr).1
  by_cases h : j = rid
  · subst h
    rw [hr] at h0; cases h0
    exact ⟨n, by simp [List.getElem?_set, hlt], hn hf⟩
  · exact ⟨r, by simp [List.getElem?_set, h, hr], hf⟩

open Scales.TagPool in
theorem SameEv.append (l x : List Req) : SameEv l (l ++ x) := by
  intro rid r hr hf
  have hlt : rid < l.length := (List.getElem?_eq_some_iff.mp hr).1
  exact ⟨r, by simp [List.getElem?_append_left hlt, hr], hf⟩

open Scales.TagPool in
theorem sameEv_send (s : St) : SameEv s.reqs (stepSend s).1.reqs := by
  unfold stepSend
  split
  · exact SameEv.refl _
  · exact SameEv.refl _
  · exact SameEv.refl _
  · simp only
    split
    · exact SameEv.refl _
    · rename_i r hr
      split
      · exact SameEv.refl _
      · split
        · split
          · simp only [releaseTag]
            split <;> exact SameEv.set _ _ r _ hr (fun h => h)
          · exact SameEv.set _ _ r _ hr (fun h => h)
        · exact SameEv.set _ _ r _ hr (fun h => h)
        · exact SameEv.refl _

open Scales.TagPool in
theorem sameEv_process (s : St) (mt : Int) (t : Nat) : SameEv s.reqs (stepProcess s mt t).1.reqs := by
  unfold stepProcess
  split
  · exact SameEv.refl _
  · split
    · cases hl : tmLookup t s.tagmap with
      | none => simp only [releaseTag, hl]; exact SameEv.refl _
      | some rid =>
        simp only [releaseTag, hl, setKey]
        split
        · rename_i r0 hr0
          exact SameEv.set _ _ r0 _ hr0 (fun h => h)
        · exact SameEv.refl _
    · exact SameEv.refl _

open Scales.TagPool in
/-- the deadline event of a request stays fired (until the connection is replaced) -/
theorem C12_mux_fired_stays (max : Nat) (s : St) (op : Op) (rid : Nat) (r : Req)
    (hop : op ≠ .reopen) (hr : s.reqs[rid]? = some r) (hfired : r.ev = .fired) :
    ∃ r', (stepOp max s op).1.reqs[rid]? = some r' ∧ r'.ev = .fired := by
  have key : SameEv s.reqs (stepOp max s op).1.reqs := by
    cases op with
    | reopen => exact absurd rfl hop
    | ping => exact SameEv.refl _
    | req e popped =>
      simp only [stepOp, stepReq]
      split
      · exact SameEv.append _ _
      · exact SameEv.refl _
      · exact SameEv.append _ _
    | fire rid' =>
      simp only [stepOp, stepFire]
      split
      · rename_i r0 hr0
        split
        · exact SameEv.set _ _ r0 _ hr0 (fun _ => rfl)
        · exact SameEv.refl _
      · exact SameEv.refl _
    | notify rid' =>
      simp only [stepOp, stepNotify]
      split
      · rename_i r0 hr0
        split
        · split <;> exact SameEv.set _ _ r0 _ hr0 (fun h => h)
        · exact SameEv.refl _
      · exact SameEv.refl _
    | send => exact sameEv_send s
    | process mt t => exact sameEv_process s mt t
  exact key rid r hr hfired

open Scales.TagPool in
/-- On-the-wire hop: when the timeout notification of a request that was written (its tag is
    still in its properties) runs, a Tdiscarded naming exactly that tag is queued, and the send
    loop writes a queued Tdiscarded unconditionally. -/
theorem C12_mux_discard_after_send (s : St) (rid t : Nat) (r : Req)
    (hr : s.reqs[rid]? = some r) (hfired : r.ev = .fired) (hsub : r.sub = true) (hkey : r.key = .tag t) :
    (stepNotify s rid).1.sendq = s.sendq ++ [.discard t] ∧
    ∀ q (s' : St), s'.sendq = .discard t :: q → (stepSend s').2.wrote = [⟨.discard, 0, t⟩] := by
  constructor
  · simp [stepNotify, hr, hfired, hsub, hkey]
  · intro q s' hq
    simp [stepSend, hq]

open Scales.FrontEnd in
/-- Dispatch hop: a call whose deadline has passed when it is dispatched gets TimeoutError at
    once and its request is never handed to the sink below the timeout sink. -/
theorem C12_frontend_refuses_expired (cl : Call) (now : Nat) (hp : cl.phase = .waitOpen)
    (hT : cl.T ≠ 0) (hd : cl.issueT + cl.T < now) (hl : cl.lowerGot = false) :
    (cl.dispatch now).lowerGot = false ∧ (cl.dispatch now).sets = cl.sets ++ [(now, .timeout)] := by
  simp [Call.dispatch, hp, hT, hd, hl]

open Scales.FrontEnd in
/-- the timer action raises the call's deadline event before anything else, so every hop
    below that looks at the event afterwards sees it set -/
theorem C12_frontend_timer_raises_event (cl : Call) (now : Nat) : (cl.fire now).evtSet = true := by
  unfold Call.fire; split <;> rfl

end Scales.C12
