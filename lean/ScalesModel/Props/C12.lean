import ScalesModel.Adapter.E2E
namespace Scales.E2E
theorem C12_placeholder : True := trivial
end Scales.E2E
