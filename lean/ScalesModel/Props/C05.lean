/-
  Props/C05.lean — balancer membership equals the server set after any join/leave history.

  Model: Model/LBBase.lean (base.py: `_servers`, `__init_done` gate, `_OpenImpl`, request queue) over
  Model/Aperture.lean + Model/Heap.lean; `cfg.aperture = false` is the plain `HeapBalancerSink`,
  `cfg.aperture = true` the `ApertureBalancerSink`.  `runSt cfg (init cfg) ops` is the balancer after
  the operation list `ops` (Adapter/LB.lean); `refOf cfg ops` the server set after it: `cfg.initial`
  changed by every join/leave callback in `ops`; `E a` the endpoints the balancer can dispatch to
  (endpoints of the heap nodes, then `_idle_endpoints`).

  Quantification: every configuration, every operation list satisfying `wf` (operations in an order
  the implementation admits — `Open()` first, any number of further `Open()` calls anywhere afterwards
  (the balancer's own open sequence: a call on a balancer that is opening or open returns the same open
  result), the initial list loaded once and equal, as a set, to the server set at some moment since the
  first `Open()` — and every recorded random choice a legal one).
  Joins, duplicate joins, leaves of unknown/idle/active/draining members, re-joins, traffic, channel
  state changes, slow and failing opens and jitter rounds are all operations.
-/
import ScalesModel.Proofs.LBSpec
namespace Scales.LB
open Scales.Heap Scales.Aperture Scales.LBBase

/-- **Membership (both balancers).**  Once the initial list is installed, no callback is waiting, the
    eligible endpoints are pairwise distinct (no endpoint is both active and idle, none twice) and
    they are exactly the current server set. -/
theorem C05_membership_eq (cfg : Cfg) (ops : List Op) (hwf : wf cfg ops = true)
    (hq : (runSt cfg (init cfg) ops).initDone = true) :
    (runSt cfg (init cfg) ops).blocked = [] ∧
    (E (runSt cfg (init cfg) ops).sub).Nodup ∧
    ∀ x, x ∈ E (runSt cfg (init cfg) ops).sub ↔ x ∈ refOf cfg ops := by
  obtain ⟨p', h, href⟩ := run_RInv cfg ops _ _ (RInv.init cfg) (wf_proto hwf)
  have h2 : p'.phase = 2 := by
    have := h.phase
    by_cases h0 : p'.phase = 0
    · rw [(h.p0 h0).1] at hq; cases hq
    · by_cases h1 : p'.phase = 1
      · rw [(h.p1 h1).1] at hq; cases hq
      · omega
  refine ⟨(h.p2 h2).2.1, h.full.inv.nodup, ?_⟩
  intro x
  rw [h.full.part, h.quiescent hq x, href]; rfl

/-- **Membership, plain heap balancer.**  Nothing is ever idle: the heap holds exactly one node per
    current member. -/
theorem C05_membership_eq_heap (cfg : Cfg) (ops : List Op) (hk : cfg.aperture = false)
    (hwf : wf cfg ops = true) (hq : (runSt cfg (init cfg) ops).initDone = true) :
    (runSt cfg (init cfg) ops).sub.idle = [] ∧
    (heapEps (runSt cfg (init cfg) ops).sub.hs).Nodup ∧
    ∀ x, x ∈ heapEps (runSt cfg (init cfg) ops).sub.hs ↔ x ∈ refOf cfg ops := by
  obtain ⟨_, h, _⟩ := run_RInv cfg ops _ _ (RInv.init cfg) (wf_proto hwf)
  obtain ⟨_, nd, hm⟩ := C05_membership_eq cfg ops hwf hq
  have hi := (h.full.inv.kind hk).1
  unfold E at nd hm
  rw [hi, List.append_nil] at nd hm
  exact ⟨hi, nd, hm⟩

/-- **`_servers`.**  At every point of every run the keys of `_servers` are distinct and are the
    eligible endpoints; at quiescent points they are the server set. -/
theorem C05_servers_eq (cfg : Cfg) (ops : List Op) (hwf : wf cfg ops = true) :
    (runSt cfg (init cfg) ops).sub.hs.servers.Nodup ∧
    (∀ x, x ∈ E (runSt cfg (init cfg) ops).sub ↔ x ∈ (runSt cfg (init cfg) ops).sub.hs.servers) ∧
    ((runSt cfg (init cfg) ops).initDone = true →
      ∀ x, x ∈ (runSt cfg (init cfg) ops).sub.hs.servers ↔ x ∈ refOf cfg ops) := by
  obtain ⟨p', h, href⟩ := run_RInv cfg ops _ _ (RInv.init cfg) (wf_proto hwf)
  refine ⟨h.full.snodup, h.full.part, ?_⟩
  intro hq x
  rw [h.quiescent hq x, href]; rfl

/-- **Gating.**  While the initial list is loading a callback only joins the queue of waiting
    callbacks; installing the list `l` (the order `random.shuffle` left it in) replays the waiting
    callbacks in arrival order on top of it.  In terms of `_servers`: the result is the list `l`
    (duplicates dropped) changed by every waiting callback, oldest first. -/
theorem C05_gated_notifications_applied (cfg : Cfg) (lb : St) (hi : lb.initDone = false) (n : Notif)
    (l : List Nat) :
    ((lb.notify (sub cfg) n).sub = lb.sub ∧ (lb.notify (sub cfg) n).blocked = lb.blocked ++ [n] ∧
      (lb.notify (sub cfg) n).initDone = false) ∧
    ((lb.load (sub cfg) l).sub =
        lb.blocked.foldl (applyNotif (sub cfg)) ((loadInitial (sub cfg) lb.sub l).openInitial cfg) ∧
      (lb.load (sub cfg) l).blocked = [] ∧ (lb.load (sub cfg) l).initDone = true) ∧
    (Full cfg lb.sub → lb.sub.hs.servers = [] →
      (lb.load (sub cfg) l).sub.hs.servers = applyRef lb.blocked (applyRef (l.map Notif.join) [])) := by
  refine ⟨?_, ⟨rfl, rfl, rfl⟩, fun hf hs => (load_spec cfg lb hf hs l).2.2.2⟩
  unfold LB.notify
  simp only [hi, Bool.false_eq_true, if_false]
  exact ⟨trivial, trivial, trivial⟩

/-- **Duplicate join.**  A join for an endpoint that is already a key of `_servers` changes nothing. -/
theorem C05_duplicate_join_noop (cfg : Cfg) (lb : St) (hi : lb.initDone = true) (ep : Nat)
    (hm : ep ∈ lb.sub.hs.servers) : lb.notify (sub cfg) (.join ep) = lb := by
  unfold LB.notify
  simp only [hi, if_true, applyNotif, addServer, sub_servers, hm]
  cases lb
  simp_all

/-- **Leave of an unknown endpoint.**  It changes neither `_servers` nor the heap nor the idle and
    pending sets nor the open bookkeeping. -/
theorem C05_unknown_leave_noop (cfg : Cfg) (lb : St) (hf : Full cfg lb.sub) (hi : lb.initDone = true)
    (ep : Nat) (hm : ep ∉ lb.sub.hs.servers) :
    (lb.notify (sub cfg) (.leave ep)).sub.hs = lb.sub.hs ∧
    (lb.notify (sub cfg) (.leave ep)).sub.idle = lb.sub.idle ∧
    (lb.notify (sub cfg) (.leave ep)).sub.pending = lb.sub.pending ∧
    (lb.notify (sub cfg) (.leave ep)).sub.on = lb.sub.on ∧
    (lb.notify (sub cfg) (.leave ep)).blocked = lb.blocked ∧
    (lb.notify (sub cfg) (.leave ep)).initDone = true := by
  have hfl : lb.sub.hs.servers.filter (· ≠ ep) = lb.sub.hs.servers := by
    rw [List.filter_eq_self]; intro y hy
    have : y ≠ ep := by rintro rfl; exact hm hy
    simpa using this
  have hne : ep ∉ E lb.sub := fun h => hm ((hf.part ep).1 h)
  have hnh : ep ∉ heapEps lb.sub.hs := fun h => hne (by unfold E; exact List.mem_append_left _ h)
  have hni : ep ∉ lb.sub.idle := fun h => hne (by unfold E; exact List.mem_append_right _ h)
  have hrm : lb.sub.hs.removeSink ep = (lb.sub.hs, false) := by
    have hr : (lb.sub.hs.removeSink ep).2 = false := by
      by_contra hc
      exact hnh ((removeSink_eps hf.inv.wf ep (by simpa using hc)).mem_iff.2 List.mem_cons_self)
    exact Prod.ext (removeSink_false hf.inv.wf ep hr).1 hr
  have hif : lb.sub.idle.filter (· ≠ ep) = lb.sub.idle := by
    rw [List.filter_eq_self]; intro y hy
    have : y ≠ ep := by rintro rfl; exact hni hy
    simpa using this
  unfold LB.notify
  simp only [hi, if_true, applyNotif, removeServer, sub_servers, sub_onRemove, sub_setServers, withServers, hfl]
  unfold AS.removeSink
  split
  · simp only [hrm, Bool.false_eq_true, if_false, updVarz_hs, updVarz_idle, hif]
    exact ⟨trivial, trivial, rfl, rfl, trivial, trivial⟩
  · simp only [hrm]
    exact ⟨trivial, trivial, trivial, trivial, trivial, trivial⟩

/-- **`Open()` again: the hypotheses admit it.**  The protocol half of `wf` accepts a further `Open()` at any
    position after the first operation (which is the first `Open()`): while the initial list is loading,
    between callbacks and traffic, after the open has completed. -/
theorem C05_open_again_admitted (cfg : Cfg) (pre post : List Op) (hne : pre ≠ [])
    (h : protoOk { ref := cfg.initial } (pre ++ post) = true) :
    protoOk { ref := cfg.initial } (pre ++ .opn :: post) = true := by
  have key : ∀ (pre : List Op) (p : Proto), p.phase ≠ 0 → protoOk p (pre ++ post) = true →
      protoOk p (pre ++ .opn :: post) = true := by
    intro pre
    induction pre with
    | nil =>
      intro p hp h
      simp only [List.nil_append, protoOk, protoStep, if_neg hp]
      exact h
    | cons op pre ih =>
      intro p _ h
      simp only [List.cons_append, protoOk] at h ⊢
      cases hps : protoStep p op with
      | none => rw [hps] at h; cases h
      | some p' => rw [hps] at h; exact ih p' (protoStep_phase hps) h
  cases pre with
  | nil => exact absurd rfl hne
  | cons op pre =>
    simp only [List.cons_append, protoOk] at h ⊢
    cases hps : protoStep { ref := cfg.initial } op with
    | none => rw [hps] at h; cases h
    | some p' => rw [hps] at h; exact key pre p' (protoStep_phase hps) h

/-- **`Open()` again changes nothing.**  After any run satisfying `wf`, one more `Open()` (with the hub
    run dry afterwards) re-runs nothing of `_OpenImpl`: the init gate, the waiting callbacks and `_servers`
    are what they were, the eligible endpoints are the same, still pairwise distinct, and the server set
    is untouched.  (With the guard on a finished greenlet instead of the open result, `_servers` is reset
    and every member added a second time.) -/
theorem C05_open_again_noop (cfg : Cfg) (ops : List Op) (hwf : wf cfg ops = true) :
    (stepSt cfg (runSt cfg (init cfg) ops) .opn).1.initDone = (runSt cfg (init cfg) ops).initDone ∧
    (stepSt cfg (runSt cfg (init cfg) ops) .opn).1.blocked = (runSt cfg (init cfg) ops).blocked ∧
    (stepSt cfg (runSt cfg (init cfg) ops) .opn).1.sub.hs.servers = (runSt cfg (init cfg) ops).sub.hs.servers ∧
    (∀ x, x ∈ E (stepSt cfg (runSt cfg (init cfg) ops) .opn).1.sub ↔ x ∈ E (runSt cfg (init cfg) ops).sub) ∧
    (E (stepSt cfg (runSt cfg (init cfg) ops) .opn).1.sub).Nodup ∧
    refOf cfg (ops ++ [.opn]) = refOf cfg ops := by
  obtain ⟨p', h, _⟩ := run_RInv cfg ops _ _ (RInv.init cfg) (wf_proto hwf)
  obtain ⟨f, eff, _⟩ := stepSt_spec cfg (runSt cfg (init cfg) ops) .opn h.full h.pre (by intro l e hc; cases hc)
  obtain ⟨e1, e2, e3⟩ := eff
  refine ⟨e1, e2, e3, ?_, f.inv.nodup, ?_⟩
  · intro x; rw [f.part, h.full.part, e3]
  · unfold refOf; rw [List.foldl_append]; rfl

/-- **C05, specification level.**  For every configuration and every operation list satisfying `wf`,
    the history of the model satisfies the executable specification `specC05` — the predicate the
    harness evaluates on the implementation's observations (components `lbheap`, `lbaperture`). -/
theorem C05_model_satisfies_spec (cfg : Cfg) (ops : List Op) (hwf : wf cfg ops = true) :
    specC05 cfg (comp5.modelTrace cfg ops) = .ok :=
  specC05_trace cfg ops _ _ 0 (RInv.init cfg) (wf_proto hwf)

/-! non-vacuity: concrete instances of the hypotheses (operation lists also kept in corpus/C05, C06) -/

/-- plain heap balancer: two callbacks arrive while the initial list {0,1} is loading, a duplicate
    join and an unknown leave afterwards, traffic -/
example : wf ⟨false, 1, 2, 1/2, 2, false, [0, 1]⟩
    [.opn, .join 3 ⟨[], []⟩, .leave 1 ⟨[], []⟩, .loaded [1, 0] ⟨[], []⟩, .join 3 ⟨[], []⟩, .leave 7 ⟨[], []⟩,
     .chan 0 2, .get ⟨[], []⟩, .get ⟨[], []⟩, .put 0 0 ⟨[], []⟩] = true := by decide +kernel

example : (runSt ⟨false, 1, 2, 1/2, 2, false, [0, 1]⟩ (init ⟨false, 1, 2, 1/2, 2, false, [0, 1]⟩)
    [.opn, .join 3 ⟨[], []⟩, .leave 1 ⟨[], []⟩, .loaded [1, 0] ⟨[], []⟩, .join 3 ⟨[], []⟩, .leave 7 ⟨[], []⟩,
     .chan 0 2, .get ⟨[], []⟩, .get ⟨[], []⟩, .put 0 0 ⟨[], []⟩]).initDone = true := by decide +kernel

example : refOf ⟨false, 1, 2, 1/2, 2, false, [0, 1]⟩
    [.opn, .join 3 ⟨[], []⟩, .leave 1 ⟨[], []⟩, .loaded [1, 0] ⟨[], []⟩, .join 3 ⟨[], []⟩, .leave 7 ⟨[], []⟩,
     .chan 0 2, .get ⟨[], []⟩, .get ⟨[], []⟩, .put 0 0 ⟨[], []⟩] = [0, 3] := by decide +kernel

/-- aperture balancer (min_size 1, max_size 3, band [1/2, 2]): gated callbacks, load-driven growth
    (choice 3) and shrinking, a jitter round (choice 0), a leave -/
example : wf ⟨true, 1, 3, 1/2, 2, false, [0, 1, 2]⟩
    [.opn, .join 3 ⟨[], []⟩, .leave 1 ⟨[], []⟩, .loaded [2, 0, 1] ⟨[], []⟩, .chan 0 2, .get ⟨[], [⟨0, 1, 0⟩]⟩,
     .get ⟨[3], [⟨1, 2, 0⟩]⟩, .put 0 0 ⟨[], [⟨1, 1, 0⟩]⟩, .jitter ⟨[0], []⟩, .leave 2 ⟨[], []⟩] = true := by decide +kernel

example : refOf ⟨true, 1, 3, 1/2, 2, false, [0, 1, 2]⟩
    [.opn, .join 3 ⟨[], []⟩, .leave 1 ⟨[], []⟩, .loaded [2, 0, 1] ⟨[], []⟩, .chan 0 2, .get ⟨[], [⟨0, 1, 0⟩]⟩,
     .get ⟨[3], [⟨1, 2, 0⟩]⟩, .put 0 0 ⟨[], [⟨1, 1, 0⟩]⟩, .jitter ⟨[0], []⟩, .leave 2 ⟨[], []⟩] = [0, 3] := by decide +kernel

/-- `Open()` again — while the initial list is loading, right after it, between callbacks and traffic,
    at the end — is within the hypotheses, on both balancers -/
example : wf ⟨false, 1, 2, 1/2, 2, false, [0, 1]⟩
    [.opn, .opn, .join 3 ⟨[], []⟩, .opn, .leave 1 ⟨[], []⟩, .loaded [1, 0] ⟨[], []⟩, .opn, .join 3 ⟨[], []⟩,
     .leave 7 ⟨[], []⟩, .chan 0 2, .opn, .get ⟨[], []⟩, .get ⟨[], []⟩, .opn, .put 0 0 ⟨[], []⟩, .leave 0 ⟨[], []⟩,
     .opn] = true := by decide +kernel

example : wf ⟨true, 1, 3, 1/2, 2, false, [0, 1, 2]⟩
    [.opn, .join 3 ⟨[], []⟩, .opn, .leave 1 ⟨[], []⟩, .loaded [2, 0, 1] ⟨[], []⟩, .opn, .chan 0 2, .opn,
     .get ⟨[], [⟨0, 1, 0⟩]⟩, .get ⟨[3], [⟨1, 2, 0⟩]⟩, .opn, .put 0 0 ⟨[], [⟨1, 1, 0⟩]⟩, .jitter ⟨[0], []⟩, .opn,
     .leave 2 ⟨[], []⟩, .opn] = true := by decide +kernel

/-- a list that `wf` rejects: the initial list is loaded a second time (`_OpenImpl` runs once per balancer;
    Close() followed by a new open sequence is outside the property) -/
example : wf ⟨false, 1, 2, 1/2, 2, false, [0, 1]⟩
    [.opn, .loaded [1, 0] ⟨[], []⟩, .loaded [1, 0] ⟨[], []⟩] = false := by decide +kernel

/-- nor does a further `Open()` make up for a missing first one: a callback before any `Open()` is rejected -/
example : wf ⟨false, 1, 2, 1/2, 2, false, [0, 1]⟩ [.join 3 ⟨[], []⟩, .opn] = false := by decide +kernel

end Scales.LB
