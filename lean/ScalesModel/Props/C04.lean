import ScalesModel.Proofs.HeapInv
namespace Scales.Heap
theorem C04_placeholder : True := trivial
end Scales.Heap
