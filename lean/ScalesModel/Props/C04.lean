/-
  Props/C04.lean — per-member load is conserved; removed members drain, then close.

  Same model and invariant as C03 (Proofs/HeapInv.lean).  `outOf s id` counts the dispatch records
  of node `id` whose `PutWrapper` has not run.  Hypothesis throughout: fewer than 2^31−1
  dispatches in the history (a load ≥ 0 then always means "marked down").

  `ApertureBalancerSink` inherits `__Put`, `PutWrapper` and `_RemoveSink`, and removes members from its heap
  on its own account (contraction, jitter).  The `C04_aperture_*` theorems decide the property on that
  balancer and on the heap balancer behind base.py's gate (component `aperture4`, specification
  `specC04A`, Adapter/ApertureHeap.lean; invariant `HInv`, Proofs/HeapAgnostic.lean).
-/
import ScalesModel.Proofs.HeapMisc
import ScalesModel.Proofs.LBHeap
namespace Scales.Heap

/-- **load conservation.**  In every state with the invariant, a node's load is its number of
    outstanding dispatches measured from `Idle`, or from 0 while it is marked down (load ≥ 0);
    it is never below `Idle`; a heap node is marked down exactly when it is on the down list. -/
theorem C04_load_conserved (s : HS) (h : Inv s) (id : Nat) (hl : id < s.nodes.length) :
    ((s.node id).load ≥ 0 → (s.node id).load = (outOf s id : Int)) ∧
    ((s.node id).load < 0 → (s.node id).load = Idle + (outOf s id : Int)) ∧
    Idle ≤ (s.node id).load ∧
    (InHeap s id → ((s.node id).load ≥ 0 ↔ id ∈ s.down)) := by
  obtain ⟨a1, a2, a3, _⟩ := h.book.pen_iff id hl
  exact ⟨a1.mp, a2.mp, a3, fun hin => ⟨h.down.all id hin, fun hd => (h.down.pen id hd).2⟩⟩

/-- the same after every legal operation list with fewer than 2^31−1 dispatches -/
theorem C04_load_conserved_reachable (ops : List Op) (hok : opsOk HS.init ops = true)
    (hb : getCount ops < 2147483647) (id : Nat) (hl : id < (runOps HS.init ops).nodes.length) :
    (((runOps HS.init ops).node id).load ≥ 0 →
      ((runOps HS.init ops).node id).load = (outOf (runOps HS.init ops) id : Int)) ∧
    (((runOps HS.init ops).node id).load < 0 →
      ((runOps HS.init ops).node id).load = Idle + (outOf (runOps HS.init ops) id : Int)) ∧
    Idle ≤ ((runOps HS.init ops).node id).load := by
  have hi : Inv (runOps HS.init ops) := by
    apply Inv_run ops HS.init Inv_init hok
    show 0 + getCount ops < maxReqs
    unfold maxReqs; omega
  obtain ⟨a, b, c, _⟩ := C04_load_conserved _ hi id hl
  exact ⟨a, b, c⟩

/-- a second completion of the same dispatch (with any draw) changes nothing -/
theorem C04_put_idempotent (s : HS) (r j j' : Nat) : (s.put r j).put r j' = s.put r j := put_idem s r j j'

/-- a dispatch only ever goes to a node that is in the heap -/
theorem C04_chosen_is_member (s : HS) (h : Inv s) (id ep r : Nat)
    (hres : (s.get noHook).2 = GetRes.node id ep r) : InHeap s id := by
  by_cases hsz : s.size = 0
  · rw [get_empty s hsz] at hres; simp at hres
  · obtain ⟨nid, hr, hin, _⟩ := get_facts s h hsz
    rw [hr] at hres
    simp only [GetRes.node.injEq] at hres
    rw [← hres.1]; exact hin

/-- a node that has left the heap never returns to it and is never chosen again, whatever legal
    operations follow -/
theorem C04_removed_never_chosen (s : HS) (h : Inv s) (id : Nat) (hl : id < s.nodes.length)
    (hn : ¬ InHeap s id) (ops : List Op) (hok : opsOk s ops = true)
    (hb : s.reqs.length + getCount ops < 2147483647) :
    ¬ InHeap (runOps s ops) id ∧ ∀ ep r, ((runOps s ops).get noHook).2 ≠ GetRes.node id ep r := by
  obtain ⟨i1, _, r1⟩ := run_removed ops s h hok hb id hl hn
  exact ⟨r1, fun ep r hc => r1 (C04_chosen_is_member _ i1 id ep r hc)⟩

/-- `leave` takes the member with that endpoint out of the heap -/
theorem C04_leave_removes (s : HS) (h : Inv s) (ep nid : Nat) (hf : s.findByEp ep = some nid) :
    InHeap s nid ∧ ¬ InHeap (s.leave ep) nid ∧ nid < (s.leave ep).nodes.length := by
  obtain ⟨hin, _, f1, _, f3, _⟩ := leave_some s h ep nid hf
  refine ⟨hin, ?_, by rw [f1]; exact inHeap_lt s h.wf nid hin⟩
  rw [f3]; exact fun x => x.2 rfl

/-- **close discipline, as a state invariant.**  A node in the heap has not been closed; a removed
    node has been closed exactly once if it has drained or was marked down, and not at all
    otherwise. -/
theorem C04_drain_then_close (s : HS) (h : Inv s) (id : Nat) (hl : id < s.nodes.length) :
    (InHeap s id → (s.node id).closed = 0) ∧
    (¬ InHeap s id → (outOf s id = 0 ∨ (s.node id).load ≥ 0) → (s.node id).closed = 1) ∧
    (¬ InHeap s id → ¬ (outOf s id = 0 ∨ (s.node id).load ≥ 0) → (s.node id).closed = 0) := by
  refine ⟨h.book.closedIn id, ?_, ?_⟩
  · intro hn hc; rw [h.book.closedOff id hl hn, if_pos hc]
  · intro hn hc; rw [h.book.closedOff id hl hn, if_neg hc]

/-- at removal the channel is closed at once iff the node is idle or marked down; nobody else's
    channel is touched -/
theorem C04_close_at_leave (s : HS) (h : Inv s) (ep nid : Nat) (hf : s.findByEp ep = some nid) (id : Nat) :
    ((s.leave ep).node id).closed =
      (if id = nid then (if (s.node nid).load = Idle ∨ (s.node nid).load ≥ 0 then 1 else 0)
       else (s.node id).closed) :=
  ((leave_some s h ep nid hf).2.2.2.2.2 id).2.2.2

/-- a completion closes a channel iff it is the one that empties a removed, healthy node -/
theorem C04_close_at_put (s : HS) (h : Inv s) (r j nid : Nat) (hreq : s.reqs[r]? = some (nid, false))
    (hj : s.putDraws nid = true → 1 ≤ j ∧ j ≤ s.size) (id : Nat) :
    ((s.put r j).node id).closed = (s.node id).closed +
      (if id = nid ∧ (s.node nid).index < 0 ∧ (s.node nid).load - 1 = Idle then 1 else 0) := by
  have := (putNode_spec s h r nid j hreq hj).2.closed id
  unfold HS.put
  rw [hreq]
  exact this

/-- **C04, specification level.**  For every legal operation list with fewer than 2^31−1
    dispatches the history of the model satisfies the executable specification `specC04`
    (load conservation and close discipline on every observation). -/
theorem C04_model_satisfies_spec (ops : List Op) (hok : opsOk HS.init ops = true)
    (hb : getCount ops < 2147483647) : specC04 () ((comp 4).modelTrace () ops) = Verdict.ok := by
  apply spec_ok 4 ops HS.init {} 0 Inv_init Sim0_init PrevOk_init hok
  show 0 + getCount ops < maxReqs
  unfold maxReqs; omega

theorem C04_wf_model_satisfies_spec (ops : List Op) (h : (comp 4).wf () ops = true) :
    (comp 4).spec () ((comp 4).modelTrace () ops) = Verdict.ok := by
  have h' : (opsOk HS.init ops && decide (getCount ops < 2147483647)) = true := h
  rw [Bool.and_eq_true, decide_eq_true_eq] at h'
  exact C04_model_satisfies_spec ops h'.1 h'.2

/-! non-vacuity: a history with a removal of a loaded member, its drain (completion after
    removal), a duplicate completion, a re-join of the same endpoint, a mark-down, a resurrection
    and an idle completion with a drawn slot -/
def c04Hist : List Op :=
  [.join 7, .join 8, .chan 0 2, .chan 1 2, .get, .get, .leave 7, .put 0 0, .put 0 0, .join 7, .get,
   .chan 2 2, .get, .put 1 0, .put 2 2]

set_option maxRecDepth 8000 in
example : (comp 4).wf () c04Hist = true := by
  simp [comp, c04Hist, wfOps, opsOk, getCount, step, HS.join, HS.leave, HS.addSink, HS.removeSink, HS.findByEp,
    HS.fixUp, HS.fixDown, HS.init, HS.size, HS.at, HS.idAt, HS.node, Node.lt, HS.swap, HS.setIndex, HS.setNode,
    HS.setChan, HS.get, HS.getLoop, HS.scan, noHook, HS.put, HS.putNode, HS.putDraws, Idle, Penalty, chOpen]

/-! ### the balancers that inherit `__Put` / `_RemoveSink`: aperture balancer, heap balancer behind the gate -/

/-- **load conservation and close discipline on the aperture balancer.**  After every legal operation list
    (`LB.wf`) with fewer than 2^31−1 dispatches — whatever the aperture did on the way: expansion on load, on a
    mark-down inside `__Get`, on a failed open or a leave; contraction; jitter — every node's load is its number
    of outstanding dispatches measured from `Idle`, or from 0 while it is marked down, never below `Idle`; a node
    in the heap has not been closed; a node that left the heap (leave or contraction) has been closed exactly
    once if it has drained or was marked down, and not at all while requests are outstanding on it -/
theorem C04_aperture_load_conserved (cfg : Scales.Aperture.Cfg) (ops : List Scales.LB.Op)
    (h : Scales.LB.wfH cfg ops = true) (id : Nat)
    (hl : id < (Scales.LB.runSt cfg (Scales.LB.init cfg) ops).sub.hs.nodes.length) :
    (((Scales.LB.runSt cfg (Scales.LB.init cfg) ops).sub.hs.node id).load ≥ 0 →
      ((Scales.LB.runSt cfg (Scales.LB.init cfg) ops).sub.hs.node id).load =
        (outOf (Scales.LB.runSt cfg (Scales.LB.init cfg) ops).sub.hs id : Int)) ∧
    (((Scales.LB.runSt cfg (Scales.LB.init cfg) ops).sub.hs.node id).load < 0 →
      ((Scales.LB.runSt cfg (Scales.LB.init cfg) ops).sub.hs.node id).load =
        Idle + (outOf (Scales.LB.runSt cfg (Scales.LB.init cfg) ops).sub.hs id : Int)) ∧
    Idle ≤ ((Scales.LB.runSt cfg (Scales.LB.init cfg) ops).sub.hs.node id).load ∧
    (InHeap (Scales.LB.runSt cfg (Scales.LB.init cfg) ops).sub.hs id →
      ((Scales.LB.runSt cfg (Scales.LB.init cfg) ops).sub.hs.node id).closed = 0) ∧
    (¬ InHeap (Scales.LB.runSt cfg (Scales.LB.init cfg) ops).sub.hs id →
      ((Scales.LB.runSt cfg (Scales.LB.init cfg) ops).sub.hs.node id).closed =
        (if outOf (Scales.LB.runSt cfg (Scales.LB.init cfg) ops).sub.hs id = 0 ∨
            ((Scales.LB.runSt cfg (Scales.LB.init cfg) ops).sub.hs.node id).load ≥ 0 then 1 else 0)) := by
  obtain ⟨hw, hb⟩ := (Scales.LB.wfH_iff cfg ops).1 h
  have hi := (Scales.LB.run_HInv cfg ops _ _ (Scales.LB.RInv.init cfg) Scales.LB.HInv_init
    (Scales.LB.wf_proto hw) hb).1
  obtain ⟨a1, a2, a3, _⟩ := hi.book.pen_iff id hl
  exact ⟨a1.mp, a2.mp, a3, hi.book.closedIn id, hi.book.closedOff id hl⟩

/-- **C04 on the aperture balancer, specification level.**  For every configuration and every operation list
    satisfying `wfH`, the history of the model satisfies the executable specification `specC04A`, the predicate
    `./check C04` evaluates on the real balancer's observations (component `aperture4`). -/
theorem C04_aperture_model_satisfies_spec (cfg : Scales.Aperture.Cfg) (ops : List Scales.LB.Op)
    (h : Scales.LB.comp4A.wf cfg ops = true) :
    Scales.LB.comp4A.spec cfg (Scales.LB.comp4A.modelTrace cfg ops) = Verdict.ok := by
  have h' : Scales.LB.wfH cfg ops = true := h
  obtain ⟨hw, hb⟩ := (Scales.LB.wfH_iff cfg ops).1 h'
  exact Scales.LB.specC04A_trace cfg ops _ _ 0 (Scales.LB.RInv.init cfg) Scales.LB.HInv_init
    (Scales.LB.GInv.init cfg) (Scales.LB.wf_proto hw) hb

/-- **a request that timed out while it waited for the open result books no load.**  When the open result
    completes, the links of the waiting requests run in arrival order (`flush`).  Those whose deadline has
    passed (`live e = false`: the timeout sink has handed the caller its TimeoutError, the request has
    completed) leave the balancer untouched: the state after serving the waiting requests `q` is the state
    after serving the live ones alone, and the dispatches made are the same. -/
theorem C04_aperture_timed_out_waiter_books_no_load (cfg : Scales.Aperture.Cfg) (q : List (Option Bool)) :
    ∀ (a : Scales.Aperture.AS),
    (Scales.LBBase.flush (Scales.LB.sub cfg) q a).1 =
      (Scales.LBBase.flush (Scales.LB.sub cfg) (q.filter Scales.LBBase.live) a).1 ∧
    (Scales.LBBase.flush (Scales.LB.sub cfg) q a).2.filterMap id =
      (Scales.LBBase.flush (Scales.LB.sub cfg) (q.filter Scales.LBBase.live) a).2.filterMap id := by
  induction q with
  | nil => intro a; exact ⟨rfl, rfl⟩
  | cons e q ih =>
    intro a
    by_cases hl : Scales.LBBase.live e = true
    · rw [List.filter_cons_of_pos hl]
      unfold Scales.LBBase.flush
      simp only [hl, if_true]
      obtain ⟨i1, i2⟩ := ih ((Scales.LB.sub cfg).request a).1
      exact ⟨i1, congrArg (List.cons _) i2⟩
    · rw [List.filter_cons_of_neg hl]
      have hl' : Scales.LBBase.live e = false := by simpa using hl
      obtain ⟨i1, i2⟩ := ih a
      have e1 : Scales.LBBase.flush (Scales.LB.sub cfg) (e :: q) a =
          ((Scales.LBBase.flush (Scales.LB.sub cfg) q a).1, none :: (Scales.LBBase.flush (Scales.LB.sub cfg) q a).2) := by
        conv => lhs; unfold Scales.LBBase.flush
        simp only [hl', Bool.false_eq_true, if_false]
      rw [e1]
      exact ⟨i1, i2⟩

/-! non-vacuity: an aperture of min_size 2 over three members; both active members loaded; the server set
    drops member 0 while a request is outstanding on it (the aperture takes in endpoint 2 instead); the request
    completes (the channel is closed then, not before); a duplicate completion; traffic on the new member; an
    idle completion with a drawn slot -/
def c04ApCfg : Scales.Aperture.Cfg := ⟨true, 2, 10, 1 / 2, 2, false, [0, 1, 2]⟩
def c04ApHist : List Scales.LB.Op :=
  [.opn, .loaded [0, 1, 2] ⟨[], []⟩, .chan 0 2, .chan 1 2, .get ⟨[], [⟨0, 0, 0⟩]⟩, .get ⟨[], [⟨0, 0, 0⟩]⟩,
   .leave 0 ⟨[2], []⟩, .put 0 0 ⟨[], [⟨0, 0, 0⟩]⟩, .put 0 0 ⟨[], []⟩, .chan 2 2, .get ⟨[], [⟨0, 0, 0⟩]⟩,
   .put 1 1 ⟨[], [⟨0, 0, 0⟩]⟩]

example : Scales.LB.comp4A.wf c04ApCfg c04ApHist = true := by decide +kernel
example : ((Scales.LB.runSt c04ApCfg (Scales.LB.init c04ApCfg) c04ApHist).sub.hs.node 0).closed = 1 ∧
    ¬ (0 ∈ (Scales.LB.runSt c04ApCfg (Scales.LB.init c04ApCfg) c04ApHist).sub.hs.heap) := by decide +kernel

/-! the clause for requests that completed before they were dispatched binds.  A request with a deadline
    arrives while the balancer is opening and waits; its deadline passes (`expire 0`: its caller has its
    TimeoutError); the open result completes.  Observations in which the request is dropped and no load is
    booked are accepted; observations in which it is dispatched to node 0 and node 0 carries load 1 for it —
    no request is outstanding — are rejected; the same observations are accepted when the deadline has not
    passed (the request is outstanding then). -/
def c04LateObs (res : List Scales.LB.ResV) (heap : List Scales.LB.NV) (queued : Nat) : Scales.LB.Obs :=
  { res := res, heap := heap, down := [], off := [], servers := [0], idle := [], pending := [], initDone := true,
    blocked := 0, openAr := queued == 0, queued := queued, jitter := false, total := 0, adj := [], gActive := 0,
    gIdle := 0 }

def c04LateHist (expired : Bool) (last : Scales.LB.Obs) : List (Scales.LB.Op × Scales.LB.Obs) :=
  [(.opn, c04LateObs [] [] 0), (.getd ⟨[], []⟩, c04LateObs [.queued] [] 1)] ++
  (if expired then [(Scales.LB.Op.expire 0, c04LateObs [] [] 1)] else []) ++
  [(.loaded [0] ⟨[], []⟩, last)]

example : (Scales.LB.specC04A c04ApCfg
    (c04LateHist true (c04LateObs [.dropped] [⟨0, 0, Idle, 1, 0, 2⟩] 0))).isOk = true := by decide +kernel
example : Scales.LB.specC04A c04ApCfg
    (c04LateHist true (c04LateObs [.node 0 0 0] [⟨0, 0, Idle + 1, 1, 0, 2⟩] 0)) =
      .fail "load-booked-for-completed-request" [V.ofNat 3, V.ofNat 0] := by rfl
example : (Scales.LB.specC04A c04ApCfg
    (c04LateHist false (c04LateObs [.node 0 0 0] [⟨0, 0, Idle + 1, 1, 0, 2⟩] 0))).isOk = true := by decide +kernel

end Scales.Heap
