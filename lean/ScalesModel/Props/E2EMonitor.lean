/-
  Props/E2EMonitor.lean — what a verdict of the end-to-end monitors MEANS about the event log.

  Adapter/E2E.lean defines the runtime monitors that judge the event logs of the assembled Thrift /
  ThriftMux clients (components e2e1 = C01, e2e2 = C02, e2e12 = C12, e2e9 = C09; `monGo w mux {} 0 log`).
  Here every clause gets a declarative reading: a predicate over the event list alone, in terms of
  positions `log[i]?` — no monitor state — and for every property
    * `Cxx_monitor_ok_iff`      verdict `ok`  ⇔  no clause is violated anywhere in the log   (sound and complete)
    * `Cxx_monitor_fail_sound`  verdict `fail cl (i :: rest)`  ⇒  clause `cl` IS violated at position `i`, and
                                `rest` names the call / endpoint concerned
    * `Cxx_monitor_<clause>_detected`  the clause's violation, in its plain index form, is never judged `ok`
  for every log, without a length bound.  Calls are numbered in the order of their `issue` events (the harness
  numbers them so; `issuedBefore_of_numbered`), "call `c` was issued before position `j`" is
  `IssuedBefore log j c T ti`.

  Proof: Proofs/E2EMonitorLemmas.lean (the state after a history is what the history predicates say; every
  check reads as its clause).  The theorems sit in the namespaces of the properties they are locked with.
-/
import ScalesModel.Proofs.E2EMonitorLemmas
set_option linter.unnecessarySeqFocus false
namespace Scales.E2E

/-! ### the clauses, over the whole log, by positions -/

/-- number of `issue` events before position `j`: the number the next call gets -/
abbrev issuedCount (log : List Ev) (j : Nat) : Nat := nIssues (log.take j)

/-- call `c` was issued before position `j`, with timeout `T` at time `ti` -/
def IssuedBefore (log : List Ev) (j c T ti : Nat) : Prop :=
  ∃ i c' pre, i < j ∧ log[i]? = some (.issue c' T ti pre) ∧ issuedCount log i = c

/-- call `c` (already issued) has a completion event before position `j` -/
def CompletedBefore (log : List Ev) (j c : Nat) : Prop :=
  ∃ i o t, i < j ∧ log[i]? = some (.done c o t) ∧ c < issuedCount log i

/-- the completion of call `c` — its first completion event after its issue — happened before position `j`
    and was TimeoutError at time `td` -/
def TimedOutBefore (log : List Ev) (j c td : Nat) : Prop :=
  ∃ i, i < j ∧ log[i]? = some (.done c .timeout td) ∧ c < issuedCount log i ∧ ¬ CompletedBefore log i c

/-- all monitors: a completion event at `j` for a call number not issued so far -/
def UnknownCallAt (log : List Ev) (j : Nat) : Prop :=
  ∃ c o t, log[j]? = some (.done c o t) ∧ issuedCount log j ≤ c

/-- C01 `foreign-reply` / C02 `cross-talk`: at `j` the issued call `c` is completed with the reply the server
    produced for another call `k` -/
def CrossTalkAt (log : List Ev) (j c : Nat) (k : Int) : Prop :=
  ∃ t, log[j]? = some (.done c (.other k) t) ∧ c < issuedCount log j

/-- C01 `completed-twice` -/
def CompletedTwiceAt (log : List Ev) (j c : Nat) : Prop :=
  ∃ o t, log[j]? = some (.done c o t) ∧ CompletedBefore log j c

/-- C01 `timeout-early`: TimeoutError delivered before `ti + T` -/
def TimeoutEarlyAt (log : List Ev) (j c : Nat) : Prop :=
  ∃ t T ti, log[j]? = some (.done c .timeout t) ∧ IssuedBefore log j c T ti ∧ ¬ CompletedBefore log j c ∧ t < ti + T

/-- C01 `deadline-bound` on a completion: the call completes later than `ti + T` rounded up to 10 ms -/
def DeadlineMissedAt (log : List Ev) (j c : Nat) : Prop :=
  ∃ o t T ti, log[j]? = some (.done c o t) ∧ IssuedBefore log j c T ti ∧ ¬ CompletedBefore log j c ∧
    0 < T ∧ roundUp (ti + T) < t

/-- C01 `deadline-bound` at a tick (`overdue`): the call is still incomplete later than `ti + T` rounded up -/
def OverdueAt (log : List Ev) (j c : Nat) : Prop :=
  ∃ now T ti, log[j]? = some (.tick now) ∧ IssuedBefore log j c T ti ∧ ¬ CompletedBefore log j c ∧
    0 < T ∧ roundUp (ti + T) < now

/-- C02 `args-mangled`: the server decoded a request that is not the method/arguments of the call it carries -/
def ArgsMangledAt (log : List Ev) (j : Nat) : Prop :=
  ∃ c conn ok t, log[j]? = some (.srvgot c conn ok t) ∧ (ok = false ∨ c < 0)

/-- C12 `write-after-timeout`: a request frame of call `c` written at `t`, the call having completed with
    TimeoutError at `td ≤ t` earlier in the log -/
def WriteAfterTimeoutAt (log : List Ev) (j c : Nat) : Prop :=
  ∃ conn tag t td, log[j]? = some (.wrote (c : Int) conn false tag t) ∧ TimedOutBefore log j c td ∧ td ≤ t

/-- C12 `discard-missing` (end of the log): call `c` completed with TimeoutError at `td`; a request frame of it
    (tag `tag`, written at `tw ≤ td`) is on a connection not closed at or before `td`; no discard frame for that
    call and tag was written on that connection -/
def DiscardMissingIn (log : List Ev) (c : Nat) : Prop :=
  ∃ td conn tag tw, TimedOutBefore log log.length c td ∧
    (∃ i, log[i]? = some (.wrote (c : Int) conn false tag tw) ∧ c < issuedCount log i) ∧ tw ≤ td ∧
    (∀ (i tc : Nat), log[i]? = some (Ev.connclosed conn tc) → td < tc) ∧
    ¬ ∃ i t, log[i]? = some (.wrote (c : Int) conn true tag t) ∧ c < issuedCount log i

/-- C09 `connect-after-close` -/
def ConnectAfterCloseAt (log : List Ev) (j ep : Nat) : Prop :=
  ∃ i t t', i < j ∧ log[i]? = some (.clientclosed t) ∧ log[j]? = some (.connect ep t')

/-- endpoint `ep` refuses connections just before position `j`: its last reachability change was "down" -/
def DownBefore (log : List Ev) (j ep : Nat) : Prop :=
  ∃ i t mw, i < j ∧ log[i]? = some (.reach ep false t mw) ∧
    ∀ k x, i < k → k < j → log[k]? = some x → Ev.isReach ep x = false

/-- C09 `no-reconnect-within-max-interval`, judged when the event at `j` arrives (at its time): the client has
    not been closed; its last connection attempt to `ep` (position `ic`, time `tc`) was refused; `ep` accepts
    connections again since `tr` (position `ir`, no reachability change since; `mw` the maximum retry interval);
    more than `mw + retrySlack` has passed since both -/
def NoReconnectAt (log : List Ev) (j ep : Nat) : Prop :=
  ∃ e, log[j]? = some e ∧ (∀ i t, i < j → log[i]? ≠ some (.clientclosed t)) ∧
    ∃ ic tc ir tr mw,
      ic < j ∧ log[ic]? = some (.connect ep tc) ∧ DownBefore log ic ep ∧
      (∀ k x, ic < k → k < j → log[k]? = some x → Ev.isConnect ep x = false) ∧
      ir < j ∧ log[ir]? = some (.reach ep true tr mw) ∧
      (∀ k x, ir < k → k < j → log[k]? = some x → Ev.isReach ep x = false) ∧
      max tr tc + mw + retrySlack < evTime e

/-- C01: clause `cl` is violated at position `j`; `rest` = the parameters reported after the position -/
def Violated1 (log : List Ev) (cl : String) (j : Nat) (rest : List V) : Prop :=
  (cl = "unknown-call" ∧ rest = [] ∧ UnknownCallAt log j) ∨
  (cl = "foreign-reply" ∧ ∃ c k, rest = [V.ofNat c] ∧ CrossTalkAt log j c k) ∨
  (cl = "completed-twice" ∧ ∃ c, rest = [V.ofNat c] ∧ CompletedTwiceAt log j c) ∨
  (cl = "timeout-early" ∧ ∃ c, rest = [V.ofNat c] ∧ TimeoutEarlyAt log j c) ∨
  (cl = "deadline-bound" ∧ ∃ c tag, rest = [V.ofNat c, tag] ∧ (DeadlineMissedAt log j c ∨ OverdueAt log j c))

/-- C02 -/
def Violated2 (log : List Ev) (cl : String) (j : Nat) (rest : List V) : Prop :=
  (cl = "unknown-call" ∧ rest = [] ∧ UnknownCallAt log j) ∨
  (cl = "cross-talk" ∧ ∃ c k, rest = [V.ofNat c, .n k] ∧ CrossTalkAt log j c k) ∨
  (cl = "args-mangled" ∧ rest = [] ∧ ArgsMangledAt log j)

/-- C12 (the end-of-log clause is reported at position `log.length`) -/
def Violated12 (mux : Bool) (log : List Ev) (cl : String) (j : Nat) (rest : List V) : Prop :=
  (cl = "unknown-call" ∧ rest = [] ∧ UnknownCallAt log j) ∨
  (cl = "write-after-timeout" ∧ ∃ c, rest = [V.ofNat c] ∧ WriteAfterTimeoutAt log j c) ∨
  (cl = "discard-missing" ∧ j = log.length ∧ mux = true ∧ ∃ c, rest = [V.ofNat c] ∧ DiscardMissingIn log c)

/-- C09 -/
def Violated9 (log : List Ev) (cl : String) (j : Nat) (rest : List V) : Prop :=
  (cl = "unknown-call" ∧ rest = [] ∧ UnknownCallAt log j) ∨
  (cl = "connect-after-close" ∧ ∃ ep, rest = [V.ofNat ep] ∧ ConnectAfterCloseAt log j ep) ∨
  (cl = "no-reconnect-within-max-interval" ∧ ∃ ep, rest = [V.ofNat ep] ∧ NoReconnectAt log j ep)

/-- the harness numbers the calls in the order it issues them -/
def Numbered (log : List Ev) : Prop :=
  ∀ i c T t pre, log[i]? = some (.issue c T t pre) → issuedCount log i = c

/-! ### the position forms are the history forms of Proofs/E2EMonitorLemmas.lean -/

theorem issuedBefore_iff {log : List Ev} {j c T ti : Nat} :
    IssuedBefore log j c T ti ↔ ∃ pre, IssuedIn (log.take j) c T ti pre := by
  simp only [IssuedBefore, issuedIn_take]
  constructor
  · rintro ⟨i, c', pre, h⟩; exact ⟨pre, i, c', h⟩
  · rintro ⟨pre, i, c', h⟩; exact ⟨i, c', pre, h⟩

theorem completedBefore_iff {log : List Ev} {j c : Nat} : CompletedBefore log j c ↔ Completed (log.take j) c :=
  completed_take.symm

theorem timedOutBefore_iff {log : List Ev} {j c td : Nat} :
    TimedOutBefore log j c td ↔ FirstDone (log.take j) c .timeout td := by
  rw [firstDone_take]; rfl

theorem downBefore_iff {log : List Ev} {j ep : Nat} : DownBefore log j ep ↔ ∃ td, DownIn (log.take j) ep td := by
  simp only [DownBefore, downIn_take]
  constructor
  · rintro ⟨i, t, mw, h⟩; exact ⟨t, i, mw, h⟩
  · rintro ⟨t, i, mw, h⟩; exact ⟨i, t, mw, h⟩

theorem unknownCallAt_iff {log : List Ev} {j : Nat} :
    UnknownCallAt log j ↔ ∃ e, log[j]? = some e ∧ UnknownCall (log.take j) e := by
  constructor
  · rintro ⟨c, o, t, h, hn⟩; exact ⟨_, h, c, o, t, rfl, hn⟩
  · rintro ⟨e, h, c, o, t, rfl, hn⟩; exact ⟨c, o, t, h, hn⟩

theorem crossTalkAt_iff {log : List Ev} {j c : Nat} {k : Int} :
    CrossTalkAt log j c k ↔ ∃ e, log[j]? = some e ∧ ForeignReply (log.take j) e c k := by
  constructor
  · rintro ⟨t, h, hn⟩; exact ⟨_, h, t, rfl, hn⟩
  · rintro ⟨e, h, t, rfl, hn⟩; exact ⟨t, h, hn⟩

theorem completedTwiceAt_iff {log : List Ev} {j c : Nat} :
    CompletedTwiceAt log j c ↔ ∃ e, log[j]? = some e ∧ CompletedTwice (log.take j) e c := by
  simp only [CompletedTwiceAt, completedBefore_iff]
  constructor
  · rintro ⟨o, t, h, hc⟩; exact ⟨_, h, o, t, rfl, hc⟩
  · rintro ⟨e, h, o, t, rfl, hc⟩; exact ⟨o, t, h, hc⟩

theorem timeoutEarlyAt_iff {log : List Ev} {j c : Nat} :
    TimeoutEarlyAt log j c ↔ ∃ e, log[j]? = some e ∧ TimeoutEarly (log.take j) e c := by
  simp only [TimeoutEarlyAt, completedBefore_iff, issuedBefore_iff]
  constructor
  · rintro ⟨t, T, ti, h, ⟨pre, hi⟩, hc, hlt⟩; exact ⟨_, h, t, T, ti, pre, rfl, hi, hc, hlt⟩
  · rintro ⟨e, h, t, T, ti, pre, rfl, hi, hc, hlt⟩; exact ⟨t, T, ti, h, ⟨pre, hi⟩, hc, hlt⟩

theorem deadlineMissedAt_iff {log : List Ev} {j c : Nat} :
    DeadlineMissedAt log j c ↔ ∃ e, log[j]? = some e ∧ DeadlineMissed (log.take j) e c := by
  simp only [DeadlineMissedAt, completedBefore_iff, issuedBefore_iff]
  constructor
  · rintro ⟨o, t, T, ti, h, ⟨pre, hi⟩, hc, h1, h2⟩; exact ⟨_, h, o, t, T, ti, pre, rfl, hi, hc, h1, h2⟩
  · rintro ⟨e, h, o, t, T, ti, pre, rfl, hi, hc, h1, h2⟩; exact ⟨o, t, T, ti, h, ⟨pre, hi⟩, hc, h1, h2⟩

theorem overdueAt_iff {log : List Ev} {j c : Nat} :
    OverdueAt log j c ↔ ∃ e, log[j]? = some e ∧ OverdueAtTick (log.take j) e c := by
  simp only [OverdueAt, completedBefore_iff, issuedBefore_iff]
  constructor
  · rintro ⟨now, T, ti, h, ⟨pre, hi⟩, hc, h1, h2⟩; exact ⟨_, h, now, T, ti, pre, rfl, hi, hc, h1, h2⟩
  · rintro ⟨e, h, now, T, ti, pre, rfl, hi, hc, h1, h2⟩; exact ⟨now, T, ti, h, ⟨pre, hi⟩, hc, h1, h2⟩

theorem argsMangledAt_iff {log : List Ev} {j : Nat} :
    ArgsMangledAt log j ↔ ∃ e, log[j]? = some e ∧ ArgsMangled e := by
  constructor
  · rintro ⟨c, conn, ok, t, h, hb⟩; exact ⟨_, h, c, conn, ok, t, rfl, hb⟩
  · rintro ⟨e, h, c, conn, ok, t, rfl, hb⟩; exact ⟨c, conn, ok, t, h, hb⟩

theorem writeAfterTimeoutAt_iff {log : List Ev} {j c : Nat} :
    WriteAfterTimeoutAt log j c ↔ ∃ e, log[j]? = some e ∧ WriteAfterTimeout (log.take j) e c := by
  simp only [WriteAfterTimeoutAt, timedOutBefore_iff]
  constructor
  · rintro ⟨conn, tag, t, td, h, hf, hle⟩; exact ⟨_, h, conn, tag, t, td, rfl, hf, hle⟩
  · rintro ⟨e, h, conn, tag, t, td, rfl, hf, hle⟩; exact ⟨conn, tag, t, td, h, hf, hle⟩

theorem connectAfterCloseAt_iff {log : List Ev} {j ep : Nat} :
    ConnectAfterCloseAt log j ep ↔ ∃ e, log[j]? = some e ∧ ConnectAfterClose (log.take j) e ep := by
  simp only [ConnectAfterCloseAt, ConnectAfterClose, mem_take_iff]
  constructor
  · rintro ⟨i, t, t', hlt, hi, hj⟩; exact ⟨_, hj, t', t, rfl, i, hlt, hi⟩
  · rintro ⟨e, hj, t', t, rfl, i, hlt, hi⟩; exact ⟨i, t, t', hlt, hi, hj⟩

theorem noReconnectAt_iff {log : List Ev} {j ep : Nat} :
    NoReconnectAt log j ep ↔ ∃ e, log[j]? = some e ∧ RetryOverdue (log.take j) ep (evTime e) := by
  simp only [NoReconnectAt, RetryOverdue, owedIn_take, upIn_take, mem_take_iff, downBefore_iff]
  constructor
  · rintro ⟨e, hj, hcc, ic, tc, ir, tr, mw, h1, h2, h3, h4, h5, h6, h7, h8⟩
    refine ⟨e, hj, ?_, tc, tr, mw, ⟨ic, h1, h2, h4, h3⟩, ⟨ir, h5, h6, h7⟩, h8⟩
    rintro t ⟨i, hlt, hi⟩; exact hcc i t hlt hi
  · rintro ⟨e, hj, hcc, tc, tr, mw, ⟨ic, h1, h2, h4, h3⟩, ⟨ir, h5, h6, h7⟩, h8⟩
    refine ⟨e, hj, ?_, ic, tc, ir, tr, mw, h1, h2, h3, h4, h5, h6, h7, h8⟩
    intro i t hlt hi; exact hcc t ⟨i, hlt, hi⟩

theorem discardMissingIn_iff {log : List Ev} {c : Nat} : DiscardMissingIn log c ↔ DiscardMissing log c := by
  have hreq : ∀ conn tag tw, (∃ i, log[i]? = some (.wrote (c : Int) conn false tag tw) ∧ c < issuedCount log i) ↔
      ReqIn log c conn tag tw := by
    intro conn tag tw
    constructor
    · rintro ⟨i, hi, hn⟩; exact ⟨log.take i, (occ_of_getElem? hi).1, hn⟩
    · rintro ⟨p1, ho, hn⟩
      have := occ_iff_getElem?.mp ho
      exact ⟨p1.length, this.1, by rw [issuedCount, this.2]; exact hn⟩
  have hdisc : ∀ conn tag, (∃ i t, log[i]? = some (.wrote (c : Int) conn true tag t) ∧ c < issuedCount log i) ↔
      DiscIn log c conn tag := by
    intro conn tag
    constructor
    · rintro ⟨i, t, hi, hn⟩; exact ⟨log.take i, t, (occ_of_getElem? hi).1, hn⟩
    · rintro ⟨p1, t, ho, hn⟩
      have := occ_iff_getElem?.mp ho
      exact ⟨p1.length, t, this.1, by rw [issuedCount, this.2]; exact hn⟩
  have hclosed : ∀ conn td, (∀ (i tc : Nat), log[i]? = some (Ev.connclosed conn tc) → td < tc) ↔
      (∀ tc, Ev.connclosed conn tc ∈ log → td < tc) := by
    intro conn td
    constructor
    · intro h tc hm
      obtain ⟨i, hi⟩ := List.mem_iff_getElem?.mp hm
      exact h i tc hi
    · intro h i tc hi; exact h tc (List.mem_of_getElem? hi)
  simp only [DiscardMissingIn, DiscardMissing, hreq, hdisc, hclosed, timedOutBefore_iff, List.take_length]

theorem violated1_iff {log : List Ev} {cl : String} {j : Nat} {rest : List V} :
    Violated1 log cl j rest ↔ ViolatedAt Viol1 log cl j rest := by
  simp only [Violated1, ViolatedAt, Viol1, unknownCallAt_iff, crossTalkAt_iff, completedTwiceAt_iff,
    timeoutEarlyAt_iff, deadlineMissedAt_iff, overdueAt_iff]
  constructor
  · rintro (⟨h1, h2, e, he, h⟩ | ⟨h1, c, k, h2, e, he, h⟩ | ⟨h1, c, h2, e, he, h⟩ | ⟨h1, c, h2, e, he, h⟩ |
      ⟨h1, c, tag, h2, (⟨e, he, h⟩ | ⟨e, he, h⟩)⟩)
    · exact ⟨e, he, Or.inl ⟨h1, h2, h⟩⟩
    · exact ⟨e, he, Or.inr (Or.inl ⟨h1, c, k, h2, h⟩)⟩
    · exact ⟨e, he, Or.inr (Or.inr (Or.inl ⟨h1, c, h2, h⟩))⟩
    · exact ⟨e, he, Or.inr (Or.inr (Or.inr (Or.inl ⟨h1, c, h2, h⟩)))⟩
    · exact ⟨e, he, Or.inr (Or.inr (Or.inr (Or.inr ⟨h1, c, tag, h2, Or.inl h⟩)))⟩
    · exact ⟨e, he, Or.inr (Or.inr (Or.inr (Or.inr ⟨h1, c, tag, h2, Or.inr h⟩)))⟩
  · rintro ⟨e, he, (⟨h1, h2, h⟩ | ⟨h1, c, k, h2, h⟩ | ⟨h1, c, h2, h⟩ | ⟨h1, c, h2, h⟩ | ⟨h1, c, tag, h2, (h | h)⟩)⟩
    · exact Or.inl ⟨h1, h2, e, he, h⟩
    · exact Or.inr (Or.inl ⟨h1, c, k, h2, e, he, h⟩)
    · exact Or.inr (Or.inr (Or.inl ⟨h1, c, h2, e, he, h⟩))
    · exact Or.inr (Or.inr (Or.inr (Or.inl ⟨h1, c, h2, e, he, h⟩)))
    · exact Or.inr (Or.inr (Or.inr (Or.inr ⟨h1, c, tag, h2, Or.inl ⟨e, he, h⟩⟩)))
    · exact Or.inr (Or.inr (Or.inr (Or.inr ⟨h1, c, tag, h2, Or.inr ⟨e, he, h⟩⟩)))

theorem violated2_iff {log : List Ev} {cl : String} {j : Nat} {rest : List V} :
    Violated2 log cl j rest ↔ ViolatedAt Viol2 log cl j rest := by
  simp only [Violated2, ViolatedAt, Viol2, unknownCallAt_iff, crossTalkAt_iff, argsMangledAt_iff]
  constructor
  · rintro (⟨h1, h2, e, he, h⟩ | ⟨h1, c, k, h2, e, he, h⟩ | ⟨h1, h2, e, he, h⟩)
    · exact ⟨e, he, Or.inl ⟨h1, h2, h⟩⟩
    · exact ⟨e, he, Or.inr (Or.inl ⟨h1, c, k, h2, h⟩)⟩
    · exact ⟨e, he, Or.inr (Or.inr ⟨h1, h2, h⟩)⟩
  · rintro ⟨e, he, (⟨h1, h2, h⟩ | ⟨h1, c, k, h2, h⟩ | ⟨h1, h2, h⟩)⟩
    · exact Or.inl ⟨h1, h2, e, he, h⟩
    · exact Or.inr (Or.inl ⟨h1, c, k, h2, e, he, h⟩)
    · exact Or.inr (Or.inr ⟨h1, h2, e, he, h⟩)

theorem violated9_iff {log : List Ev} {cl : String} {j : Nat} {rest : List V} :
    Violated9 log cl j rest ↔ ViolatedAt Viol9 log cl j rest := by
  simp only [Violated9, ViolatedAt, Viol9, unknownCallAt_iff, connectAfterCloseAt_iff, noReconnectAt_iff]
  constructor
  · rintro (⟨h1, h2, e, he, h⟩ | ⟨h1, ep, h2, e, he, h⟩ | ⟨h1, ep, h2, e, he, h⟩)
    · exact ⟨e, he, Or.inl ⟨h1, h2, h⟩⟩
    · exact ⟨e, he, Or.inr (Or.inl ⟨h1, ep, h2, h⟩)⟩
    · exact ⟨e, he, Or.inr (Or.inr ⟨h1, ep, h2, h⟩)⟩
  · rintro ⟨e, he, (⟨h1, h2, h⟩ | ⟨h1, ep, h2, h⟩ | ⟨h1, ep, h2, h⟩)⟩
    · exact Or.inl ⟨h1, h2, e, he, h⟩
    · exact Or.inr (Or.inl ⟨h1, ep, h2, e, he, h⟩)
    · exact Or.inr (Or.inr ⟨h1, ep, h2, e, he, h⟩)

theorem violated12_iff {mux : Bool} {log : List Ev} {cl : String} {j : Nat} {rest : List V} :
    Violated12 mux log cl j rest ↔
      ViolatedAt Viol12 log cl j rest ∨ (j = log.length ∧ ViolEnd12 mux cl rest log) := by
  simp only [Violated12, ViolatedAt, Viol12, ViolEnd12, unknownCallAt_iff, writeAfterTimeoutAt_iff,
    discardMissingIn_iff]
  constructor
  · rintro (⟨h1, h2, e, he, h⟩ | ⟨h1, c, h2, e, he, h⟩ | ⟨h1, hj, hm, c, h2, h⟩)
    · exact Or.inl ⟨e, he, Or.inl ⟨h1, h2, h⟩⟩
    · exact Or.inl ⟨e, he, Or.inr ⟨h1, c, h2, h⟩⟩
    · exact Or.inr ⟨hj, h1, hm, c, h2, h⟩
  · rintro (⟨e, he, (⟨h1, h2, h⟩ | ⟨h1, c, h2, h⟩)⟩ | ⟨hj, h1, hm, c, h2, h⟩)
    · exact Or.inl ⟨h1, h2, e, he, h⟩
    · exact Or.inr (Or.inl ⟨h1, c, h2, e, he, h⟩)
    · exact Or.inr (Or.inr ⟨h1, hj, hm, c, h2, h⟩)

/-- with the harness's numbering, "call `c` was issued before `j`" is just "an `issue c …` event before `j`" -/
theorem issuedBefore_of_numbered {log : List Ev} (hn : Numbered log) {j c T ti : Nat} :
    IssuedBefore log j c T ti ↔ ∃ i pre, i < j ∧ log[i]? = some (.issue c T ti pre) := by
  constructor
  · rintro ⟨i, c', pre, hlt, hi, hc⟩
    have := hn i c' T ti pre hi
    rw [hc] at this; subst this
    exact ⟨i, pre, hlt, hi⟩
  · rintro ⟨i, pre, hlt, hi⟩
    exact ⟨i, c, pre, hlt, hi, hn i c T ti pre hi⟩

/-! ### the monitors read as the clauses -/

theorem monitor1 (mux : Bool) (log : List Ev) :
    (monGo 1 mux {} 0 log = .ok ↔ ∀ cl j rest, ¬ Violated1 log cl j rest) ∧
    (∀ cl ps, monGo 1 mux {} 0 log = .fail cl ps → ∃ j rest, ps = V.ofNat j :: rest ∧ Violated1 log cl j rest ∧
      ∀ i, i < j → ∀ cl' rest', ¬ Violated1 log cl' i rest') := by
  have h := monGo_reading 1 mux Viol1 (fun _ _ _ => False)
    (fun p idx e cl ps hv => by
      rcases hv with hv | hv
      · rw [preV_ne9 (by decide)] at hv; cases hv
      · exact verdict1_fail hv)
    (fun p idx e cl rest hv hok => verdict1_complete hv hok.2)
    (fun log idx cl ps hv => by rw [finalV_ne12 (by decide)] at hv; cases hv)
    (fun log idx cl rest hv => hv.elim) log
  simp only [← violated1_iff] at h
  refine ⟨by simpa using h.1, ?_⟩
  intro cl ps hf
  rcases h.2 cl ps hf with h' | ⟨_, _, h', _⟩
  · exact h'
  · exact h'.elim

theorem monitor2 (mux : Bool) (log : List Ev) :
    (monGo 2 mux {} 0 log = .ok ↔ ∀ cl j rest, ¬ Violated2 log cl j rest) ∧
    (∀ cl ps, monGo 2 mux {} 0 log = .fail cl ps → ∃ j rest, ps = V.ofNat j :: rest ∧ Violated2 log cl j rest ∧
      ∀ i, i < j → ∀ cl' rest', ¬ Violated2 log cl' i rest') := by
  have h := monGo_reading 2 mux Viol2 (fun _ _ _ => False)
    (fun p idx e cl ps hv => by
      rcases hv with hv | hv
      · rw [preV_ne9 (by decide)] at hv; cases hv
      · exact verdict2_fail hv)
    (fun p idx e cl rest hv hok => verdict2_complete hv hok.2)
    (fun log idx cl ps hv => by rw [finalV_ne12 (by decide)] at hv; cases hv)
    (fun log idx cl rest hv => hv.elim) log
  simp only [← violated2_iff] at h
  refine ⟨by simpa using h.1, ?_⟩
  intro cl ps hf
  rcases h.2 cl ps hf with h' | ⟨_, _, h', _⟩
  · exact h'
  · exact h'.elim

theorem monitor9 (mux : Bool) (log : List Ev) :
    (monGo 9 mux {} 0 log = .ok ↔ ∀ cl j rest, ¬ Violated9 log cl j rest) ∧
    (∀ cl ps, monGo 9 mux {} 0 log = .fail cl ps → ∃ j rest, ps = V.ofNat j :: rest ∧ Violated9 log cl j rest ∧
      ∀ i, i < j → ∀ cl' rest', ¬ Violated9 log cl' i rest') := by
  have h := monGo_reading 9 mux Viol9 (fun _ _ _ => False)
    (fun p idx e cl ps hv => check9_fail hv)
    (fun p idx e cl rest hv => check9_complete hv)
    (fun log idx cl ps hv => by rw [finalV_ne12 (by decide)] at hv; cases hv)
    (fun log idx cl rest hv => hv.elim) log
  simp only [← violated9_iff] at h
  refine ⟨by simpa using h.1, ?_⟩
  intro cl ps hf
  rcases h.2 cl ps hf with h' | ⟨_, _, h', _⟩
  · exact h'
  · exact h'.elim

theorem monitor12 (mux : Bool) (log : List Ev) :
    (monGo 12 mux {} 0 log = .ok ↔ ∀ cl j rest, ¬ Violated12 mux log cl j rest) ∧
    (∀ cl ps, monGo 12 mux {} 0 log = .fail cl ps →
      ∃ j rest, ps = V.ofNat j :: rest ∧ Violated12 mux log cl j rest ∧
        ∀ i, i < j → ∀ cl' rest', ¬ Violated12 mux log cl' i rest') := by
  have h := monGo_reading 12 mux Viol12 (ViolEnd12 mux)
    (fun p idx e cl ps hv => by
      rcases hv with hv | hv
      · rw [preV_ne9 (by decide)] at hv; cases hv
      · exact verdict12_fail hv)
    (fun p idx e cl rest hv hok => verdict12_complete hv hok.2)
    (fun log idx cl ps hv => final12_fail hv)
    (fun log idx cl rest hv => final12_complete hv) log
  constructor
  · rw [h.1]
    simp only [violated12_iff]
    constructor
    · rintro ⟨h1, h2⟩ cl j rest (hv | ⟨_, hv⟩)
      · exact h1 cl j rest hv
      · exact h2 cl rest hv
    · intro hh
      exact ⟨fun cl j rest hv => hh cl j rest (Or.inl hv), fun cl rest hv => hh cl log.length rest (Or.inr ⟨rfl, hv⟩)⟩
  · intro cl ps hf
    rcases h.2 cl ps hf with ⟨j, rest, hps, hv, hfirst⟩ | ⟨rest, hps, hv, hfirst⟩
    · refine ⟨j, rest, hps, violated12_iff.mpr (Or.inl hv), ?_⟩
      intro i hlt cl' rest' hv'
      obtain ⟨e, hj, _⟩ := hv
      have hjl : j < log.length := (List.getElem?_eq_some_iff.mp hj).1
      rcases violated12_iff.mp hv' with hv' | ⟨hi, _⟩
      · exact hfirst i hlt cl' rest' hv'
      · omega
    · refine ⟨log.length, rest, hps, violated12_iff.mpr (Or.inr ⟨rfl, hv⟩), ?_⟩
      intro i hlt cl' rest' hv'
      rcases violated12_iff.mp hv' with hv' | ⟨hi, _⟩
      · exact hfirst i cl' rest' hv'
      · omega

end Scales.E2E

/-! ## C01 — monitor `e2e1` -/
namespace Scales.FrontEnd
open Scales.E2E

/-- verdict `ok` ⇔ no C01 clause (unknown-call, foreign-reply, completed-twice, timeout-early, deadline-bound on
    completions and at ticks) is violated at any position of the log -/
theorem C01_monitor_ok_iff (mux : Bool) (log : List Ev) :
    monGo 1 mux {} 0 log = .ok ↔ ∀ cl j rest, ¬ Violated1 log cl j rest := (monitor1 mux log).1

/-- a `fail` verdict names a clause that IS violated, at the reported position, by the reported call -/
theorem C01_monitor_fail_sound (mux : Bool) (log : List Ev) (cl : String) (ps : List V)
    (h : monGo 1 mux {} 0 log = .fail cl ps) : ∃ j rest, ps = V.ofNat j :: rest ∧ Violated1 log cl j rest := by
  obtain ⟨j, rest, h1, h2, _⟩ := (monitor1 mux log).2 cl ps h
  exact ⟨j, rest, h1, h2⟩

/-- … and the reported position is the FIRST position of the log at which any clause is violated: an earlier
    violation is never masked by a later one -/
theorem C01_monitor_fail_first (mux : Bool) (log : List Ev) (cl : String) (ps : List V)
    (h : monGo 1 mux {} 0 log = .fail cl ps) :
    ∃ j rest, ps = V.ofNat j :: rest ∧ ∀ i, i < j → ∀ cl' rest', ¬ Violated1 log cl' i rest' := by
  obtain ⟨j, rest, h1, _, h3⟩ := (monitor1 mux log).2 cl ps h
  exact ⟨j, rest, h1, h3⟩

theorem C01_monitor_unknown_call_detected (mux : Bool) (log : List Ev) (j : Nat) (h : UnknownCallAt log j) :
    monGo 1 mux {} 0 log ≠ .ok :=
  fun hok => (C01_monitor_ok_iff mux log).mp hok "unknown-call" j [] (Or.inl ⟨rfl, rfl, h⟩)

theorem C01_monitor_foreign_reply_detected (mux : Bool) (log : List Ev) (j c : Nat) (k : Int)
    (h : CrossTalkAt log j c k) : monGo 1 mux {} 0 log ≠ .ok :=
  fun hok => (C01_monitor_ok_iff mux log).mp hok "foreign-reply" j [V.ofNat c] (Or.inr (Or.inl ⟨rfl, c, k, rfl, h⟩))

theorem C01_monitor_completed_twice_detected (mux : Bool) (log : List Ev) (j c : Nat)
    (h : CompletedTwiceAt log j c) : monGo 1 mux {} 0 log ≠ .ok :=
  fun hok => (C01_monitor_ok_iff mux log).mp hok "completed-twice" j [V.ofNat c]
    (Or.inr (Or.inr (Or.inl ⟨rfl, c, rfl, h⟩)))

theorem C01_monitor_timeout_early_detected (mux : Bool) (log : List Ev) (j c : Nat)
    (h : TimeoutEarlyAt log j c) : monGo 1 mux {} 0 log ≠ .ok :=
  fun hok => (C01_monitor_ok_iff mux log).mp hok "timeout-early" j [V.ofNat c]
    (Or.inr (Or.inr (Or.inr (Or.inl ⟨rfl, c, rfl, h⟩))))

theorem C01_monitor_deadline_bound_detected (mux : Bool) (log : List Ev) (j c : Nat)
    (h : DeadlineMissedAt log j c ∨ OverdueAt log j c) : monGo 1 mux {} 0 log ≠ .ok :=
  fun hok => (C01_monitor_ok_iff mux log).mp hok "deadline-bound" j [V.ofNat c, .a ""]
    (Or.inr (Or.inr (Or.inr (Or.inr ⟨rfl, c, _, rfl, h⟩))))

theorem C01_monitor_foreign_reply_sound (mux : Bool) (log : List Ev) (ps : List V)
    (h : monGo 1 mux {} 0 log = .fail "foreign-reply" ps) :
    ∃ j c k, ps = [V.ofNat j, V.ofNat c] ∧ CrossTalkAt log j c k := by
  obtain ⟨j, rest, hps, hv⟩ := C01_monitor_fail_sound mux log _ ps h
  rcases hv with ⟨h1, _⟩ | ⟨_, c, k, hr, hv⟩ | ⟨h1, _⟩ | ⟨h1, _⟩ | ⟨h1, _⟩
  · exact absurd h1 (by decide)
  · exact ⟨j, c, k, by rw [hps, hr], hv⟩
  · exact absurd h1 (by decide)
  · exact absurd h1 (by decide)
  · exact absurd h1 (by decide)

theorem C01_monitor_completed_twice_sound (mux : Bool) (log : List Ev) (ps : List V)
    (h : monGo 1 mux {} 0 log = .fail "completed-twice" ps) :
    ∃ j c, ps = [V.ofNat j, V.ofNat c] ∧ CompletedTwiceAt log j c := by
  obtain ⟨j, rest, hps, hv⟩ := C01_monitor_fail_sound mux log _ ps h
  rcases hv with ⟨h1, _⟩ | ⟨h1, _⟩ | ⟨_, c, hr, hv⟩ | ⟨h1, _⟩ | ⟨h1, _⟩
  · exact absurd h1 (by decide)
  · exact absurd h1 (by decide)
  · exact ⟨j, c, by rw [hps, hr], hv⟩
  · exact absurd h1 (by decide)
  · exact absurd h1 (by decide)

theorem C01_monitor_timeout_early_sound (mux : Bool) (log : List Ev) (ps : List V)
    (h : monGo 1 mux {} 0 log = .fail "timeout-early" ps) :
    ∃ j c, ps = [V.ofNat j, V.ofNat c] ∧ TimeoutEarlyAt log j c := by
  obtain ⟨j, rest, hps, hv⟩ := C01_monitor_fail_sound mux log _ ps h
  rcases hv with ⟨h1, _⟩ | ⟨h1, _⟩ | ⟨h1, _⟩ | ⟨_, c, hr, hv⟩ | ⟨h1, _⟩
  · exact absurd h1 (by decide)
  · exact absurd h1 (by decide)
  · exact absurd h1 (by decide)
  · exact ⟨j, c, by rw [hps, hr], hv⟩
  · exact absurd h1 (by decide)

theorem C01_monitor_deadline_bound_sound (mux : Bool) (log : List Ev) (ps : List V)
    (h : monGo 1 mux {} 0 log = .fail "deadline-bound" ps) :
    ∃ j c tag, ps = [V.ofNat j, V.ofNat c, tag] ∧ (DeadlineMissedAt log j c ∨ OverdueAt log j c) := by
  obtain ⟨j, rest, hps, hv⟩ := C01_monitor_fail_sound mux log _ ps h
  rcases hv with ⟨h1, _⟩ | ⟨h1, _⟩ | ⟨h1, _⟩ | ⟨h1, _⟩ | ⟨_, c, tag, hr, hv⟩
  · exact absurd h1 (by decide)
  · exact absurd h1 (by decide)
  · exact absurd h1 (by decide)
  · exact absurd h1 (by decide)
  · exact ⟨j, c, tag, by rw [hps, hr], hv⟩

theorem C01_monitor_unknown_call_sound (mux : Bool) (log : List Ev) (ps : List V)
    (h : monGo 1 mux {} 0 log = .fail "unknown-call" ps) : ∃ j, ps = [V.ofNat j] ∧ UnknownCallAt log j := by
  obtain ⟨j, rest, hps, hv⟩ := C01_monitor_fail_sound mux log _ ps h
  rcases hv with ⟨_, hr, hv⟩ | ⟨h1, _⟩ | ⟨h1, _⟩ | ⟨h1, _⟩ | ⟨h1, _⟩
  · exact ⟨j, by rw [hps, hr], hv⟩
  · exact absurd h1 (by decide)
  · exact absurd h1 (by decide)
  · exact absurd h1 (by decide)
  · exact absurd h1 (by decide)

/-! examples: a log the monitor accepts (two calls, one answered, one timed out exactly at its rounded deadline,
    a late tick), and logs exhibiting each violation -/

def exGood1 : List Ev :=
  [.issue 0 25000 1000 true, .opened 1500, .issue 1 30000 2000 false, .done 0 .own 9000, .tick 20000,
   .done 1 .timeout 40000, .tick 90000]

example : monGo 1 false {} 0 exGood1 = .ok := by decide
example : Numbered exGood1 := by
  intro i c T t pre h
  rcases i with _ | _ | _ | _ | _ | _ | _ | i <;> simp [exGood1] at h <;> (obtain ⟨rfl, _⟩ := h; rfl)
example : ∀ j c, ¬ CompletedTwiceAt exGood1 j c :=
  fun j c h => C01_monitor_completed_twice_detected false exGood1 j c h (by decide)

/-- call 0 completes twice -/
def exTwice : List Ev := [.issue 0 25000 1000 false, .done 0 .own 5000, .tick 6000, .done 0 .timeout 26000]
example : monGo 1 false {} 0 exTwice = .fail "completed-twice" [V.ofNat 3, V.ofNat 0] := rfl
example : CompletedTwiceAt exTwice 3 0 := ⟨.timeout, 26000, rfl, 1, .own, 5000, by decide, rfl, by decide⟩

/-- TimeoutError 1 ms early -/
def exEarly : List Ev := [.issue 0 25000 1000 false, .done 0 .timeout 25000]
example : monGo 1 false {} 0 exEarly = .fail "timeout-early" [V.ofNat 1, V.ofNat 0] := rfl
example : TimeoutEarlyAt exEarly 1 0 :=
  ⟨25000, 25000, 1000, rfl, ⟨0, 0, false, by decide, rfl, rfl⟩,
   by rintro ⟨i, o, t, hlt, hi, _⟩; rcases i with _ | i <;> simp [exEarly] at hi hlt, by decide⟩

/-- still pending at a tick after the rounded deadline (1000 + 25000 rounds up to 30000) -/
def exOverdue : List Ev := [.issue 0 25000 1000 false, .tick 30000, .tick 30001]
example : monGo 1 false {} 0 (exOverdue.take 2) = .ok := by decide
example : ∃ tag, monGo 1 false {} 0 exOverdue = .fail "deadline-bound" [V.ofNat 2, V.ofNat 0, tag] := ⟨_, rfl⟩
example : OverdueAt exOverdue 2 0 :=
  ⟨30001, 25000, 1000, rfl, ⟨0, 0, false, by decide, rfl, rfl⟩,
   by rintro ⟨i, o, t, hlt, hi, _⟩; rcases i with _ | _ | i <;> simp [exOverdue] at hi hlt <;> omega, by decide, by decide⟩

/-- completion 1 µs after the rounded deadline (1000 + 25000 rounds up to 30000); at 30000 it is in time -/
def exLate : List Ev := [.issue 0 25000 1000 true, .opened 2000, .done 0 .own 30001]
example : ∃ tag, monGo 1 true {} 0 exLate = .fail "deadline-bound" [V.ofNat 2, V.ofNat 0, tag] := ⟨_, rfl⟩
example : monGo 1 true {} 0 [.issue 0 25000 1000 true, .opened 2000, .done 0 .own 30000] = .ok := by decide
example : DeadlineMissedAt exLate 2 0 :=
  ⟨.own, 30001, 25000, 1000, rfl, ⟨0, 0, true, by decide, rfl, rfl⟩,
   by rintro ⟨i, o, t, hlt, hi, _⟩; rcases i with _ | _ | i <;> simp [exLate] at hi hlt <;> omega, by decide, by decide⟩

/-- a reply made for call 0 completes call 1; a completion for a call never issued -/
def exForeign : List Ev := [.issue 0 0 1000 false, .issue 1 0 1000 false, .done 1 (.other 0) 2000]
example : monGo 1 true {} 0 exForeign = .fail "foreign-reply" [V.ofNat 2, V.ofNat 1] := rfl
example : CrossTalkAt exForeign 2 1 0 := ⟨2000, rfl, by decide⟩
example : monGo 1 true {} 0 [.issue 0 0 1000 false, .done 1 .own 2000] = .fail "unknown-call" [V.ofNat 1] := rfl
example : UnknownCallAt [.issue 0 0 1000 false, .done 1 .own 2000] 1 := ⟨1, .own, 2000, rfl, by decide⟩

end Scales.FrontEnd

/-! ## C02 — monitor `e2e2` -/
namespace Scales.TagPool
open Scales.E2E

/-- verdict `ok` ⇔ no C02 clause (unknown-call, cross-talk, args-mangled) is violated at any position -/
theorem C02_monitor_ok_iff (mux : Bool) (log : List Ev) :
    monGo 2 mux {} 0 log = .ok ↔ ∀ cl j rest, ¬ Violated2 log cl j rest := (monitor2 mux log).1

theorem C02_monitor_fail_sound (mux : Bool) (log : List Ev) (cl : String) (ps : List V)
    (h : monGo 2 mux {} 0 log = .fail cl ps) : ∃ j rest, ps = V.ofNat j :: rest ∧ Violated2 log cl j rest := by
  obtain ⟨j, rest, h1, h2, _⟩ := (monitor2 mux log).2 cl ps h
  exact ⟨j, rest, h1, h2⟩

/-- … and the reported position is the FIRST position of the log at which any clause is violated: an earlier
    violation is never masked by a later one -/
theorem C02_monitor_fail_first (mux : Bool) (log : List Ev) (cl : String) (ps : List V)
    (h : monGo 2 mux {} 0 log = .fail cl ps) :
    ∃ j rest, ps = V.ofNat j :: rest ∧ ∀ i, i < j → ∀ cl' rest', ¬ Violated2 log cl' i rest' := by
  obtain ⟨j, rest, h1, _, h3⟩ := (monitor2 mux log).2 cl ps h
  exact ⟨j, rest, h1, h3⟩

/-- some `done c (other k) t` event for a call `c` that was issued is never judged `ok` -/
theorem C02_monitor_cross_talk_detected (mux : Bool) (log : List Ev) (j c : Nat) (k : Int)
    (h : CrossTalkAt log j c k) : monGo 2 mux {} 0 log ≠ .ok :=
  fun hok => (C02_monitor_ok_iff mux log).mp hok "cross-talk" j [V.ofNat c, .n k] (Or.inr (Or.inl ⟨rfl, c, k, rfl, h⟩))

/-- exact form: the verdict is `fail cross-talk (j c k)` IFF `log[j] = done c (other k) _` for an issued call `c`
    and no clause is violated before `j` -/
theorem C02_monitor_cross_talk_iff (mux : Bool) (log : List Ev) (j c : Nat) (k : Int) :
    monGo 2 mux {} 0 log = .fail "cross-talk" [V.ofNat j, V.ofNat c, .n k] ↔
      CrossTalkAt log j c k ∧ ∀ i, i < j → ∀ cl rest, ¬ Violated2 log cl i rest := by
  rw [monGo_fail_at_iff 2 mux Viol2
    (fun p idx e cl ps hv => by
      rcases hv with hv | hv
      · rw [preV_ne9 (by decide)] at hv; cases hv
      · exact verdict2_fail hv)
    (fun p idx e cl rest hv hok => verdict2_complete hv hok.2)
    (fun log idx cl ps hv => by rw [finalV_ne12 (by decide)] at hv; cases hv)]
  simp only [← violated2_iff]
  constructor
  · rintro ⟨hfirst, (⟨e, hget, (hc | ⟨hp, hc⟩)⟩ | ⟨_, hf⟩)⟩
    · rw [preV_ne9 (by decide)] at hc; cases hc
    · obtain ⟨rest, hps, hv⟩ := verdict2_fail hc
      simp only [List.cons.injEq, true_and] at hps
      subst hps
      rcases hv with ⟨h1, _⟩ | ⟨_, c', k', hr, hv⟩ | ⟨h1, _⟩
      · exact absurd h1 (by decide)
      · simp only [List.cons.injEq, V.n.injEq, and_true] at hr
        have := V.ofNat_inj hr.1; subst this
        obtain ⟨_, rfl⟩ := hr
        exact ⟨crossTalkAt_iff.mpr ⟨e, hget, hv⟩, hfirst⟩
      · exact absurd h1 (by decide)
    · rw [finalV_ne12 (by decide)] at hf; cases hf
  · rintro ⟨hx, hfirst⟩
    obtain ⟨e, hget, t, rfl, hlt⟩ := crossTalkAt_iff.mp hx
    exact ⟨hfirst, Or.inl ⟨_, hget, Or.inr ⟨preV_ne9 (by decide) _ _ _, verdict2_cross_talk hlt⟩⟩⟩

theorem C02_monitor_args_mangled_detected (mux : Bool) (log : List Ev) (j : Nat)
    (h : ArgsMangledAt log j) : monGo 2 mux {} 0 log ≠ .ok :=
  fun hok => (C02_monitor_ok_iff mux log).mp hok "args-mangled" j [] (Or.inr (Or.inr ⟨rfl, rfl, h⟩))

theorem C02_monitor_unknown_call_detected (mux : Bool) (log : List Ev) (j : Nat) (h : UnknownCallAt log j) :
    monGo 2 mux {} 0 log ≠ .ok :=
  fun hok => (C02_monitor_ok_iff mux log).mp hok "unknown-call" j [] (Or.inl ⟨rfl, rfl, h⟩)

theorem C02_monitor_cross_talk_sound (mux : Bool) (log : List Ev) (ps : List V)
    (h : monGo 2 mux {} 0 log = .fail "cross-talk" ps) :
    ∃ j c k, ps = [V.ofNat j, V.ofNat c, .n k] ∧ CrossTalkAt log j c k := by
  obtain ⟨j, rest, hps, hv⟩ := C02_monitor_fail_sound mux log _ ps h
  rcases hv with ⟨h1, _⟩ | ⟨_, c, k, hr, hv⟩ | ⟨h1, _⟩
  · exact absurd h1 (by decide)
  · exact ⟨j, c, k, by rw [hps, hr], hv⟩
  · exact absurd h1 (by decide)

theorem C02_monitor_args_mangled_sound (mux : Bool) (log : List Ev) (ps : List V)
    (h : monGo 2 mux {} 0 log = .fail "args-mangled" ps) : ∃ j, ps = [V.ofNat j] ∧ ArgsMangledAt log j := by
  obtain ⟨j, rest, hps, hv⟩ := C02_monitor_fail_sound mux log _ ps h
  rcases hv with ⟨h1, _⟩ | ⟨h1, _⟩ | ⟨_, hr, hv⟩
  · exact absurd h1 (by decide)
  · exact absurd h1 (by decide)
  · exact ⟨j, by rw [hps, hr], hv⟩

def exGood2 : List Ev :=
  [.issue 0 50000 1000 false, .wrote 0 0 false 1 1000, .issue 1 50000 1100 false, .wrote 1 0 false 2 1100,
   .srvgot 1 0 true 1200, .srvgot 0 0 true 1200, .done 1 .own 1300, .done 0 .timeout 51000]
example : monGo 2 true {} 0 exGood2 = .ok := by decide
example : ∀ j c k, ¬ CrossTalkAt exGood2 j c k :=
  fun j c k h => C02_monitor_cross_talk_detected true exGood2 j c k h (by decide)

/-- call 1 receives the reply produced for call 0 -/
def exCross : List Ev :=
  [.issue 0 50000 1000 false, .issue 1 50000 1100 false, .done 0 .timeout 51000, .done 1 (.other 0) 52000]
example : monGo 2 false {} 0 exCross = .fail "cross-talk" [V.ofNat 3, V.ofNat 1, .n 0] := rfl
example : CrossTalkAt exCross 3 1 0 := ⟨52000, rfl, by decide⟩
example : ∀ i, i < 3 → ∀ cl rest, ¬ Violated2 exCross cl i rest :=
  ((C02_monitor_cross_talk_iff false exCross 3 1 0).mp rfl).2

def exMangled : List Ev := [.issue 0 50000 1000 false, .srvgot 0 0 false 1200]
example : monGo 2 false {} 0 exMangled = .fail "args-mangled" [V.ofNat 1] := rfl
example : ArgsMangledAt exMangled 1 := ⟨0, 0, false, 1200, rfl, Or.inl rfl⟩

end Scales.TagPool

/-! ## C09 — monitor `e2e9` -/
namespace Scales.Res
open Scales.E2E

/-- verdict `ok` ⇔ no C09 clause of the assembled-stack monitor (connect-after-close,
    no-reconnect-within-max-interval; unknown-call) is violated at any position -/
theorem C09_monitor_ok_iff (mux : Bool) (log : List Ev) :
    monGo 9 mux {} 0 log = .ok ↔ ∀ cl j rest, ¬ Violated9 log cl j rest := (monitor9 mux log).1

theorem C09_monitor_fail_sound (mux : Bool) (log : List Ev) (cl : String) (ps : List V)
    (h : monGo 9 mux {} 0 log = .fail cl ps) : ∃ j rest, ps = V.ofNat j :: rest ∧ Violated9 log cl j rest := by
  obtain ⟨j, rest, h1, h2, _⟩ := (monitor9 mux log).2 cl ps h
  exact ⟨j, rest, h1, h2⟩

/-- … and the reported position is the FIRST position of the log at which any clause is violated: an earlier
    violation is never masked by a later one -/
theorem C09_monitor_fail_first (mux : Bool) (log : List Ev) (cl : String) (ps : List V)
    (h : monGo 9 mux {} 0 log = .fail cl ps) :
    ∃ j rest, ps = V.ofNat j :: rest ∧ ∀ i, i < j → ∀ cl' rest', ¬ Violated9 log cl' i rest' := by
  obtain ⟨j, rest, h1, _, h3⟩ := (monitor9 mux log).2 cl ps h
  exact ⟨j, rest, h1, h3⟩

/-- `∃ i < j, log[i] = clientclosed _ ∧ log[j] = connect ep _` is never judged `ok` -/
theorem C09_monitor_connect_after_close_detected (mux : Bool) (log : List Ev) (j ep : Nat)
    (h : ConnectAfterCloseAt log j ep) : monGo 9 mux {} 0 log ≠ .ok :=
  fun hok => (C09_monitor_ok_iff mux log).mp hok "connect-after-close" j [V.ofNat ep]
    (Or.inr (Or.inl ⟨rfl, ep, rfl, h⟩))

/-- a verdict `fail connect-after-close (j ep)` means: `log[j] = connect ep _` and `DispatcherClose()` had
    returned at an earlier position -/
theorem C09_monitor_connect_after_close_sound (mux : Bool) (log : List Ev) (ps : List V)
    (h : monGo 9 mux {} 0 log = .fail "connect-after-close" ps) :
    ∃ j ep, ps = [V.ofNat j, V.ofNat ep] ∧ ConnectAfterCloseAt log j ep := by
  obtain ⟨j, rest, hps, hv⟩ := C09_monitor_fail_sound mux log _ ps h
  rcases hv with ⟨h1, _⟩ | ⟨_, ep, hr, hv⟩ | ⟨h1, _⟩
  · exact absurd h1 (by decide)
  · exact ⟨j, ep, by rw [hps, hr], hv⟩
  · exact absurd h1 (by decide)

/-- exact form: the verdict is `fail connect-after-close (j ep)` IFF `log[j] = connect ep _` with
    `DispatcherClose()` returned at an earlier position, no clause is violated before `j`, and the retry check made
    before the event at `j` passes -/
theorem C09_monitor_connect_after_close_iff (mux : Bool) (log : List Ev) (j ep : Nat) :
    monGo 9 mux {} 0 log = .fail "connect-after-close" [V.ofNat j, V.ofNat ep] ↔
      ConnectAfterCloseAt log j ep ∧ (∀ i, i < j → ∀ cl rest, ¬ Violated9 log cl i rest) ∧
      ∀ ep', ¬ NoReconnectAt log j ep' := by
  rw [monGo_fail_at_iff 9 mux Viol9 (fun p idx e cl ps hv => check9_fail hv)
    (fun p idx e cl rest hv => check9_complete hv)
    (fun log idx cl ps hv => by rw [finalV_ne12 (by decide)] at hv; cases hv)]
  simp only [← violated9_iff]
  constructor
  · rintro ⟨hfirst, (⟨e, hget, (hc | ⟨hp, hc⟩)⟩ | ⟨_, hf⟩)⟩
    · simp only [preV, ↓reduceIte] at hc
      exact absurd (retryOverdue_fail hc).1 (by decide)
    · obtain ⟨rest, hps, hv⟩ := check9_fail (Or.inr hc)
      simp only [List.cons.injEq, true_and] at hps
      subst hps
      rcases hv with ⟨h1, _⟩ | ⟨_, ep', hr, hv⟩ | ⟨h1, _⟩
      · exact absurd h1 (by decide)
      · simp only [List.cons.injEq, and_true] at hr
        have := V.ofNat_inj hr; subst this
        refine ⟨connectAfterCloseAt_iff.mpr ⟨e, hget, hv⟩, hfirst, ?_⟩
        intro ep' hno
        obtain ⟨e', hget', hr'⟩ := noReconnectAt_iff.mp hno
        rw [hget] at hget'; cases hget'
        simp only [preV, ↓reduceIte] at hp
        exact retryOverdue_complete hr' hp
      · exact absurd h1 (by decide)
    · rw [finalV_ne12 (by decide)] at hf; cases hf
  · rintro ⟨hcac, hfirst, hno⟩
    obtain ⟨e, hget, t, tc, rfl, hm⟩ := connectAfterCloseAt_iff.mp hcac
    refine ⟨hfirst, Or.inl ⟨_, hget, Or.inr ⟨?_, verdict9_connect_after_close hm⟩⟩⟩
    rcases verdict_cases (preV 9 (stAfter {} (log.take j)) j (.connect ep t)) with h | ⟨cl, ps, h⟩
    · exact h
    · simp only [preV, ↓reduceIte] at h
      obtain ⟨_, ep', _, hr⟩ := retryOverdue_fail h
      exact absurd (noReconnectAt_iff.mpr ⟨_, hget, hr⟩) (hno ep')

theorem C09_monitor_no_reconnect_detected (mux : Bool) (log : List Ev) (j ep : Nat)
    (h : NoReconnectAt log j ep) : monGo 9 mux {} 0 log ≠ .ok :=
  fun hok => (C09_monitor_ok_iff mux log).mp hok "no-reconnect-within-max-interval" j [V.ofNat ep]
    (Or.inr (Or.inr ⟨rfl, ep, rfl, h⟩))

theorem C09_monitor_no_reconnect_sound (mux : Bool) (log : List Ev) (ps : List V)
    (h : monGo 9 mux {} 0 log = .fail "no-reconnect-within-max-interval" ps) :
    ∃ j ep, ps = [V.ofNat j, V.ofNat ep] ∧ NoReconnectAt log j ep := by
  obtain ⟨j, rest, hps, hv⟩ := C09_monitor_fail_sound mux log _ ps h
  rcases hv with ⟨h1, _⟩ | ⟨h1, _⟩ | ⟨_, ep, hr, hv⟩
  · exact absurd h1 (by decide)
  · exact absurd h1 (by decide)
  · exact ⟨j, ep, by rw [hps, hr], hv⟩

/-- endpoint 0 refuses a connect, comes back, is retried within the interval; the client is closed and left alone -/
def exGood9 : List Ev :=
  [.reach 0 false 100 5000000, .connect 0 200, .reach 0 true 300 5000000, .tick 4000000, .connect 0 5000000,
   .clientclosed 6000000, .tick 20000000]
example : monGo 9 true {} 0 exGood9 = .ok := by decide
example : ∀ j ep, ¬ ConnectAfterCloseAt exGood9 j ep :=
  fun j ep h => C09_monitor_connect_after_close_detected true exGood9 j ep h (by decide)
example : ∀ j ep, ¬ NoReconnectAt exGood9 j ep :=
  fun j ep h => C09_monitor_no_reconnect_detected true exGood9 j ep h (by decide)

def exAfterClose : List Ev := [.connect 0 1, .clientclosed 5, .tick 6, .connect 0 7]
example : monGo 9 true {} 0 exAfterClose = .fail "connect-after-close" [V.ofNat 3, V.ofNat 0] := rfl
example : ConnectAfterCloseAt exAfterClose 3 0 := ⟨1, 5, 7, by decide, rfl, rfl⟩
example : (∀ i, i < 3 → ∀ cl rest, ¬ Violated9 exAfterClose cl i rest) ∧ ∀ ep', ¬ NoReconnectAt exAfterClose 3 ep' :=
  ((C09_monitor_connect_after_close_iff true exAfterClose 3 0).mp rfl).2

/-- the retry owed since 200 (endpoint back at 300, maximum interval 5 s, slack 1 s) has not come by 7 s -/
def exNoRetry : List Ev :=
  [.reach 0 false 100 5000000, .connect 0 200, .reach 0 true 300 5000000, .tick 6000300, .tick 7000000]
example : monGo 9 true {} 0 (exNoRetry.take 4) = .ok := by decide
example : monGo 9 true {} 0 exNoRetry = .fail "no-reconnect-within-max-interval" [V.ofNat 4, V.ofNat 0] := rfl
example : NoReconnectAt exNoRetry 4 0 := by
  refine ⟨.tick 7000000, rfl, ?_, 1, 200, 2, 300, 5000000, by decide, rfl, ⟨0, 100, 5000000, by decide, rfl, ?_⟩, ?_,
    by decide, rfl, ?_, by decide⟩
  · intro i t hlt hi
    rcases i with _ | _ | _ | _ | i <;> simp [exNoRetry] at hi hlt <;> omega
  · intro k x h1 h2; omega
  · intro k x h1 h2 hk
    rcases k with _ | _ | _ | _ | k <;> simp [exNoRetry] at hk h1 h2 <;> first | omega | (subst hk; rfl)
  · intro k x h1 h2 hk
    rcases k with _ | _ | _ | _ | k <;> simp [exNoRetry] at hk h1 h2 <;> first | omega | (subst hk; rfl)

end Scales.Res

/-! ## C12 — monitor `e2e12` -/
namespace Scales.C12
open Scales.E2E

/-- verdict `ok` ⇔ no C12 clause (write-after-timeout at any position; discard-missing at the end of the log,
    multiplexed stacks only; unknown-call) is violated -/
theorem C12_monitor_ok_iff (mux : Bool) (log : List Ev) :
    monGo 12 mux {} 0 log = .ok ↔ ∀ cl j rest, ¬ Violated12 mux log cl j rest := (monitor12 mux log).1

theorem C12_monitor_fail_sound (mux : Bool) (log : List Ev) (cl : String) (ps : List V)
    (h : monGo 12 mux {} 0 log = .fail cl ps) : ∃ j rest, ps = V.ofNat j :: rest ∧ Violated12 mux log cl j rest := by
  obtain ⟨j, rest, h1, h2, _⟩ := (monitor12 mux log).2 cl ps h
  exact ⟨j, rest, h1, h2⟩

/-- … and the reported position is the FIRST position of the log at which any clause is violated (the end-of-log
    clause counts as position `log.length`) -/
theorem C12_monitor_fail_first (mux : Bool) (log : List Ev) (cl : String) (ps : List V)
    (h : monGo 12 mux {} 0 log = .fail cl ps) :
    ∃ j rest, ps = V.ofNat j :: rest ∧ ∀ i, i < j → ∀ cl' rest', ¬ Violated12 mux log cl' i rest' := by
  obtain ⟨j, rest, h1, _, h3⟩ := (monitor12 mux log).2 cl ps h
  exact ⟨j, rest, h1, h3⟩

/-- a `wrote c … t` request frame with an earlier `done c timeout td`, `td ≤ t`, is never judged `ok` -/
theorem C12_monitor_write_after_timeout_detected (mux : Bool) (log : List Ev) (j c : Nat)
    (h : WriteAfterTimeoutAt log j c) : monGo 12 mux {} 0 log ≠ .ok :=
  fun hok => (C12_monitor_ok_iff mux log).mp hok "write-after-timeout" j [V.ofNat c]
    (Or.inr (Or.inl ⟨rfl, c, rfl, h⟩))

theorem C12_monitor_write_after_timeout_sound (mux : Bool) (log : List Ev) (ps : List V)
    (h : monGo 12 mux {} 0 log = .fail "write-after-timeout" ps) :
    ∃ j c, ps = [V.ofNat j, V.ofNat c] ∧ WriteAfterTimeoutAt log j c := by
  obtain ⟨j, rest, hps, hv⟩ := C12_monitor_fail_sound mux log _ ps h
  rcases hv with ⟨h1, _⟩ | ⟨_, c, hr, hv⟩ | ⟨h1, _⟩
  · exact absurd h1 (by decide)
  · exact ⟨j, c, by rw [hps, hr], hv⟩
  · exact absurd h1 (by decide)

/-- exact form: the verdict is `fail write-after-timeout (j c)` IFF position `j` holds a request frame of call `c`
    written at or after the time of the call's earlier TimeoutError completion, and no clause is violated before `j` -/
theorem C12_monitor_write_after_timeout_iff (mux : Bool) (log : List Ev) (j c : Nat) :
    monGo 12 mux {} 0 log = .fail "write-after-timeout" [V.ofNat j, V.ofNat c] ↔
      WriteAfterTimeoutAt log j c ∧ ∀ i, i < j → ∀ cl rest, ¬ Violated12 mux log cl i rest := by
  rw [monGo_fail_at_iff 12 mux Viol12
    (fun p idx e cl ps hv => by
      rcases hv with hv | hv
      · rw [preV_ne9 (by decide)] at hv; cases hv
      · exact verdict12_fail hv)
    (fun p idx e cl rest hv hok => verdict12_complete hv hok.2)
    (fun log idx cl ps hv => by obtain ⟨rest, h, _⟩ := final12_fail hv; exact ⟨rest, h⟩)]
  have hfirst_iff : ∀ (hj : j ≤ log.length),
      (∀ i, i < j → ∀ cl' rest', ¬ ViolatedAt Viol12 log cl' i rest') ↔
      (∀ i, i < j → ∀ cl rest, ¬ Violated12 mux log cl i rest) := by
    intro hj
    constructor
    · intro h i hlt cl rest hv
      rcases violated12_iff.mp hv with hv | ⟨hi, _⟩
      · exact h i hlt cl rest hv
      · omega
    · intro h i hlt cl rest hv
      exact h i hlt cl rest (violated12_iff.mpr (Or.inl hv))
  constructor
  · rintro ⟨hfirst, (⟨e, hget, (hc | ⟨hp, hc⟩)⟩ | ⟨_, hf⟩)⟩
    · rw [preV_ne9 (by decide)] at hc; cases hc
    · have hjl : j ≤ log.length := Nat.le_of_lt (List.getElem?_eq_some_iff.mp hget).1
      obtain ⟨rest, hps, hv⟩ := verdict12_fail hc
      simp only [List.cons.injEq, true_and] at hps
      subst hps
      rcases hv with ⟨h1, _⟩ | ⟨_, c', hr, hv⟩
      · exact absurd h1 (by decide)
      · simp only [List.cons.injEq, and_true] at hr
        have := V.ofNat_inj hr; subst this
        exact ⟨writeAfterTimeoutAt_iff.mpr ⟨e, hget, hv⟩, (hfirst_iff hjl).mp hfirst⟩
    · exact absurd (final12_fail hf).choose_spec.2.1 (by decide)
  · rintro ⟨hw, hfirst⟩
    obtain ⟨e, hget, conn, tag, t, td, rfl, hf, hle⟩ := writeAfterTimeoutAt_iff.mp hw
    have hjl : j ≤ log.length := Nat.le_of_lt (List.getElem?_eq_some_iff.mp hget).1
    exact ⟨(hfirst_iff hjl).mpr hfirst,
      Or.inl ⟨_, hget, Or.inr ⟨preV_ne9 (by decide) _ _ _, verdict12_write_after_timeout hf hle⟩⟩⟩

/-- on a multiplexed stack a timed-out call whose request is on a still-open connection and has no discard
    frame is never judged `ok` -/
theorem C12_monitor_discard_missing_detected (log : List Ev) (c : Nat)
    (h : DiscardMissingIn log c) : monGo 12 true {} 0 log ≠ .ok :=
  fun hok => (C12_monitor_ok_iff true log).mp hok "discard-missing" log.length [V.ofNat c]
    (Or.inr (Or.inr ⟨rfl, rfl, rfl, c, rfl, h⟩))

theorem C12_monitor_discard_missing_sound (mux : Bool) (log : List Ev) (ps : List V)
    (h : monGo 12 mux {} 0 log = .fail "discard-missing" ps) :
    mux = true ∧ ∃ c, ps = [V.ofNat log.length, V.ofNat c] ∧ DiscardMissingIn log c := by
  obtain ⟨j, rest, hps, hv⟩ := C12_monitor_fail_sound mux log _ ps h
  rcases hv with ⟨h1, _⟩ | ⟨h1, _⟩ | ⟨_, hj, hm, c, hr, hv⟩
  · exact absurd h1 (by decide)
  · exact absurd h1 (by decide)
  · exact ⟨hm, c, by rw [hps, hr, hj], hv⟩

/-- the serial (Thrift) stacks have no discard clause: there the verdict is `ok` ⇔ no write-after-timeout and no
    unknown call -/
theorem C12_monitor_serial_ok_iff (log : List Ev) :
    monGo 12 false {} 0 log = .ok ↔
      (∀ j, ¬ UnknownCallAt log j) ∧ ∀ j c, ¬ WriteAfterTimeoutAt log j c := by
  rw [C12_monitor_ok_iff]
  constructor
  · intro h
    exact ⟨fun j hv => h "unknown-call" j [] (Or.inl ⟨rfl, rfl, hv⟩),
      fun j c hv => h "write-after-timeout" j [V.ofNat c] (Or.inr (Or.inl ⟨rfl, c, rfl, hv⟩))⟩
  · rintro ⟨h1, h2⟩ cl j rest (⟨_, _, hv⟩ | ⟨_, c, _, hv⟩ | ⟨_, _, hm, _⟩)
    · exact h1 j hv
    · exact h2 j c hv
    · cases hm

/-- call 0 times out after its frame was written: a discard follows; call 1 times out before anything is written -/
def exGood12 : List Ev :=
  [.issue 0 20000 1000 false, .wrote 0 7 false 3 1000, .issue 1 20000 1500 false, .done 0 .timeout 21000,
   .wrote 0 7 true 3 21000, .done 1 .timeout 21500, .tick 30000]
example : monGo 12 true {} 0 exGood12 = .ok := by decide
example : ∀ c, ¬ DiscardMissingIn exGood12 c :=
  fun c h => C12_monitor_discard_missing_detected exGood12 c h (by decide)

def exLateWrite : List Ev := [.issue 0 20000 1000 false, .done 0 .timeout 21000, .wrote 0 7 false 3 21000]
example : monGo 12 true {} 0 exLateWrite = .fail "write-after-timeout" [V.ofNat 2, V.ofNat 0] := rfl
example : ∀ i, i < 2 → ∀ cl rest, ¬ Violated12 true exLateWrite cl i rest :=
  ((C12_monitor_write_after_timeout_iff true exLateWrite 2 0).mp rfl).2
example : WriteAfterTimeoutAt exLateWrite 2 0 :=
  ⟨7, 3, 21000, 21000, rfl,
   ⟨1, by decide, rfl, by decide,
    by rintro ⟨i, o, t, hlt, hi, _⟩; rcases i with _ | i <;> simp [exLateWrite] at hi hlt⟩, by decide⟩

/-- no discard although the connection stays open (the same log is fine once the connection closes in time) -/
def exNoDiscard : List Ev := [.issue 0 20000 1000 false, .wrote 0 7 false 3 1000, .done 0 .timeout 21000, .tick 30000]
example : monGo 12 true {} 0 exNoDiscard = .fail "discard-missing" [V.ofNat 4, V.ofNat 0] := rfl
example : monGo 12 false {} 0 exNoDiscard = .ok := by decide
example : monGo 12 true {} 0 (exNoDiscard ++ [.connclosed 7 21000]) = .ok := by decide
example : ∃ c, DiscardMissingIn exNoDiscard c :=
  (C12_monitor_discard_missing_sound true exNoDiscard _ rfl).2.imp fun _ h => h.2

end Scales.C12
