/-
  Props/C06.lean — the aperture keeps a partitioned, bounded, load-tracking active subset.

  Model: Model/Aperture.lean (`_idle_endpoints`, `_pending_endpoints`, `_AddSink`, `_RemoveSink`,
  `_TryExpandAperture`, `_ContractAperture`, `_OnNodeDown`, `_Jitter`, `_AdjustAperture`) over
  Model/Heap.lean, stepped by Adapter/LB.lean; Model/Ema.lean for the smoothing.
  `(runSt cfg (init cfg) ops).sub` is the balancer after the operation list `ops`; `heapEps` the endpoints
  of its heap nodes (the active set), `idle` the idle set, `hs.servers` the keys of `_servers` (the
  members), `hs.size` the aperture size.

  Quantification: every configuration (min_size, max_size, min_load, max_load, initial members), every
  operation list satisfying `wf` (LB.wf): traffic, time (through the EMA inputs: every sequence of wall-clock
  readings, forwards or backwards, and every decay weight `exp` can return for the resulting time deltas),
  member failures, joins/leaves, slow and failing opens, jitter rounds, every legal random choice.
  `wf6` = `wf` and every recorded result of the float arithmetic that is not modelled (`math.exp`, the
  multiply-add of `Ema.Update`) is one exact arithmetic allows (`recLegal`).
-/
import ScalesModel.Proofs.LBSpec
import ScalesModel.Proofs.ApertureDecision
import ScalesModel.Proofs.EmaLemmas
namespace Scales.LB
open Scales.Heap Scales.Aperture Scales.LBBase

/-- **Partition.**  After every operation every member is in exactly one of the active and the idle
    set: the two lists together have no duplicates and hold exactly the members. -/
theorem C06_partition (cfg : Cfg) (ops : List Op) (hwf : wf cfg ops = true) :
    (heapEps (runSt cfg (init cfg) ops).sub.hs ++ (runSt cfg (init cfg) ops).sub.idle).Nodup ∧
    (runSt cfg (init cfg) ops).sub.hs.servers.Nodup ∧
    ∀ x, x ∈ (runSt cfg (init cfg) ops).sub.hs.servers ↔
      (x ∈ heapEps (runSt cfg (init cfg) ops).sub.hs ∨ x ∈ (runSt cfg (init cfg) ops).sub.idle) := by
  obtain ⟨_, h, _⟩ := run_RInv cfg ops _ _ (RInv.init cfg) (wf_proto hwf)
  refine ⟨h.full.inv.nodup, h.full.snodup, fun x => ?_⟩
  rw [← h.full.part x]; unfold E; exact List.mem_append

/-- **Lower bound.**  After every operation at least `min(min_size, members)` members are active. -/
theorem C06_lower_bound (cfg : Cfg) (ops : List Op) (hwf : wf cfg ops = true) :
    min cfg.minSize (runSt cfg (init cfg) ops).sub.hs.servers.length ≤ (runSt cfg (init cfg) ops).sub.hs.size := by
  obtain ⟨_, h, _⟩ := run_RInv cfg ops _ _ (RInv.init cfg) (wf_proto hwf)
  set a := (runSt cfg (init cfg) ops).sub
  rcases h.full.lbd with hl | hl
  · exact le_trans (Nat.min_le_left _ _) hl
  · have hsub : a.hs.servers ⊆ heapEps a.hs := by
      intro x hx
      have := (h.full.part x).2 hx
      unfold E at this; rw [hl, List.append_nil] at this; exact this
    have := (List.Nodup.subperm h.full.snodup hsub).length_le
    rw [heapEps_length] at this
    exact le_trans (Nat.min_le_right _ _) this

/-- **The decision table of `_AdjustAperture`, stated outright.**  In any state satisfying the
    invariant `PInv` (H1 of the heap; active and idle endpoints pairwise distinct — it holds at every
    point of every run, see `C06_invariant_every_run`), with `load` the smoothed outstanding count
    per active member (`max_load` when nothing is active): the call grows the aperture by one idle
    endpoint iff `load ≥ max_load`, an idle endpoint exists and `size < max_size` (`AS.growCond`);
    otherwise it shrinks it by one iff `load ≤ min_load`, `size > min_size`, no open is pending and
    more than `min_size` active members are healthy (`AS.shrinkCond`); otherwise it leaves both sets
    alone. -/
theorem C06_adjust_decision (cfg : Cfg) (a : AS) (inv : PInv cfg a) (hap : cfg.aperture = true) (amount : Int)
    (i : AdjIn) (rest : List AdjIn) (missing : Bool) :
    (a.growCond cfg i.avg →
      (a.adjustWith cfg amount i rest missing).hs.size = a.hs.size + 1 ∧
      (a.adjustWith cfg amount i rest missing).idle.length + 1 = a.idle.length) ∧
    (¬ a.growCond cfg i.avg → a.shrinkCond cfg i.avg →
      (a.adjustWith cfg amount i rest missing).hs.size + 1 = a.hs.size ∧
      (a.adjustWith cfg amount i rest missing).idle.length = a.idle.length + 1) ∧
    (¬ a.growCond cfg i.avg → ¬ a.shrinkCond cfg i.avg →
      (a.adjustWith cfg amount i rest missing).hs.size = a.hs.size ∧
      (a.adjustWith cfg amount i rest missing).idle.length = a.idle.length) :=
  adjustWith_decision cfg inv hap amount i rest missing

/-- the invariant assumed by `C06_adjust_decision` and `C06_load_growth_le_max` holds after every
    operation of every run (and, by the lemmas of Proofs/ApertureInv.lean, in between) -/
theorem C06_invariant_every_run (cfg : Cfg) (ops : List Op) (hwf : wf cfg ops = true) :
    PInv cfg (runSt cfg (init cfg) ops).sub := by
  obtain ⟨_, h, _⟩ := run_RInv cfg ops _ _ (RInv.init cfg) (wf_proto hwf)
  exact h.full.inv

/-- **Load-driven growth stays within `max_size`.**  A call of `_AdjustAperture` that enlarges the
    aperture leaves it no larger than `max_size`. -/
theorem C06_load_growth_le_max (cfg : Cfg) (a : AS) (inv : PInv cfg a) (hap : cfg.aperture = true) (amount : Int)
    (i : AdjIn) (rest : List AdjIn) (missing : Bool)
    (hg : a.hs.size < (a.adjustWith cfg amount i rest missing).hs.size) :
    (a.adjustWith cfg amount i rest missing).hs.size ≤ cfg.maxSize := by
  obtain ⟨d1, d2, d3⟩ := adjustWith_decision cfg inv hap amount i rest missing
  by_cases hgrow : cfg.maxLoad ≤ apLoad cfg a.hs.size i.avg ∧ a.idle ≠ [] ∧ a.hs.size < cfg.maxSize
  · have := (d1 hgrow).1; omega
  · by_cases hs : apLoad cfg a.hs.size i.avg ≤ cfg.minLoad ∧ cfg.minSize < a.hs.size ∧ a.pending = [] ∧
        cfg.minSize < a.numHealthy
    · have := (d2 hgrow hs).1; omega
    · have := (d3 hgrow hs).1; omega

/-- **Every `_AdjustAperture` call of every run followed the table** (as recorded in the log of the
    operation it belongs to): growth only within `max_size`, growth exactly under the growth
    condition, shrinking exactly under the shrink condition, no other size change. -/
theorem C06_adjust_decision_logged (cfg : Cfg) (ops : List Op) (hwf : wf cfg ops = true) :
    ∀ r ∈ (runSt cfg (init cfg) ops).sub.adjLog,
      (r.size' = r.size + 1 → r.size' ≤ cfg.maxSize) ∧
      (tableExpand cfg r = true → r.size' = r.size + 1) ∧
      (tableExpand cfg r = false → tableContract cfg r = true → r.size' + 1 = r.size) ∧
      (tableExpand cfg r = false → tableContract cfg r = false → r.size' = r.size) := by
  obtain ⟨_, h, _⟩ := run_RInv cfg ops _ _ (RInv.init cfg) (wf_proto hwf)
  intro r hr
  obtain ⟨h1, h2, h3, h4, _⟩ := h.full.log r hr
  exact ⟨h1, h2, h3, h4⟩

/-- **Load-tracking: `_total` is the number of outstanding requests.**  After every operation of every
    run the aperture's `_total` equals the number of dispatches that have not completed (entries of
    the dispatch table whose `put_called` flag is still false): `_OnGet` counts every dispatch once,
    `_OnPut` every first completion once — also when the node has meanwhile left the heap (member
    left, contraction, jitter).  The plain heap balancer keeps no total.  Needs no hypothesis. -/
theorem C06_total_is_sum (cfg : Cfg) (ops : List Op) :
    (runSt cfg (init cfg) ops).sub.total =
      if cfg.aperture then (((flagsOf (runSt cfg (init cfg) ops).sub.hs).count false : Nat) : Int) else 0 :=
  run_TInv cfg ops _ (TInv.init cfg)

/-- **The clock of the EMA never steps back.**  `MonoClock.Sample()` returns the later of its last value and
    the wall-clock reading: whatever the wall clock reads — also a reading earlier than every reading before
    it (NTP step, VM resume) — the sampled time is not earlier than the last sampled time, and it is the
    reading itself whenever the reading is later. -/
theorem C06_clock_never_steps_back (last now : Rat) :
    MonoClock.sample last now = max last now ∧ last ≤ MonoClock.sample last now ∧
      (last < now → MonoClock.sample last now = now) := by
  refine ⟨MonoClock.sample_eq_max last now, MonoClock.le_sample last now, fun h => ?_⟩
  rw [MonoClock.sample_eq_max, max_eq_right (le_of_lt h)]

/-- **Sampled times never decrease, whatever the wall clock does.**  For every sequence of wall-clock
    readings (no assumption on their order) the times returned by successive `Sample()` calls are sorted,
    and none is earlier than the clock's starting value. -/
theorem C06_sampled_times_monotone (last : Rat) (readings : List Rat) :
    (MonoClock.samples last readings).Pairwise (· ≤ ·) ∧ ∀ t ∈ MonoClock.samples last readings, last ≤ t :=
  ⟨(MonoClock.samples_sorted readings last).2, (MonoClock.samples_sorted readings last).1⟩

/-- **One `_AdjustAperture` call moves the clock to the later of its value and the reading** (`i.now`, any
    rational: the wall clock may have stepped back), never backwards — whichever branch (grow, shrink,
    stay) the call takes. -/
theorem C06_adjust_clock (cfg : Cfg) (a : AS) (amount : Int) (i : AdjIn) (rest : List AdjIn) (missing : Bool) :
    (a.adjustWith cfg amount i rest missing).clock = max a.clock i.now ∧
    a.clock ≤ (a.adjustWith cfg amount i rest missing).clock := by
  have h : (a.adjustWith cfg amount i rest missing).clock = MonoClock.sample a.clock i.now :=
    adjustWith_clock cfg a amount i rest missing
  rw [h]
  exact ⟨MonoClock.sample_eq_max _ _, MonoClock.le_sample _ _⟩

/-- **Every time delta of every run is legal.**  In every run — every wall-clock reading on the tape
    arbitrary, in particular earlier than the one before — every `Ema.Update` of every `_AdjustAperture`
    call of every operation saw a time delta `≥ 0`. -/
theorem C06_time_delta_nonneg (cfg : Cfg) (ops : List Op) (hwf : wf cfg ops = true) :
    ∀ q ∈ comp6.modelTrace cfg ops, ∀ r ∈ q.2.adj, 0 ≤ r.dt :=
  fun q hq r hr => (trace_adjGood cfg ops _ _ (RInv.init cfg) (wf_proto hwf) q hq r hr).2.2.2.2

/-- **Consequently every decay weight lies in [0, 1] and the load is smoothed, not extrapolated.**  If the
    recorded weights are values `exp(-dt/window)` can take for the time deltas of the run and the recorded
    results agree with exact arithmetic up to rounding (`wf6`), then in every `_AdjustAperture` call of every
    operation the decay weight (when one is used: not for the first sample) lies in [0, 1] and the smoothed
    load the decision is taken on lies between the previous smoothed load and the current number of
    outstanding requests (`emaBetween`, up to the relative rounding slack 1e-9). -/
theorem C06_weights_in_unit_interval (cfg : Cfg) (ops : List Op) (hwf : wf6 cfg ops = true) :
    ∀ q ∈ comp6.modelTrace cfg ops, ∀ r ∈ q.2.adj,
      (r.prev.isSome = true → 0 ≤ r.w ∧ r.w ≤ 1) ∧ emaBetween r = true :=
  fun q hq r hr =>
    recLegal_smooth (C06_time_delta_nonneg cfg ops (wf6_wf hwf) q hq r hr)
      (trace_legal cfg ops _ (wf6_legal hwf) q hq r hr)

/-- a weight `exp` can return for a time delta `≥ 0` lies in [0, 1] (the only fact about `exp` used) -/
theorem C06_legal_weight_unit (dt w : Rat) (h : Ema.weightLegal dt w = true) (hdt : 0 ≤ dt) : 0 ≤ w ∧ w ≤ 1 :=
  Ema.weightLegal_unit h hdt

/-- **EMA.**  With a decay weight in [0,1] each update lies between the previous value and the sample. -/
theorem C06_ema_between (w prev sample : Rat) (h0 : 0 ≤ w) (h1 : w ≤ 1) :
    min prev sample ≤ Ema.update (some prev) w sample ∧ Ema.update (some prev) w sample ≤ max prev sample :=
  Ema.step_between w prev sample h0 h1

/-- **EMA, constant sample.**  If every decay weight lies in `[0, w]` the distance to the sample shrinks
    at least geometrically: after `k` updates it is at most `w^k` times the initial distance. -/
theorem C06_ema_converges (ws : List Rat) (w v x : Rat) (h : ∀ u ∈ ws, 0 ≤ u ∧ u ≤ w) :
    |Ema.iter v x ws - x| ≤ w ^ ws.length * |v - x| :=
  Ema.iter_converges ws w v x h

/-- one `_AdjustAperture` call with every active member healthy and no open pending is one step of
    the size dynamics `sizeStep` on (active size, idle count) -/
theorem C06_adjust_is_sizeStep (cfg : Cfg) (a : AS) (inv : PInv cfg a) (hap : cfg.aperture = true) (amount : Int)
    (i : AdjIn) (rest : List AdjIn) (missing : Bool) (hp : a.pending = []) (hh : a.numHealthy = a.hs.size) :
    ((a.adjustWith cfg amount i rest missing).hs.size, (a.adjustWith cfg amount i rest missing).idle.length)
      = sizeStep cfg i.avg (a.hs.size, a.idle.length) :=
  adjustWith_sizeStep cfg inv hap amount i rest missing hp hh

/-- **Settles (partial).**  Constant smoothed outstanding count `n` (the EMA at its limit), all members
    healthy, `min_size ≥ 1`, `0 ≤ min_load`, `2·min_load < max_load`: from any (size, idle) repeated
    adjustment reaches, within `size + idle` (= members) steps, a state that further adjustment leaves
    alone, and there the load is strictly inside the band or the size is pinned: at most `min_size`, at
    least `max_size`, or no idle member is left. -/
theorem C06_settles_partial (cfg : Cfg) (n : Rat) (hm : 1 ≤ cfg.minSize) (h0 : 0 ≤ cfg.minLoad)
    (hb : 2 * cfg.minLoad < cfg.maxLoad) (s : Nat × Nat) :
    ∃ k, k ≤ s.1 + s.2 ∧
      sizeStep cfg n ((sizeStep cfg n)^[k] s) = (sizeStep cfg n)^[k] s ∧
      ((cfg.minLoad < apLoad cfg ((sizeStep cfg n)^[k] s).1 n ∧ apLoad cfg ((sizeStep cfg n)^[k] s).1 n < cfg.maxLoad) ∨
        ((sizeStep cfg n)^[k] s).1 ≤ cfg.minSize ∨ cfg.maxSize ≤ ((sizeStep cfg n)^[k] s).1 ∨
        ((sizeStep cfg n)^[k] s).2 = 0) := by
  obtain ⟨k, hk, hfix⟩ := settles cfg n hm h0 hb s
  exact ⟨k, hk, hfix, fix_pinned cfg n _ hfix⟩

/-- **The band condition is needed.**  With `min_load = max_load = 1` (min_size 1, max_size 4), two
    active members, one idle and a constant load of two requests, adjustment alternates between sizes
    2 and 3 for ever: no number of steps reaches a state that adjustment leaves alone. -/
theorem C06_oscillation_counterexample :
    ∀ k, sizeStep oscCfg 2 ((sizeStep oscCfg 2)^[k] (2, 1)) ≠ (sizeStep oscCfg 2)^[k] (2, 1) :=
  osc_never_settles

/-- **`min_size ≥ 1` is needed.**  With `min_size = 0` (band [1/2, 2], max_size 4) and no traffic the size
    dynamics alternate between 0 and 1 active members for ever.  (The implementation does not even
    get that far: with nothing active a request is answered `NoMembersError` before
    `_AdjustAperture` is reached, so a balancer configured with `min_size = 0` keeps every member idle —
    see corpus/C06/min-size-zero-never-activates.json.) -/
theorem C06_min_size_zero_counterexample :
    ∀ k, sizeStep oscCfg0 0 ((sizeStep oscCfg0 0)^[k] (0, 1)) ≠ (sizeStep oscCfg0 0)^[k] (0, 1) :=
  osc0_never_settles

/-- **The smoothed load is this balancer's own.**  Take the `_AdjustAperture` records of a whole run of the
    model, in call order (`adjRecords`: the records of the first operation, then those of the second, …).  The
    Ema held no sample before the first record (`prev = none`), and before every later record it held exactly
    the value the record before it left (`prev = some avg` of the predecessor): nothing but this balancer's own
    samples moves its smoothed load — whatever the traffic, the clock, the membership changes, the opens and
    the jitter rounds in between.  The value held after the run is the one the last record left. -/
theorem C06_smoothed_load_is_own (cfg : Cfg) (ops : List Op) (hwf : wf cfg ops = true) :
    (∀ r rest, adjRecords (comp6.modelTrace cfg ops) = r :: rest → r.prev = none) ∧
    (∀ pre r r' post, adjRecords (comp6.modelTrace cfg ops) = pre ++ r :: r' :: post → r'.prev = some r.avg) ∧
    (runSt cfg (init cfg) ops).sub.ema = heldAfter none (adjRecords (comp6.modelTrace cfg ops)) := by
  obtain ⟨h1, h2⟩ := trace_own cfg ops { ref := cfg.initial } (init cfg) (fun _ => rfl) (wf_proto hwf)
  have h1' : chainB none (adjRecords (comp6.modelTrace cfg ops)) = true := h1
  refine ⟨fun r rest e => ?_, fun pre r r' post e => ?_, h2⟩
  · rw [e] at h1'; exact chainB_head h1'
  · rw [e] at h1'; exact chainB_pair h1'

/-- **C06, specification level.**  For every configuration and every operation list satisfying `wf6`
    (the hypothesis predicate of component `aperture`), the history of the model satisfies the executable
    specification `specC06` — the predicate the harness evaluates on the implementation's observations. -/
theorem C06_model_satisfies_spec (cfg : Cfg) (ops : List Op) (hwf : comp6.wf cfg ops = true) :
    specC06 cfg (comp6.modelTrace cfg ops) = .ok :=
  specC06_trace cfg ops _ _ 0 (RInv.init cfg) (TInv.init cfg) (fun _ => rfl) (wf_proto (wf6_wf hwf)) (wf6_legal hwf)

/-! non-vacuity: concrete instances of the hypotheses -/

/-- aperture balancer (min_size 1, max_size 3, band [1/2, 2]): gated callbacks; a first sample at wall-clock
    time 7; the wall clock steps back to 5 (time delta 0, weight 1, the smoothed load stays); at 12 load-driven
    growth (choice 3); at 60 shrinking; a jitter round (choice 0), a leave
    (cf. corpus/C06/lean-witness-aperture.json, corpus/C06/clock-steps-back-steady-traffic.json) -/
example : wf6 ⟨true, 1, 3, 1/2, 2, false, [0, 1, 2]⟩
    [.opn, .join 3 ⟨[], []⟩, .leave 1 ⟨[], []⟩, .loaded [2, 0, 1] ⟨[], []⟩, .chan 0 2, .get ⟨[], [⟨0, 1, 7⟩]⟩,
     .get ⟨[], [⟨1, 1, 5⟩]⟩, .get ⟨[3], [⟨1/4, 5/2, 12⟩]⟩, .put 0 0 ⟨[], [⟨1/2, 9/4, 14⟩]⟩,
     .put 1 0 ⟨[], [⟨0, 1, 60⟩]⟩, .jitter ⟨[0], []⟩, .leave 2 ⟨[], []⟩] = true := by decide +kernel

/-- a weight above 1 for a clock that has not moved (what `exp` returns for a negative time delta) is
    outside the hypotheses: the model does not produce it -/
example : wf6 ⟨true, 1, 3, 1/2, 2, false, [0, 1, 2]⟩
    [.opn, .loaded [2, 0, 1] ⟨[], []⟩, .chan 0 2, .get ⟨[], [⟨0, 1, 7⟩]⟩, .get ⟨[], [⟨3/2, 1/2, 5⟩]⟩] = false := by
  decide +kernel

/-- the hypotheses of `C06_settles_partial` for the shipped defaults (min_size 1, band [0.5, 2]) -/
example : (1 : Nat) ≤ (⟨true, 1, 2147483648, 1/2, 2, false, []⟩ : Cfg).minSize ∧
    (0 : Rat) ≤ (⟨true, 1, 2147483648, 1/2, 2, false, []⟩ : Cfg).minLoad ∧
    2 * (⟨true, 1, 2147483648, 1/2, 2, false, []⟩ : Cfg).minLoad < (⟨true, 1, 2147483648, 1/2, 2, false, []⟩ : Cfg).maxLoad := by
  refine ⟨le_refl _, ?_, ?_⟩ <;> norm_num

/-- the EMA hypotheses: weights `exp(-Δ/5)` lie in [0, 1]; e.g. 1/2 -/
example : (0 : Rat) ≤ 1/2 ∧ (1/2 : Rat) ≤ 1 := by norm_num

end Scales.LB
