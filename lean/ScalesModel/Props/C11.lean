/-
  Props/C11.lean — property theorems for C11 (multiplexed requests carry unique, unreserved
  tags that are recycled safely).

  Quantification.  `cfg.max` is any pool size ≥ 2 (the transports use 2^24 − 1), `cfg.fl` either
  transport sink (ThriftMux or Kafka).  The connection is of **any age**: the script starts with
  the tag pool in any state `cfg.pool = ⟨cfg.free, cfg.next⟩` satisfying the pool invariant
  `Pool.wf` (`cfgWF`: released tags distinct, each in `[2, next]`, `1 ≤ next < max`) — a fresh
  connection (`next = 1`, nothing released: `Pool.init`) is the special case in which all tags
  are tiny; on an aged one tags that differ in one tag byte only (2, 258, 65538; 256, 65792) are
  in flight together.  The tags handed out earlier and not released (`Cfg.held` of them) stay
  out for the whole script.  `ops` is any
  finite sequence of atomic steps of the transport — requests with or without a deadline event
  (already passed or not), deadline events firing before or after transmission, send-loop
  iterations (atomic, or split at the one yield point `socket.write`: `wbegin` … `wend`, with any other
  step in between), time-out callbacks, *any* frame from the peer (`process mtype tag`: every type,
  every tag including 0, 1, unknown, already answered, not yet transmitted), pings, re-opens —
  subject only to `opsOk`: each label is one the code can take in the state it is taken in
  (a send needs a queued item, a time-out callback needs a fired event with a subscription, the
  element `set.pop()` returned was in the set).  `comp.modelTrace cfg ops = h1 ++ (op, o) :: h2`
  singles out one step `op` with observation `o` after the history `h1`.
-/
import ScalesModel.Proofs.TagPoolLemmas
namespace Scales.TagPool

/-- **C11, specification level.**  The history of the model satisfies the executable
    specification `spec` — the predicate the harness evaluates on the implementation. -/
theorem C11_model_satisfies_spec (cfg : Cfg) (ops : List Op) (hc : cfgWF cfg = true)
    (ho : opsOk cfg (initSt cfg) ops = true) : spec cfg (comp.modelTrace cfg ops) = .ok := by
  exact spec_trace cfg (wf_max hc) ops (Acc.init cfg) (initSt cfg) 0 (Inv_init cfg hc) ho

/-- the five clauses of the specification hold at every step of every model history -/
theorem C11_step_clauses (cfg : Cfg) (ops : List Op) (hc : cfgWF cfg = true)
    (ho : opsOk cfg (initSt cfg) ops = true) (h1 h2 : List (Op × Obs)) (op : Op) (o : Obs)
    (htr : comp.modelTrace cfg ops = h1 ++ (op, o) :: h2) :
    (∀ t ∈ givenTags op o, 2 ≤ t ∧ t < cfg.max) ∧
    uniqueOk (unanswered cfg h1) (reqTags o.wrote) = true ∧
    (∀ t ∈ o.free, t ∈ freeBefore cfg h1 ∨ answers op t = true ∨ t ∉ unanswered cfg h1) ∧
    (isReqOk op o = true → freeBefore cfg h1 ≠ [] → o.assigned ∈ freeBefore cfg h1) ∧
    (op ≠ .reopen → o.next ≤ Nat.max (peakInUse cfg h1) (o.tagmap.length + heldBefore cfg h1) + 1) := by
  have hs := C11_model_satisfies_spec cfg ops hc ho
  rw [htr] at hs
  have := specGo_split cfg h1 (Acc.init cfg) 0 op o h2 hs
  obtain ⟨c1, c2, c3, c4, c5, _⟩ := (specObs_ok_iff cfg _ _ op o).mp this
  exact ⟨c1, c2, c3, c4, c5⟩

/-- **Range.**  Every request frame written carries a tag in `[2, max − 1]`, and so does every
    tag given to a request. -/
theorem C11_range (cfg : Cfg) (ops : List Op) (hc : cfgWF cfg = true)
    (ho : opsOk cfg (initSt cfg) ops = true) (h1 h2 : List (Op × Obs)) (op : Op) (o : Obs)
    (htr : comp.modelTrace cfg ops = h1 ++ (op, o) :: h2) :
    (∀ f ∈ o.wrote, f.kind = .req → 2 ≤ f.tag ∧ f.tag + 1 ≤ cfg.max) ∧
    (isReqOk op o = true → 2 ≤ o.assigned ∧ o.assigned + 1 ≤ cfg.max) := by
  obtain ⟨hr, _⟩ := C11_step_clauses cfg ops hc ho h1 h2 op o htr
  constructor
  · intro f hf hk
    have := hr f.tag (by unfold givenTags; exact List.mem_append_right _ (mem_reqTags hf hk))
    omega
  · intro hq
    have := hr o.assigned (by unfold givenTags; simp [hq])
    omega

/-- the transports' pool (`TagPool(2^24 − 1)`, ThriftMux and Kafka alike), on a connection of any
    age: tags lie between 2 and 2^24 − 2 -/
theorem C11_range_transport (cfg : Cfg) (hm : cfg.max = 2 ^ 24 - 1) (ops : List Op) (hc : cfgWF cfg = true)
    (ho : opsOk cfg (initSt cfg) ops = true)
    (h1 h2 : List (Op × Obs)) (op : Op) (o : Obs)
    (htr : comp.modelTrace cfg ops = h1 ++ (op, o) :: h2) :
    ∀ f ∈ o.wrote, f.kind = .req → 2 ≤ f.tag ∧ f.tag ≤ 2 ^ 24 - 2 := by
  intro f hf hk
  have := (C11_range cfg ops hc ho h1 h2 op o htr).1 f hf hk
  rw [hm] at this
  omega

/-- **Reserved tags.**  Tags 0 and 1 are never given to a request and never appear in a written
    request frame — whatever frames the peer sends (`ops` contains arbitrary `process` steps). -/
theorem C11_reserved_never (cfg : Cfg) (ops : List Op) (hc : cfgWF cfg = true)
    (ho : opsOk cfg (initSt cfg) ops = true) (h1 h2 : List (Op × Obs)) (op : Op) (o : Obs)
    (htr : comp.modelTrace cfg ops = h1 ++ (op, o) :: h2) :
    (∀ f ∈ o.wrote, f.kind = .req → f.tag ≠ 0 ∧ f.tag ≠ 1) ∧
    (isReqOk op o = true → o.assigned ≠ 0 ∧ o.assigned ≠ 1) := by
  obtain ⟨h1', h2'⟩ := C11_range cfg ops hc ho h1 h2 op o htr
  constructor
  · intro f hf hk; have := h1' f hf hk; omega
  · intro hq; have := h2' hq; omega

/-- **Uniqueness.**  A request frame is never written with a tag carried by an earlier written
    request frame of this connection that the peer has not answered since (and the request
    frames of one step carry distinct tags). -/
theorem C11_unique_unanswered (cfg : Cfg) (ops : List Op) (hc : cfgWF cfg = true)
    (ho : opsOk cfg (initSt cfg) ops = true) (h1 h2 : List (Op × Obs)) (op : Op) (o : Obs)
    (htr : comp.modelTrace cfg ops = h1 ++ (op, o) :: h2) :
    (∀ f ∈ o.wrote, f.kind = .req → f.tag ∉ unanswered cfg h1) ∧ (reqTags o.wrote).Nodup := by
  obtain ⟨_, hu, _⟩ := C11_step_clauses cfg ops hc ho h1 h2 op o htr
  obtain ⟨hu1, hu2⟩ := uniqueOk_spec hu
  exact ⟨fun f hf hk => hu1 f.tag (mem_reqTags hf hk), hu2⟩

/-- **Release.**  A tag enters the free set only in a step that processes a frame of the peer
    for that very tag, or when no written, unanswered request carries it (its request was
    dropped before transmission). -/
theorem C11_release_only_answered_or_unsent (cfg : Cfg) (ops : List Op) (hc : cfgWF cfg = true)
    (ho : opsOk cfg (initSt cfg) ops = true) (h1 h2 : List (Op × Obs)) (op : Op) (o : Obs)
    (htr : comp.modelTrace cfg ops = h1 ++ (op, o) :: h2) (t : Nat) (ht : t ∈ o.free)
    (hnew : t ∉ freeBefore cfg h1) : (∃ m, op = .process m t) ∨ t ∉ unanswered cfg h1 := by
  obtain ⟨_, _, hrel, _⟩ := C11_step_clauses cfg ops hc ho h1 h2 op o htr
  rcases hrel t ht with h | h | h
  · exact absurd h hnew
  · left
    cases op with
    | process m t' =>
      simp only [answers, beq_iff_eq] at h
      subst h; exact ⟨m, rfl⟩
    | _ => simp [answers] at h
  · exact Or.inr h

/-- **Reuse (pool level).**  `get` hands out a fresh tag — and moves the high-water mark — only
    when the free set is empty; otherwise it returns a member of the free set. -/
theorem C11_fresh_only_when_free_empty (max : Nat) (p p' : Pool) (popped t : Nat)
    (h : p.get max popped = .tag t p') :
    (p.free = [] → t = p.next + 1 ∧ p'.next = p.next + 1 ∧ p'.free = []) ∧
    (p.free ≠ [] → t ∈ p.free ∧ p'.next = p.next ∧ p'.free = p.free.erase t) := by
  unfold Pool.get at h
  cases hf : p.free with
  | nil =>
    simp only [hf] at h
    split at h
    · cases h
    · injection h with h1 h2
      subst h1; subst h2
      simp
  | cons x xs =>
    simp only [hf] at h
    split at h
    · next hc =>
      injection h with h1 h2
      subst h1; subst h2
      constructor
      · intro e; cases e
      · intro _; exact ⟨by simpa using hc, rfl, rfl⟩
    · cases h

/-- **Reuse (history level).**  A request takes a released tag whenever the free set shown by
    the previous observation is not empty. -/
theorem C11_reuse_when_free_nonempty (cfg : Cfg) (ops : List Op) (hc : cfgWF cfg = true)
    (ho : opsOk cfg (initSt cfg) ops = true) (h1 h2 : List (Op × Obs)) (op : Op) (o : Obs)
    (htr : comp.modelTrace cfg ops = h1 ++ (op, o) :: h2) (hq : isReqOk op o = true)
    (hne : freeBefore cfg h1 ≠ []) : o.assigned ∈ freeBefore cfg h1 := by
  obtain ⟨_, _, _, hre, _⟩ := C11_step_clauses cfg ops hc ho h1 h2 op o htr
  exact hre hq hne

/-- **High-water mark.**  `next − 1` (the number of distinct tags ever used on the connection)
    never exceeds the peak number of tags awaiting an answer — requests in flight plus timed-out
    requests whose discard the peer has not answered; on an aged connection the latter include the
    `heldBefore` tags handed out before the script and never answered, and the peak is counted
    from the starting pool's `next − 1`. -/
theorem C11_highwater_le_peak (cfg : Cfg) (ops : List Op) (hc : cfgWF cfg = true)
    (ho : opsOk cfg (initSt cfg) ops = true) (h1 h2 : List (Op × Obs)) (op : Op) (o : Obs)
    (htr : comp.modelTrace cfg ops = h1 ++ (op, o) :: h2) (hop : op ≠ .reopen) :
    o.next - 1 ≤ Nat.max (peakInUse cfg h1) (o.tagmap.length + heldBefore cfg h1) := by
  obtain ⟨_, _, _, _, hhw⟩ := C11_step_clauses cfg ops hc ho h1 h2 op o htr
  have := hhw hop
  omega

/-- the same on a fresh connection (`next = 1`: nothing was handed out before): `next − 1` is
    bounded by the peak size of the tag map alone -/
theorem C11_highwater_le_peak_fresh (cfg : Cfg) (ops : List Op) (hc : cfgWF cfg = true) (hn : cfg.next = 1)
    (ho : opsOk cfg (initSt cfg) ops = true) (h1 h2 : List (Op × Obs)) (op : Op) (o : Obs)
    (htr : comp.modelTrace cfg ops = h1 ++ (op, o) :: h2) (hop : op ≠ .reopen) :
    o.next - 1 ≤ Nat.max (peakInUse cfg h1) o.tagmap.length := by
  have := C11_highwater_le_peak cfg ops hc ho h1 h2 op o htr hop
  rw [heldBefore_fresh cfg h1 hn] at this
  simpa using this

/-- **Exhaustion (pool level).**  `get` raises exactly when no tag is free and the high-water
    mark has reached `max − 1`. -/
theorem C11_exhaustion_raises (max : Nat) (p : Pool) (popped : Nat) :
    p.get max popped = .exhausted ↔ (p.free = [] ∧ p.next + 1 = max) := by
  unfold Pool.get
  cases hf : p.free with
  | nil =>
    simp only
    split
    · next h => simp [h]
    · next h => simp [h]
  | cons x xs =>
    simp only
    split <;> simp

/-- **Exhaustion (transport level).**  In every reachable state a request is refused exactly
    when the pool is exhausted, and a refused request changes neither the pool nor the tag
    map nor the send queue. -/
theorem C11_exhaustion_no_tag (cfg : Cfg) (s : St) (e : EvKind) (popped : Nat) :
    ((stepOp cfg.fl cfg.max s (.req e popped)).2.res = .exhausted ↔ (s.pool.free = [] ∧ s.pool.next + 1 = cfg.max)) ∧
    ((stepOp cfg.fl cfg.max s (.req e popped)).2.res = .exhausted →
      (stepOp cfg.fl cfg.max s (.req e popped)).1.pool = s.pool ∧
      (stepOp cfg.fl cfg.max s (.req e popped)).1.tagmap = s.tagmap ∧
      (stepOp cfg.fl cfg.max s (.req e popped)).1.sendq = s.sendq ∧
      (stepOp cfg.fl cfg.max s (.req e popped)).2.assigned = 0) := by
  have hex := C11_exhaustion_raises cfg.max s.pool popped
  simp only [stepOp, stepReq]
  cases hg : s.pool.get cfg.max popped with
  | exhausted =>
    rw [hg] at hex
    simp only [true_iff] at hex
    simp [hex]
  | badChoice =>
    rw [hg] at hex
    simp only [reduceCtorEq, false_iff] at hex
    simp [hex]
  | tag t p =>
    rw [hg] at hex
    simp only [reduceCtorEq, false_iff] at hex
    simp [hex]

/-- **L1 invariant.**  In every reachable state: the free set and the tag map are duplicate-free
    and disjoint, their tags lie in `[2, next]`, together with the tags held since before the
    script they are exactly the `next − 1` tags handed out so far, and `next < max`. -/
theorem C11_pool_invariant (cfg : Cfg) (ops : List Op) (hc : cfgWF cfg = true)
    (ho : opsOk cfg (initSt cfg) ops = true) :
    PoolInv cfg.max (heldBefore cfg (comp.modelTrace cfg ops)) (reach cfg ops).pool (reach cfg ops).tagmap :=
  (Inv_trace cfg (wf_max hc) ops (Acc.init cfg) (initSt cfg) (Inv_init cfg hc) ho).pool

/-- the pool on its own stays in the invariant it started in (`Pool.wf`, the hypothesis on the
    starting pool): the state a script ends in is a legal start for the next one -/
theorem C11_pool_wf_preserved (cfg : Cfg) (ops : List Op) (hc : cfgWF cfg = true)
    (ho : opsOk cfg (initSt cfg) ops = true) : (reach cfg ops).pool.wf cfg.max = true := by
  have h := C11_pool_invariant cfg ops hc ho
  have hc := h.count
  exact Pool.wf_iff.mpr ⟨h.fnd, h.frange, by omega, h.nlt⟩

/-- **L0 ⊆ L1.**  The abstract state of the property (tags of written, unanswered request
    frames, computed from the observations) is always contained in the tag map: such a tag is
    neither free nor available to another request. -/
theorem C11_unanswered_in_tagmap (cfg : Cfg) (ops : List Op) (hc : cfgWF cfg = true)
    (ho : opsOk cfg (initSt cfg) ops = true) :
    ∀ t ∈ unanswered cfg (comp.modelTrace cfg ops),
      t ∈ tmKeys (reach cfg ops).tagmap ∧ t ∉ (reach cfg ops).pool.free := by
  have hinv := Inv_trace cfg (wf_max hc) ops (Acc.init cfg) (initSt cfg) (Inv_init cfg hc) ho
  intro t ht
  have hk := hinv.q.usub t ht
  exact ⟨hk, fun hf => hinv.pool.disj t hf hk⟩

/-- **Kafka: a time-out keeps the tag leased.**  `KafkaTransportSink._OnTimeout` is `pass`: the
    time-out callback of a request touches neither the pool nor the tag map nor the send queue and
    writes nothing — the tag comes back only with the broker's answer
    (`C11_release_only_answered_or_unsent` for `cfg.fl = .kafka`). -/
theorem C11_kafka_timeout_keeps_tag (s : St) (rid : Nat) :
    (stepNotifyKafka s rid).1.pool = s.pool ∧ (stepNotifyKafka s rid).1.tagmap = s.tagmap ∧
    (stepNotifyKafka s rid).1.sendq = s.sendq ∧ (stepNotifyKafka s rid).2.wrote = [] := by
  unfold stepNotifyKafka
  split
  · split <;> exact ⟨rfl, rfl, rfl, rfl⟩
  · exact ⟨rfl, rfl, rfl, rfl⟩

/-! ### the code as found violates the specification (F6, F6b)

  The same executable `spec`, on the histories of the transport *without* the repairs.  The
  harness replays these scripts against the implementation on every run (corpus/C11). -/

/-- F6: a non-ping frame on tag 1 puts tag 1 into the free set; the next request gets tag 1. -/
theorem C11_reserved_counterexample_unrepaired :
    (spec { max := 2 ^ 24 - 1, fl := .thriftmux } (traceWith stepOpUnrepaired { max := 2 ^ 24 - 1, fl := .thriftmux } St.init
      [.process (-2) 1, .req .noev 1, .send])).isOk = false ∧
    (stepOpUnrepaired (2 ^ 24 - 1) (stepOpUnrepaired (2 ^ 24 - 1) St.init (.process (-2) 1)).1 (.req .noev 1)).2.assigned = 1 := by
  constructor
  · rfl
  · decide

/-- F6: a frame on the not yet used tag 3 frees it; it is handed out from the free set and then
    again as a fresh tag, and both requests are written: two unanswered frames with tag 3. -/
theorem C11_unique_counterexample_unrepaired :
    (spec { max := 2 ^ 24 - 1, fl := .thriftmux } (traceWith stepOpUnrepaired { max := 2 ^ 24 - 1, fl := .thriftmux } St.init
      [.req .noev 0, .send, .process (-2) 3, .req .noev 3, .req .noev 0, .send, .send])).isOk = false := by
  rfl

/-- F6b (with F6 repaired): a request answered while still queued is written on its released
    tag, which the next request carries too. -/
theorem C11_unique_counterexample_answered_in_queue :
    (spec { max := 2 ^ 24 - 1, fl := .thriftmux } (traceWith stepOpF6bOnly { max := 2 ^ 24 - 1, fl := .thriftmux } St.init
      [.req .noev 0, .process (-2) 2, .send, .req .noev 2, .send])).isOk = false := by
  rfl

/-! non-vacuity: the hypotheses hold of concrete, non-trivial histories -/

/-- three requests, one dropped unsent (deadline already passed), one answered before it was
    written, one timed out after transmission and discarded; tag reuse; frames on tags 0, 1, 77 -/
example : comp.wf { max := 2 ^ 24 - 1, fl := .thriftmux }
    [.req .pre 0, .req .ev 0, .process (-2) 3, .send, .send, .req .ev 3, .send, .fire 2, .notify 2,
     .send, .process (-2) 1, .process (-2) 77, .process 0 0, .process (-66) 3, .req .noev 2, .ping,
     .send, .send, .reopen, .req .noev 0, .send] = true := by decide

/-- exhaustion of a pool of size 4: tags 2 and 3, then refusal -/
example : comp.wf { max := 4, fl := .thriftmux } [.req .noev 0, .req .noev 0, .req .noev 0, .send, .send, .process (-2) 2, .req .ev 2] = true := by
  decide

example : (stepOp .kafka 4 (stepOp .kafka 4 (stepOp .kafka 4 St.init (.req .noev 0)).1 (.req .noev 0)).1 (.req .noev 0)).2.res
    = .exhausted := by
  decide

/-- Kafka: a request that times out after transmission keeps its tag (no Tdiscarded exists);
    replies carry arbitrary correlation ids (0, 1, unknown, repeated); the tag is reused only
    after the broker's answer -/
example : comp.wf { max := 2 ^ 24 - 1, fl := .kafka }
    [.req .ev 0, .req .pre 0, .send, .send, .fire 0, .notify 0, .req .noev 3, .send, .process 0 0,
     .process 0 1, .process 0 77, .process 0 2, .process 0 2, .req .noev 2, .send, .reopen, .req .noev 0] = true := by
  decide

example : ((comp.modelTrace { max := 2 ^ 24 - 1, fl := .kafka }
    [.req .ev 0, .send, .fire 0, .notify 0, .req .noev 0, .send]).map (fun p => p.2.tagmap)) =
    [[2], [2], [2], [2], [2, 3], [2, 3]] := by decide

/-- the write as a yield point: the send loop blocks in the write of request 0 (`wbegin`: from
    then on the frame counts as written), the peer answers its tag while the call is blocked, the
    tag is reused by request 1, whose frame is written after the blocked call returned -/
example : comp.wf { max := 2 ^ 24 - 1, fl := .thriftmux }
    [.req .noev 0, .wbegin, .process (-2) 2, .req .noev 2, .quiet, .wend, .send, .quiet] = true := by decide

/-- an aged connection: high-water mark 66051 (= 0x010203), released tags 2, 258, 65538 (they differ
    in the second / third tag byte only) and 256, 65792; five requests take them all, then a fresh
    tag 66052 = 0x010204; replies on tags that share two bytes with tags in flight, a time-out after
    transmission (Tdiscarded naming 65538), a frame on a tag held since before the script (513:
    not in the tag map, nothing is released) -/
example : comp.wf { max := 2 ^ 24 - 1, fl := .thriftmux, next := 66051, free := [2, 258, 65538, 256, 65792] }
    [.req .noev 258, .req .ev 65538, .req .noev 2, .req .noev 65792, .req .noev 256, .req .noev 0,
     .send, .send, .send, .send, .send, .send, .process (-2) 2, .process (-2) 513, .fire 1, .notify 1, .send,
     .process (-2) 65792, .req .noev 65792, .process (-66) 65538, .send, .quiet] = true := by decide

example : ((comp.modelTrace { max := 2 ^ 24 - 1, fl := .thriftmux, next := 66051, free := [2, 258, 65538] }
    [.req .noev 258, .req .noev 65538, .req .noev 2, .req .noev 0, .process (-2) 65538]).map
      (fun p => (p.2.assigned, p.2.tagmap, p.2.free, p.2.next))) =
    [(258, [258], [2, 65538], 66051), (65538, [258, 65538], [2], 66051), (2, [2, 258, 65538], [], 66051),
     (66052, [2, 258, 65538, 66052], [], 66052), (0, [2, 258, 66052], [65538], 66052)] := by decide

/-- a pool state that is not an invariant state is rejected: a released tag above the high-water mark -/
example : cfgWF { max := 2 ^ 24 - 1, fl := .thriftmux, next := 300, free := [301] } = false := by decide

end Scales.TagPool
