/-
  Props/C07.lean — property theorems for C07 (watermark pool bounds concurrency, queues FIFO,
  never leaks capacity).  Model: Model/Watermark.lean (repaired code, fixes/C07-*.patch);
  executable specification: Adapter/Watermark.lean; helper lemmas: Proofs/WatermarkLemmas.lean.

  Quantification: `cfg` is any (min_watermark, max_watermark, max_queue_len); `ops` is any finite
  list of operations — requests (with any outcome of opening a new connection), replies in
  any order (also late and duplicate ones), timers firing for any subset of calls at any
  point, connections dying at any point, the hub running deferred hand-offs at any point,
  `Close()` and `Open()` at any point; a request that makes the pool create a connection either
  sees it open (or fail) at once, or blocks in `Open().wait()` — then further operations,
  including further requests, happen while it is connecting, until `opened sid ok` ends the
  connect with either outcome.  `runOps cfg St.init ops` is the pool's state after
  them.  No theorem below bounds sizes or lengths.
-/
import ScalesModel.Proofs.WatermarkLemmas
namespace Scales.Watermark

/-- `_current_size` is exactly the number of connections that are held by a call (lent to it,
    or being opened for it), cached, or waiting in a deferred hand-off: no slot is ever counted
    without a connection behind it, and every connection being opened is counted. -/
theorem C07_size_accounts_live (cfg : Cfg) (ops : List Op) :
    (runOps cfg St.init ops).size =
      (lentIds (runOps cfg St.init ops).base).length + (runOps cfg St.init ops).cache.length +
        (runOps cfg St.init ops).tasks.length := by
  obtain ⟨hi, he⟩ := inv_runOps (cfg := cfg) ops St.init (inv_init cfg) rfl
  have := hi.size_eq
  rw [view_of_nil he] at this
  simp only [held] at this
  simp at this
  omega

/-- the connections that are alive (created — including those whose `Open()` is still pending —
    not closed by the pool, not dead) never outnumber the counted size, which never exceeds
    `max_watermark`. -/
theorem C07_bounded (cfg : Cfg) (ops : List Op) :
    (aliveIds (runOps cfg St.init ops).base).length ≤ (runOps cfg St.init ops).size ∧
    (runOps cfg St.init ops).size ≤ cfg.max := by
  obtain ⟨hi, he⟩ := inv_runOps (cfg := cfg) ops St.init (inv_init cfg) rfl
  have := aliveIds_le_size hi
  rw [view_of_nil he] at this
  exact ⟨this, hi.size_le⟩

/-- a connection is held by at most one call (whether it is lent to it, being opened for it,
    or still held although the caller has been answered), and a connection held by a call is
    neither cached nor in a deferred hand-off (so it cannot be given to anybody else). -/
theorem C07_exclusive_any (cfg : Cfg) (ops : List Op) (c1 c2 sid : Nat) (st1 st2 : CStat)
    (h1 : (runOps cfg St.init ops).base.calls[c1]? = some st1) (hs1 : st1.holds = some sid)
    (h2 : (runOps cfg St.init ops).base.calls[c2]? = some st2) (hs2 : st2.holds = some sid) :
    c1 = c2 ∧ sid ∉ (runOps cfg St.init ops).cache ∧ sid ∉ (runOps cfg St.init ops).tasks := by
  obtain ⟨hi, he⟩ := inv_runOps (cfg := cfg) ops St.init (inv_init cfg) rfl
  have hv := view_of_nil he
  have a1 := hi.startedLent sid c1 st1 (by rw [hv]; exact h1) hs1
  have a2 := hi.startedLent sid c2 st2 (by rw [hv]; exact h2) hs2
  refine ⟨by rw [a1] at a2; injection a2, ?_, ?_⟩
  · intro hm
    have := (hi.free sid (by simp [held, hm])).2
    rw [a1] at this; simp at this
  · intro hm
    have := (hi.free sid (by simp [held, hm])).2
    rw [a1] at this; simp at this

/-- a connection is never lent to two calls at once. -/
theorem C07_exclusive (cfg : Cfg) (ops : List Op) (c1 c2 sid : Nat)
    (h1 : (runOps cfg St.init ops).base.calls[c1]? = some (.started sid))
    (h2 : (runOps cfg St.init ops).base.calls[c2]? = some (.started sid)) :
    c1 = c2 ∧ sid ∉ (runOps cfg St.init ops).cache ∧ sid ∉ (runOps cfg St.init ops).tasks :=
  C07_exclusive_any cfg ops c1 c2 sid _ _ h1 rfl h2 rfl

/-- while connects are in flight: every connection that is being opened occupies a counted
    slot, so together with the cached and handed-off ones they never exceed `max_watermark`
    (the slot is taken *before* the caller blocks in `Open().wait()`). -/
theorem C07_bounded_during_connect (cfg : Cfg) (ops : List Op) :
    (openingIds (runOps cfg St.init ops).base).length + (runOps cfg St.init ops).cache.length +
      (runOps cfg St.init ops).tasks.length ≤ (runOps cfg St.init ops).size ∧
    (runOps cfg St.init ops).size ≤ cfg.max := by
  have h1 := C07_size_accounts_live cfg ops
  have h2 := (C07_bounded cfg ops).2
  have h3 : (openingIds (runOps cfg St.init ops).base).length ≤
      (lentIds (runOps cfg St.init ops).base).length := by
    apply length_ids_le_of_imp
    intro i _ hi
    simp only [isOpening, isLent] at hi ⊢
    cases h : (runOps cfg St.init ops).base.sinks[i]? with
    | none => rw [h] at hi; simp at hi
    | some k => rw [h] at hi; simp at hi ⊢; exact hi.2
  exact ⟨by omega, h2⟩

/-- a request that arrives while the pool is full — for instance because connects are in
    flight — and finds nothing cached creates no connection: it is queued, or fails with
    MaxWaiters. -/
theorem C07_full_pool_creates_nothing (cfg : Cfg) (ops : List Op) (ok lat : Bool)
    (hcache : (runOps cfg St.init ops).cache = []) (hfull : cfg.max ≤ (runOps cfg St.init ops).size) :
    (step cfg (runOps cfg St.init ops) (.request ok lat)).2.evs =
        [.queued (runOps cfg St.init ops).base.calls.length] ∨
    (step cfg (runOps cfg St.init ops) (.request ok lat)).2.evs =
        [.done (runOps cfg St.init ops).base.calls.length .maxWaiters] := by
  obtain ⟨hi, he⟩ := inv_runOps (cfg := cfg) ops St.init (inv_init cfg) rfl
  generalize runOps cfg St.init ops = s at *
  show (stepSt cfg s (.request ok lat)).evs = _ ∨ (stepSt cfg s (.request ok lat)).evs = _
  simp only [stepSt, get, hcache, dequeue]
  rw [if_neg (by omega)]
  by_cases hq : s.waiters.length + 1 > cfg.maxq
  · rw [if_pos hq]; right; simp [St.emit, he]
  · rw [if_neg hq]; left; simp [St.emit, he]

/-- at most `max_queue_len` calls wait. -/
theorem C07_queue_bounded (cfg : Cfg) (ops : List Op) :
    (pendingIds (runOps cfg St.init ops).base).length ≤ cfg.maxq := by
  obtain ⟨hi, he⟩ := inv_runOps (cfg := cfg) ops St.init (inv_init cfg) rfl
  have := pendingIds_le_waiters hi
  rw [view_of_nil he] at this
  exact Nat.le_trans this hi.wq

/-- a request that finds no cached connection, the pool full and the queue full fails at once
    with MaxWaiters (and nothing else happens). -/
theorem C07_surplus_fails_at_once (cfg : Cfg) (ops : List Op) (ok lat : Bool)
    (hcache : (runOps cfg St.init ops).cache = []) (hfull : cfg.max ≤ (runOps cfg St.init ops).size)
    (hq : cfg.maxq ≤ (runOps cfg St.init ops).waiters.length) :
    (step cfg (runOps cfg St.init ops) (.request ok lat)).2.evs =
      [.done (runOps cfg St.init ops).base.calls.length .maxWaiters] := by
  obtain ⟨hi, he⟩ := inv_runOps (cfg := cfg) ops St.init (inv_init cfg) rfl
  generalize runOps cfg St.init ops = s at *
  show (stepSt cfg s (.request ok lat)).evs = _
  simp only [stepSt, get, hcache, dequeue]
  rw [if_neg (by omega), if_pos (by omega)]
  simp [St.emit, he]

/-- FIFO hand-off and work conservation, part 1: when the hub runs a deferred hand-off while
    calls are waiting, exactly the longest-waiting call is started, on the released connection. -/
theorem C07_fifo (cfg : Cfg) (ops : List Op) (sid c : Nat) (rest : List Nat)
    (ht : (runOps cfg St.init ops).tasks = sid :: rest)
    (hold : oldestPending (runOps cfg St.init ops).base = some c) :
    (step cfg (runOps cfg St.init ops) .run).2.evs = [.sent sid c] ∧
    (step cfg (runOps cfg St.init ops) .run).1.tasks = rest ∧
    (step cfg (runOps cfg St.init ops) .run).1.base.calls[c]? = some (.started sid) := by
  obtain ⟨hi, he⟩ := inv_runOps (cfg := cfg) ops St.init (inv_init cfg) rfl
  exact run_handoff hi he ht hold

/-- FIFO, part 2: on a pool that has never been closed, a fresh request is given a connection
    at once (`started`), or allowed to open one (`connecting`), only when nobody is waiting
    (no overtaking). -/
theorem C07_fifo_no_overtake (cfg : Cfg) (ops : List Op) (ok lat : Bool) (sid : Nat) (st : CStat)
    (hnc : (runOps cfg St.init ops).everClosed = false)
    (hstarted : (step cfg (runOps cfg St.init ops) (.request ok lat)).1.base.calls[
        (runOps cfg St.init ops).base.calls.length]? = some st)
    (hholds : st.holds = some sid) :
    pendingIds (runOps cfg St.init ops).base = [] := by
  obtain ⟨hi, he⟩ := inv_runOps (cfg := cfg) ops St.init (inv_init cfg) rfl
  exact request_no_overtake ok lat hi he hnc hstarted hholds

/-- work conservation, part 2: a reply on a live connection of a pool that is not closed,
    while somebody waits, defers a hand-off of that very connection (which `C07_fifo` then
    gives to the longest-waiting call). -/
theorem C07_work_conserving (cfg : Cfg) (ops : List Op) (c sid : Nat)
    (hst : (runOps cfg St.init ops).base.calls[c]? = some (.started sid))
    (hp : (runOps cfg St.init ops).pstate ≠ .closed)
    (halive : isAlive (runOps cfg St.init ops).base sid = true)
    (hwait : pendingIds (runOps cfg St.init ops).base ≠ []) :
    (step cfg (runOps cfg St.init ops) (.respond c)).1.tasks = (runOps cfg St.init ops).tasks ++ [sid] := by
  obtain ⟨hi, he⟩ := inv_runOps (cfg := cfg) ops St.init (inv_init cfg) rfl
  exact release_defers_handoff hi he hst hp halive hwait

/-- work conservation, part 3: whenever no hand-off is in flight and somebody waits, no live
    connection sits idle. -/
theorem C07_work_conserving_quiescent (cfg : Cfg) (ops : List Op)
    (ht : (runOps cfg St.init ops).tasks = [])
    (hp : pendingIds (runOps cfg St.init ops).base ≠ []) :
    idleIds (runOps cfg St.init ops).base = [] := by
  obtain ⟨hi, he⟩ := inv_runOps (cfg := cfg) ops St.init (inv_init cfg) rfl
  have hv := view_of_nil he
  rw [← hv]
  exact work_quiescent hi ht (by rw [hv]; exact hp)

/-- a waiter that has meanwhile been completed (timed out, or failed by `Close()`) is skipped:
    the hand-off goes to the first waiter that is still waiting, the skipped entries leave the
    queue, and the slot count is unchanged (the connection is lent, not lost). -/
theorem C07_timed_out_waiter_skipped (cfg : Cfg) (ops : List Op) (sid c : Nat) (rest w1 w2 : List Nat)
    (ht : (runOps cfg St.init ops).tasks = sid :: rest)
    (hw : (runOps cfg St.init ops).waiters = w1 ++ c :: w2)
    (hgone : ∀ x ∈ w1, (runOps cfg St.init ops).base.calls[x]? ≠ some .pending)
    (hc : (runOps cfg St.init ops).base.calls[c]? = some .pending) :
    (step cfg (runOps cfg St.init ops) .run).2.evs = [.sent sid c] ∧
    (step cfg (runOps cfg St.init ops) .run).1.waiters = w2 ∧
    (step cfg (runOps cfg St.init ops) .run).1.size = (runOps cfg St.init ops).size := by
  obtain ⟨hi, he⟩ := inv_runOps (cfg := cfg) ops St.init (inv_init cfg) rfl
  generalize runOps cfg St.init ops = s at *
  have hv : s.view = s.base := view_of_nil he
  have hstep : stepSt cfg s .run = procQueue cfg { s with tasks := rest } sid (w1 ++ c :: w2) := by
    show (match s.tasks with
      | [] => s
      | sid :: rest => procQueue cfg { s with tasks := rest } sid s.waiters) = _
    rw [ht, hw]
  have hskip := procQueue_skip cfg sid c w2 w1 { s with tasks := rest }
    (fun x hx => by show s.view.calls[x]? ≠ _; rw [hv]; exact hgone x hx)
    (by show s.view.calls[c]? = _; rw [hv]; exact hc)
  show (stepSt cfg s .run).evs = _ ∧ (stepSt cfg s .run).waiters = _ ∧ (stepSt cfg s .run).size = _
  rw [hstep, hskip]
  refine ⟨?_, rfl, rfl⟩
  show s.evs ++ _ = _
  rw [he]; rfl

/-- if every queued waiter has meanwhile been completed, the connection goes back through
    `_Release` (and `C07_size_accounts_live` holds afterwards like after every operation). -/
theorem C07_timed_out_all_skipped (cfg : Cfg) (ops : List Op) (sid : Nat) (rest : List Nat)
    (ht : (runOps cfg St.init ops).tasks = sid :: rest)
    (hgone : ∀ x ∈ (runOps cfg St.init ops).waiters,
      (runOps cfg St.init ops).base.calls[x]? ≠ some .pending) :
    ∃ s', s'.base = (runOps cfg St.init ops).base ∧ s'.evs = [] ∧ s'.waiters = [] ∧
      s'.cache = (runOps cfg St.init ops).cache ∧ s'.tasks = rest ∧
      s'.size = (runOps cfg St.init ops).size ∧ s'.pstate = (runOps cfg St.init ops).pstate ∧
      (step cfg (runOps cfg St.init ops) .run).1 = finish (release cfg s' sid) := by
  obtain ⟨hi, he⟩ := inv_runOps (cfg := cfg) ops St.init (inv_init cfg) rfl
  generalize runOps cfg St.init ops = s at *
  have hv : s.view = s.base := view_of_nil he
  have hstep : stepSt cfg s .run = procQueue cfg { s with tasks := rest } sid s.waiters := by
    show (match s.tasks with
      | [] => s
      | sid :: rest => procQueue cfg { s with tasks := rest } sid s.waiters) = _
    rw [ht]
  obtain ⟨s', a1, a2, a3, a4, a5, a6, a7, a8⟩ :=
    procQueue_skip_all cfg sid s.waiters { s with tasks := rest } rfl
      (fun x hx => by show s.view.calls[x]? ≠ _; rw [hv]; exact hgone x hx)
  refine ⟨s', a1, by rw [a2]; exact he, a3, a4, a5, a6, a7, ?_⟩
  show finish (stepSt cfg s .run) = _
  rw [hstep, a8]

/-- once traffic has stopped (every call completed, no hand-off in flight) at most
    `min_watermark` connections are still alive. -/
theorem C07_idle_retains_min (cfg : Cfg) (ops : List Op)
    (ht : (runOps cfg St.init ops).tasks = [])
    (hd : allDone (runOps cfg St.init ops).base = true) :
    (aliveIds (runOps cfg St.init ops).base).length ≤ cfg.min := by
  obtain ⟨hi, he⟩ := inv_runOps (cfg := cfg) ops St.init (inv_init cfg) rfl
  have hv := view_of_nil he
  rw [← hv]
  exact idle_retains hi ht (by rw [hv]; exact hd)

/-- a reply arriving on a connection that has died, on a pool that is not closed: the pool
    closes and every waiting call receives exactly one response in that operation, which is
    ServiceClosed. -/
theorem C07_close_fails_waiters_once (cfg : Cfg) (ops : List Op) (c0 sid c : Nat)
    (hst : (runOps cfg St.init ops).base.calls[c0]? = some (.started sid))
    (hp : (runOps cfg St.init ops).pstate ≠ .closed)
    (hdead : isAlive (runOps cfg St.init ops).base sid = false)
    (hc : (runOps cfg St.init ops).base.calls[c]? = some .pending) :
    (step cfg (runOps cfg St.init ops) (.respond c0)).1.pstate = .closed ∧
    Ev.done c .serviceClosed ∈ (step cfg (runOps cfg St.init ops) (.respond c0)).2.evs ∧
    doneCount c (step cfg (runOps cfg St.init ops) (.respond c0)).2.evs = 1 := by
  obtain ⟨hi, he⟩ := inv_runOps (cfg := cfg) ops St.init (inv_init cfg) rfl
  exact dead_release_once hi he hst hp hdead hc

/-- `Close()` from above: the pool is closed, every waiting call receives exactly one
    response, ServiceClosed, and is complete afterwards. -/
theorem C07_close_op_fails_waiters_once (cfg : Cfg) (ops : List Op) (c : Nat)
    (hc : (runOps cfg St.init ops).base.calls[c]? = some .pending) :
    (step cfg (runOps cfg St.init ops) .close).1.pstate = .closed ∧
    Ev.done c .serviceClosed ∈ (step cfg (runOps cfg St.init ops) .close).2.evs ∧
    doneCount c (step cfg (runOps cfg St.init ops) .close).2.evs = 1 ∧
    (step cfg (runOps cfg St.init ops) .close).1.base.calls[c]? = some .done := by
  obtain ⟨hi, he⟩ := inv_runOps (cfg := cfg) ops St.init (inv_init cfg) rfl
  exact close_once hi he hc

/-- `Open()` of the pool at any point, with a first connection that opens or fails to: either
    the pool ends Closed (it was closed already, or `_Release` shut it down on the connection
    that failed to open) and the open fails with ServiceClosedError, or the pool ends Open and no
    exception escapes.  (All other theorems hold across such operations as well: no hypothesis
    on the operation list is left.) -/
theorem C07_open_fails_iff_closed (cfg : Cfg) (ops : List Op) (ok : Bool) :
    ((step cfg (runOps cfg St.init ops) (.openPool ok)).1.pstate = .closed ∧
      Ev.raised "ServiceClosedError" ∈ (step cfg (runOps cfg St.init ops) (.openPool ok)).2.evs) ∨
    ((step cfg (runOps cfg St.init ops) (.openPool ok)).1.pstate = .opened ∧
      ∀ e ∈ (step cfg (runOps cfg St.init ops) (.openPool ok)).2.evs, isRaised e = false) := by
  obtain ⟨hi, he⟩ := inv_runOps (cfg := cfg) ops St.init (inv_init cfg) rfl
  generalize runOps cfg St.init ops = s at *
  have hok := (stepSt_ok (cfg := cfg) (m := ⟨s.base, s.pstate.code, s.tasks, true, openingIds s.base⟩)
    (.openPool ok) hi ⟨rfl, rfl, rfl, fun h => by simp at h, he, fun x hx => mem_openingIds.2 hx⟩ rfl).raise
  have hstep : stepSt cfg s (.openPool ok) = openEnd (match get cfg s ok with
     | (s1, .sink sid _) => release cfg s1 sid
     | (s1, _) => s1) := rfl
  show ((stepSt cfg s (.openPool ok)).pstate = .closed ∧ _ ∈ (stepSt cfg s (.openPool ok)).evs) ∨
    ((stepSt cfg s (.openPool ok)).pstate = .opened ∧ ∀ e ∈ (stepSt cfg s (.openPool ok)).evs, isRaised e = false)
  rw [hstep] at hok ⊢
  generalize (match get cfg s ok with
     | (s1, .sink sid _) => release cfg s1 sid
     | (s1, _) => s1) = x at hok ⊢
  unfold openEnd at hok ⊢
  by_cases hp : x.pstate = .closed
  · rw [if_pos hp]; left; exact ⟨hp, by simp [St.emit]⟩
  · rw [if_neg hp] at hok ⊢
    right
    refine ⟨rfl, ?_⟩
    unfold clRaise at hok
    cases hf : List.filter isRaised (obsOf { x with pstate := PState.opened }).evs with
    | nil =>
      intro e he'
      have : e ∉ List.filter isRaised (obsOf { x with pstate := PState.opened }).evs := by rw [hf]; simp
      rw [List.mem_filter] at this
      by_contra hne
      exact this ⟨he', by simpa using hne⟩
    | cons a l =>
      rw [hf] at hok
      simp [obsOf, PState.code] at hok

/-- **capacity is never leaked** — after every history (any configuration, any operation list):

    * every connection the model's picture shows as *being opened* for a call is one whose
      `Open()` is really pending: the specification's own bookkeeping (`Mon.connects`: a
      `connecting` event seen, no `opened sid _` operation since), run over the model's history,
      lists it — a call that was answered by its timer while connecting does not keep a
      connection "held" beyond the end of the connect;
    * the size counter is exactly: connections lent in the implementation's sense (a request
      was handed to them and their release has not happened) + connects in flight + cached +
      deferred hand-offs;
    * every live connection is one of these: none is dropped on the floor. -/
theorem C07_no_capacity_leak (cfg : Cfg) (ops : List Op) :
    (∀ sid ∈ openingIds (runOps cfg St.init ops).base,
        sid ∈ (monRun {} (comp.modelTrace cfg ops)).connects) ∧
    (runOps cfg St.init ops).size =
      (busyIds (runOps cfg St.init ops).base).length + (openingIds (runOps cfg St.init ops).base).length +
        (runOps cfg St.init ops).cache.length + (runOps cfg St.init ops).tasks.length ∧
    (∀ sid, isAlive (runOps cfg St.init ops).base sid = true →
      sid ∈ busyIds (runOps cfg St.init ops).base ∨ sid ∈ openingIds (runOps cfg St.init ops).base ∨
      sid ∈ (runOps cfg St.init ops).cache ∨ sid ∈ (runOps cfg St.init ops).tasks) := by
  have hcpl := coupled_trace (cfg := cfg) ops St.init {} (inv_init cfg) coupled_init
  obtain ⟨hi, he⟩ := inv_runOps (cfg := cfg) ops St.init (inv_init cfg) rfl
  have hsz := C07_size_accounts_live cfg ops
  have hv := view_of_nil he
  refine ⟨fun sid hs => hcpl.conn sid (mem_openingIds.1 hs), ?_, ?_⟩
  · rw [hsz, lentIds_split]
  · intro sid hal
    rcases hi.aliveHeld sid (by rw [hv]; exact hal) with h | h
    · rw [hv] at h
      rcases busy_or_opening h with h1 | h1
      · exact Or.inl (mem_busyIds.2 h1)
      · exact Or.inr (Or.inl (mem_openingIds.2 h1))
    · simp only [held, Option.toList, List.append_nil, List.mem_append] at h
      rcases h with h | h
      · exact Or.inr (Or.inr (Or.inl h))
      · exact Or.inr (Or.inr (Or.inr h))

/-- when no hand-off is deferred: the size counter equals |lent (request handed over, not yet
    released)| + |connects in flight| + |cached|, and every live connection is lent, being opened
    or cached. -/
theorem C07_no_leak_without_handoff (cfg : Cfg) (ops : List Op) (ht : (runOps cfg St.init ops).tasks = []) :
    (runOps cfg St.init ops).size =
      (busyIds (runOps cfg St.init ops).base).length + (openingIds (runOps cfg St.init ops).base).length +
        (runOps cfg St.init ops).cache.length ∧
    (∀ sid, isAlive (runOps cfg St.init ops).base sid = true →
      sid ∈ busyIds (runOps cfg St.init ops).base ∨ sid ∈ openingIds (runOps cfg St.init ops).base ∨
      sid ∈ (runOps cfg St.init ops).cache) := by
  obtain ⟨_, h2, h3⟩ := C07_no_capacity_leak cfg ops
  rw [ht] at h2 h3
  refine ⟨by simpa using h2, fun sid hal => ?_⟩
  rcases h3 sid hal with h | h | h | h
  · exact Or.inl h
  · exact Or.inr (Or.inl h)
  · exact Or.inr (Or.inr h)
  · simp at h

/-- the end of a connect (`Open()` of connection `sid` completes, with either outcome) while the
    picture shows `sid` as being opened: the blocked caller resumes and hands the request to the
    connection — also when the caller has meanwhile been answered by its timer (`orphan`): then
    the connection is held by a zombie call until the server answers or the connection dies.
    Either way the connection is not being opened any more but lent in the implementation's
    sense, and the size counter is unchanged: the connection is not lost. -/
theorem C07_connect_end_hands_over (cfg : Cfg) (ops : List Op) (sid : Nat) (ok : Bool)
    (ho : sid ∈ openingIds (runOps cfg St.init ops).base) :
    ∃ c, (step cfg (runOps cfg St.init ops) (.opened sid ok)).2.evs = [.sent sid c] ∧
      (((runOps cfg St.init ops).base.calls[c]? = some (.connecting sid) ∧
        (step cfg (runOps cfg St.init ops) (.opened sid ok)).1.base.calls[c]? = some (.started sid)) ∨
       ((runOps cfg St.init ops).base.calls[c]? = some (.orphan sid) ∧
        (step cfg (runOps cfg St.init ops) (.opened sid ok)).1.base.calls[c]? = some (.zombie sid))) ∧
      sid ∉ openingIds (step cfg (runOps cfg St.init ops) (.opened sid ok)).1.base ∧
      sid ∈ busyIds (step cfg (runOps cfg St.init ops) (.opened sid ok)).1.base ∧
      (step cfg (runOps cfg St.init ops) (.opened sid ok)).1.size = (runOps cfg St.init ops).size := by
  obtain ⟨hi, he⟩ := inv_runOps (cfg := cfg) ops St.init (inv_init cfg) rfl
  generalize runOps cfg St.init ops = s at *
  exact opened_hands_over hi he ho

/-- an operation `opened sid ok` never leaves `sid` "being opened" (whatever the picture was). -/
theorem C07_connect_end_clears (cfg : Cfg) (ops : List Op) (sid : Nat) (ok : Bool) :
    sid ∉ openingIds (step cfg (runOps cfg St.init ops) (.opened sid ok)).1.base := by
  intro h
  have h1 := mem_openingIds.1 h
  have h2 := opened_clears cfg (runOps cfg St.init ops) sid ok
  have : (step cfg (runOps cfg St.init ops) (.opened sid ok)).1.base =
      (stepSt cfg (runOps cfg St.init ops) (.opened sid ok)).view := rfl
  rw [this, h2] at h1
  cases h1

/-- the answer of the server on a connection held by a zombie call (its caller was answered by the
    timer while the pool was still connecting) releases the connection — `_Release` is the first
    thing that happens — and completes the call. -/
theorem C07_zombie_answer_releases (cfg : Cfg) (ops : List Op) (c sid : Nat)
    (hz : (runOps cfg St.init ops).base.calls[c]? = some (.zombie sid)) :
    (∃ tail, (step cfg (runOps cfg St.init ops) (.respond c)).2.evs = .rel sid :: tail) ∧
    (step cfg (runOps cfg St.init ops) (.respond c)).1.base.calls[c]? = some .done := by
  obtain ⟨hi, he⟩ := inv_runOps (cfg := cfg) ops St.init (inv_init cfg) rfl
  generalize runOps cfg St.init ops = s at *
  exact zombie_answer hi he hz

/-- a call holds its connection until the server answers: the answer on a connection held by a
    started call or by a zombie call begins with `_Release` of that very connection (which caches
    it, defers a hand-off, or closes it and gives the slot back — `C07_no_capacity_leak` holds
    afterwards like after every operation). -/
theorem C07_answer_releases_connection (cfg : Cfg) (ops : List Op) (c sid : Nat)
    (hst : (runOps cfg St.init ops).base.calls[c]? = some (.started sid) ∨
      (runOps cfg St.init ops).base.calls[c]? = some (.zombie sid)) :
    ∃ tail, (step cfg (runOps cfg St.init ops) (.respond c)).2.evs = .rel sid :: tail := by
  obtain ⟨hi, he⟩ := inv_runOps (cfg := cfg) ops St.init (inv_init cfg) rfl
  exact answer_rel hi he hst

/-- once traffic has stopped (every call complete — a zombie call is complete only when its
    connection has been released — and no hand-off deferred): nothing is lent, the live connections
    are exactly the cached ones that have not died, and the size counter counts exactly the cached
    connections. -/
theorem C07_quiescent_live_are_cached (cfg : Cfg) (ops : List Op)
    (ht : (runOps cfg St.init ops).tasks = [])
    (hd : allDone (runOps cfg St.init ops).base = true) :
    lentIds (runOps cfg St.init ops).base = [] ∧
    (∀ sid, isAlive (runOps cfg St.init ops).base sid = true → sid ∈ (runOps cfg St.init ops).cache) ∧
    (runOps cfg St.init ops).size = (runOps cfg St.init ops).cache.length := by
  obtain ⟨hi, he⟩ := inv_runOps (cfg := cfg) ops St.init (inv_init cfg) rfl
  have hsz := C07_size_accounts_live cfg ops
  have hv := view_of_nil he
  have hnl := lent_nil_of_allDone hi (by rw [hv]; exact hd)
  rw [hv] at hnl
  have hl : lentIds (runOps cfg St.init ops).base = [] := by
    rw [List.eq_nil_iff_forall_not_mem]
    intro x hx
    have := mem_lentIds.1 hx
    rw [hnl x] at this; simp at this
  refine ⟨hl, ?_, ?_⟩
  · intro sid hal
    rcases hi.aliveHeld sid (by rw [hv]; exact hal) with h | h
    · rw [hv, hnl sid] at h; simp at h
    · simpa [held, ht] using h
  · rw [hsz, hl, ht]; simp

/-- the model's history satisfies the executable specification — the predicate the harness
    evaluates on the implementation's observations — for every configuration and every
    operation list (`wf` no longer excludes anything). -/
theorem C07_model_satisfies_spec (cfg : Cfg) (ops : List Op) (hwf : comp.wf cfg ops = true) :
    comp.spec cfg (comp.modelTrace cfg ops) = .ok :=
  (spec_trace (cfg := cfg) ops St.init {} (inv_init cfg) coupled_init hwf).1

/-! ### the hypotheses are satisfiable: concrete histories -/

/-- (1,1,2): call 0 holds the only connection, call 1 queues and times out, call 2 queues;
    the reply to call 0 defers a hand-off, which skips call 1 and starts call 2. -/
example :
    let ops := [Op.request true false, .request true false, .request true false, .timeout 1, .respond 0]
    (runOps ⟨1, 1, 2⟩ St.init ops).tasks = [0] ∧ (runOps ⟨1, 1, 2⟩ St.init ops).waiters = [1, 2] ∧
    (runOps ⟨1, 1, 2⟩ St.init ops).base.calls[1]? = some .done ∧
    (runOps ⟨1, 1, 2⟩ St.init ops).base.calls[2]? = some .pending ∧
    (step ⟨1, 1, 2⟩ (runOps ⟨1, 1, 2⟩ St.init ops) .run).2.evs = [.sent 0 2] := by
  decide

/-- (0,2,1): a connection dies while lent; its release closes the pool and fails the waiter. -/
example :
    let ops := [Op.request true false, .request true false, .request true false, .die 0]
    (runOps ⟨0, 2, 1⟩ St.init ops).base.calls[0]? = some (.started 0) ∧
    isAlive (runOps ⟨0, 2, 1⟩ St.init ops).base 0 = false ∧
    (runOps ⟨0, 2, 1⟩ St.init ops).base.calls[2]? = some .pending ∧
    (step ⟨0, 2, 1⟩ (runOps ⟨0, 2, 1⟩ St.init ops) (.respond 0)).2.evs =
      [.rel 0, .done 2 .serviceClosed, .done 0 .reply] := by
  decide

/-- (1,1,0): the queue is full (length 0): the surplus request fails with MaxWaiters. -/
example :
    (runOps ⟨1, 1, 0⟩ St.init [Op.request true false]).cache = [] ∧
    (step ⟨1, 1, 0⟩ (runOps ⟨1, 1, 0⟩ St.init [Op.request true false]) (.request true false)).2.evs =
      [.done 1 .maxWaiters] := by
  decide

/-- traffic stops: min_watermark 1 of 2 connections is retained. -/
example :
    let ops := [Op.request true false, .request true false, .respond 0, .respond 1]
    allDone (runOps ⟨1, 2, 1⟩ St.init ops).base = true ∧ (runOps ⟨1, 2, 1⟩ St.init ops).tasks = [] ∧
    aliveIds (runOps ⟨1, 2, 1⟩ St.init ops).base = [1] ∧ (runOps ⟨1, 2, 1⟩ St.init ops).cache = [1] := by
  decide

/-- (0,2,3): two calls are connecting (both slots taken), a third arrives and has to queue;
    call 0's timer fires while it is connecting; when its connect ends the request is still
    sent, and the connection's answer gives the connection to the waiter. -/
example :
    let ops := [Op.request true true, .request true true, .request true true, .timeout 0]
    (runOps ⟨0, 2, 3⟩ St.init ops).size = 2 ∧ openingIds (runOps ⟨0, 2, 3⟩ St.init ops).base = [0, 1] ∧
    (runOps ⟨0, 2, 3⟩ St.init ops).waiters = [2] ∧
    (runOps ⟨0, 2, 3⟩ St.init ops).base.calls[0]? = some (.orphan 0) ∧
    (step ⟨0, 2, 3⟩ (runOps ⟨0, 2, 3⟩ St.init ops) (.opened 0 true)).2.evs = [.sent 0 0] ∧
    (step ⟨0, 2, 3⟩ (step ⟨0, 2, 3⟩ (runOps ⟨0, 2, 3⟩ St.init ops) (.opened 0 true)).1 (.respond 0)).2.evs =
      [.rel 0] ∧
    (step ⟨0, 2, 3⟩ (step ⟨0, 2, 3⟩ (runOps ⟨0, 2, 3⟩ St.init ops) (.opened 0 true)).1 (.respond 0)).1.tasks =
      [0] := by
  decide

/-- (1,1,1), the scenario of the leak: the only slot is taken by a connect, the caller's timer
    fires while the pool is connecting, then the connect ends: the request is still handed to the
    connection (held by a zombie call, lent in the implementation's sense), nothing is being
    opened any more, and the specification's list of pending connects is empty; the server's answer
    then returns the connection to the cache and the next request is served on it. -/
example :
    let ops := [Op.request true true, .timeout 0]
    openingIds (runOps ⟨1, 1, 1⟩ St.init ops).base = [0] ∧
    (monRun {} (comp.modelTrace ⟨1, 1, 1⟩ ops)).connects = [0] ∧
    (runOps ⟨1, 1, 1⟩ St.init ops).base.calls[0]? = some (.orphan 0) ∧
    (step ⟨1, 1, 1⟩ (runOps ⟨1, 1, 1⟩ St.init ops) (.opened 0 true)).2.evs = [.sent 0 0] ∧
    (monRun {} (comp.modelTrace ⟨1, 1, 1⟩ (ops ++ [.opened 0 true]))).connects = [] ∧
    busyIds (runOps ⟨1, 1, 1⟩ St.init (ops ++ [.opened 0 true])).base = [0] ∧
    (runOps ⟨1, 1, 1⟩ St.init (ops ++ [.opened 0 true, .respond 0])).cache = [0] ∧
    allDone (runOps ⟨1, 1, 1⟩ St.init (ops ++ [.opened 0 true, .respond 0])).base = true ∧
    (step ⟨1, 1, 1⟩ (runOps ⟨1, 1, 1⟩ St.init (ops ++ [.opened 0 true, .respond 0])) (.request true false)).2.evs =
      [.sent 0 1] := by
  decide

/-- a first `Open()` whose connection fails to open: the pool shuts down, gives the slot back,
    stays Closed, and the open fails. -/
example :
    (step ⟨1, 2, 1⟩ St.init (.openPool false)).2 =
      ⟨[.created 0 false, .rel 0, .raised "ServiceClosedError"], 0, [], [], [], 4⟩ ∧
    comp.wf ⟨1, 2, 1⟩ [.openPool false, .request true false] = true := by
  decide

end Scales.Watermark
