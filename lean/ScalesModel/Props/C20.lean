/-
  Props/C20.lean — property theorems for C20 (generated proxies and URI parsing).
  Statements rely on Model/Proxy.lean, Model/Uri.lean and their adapters; helper lemmas live
  in Proofs/ProxyLemmas.lean and Proofs/UriLemmas.lean.

  Quantification: an interface is any list of classes, each any list of function names
  (any characters, so with and without leading/trailing underscores; inheritance is the
  list having more than one class); arguments are any integer lists and any keyword lists;
  a URI is any list of characters, a rendered URI lists any number n ≥ 1 of endpoints.
-/
import ScalesModel.Proofs.ProxyLemmas
import ScalesModel.Proofs.UriLemmas
namespace Scales.C20
section proxy
open Scales.Proxy

theorem mem_dedup (l : List Name) (a : Name) : a ∈ dedup l ↔ a ∈ l := by
  induction l with
  | nil => simp [dedup]
  | cons x xs ih =>
    simp only [dedup, List.mem_cons, List.mem_filter, ih]
    by_cases h : a = x <;> simp [h]

/-- The user methods are exactly the functions of any class of the interface (inheritance
    flattened) whose name neither starts nor ends with two underscores. -/
theorem C20_user_methods (classes : List (List Name)) (m : Name) :
    m ∈ userMethods classes ↔ (∃ c ∈ classes, m ∈ c) ∧ isUserMethod m = true := by
  simp [userMethods, mem_dedup, List.mem_flatten]

/-- **Both forms (partial, K2 excluded).**  If no user method is named `m ++ "_async"` for a
    user method `m`, then for every user method `m` the generated class has the attribute
    `m`, the blocking form handing `m` to the dispatcher, and the attribute `m ++ "_async"`,
    the asynchronous form handing `m` to the dispatcher. -/
theorem C20_both_forms_partial (classes : List (List Name))
    (hnc : noCollision (userMethods classes) = true) (m : Name) (hm : m ∈ userMethods classes) :
    dget m (table (userMethods classes)) = some (.sync, m) ∧
    dget (m ++ asyncSuffix) (table (userMethods classes)) = some (.async, m) := by
  refine ⟨table_sync _ m hm ?_, table_async _ m hm⟩
  intro m' hm' heq
  simp only [noCollision, List.all_eq_true, Bool.not_eq_true', List.contains_eq_mem,
    decide_eq_false_iff_not] at hnc
  exact hnc m' hm' (heq ▸ hm)

/-- The `_async` form exists for every user method even without the hypothesis. -/
theorem C20_async_form_always (classes : List (List Name)) (m : Name) (hm : m ∈ userMethods classes) :
    dget (m ++ asyncSuffix) (table (userMethods classes)) = some (.async, m) :=
  table_async _ m hm

/-- Nothing else is generated: every generated attribute is the blocking form `m` or the
    asynchronous form `m ++ "_async"` of a user method `m`. -/
theorem C20_only_user_methods (classes : List (List Name)) (n : Name) (g : Gen)
    (h : dget n (table (userMethods classes)) = some g) :
    g.2 ∈ userMethods classes ∧
      ((g.1 = .sync ∧ n = g.2) ∨ (g.1 = .async ∧ n = g.2 ++ asyncSuffix)) :=
  table_origin _ n g h

/-- Forwarding is the identity on (method name, positional arguments, keyword arguments);
    the blocking form makes the caller wait for the result and yields its value or raises its
    error, the asynchronous form returns the pending result at once. -/
theorem C20_forwarding_identity (g : Gen) (args : List Int) (kwargs : List (Name × Int)) (late : Bool)
    (out : Outcome) :
    (callGen g args kwargs late out).method = g.2 ∧ (callGen g args kwargs late out).args = args ∧
    (callGen g args kwargs late out).kwargs = kwargs ∧
    (g.1 = .sync → (callGen g args kwargs late out).blocked = late ∧
        (callGen g args kwargs late out).ret = out.ret) ∧
    (g.1 = .async → (callGen g args kwargs late out).blocked = false ∧
        (callGen g args kwargs late out).ret = .pending) := by
  obtain ⟨f, m⟩ := g
  cases f <;> simp [callGen]

/-- **K2 (known finding).**  For the interface with methods `foo` and `foo_async` the
    hypothesis of `C20_both_forms_partial` fails and so does its conclusion: the attribute
    `foo_async` is the asynchronous form of `foo`; the blocking form of the user's
    `foo_async` does not exist, and the executable specification rejects the model's trace. -/
theorem C20_async_collision_counterexample :
    let foo : Name := ['f', 'o', 'o']
    let cfg : Cfg := ⟨[[foo, foo ++ asyncSuffix]]⟩
    noCollision (userMethods cfg.classes) = false ∧
    dget (foo ++ asyncSuffix) (table (userMethods cfg.classes)) = some (.async, foo) ∧
    (spec cfg (comp.modelTrace cfg [.call (foo ++ asyncSuffix) [] [] false (.ok 1)])).isOk = false := by
  decide

/-- **C20 (proxy), specification level.**  For every interface that shadows no `_ProxyBase`
    attribute and every list of calls none of which targets an attribute that is both a user
    method and another user method's `_async` name, the model's history satisfies `spec`. -/
theorem C20_model_satisfies_spec (cfg : Cfg) (ops : List Op) (hw : comp.wf cfg ops = true) :
    spec cfg (comp.modelTrace cfg ops) = .ok := by
  simp only [comp, wf, Bool.and_eq_true] at hw
  exact specGo_model cfg ops 0 hw.2

example : noCollision (userMethods [[['f', 'o', 'o'], ['_', 'b']], [['_', '_', 'x'], ['y', '_', '_']]]) = true := by
  decide
example : userMethods [[['f', 'o', 'o'], ['_', 'b']], [['_', '_', 'x'], ['y', '_', '_'], ['f', 'o', 'o']]]
    = [['f', 'o', 'o'], ['_', 'b']] := by decide

end proxy

section uri
open Scales.Uri

/-- characters a tcp host must not contain (DESIGN §4, out-of-domain inputs) -/
def hostOk (h : Str) : Bool := h.all (fun c => ![',', ':', '/', '#', '?', '@', '[', ']'].contains c)

theorem hostOk_not (h : Str) (hh : hostOk h = true) (c : Char) (hc : c ∈ h) :
    c ≠ ',' ∧ c ≠ ':' ∧ c ≠ '/' ∧ c ≠ '#' ∧ c ≠ '?' ∧ c ≠ '[' ∧ c ≠ ']' := by
  have := (List.all_eq_true.mp hh) c hc
  simp at this
  tauto

theorem renderServer_chars (ep : Str × Nat) (hh : hostOk ep.1 = true) (c : Char)
    (hc : c ∈ renderServer ep) : c ≠ ',' ∧ c ≠ '/' ∧ c ≠ '#' ∧ c ≠ '?' ∧ c ≠ '[' ∧ c ≠ ']' := by
  simp only [renderServer, List.mem_append, List.mem_cons] at hc
  rcases hc with hc | rfl | hc
  · have := hostOk_not _ hh c hc; tauto
  · decide
  · have := isDigit_not c (natToDec_digits _ c hc); tauto

/-- **tcp round trip.**  A tcp:// URI listing n ≥ 1 endpoints host:port (hosts free of the
    delimiters `, : / # ? @ [ ]`, any port number) parses to exactly those endpoints, in order. -/
theorem C20_tcp_roundtrip (eps : List (Str × Nat)) (hne : eps ≠ [])
    (hh : ∀ ep ∈ eps, hostOk ep.1 = true) : parseUri (renderTcp eps) = .tcp eps := by
  have hbody : ∀ c ∈ intercalate ',' (eps.map renderServer),
      c ≠ '/' ∧ c ≠ '#' ∧ c ≠ '?' ∧ c ≠ '[' ∧ c ≠ ']' := by
    intro c hc
    rcases mem_intercalate _ _ _ hc with rfl | ⟨p, hp, hcp⟩
    · decide
    · simp only [List.mem_map] at hp
      obtain ⟨ep, hep, rfl⟩ := hp
      have := renderServer_chars ep (hh ep hep) c hcp; tauto
  have htw := takeWhile_stop (fun c => !isNetlocEnd c) (intercalate ',' (eps.map renderServer)) []
    (by
      intro c hc
      have := hbody c hc
      simp [isNetlocEnd, this.1, this.2.1, this.2.2.1]) (Or.inl rfl)
  simp only [List.append_nil] at htw
  have hnb1 : (intercalate ',' (eps.map renderServer)).contains '[' = false := by
    simp only [List.contains_eq_mem, decide_eq_false_iff_not]
    intro hc; exact (hbody _ hc).2.2.2.1 rfl
  have hnb2 : (intercalate ',' (eps.map renderServer)).contains ']' = false := by
    simp only [List.contains_eq_mem, decide_eq_false_iff_not]
    intro hc; exact (hbody _ hc).2.2.2.2 rfl
  have hsplit : splitOn ',' (intercalate ',' (eps.map renderServer)) = eps.map renderServer := by
    apply splitOn_intercalate
    · simpa using hne
    · intro p hp hc
      simp only [List.mem_map] at hp
      obtain ⟨ep, hep, rfl⟩ := hp
      exact (renderServer_chars ep (hh ep hep) _ hc).1 rfl
  have hmap : (eps.map renderServer).mapM parseServer = some eps := by
    apply mapM_map_some
    intro ep hep
    apply parseServer_render
    intro hc
    exact (hostOk_not _ (hh ep hep) _ hc).2.1 rfl
  have hscheme : splitScheme (renderTcp eps) =
      (tcpScheme, '/' :: '/' :: intercalate ',' (eps.map renderServer)) := by
    simp [splitScheme, renderTcp, cut, tcpScheme, isAlpha, isSchemeChar, isDigit, lower]
  unfold parseUri
  simp only [hscheme, splitNetloc, htw.1, htw.2, hnb1, hnb2]
  simp [handleTcp, hsplit, hmap]

/-- **zk fields.**  A zk:// URI with hosts (free of `/ ? # [ ]`), a path (empty or starting with
    `/`, free of `? #`) and an optional non-empty endpoint name after `#` parses to a
    ZooKeeper-backed provider for exactly those hosts, that path and that endpoint name. -/
theorem C20_zk_fields (hosts path : Str) (endpoint : Option Str)
    (hhosts : ∀ c ∈ hosts, c ≠ '/' ∧ c ≠ '?' ∧ c ≠ '#' ∧ c ≠ '[' ∧ c ≠ ']')
    (hpath : (path = [] ∨ ∃ rest, path = '/' :: rest) ∧ ∀ c ∈ path, c ≠ '?' ∧ c ≠ '#')
    (hep : endpoint ≠ some []) :
    parseUri (renderZk hosts path endpoint) = .zk hosts path endpoint := by
  have hscheme : ∀ tail, splitScheme (['z', 'k', ':', '/', '/'] ++ tail) = (zkScheme, '/' :: '/' :: tail) := by
    intro tail
    simp [splitScheme, cut, zkScheme, isAlpha, isSchemeChar, isDigit, lower]
  have hnb1 : hosts.contains '[' = false := by
    simp only [List.contains_eq_mem, decide_eq_false_iff_not]
    intro hc; exact (hhosts _ hc).2.2.2.1 rfl
  have hnb2 : hosts.contains ']' = false := by
    simp only [List.contains_eq_mem, decide_eq_false_iff_not]
    intro hc; exact (hhosts _ hc).2.2.2.2 rfl
  have hhp : ∀ c ∈ hosts, (!isNetlocEnd c) = true := by
    intro c hc
    have := hhosts c hc
    simp [isNetlocEnd, this.1, this.2.1, this.2.2.1]
  have hq : path.contains '?' = false := by
    simp only [List.contains_eq_mem, decide_eq_false_iff_not]
    intro hc; exact (hpath.2 _ hc).1 rfl
  have hf : path.contains '#' = false := by
    simp only [List.contains_eq_mem, decide_eq_false_iff_not]
    intro hc; exact (hpath.2 _ hc).2 rfl
  have hfm : '#' ∉ path := fun hc => (hpath.2 _ hc).2 rfl
  have hqm : '?' ∉ path := fun hc => (hpath.2 _ hc).1 rfl
  cases endpoint with
  | none =>
    have htw := takeWhile_stop (fun c => !isNetlocEnd c) hosts path hhp (by
      rcases hpath.1 with h | ⟨rest, h⟩
      · exact Or.inl h
      · exact Or.inr ⟨'/', rest, h, by decide⟩)
    unfold parseUri renderZk
    simp only [List.append_nil, List.append_assoc, hscheme, splitNetloc, htw.1, htw.2, hnb1, hnb2]
    simp [hqm, hfm, zkScheme, tcpScheme]
  | some f =>
    have hfne : f ≠ [] := fun h => hep (by rw [h])
    have htw := takeWhile_stop (fun c => !isNetlocEnd c) hosts (path ++ '#' :: f) hhp (by
      rcases hpath.1 with h | ⟨rest, h⟩
      · subst h; exact Or.inr ⟨'#', f, rfl, by decide⟩
      · subst h; exact Or.inr ⟨'/', rest ++ '#' :: f, rfl, by decide⟩)
    unfold parseUri renderZk
    simp only [List.append_assoc, hscheme, splitNetloc, htw.1, htw.2, hnb1, hnb2]
    have hc : (path ++ '#' :: f).contains '#' = true := by simp
    simp only [hc, if_true, cut_append '#' path f hfm]
    simp [hqm, hfne, zkScheme, tcpScheme]

/-- **Other schemes are rejected**: whatever the URI, if its scheme is neither tcp nor zk
    (case-insensitively) parsing yields an error, never a provider. -/
theorem C20_other_scheme_rejected (s : Str) (h1 : schemeOf s ≠ tcpScheme) (h2 : schemeOf s ≠ zkScheme) :
    ∃ e, parseUri s = .err e := by
  unfold parseUri
  unfold schemeOf at h1 h2
  dsimp only
  split
  · exact ⟨_, rfl⟩
  · exact ⟨_, rfl⟩

/-- **C20 (uri), specification level.** -/
theorem C20_uri_model_satisfies_spec (ops : List Op) : spec () (comp.modelTrace () ops) = .ok := by
  have : ∀ (ops : List Op) (idx : Nat), specGo idx (comp.trace () () ops) = .ok := by
    intro ops
    induction ops with
    | nil => intros; rfl
    | cons op ops ih =>
      intro idx
      simp only [TComp.trace, comp, specGo]
      apply Scales.Proxy.Verdict_and_ok
      · cases op with
        | parse s =>
          simp only [specObs, step]
          split
          · rename_i hs
            simp only [Bool.and_eq_true, bne_iff_ne, ne_eq, decide_eq_true_eq] at hs
            obtain ⟨e, he⟩ := C20_other_scheme_rejected s (by simpa using hs.1) (by simpa using hs.2)
            simp [he, Result.isErr]
          · split <;> simp_all
      · exact ih (idx + 1)
  exact this ops 0

example : parseUri (renderTcp [(['h', '1'], 80), (['h', '2'], 8081)]) = .tcp [(['h', '1'], 80), (['h', '2'], 8081)] := by
  decide
example : renderTcp [(['h'], 80), (['g'], 0)] = "tcp://h:80,g:0".toList := by decide
example : parseUri "zk://z1:2181,z2:2181/a/b#ep".toList =
    .zk "z1:2181,z2:2181".toList "/a/b".toList (some "ep".toList) := by decide
example : parseUri "http://h:1".toList = .err .nohandler := by decide
example : parseUri "tcp://h".toList = .err .value := by decide

end uri
end Scales.C20
