/-
  Props/C08.lean — property theorems for C08 (transports fail in-flight requests once and
  report dead connections).  Components: `serial` (Model/Serial.lean, Adapter/Serial.lean) and
  `muxt` (Model/MuxT.lean, Adapter/MuxT.lean).  The proofs live in the namespaces of the two
  models (Proofs/SerialTheorems.lean, Proofs/MuxTTheorems.lean, on top of Proofs/SerialLemmas,
  Proofs/MuxTLemmas, Proofs/TransportLemmas); this file only states the theorems.

  Quantification: every operation list (open / request / outcome of each blocking I/O call /
  several reads of the mux receive loop returning without a yield in between, `burst` /
  such reads together with a failing read, a failing write or a `Close()` that lands in the
  middle of the drain they cause — before the reads are taken, before the `_ProcessReply`
  greenlets of their frames run, or after those ran and before the greenlets they woke resume,
  `race` / timeout with the outcome of the re-connect — concluding at once, or, serial transport,
  taking time: `timeoutBlock` … any operations in between … `reconn r` — / ping due / ping
  silence / close), of any
  length, subject only to the hypotheses `comp.wf` spells out (an I/O outcome needs a greenlet
  blocked in that I/O call; request ids are fresh; for the mux transport see Adapter/MuxT.lean).
  The per-step theorems hold in every state satisfying the invariant `Inv`, which
  `C08_serial_inv_reachable` / `C08_mux_inv_reachable` show for every state reachable by *any*
  operation list.  `connFailure s op` says that `op` meets a connection failure in state `s`.

  The component `muxt` is the ThriftMux transport *together with the callers blocked on its open
  result* (`MuxT.PSt`, operations `MuxT.POp`, component `MuxT.pcomp`): `tr op` is an operation `op`
  of the transport itself (`MuxT.Op`, step `MuxT.stepOut`) followed by the end of its drain, at
  which the blocked callers go on if the open result was set; `openStart` / `connected` are an
  `Open()` whose connect takes time; `park` is a request handed to the transport while the open is
  pending.  The theorems about single operations of the transport are stated on `MuxT.stepOut`;
  `C08_mux_parked_resume` says what the end of the drain adds; the theorems over whole histories
  quantify over all operation lists of the combined component.
-/
import ScalesModel.Proofs.SerialTheorems
import ScalesModel.Proofs.MuxTTheorems
import ScalesModel.Proofs.MuxTRaceTheorems
import ScalesModel.Proofs.MuxTParkedTheorems
namespace Scales.C08
open Scales.Transport

/-! ## serial framed transport (scales/thrift/sink.py) -/

/-- the invariant (socket connected ⇒ `_state` Open; Open ⇒ open result kept; transaction in
    flight ⇒ `_state` Open, and its socket is connected unless it is blocked in the re-connect of
    its time-out handler; `_state` Open without a connected socket ⇒ a transaction is in flight)
    holds in every reachable state, whatever the operations -/
theorem C08_serial_inv_reachable (ops : List Serial.Op) :
    Serial.Inv (Serial.runOps Serial.St.init ops) :=
  Serial.inv_reachable ops

/-- every exit path of a transaction clears `_processing`: whenever an operation hands a
    response to the transaction in flight (reply, time-out with accepted or refused
    re-connect, I/O error, end-of-stream) or to the request it has just started (deadline
    already passed, socket not connected), `_processing` is `None` afterwards. -/
theorem C08_serial_each_exit_clears_processing (s : Serial.St) (op : Serial.Op) (id : Nat) (r : Resp)
    (hown : (∃ t, s.processing = some t ∧ t.id = id ∧ Serial.isReq op ≠ some id) ∨
            (s.processing = none ∧ Serial.isReq op = some id))
    (hdel : (id, r) ∈ (Serial.stepOut s op).2.eff.dels) :
    (Serial.stepOut s op).1.processing = none :=
  Serial.each_exit_clears_processing s op id r hown hdel

/-- on a connection failure every request in flight is failed exactly once, with an error, in
    the same operation: the operation hands out exactly one response, it is an error, and it
    goes to the transaction in flight (or to the request whose transaction just started). -/
theorem C08_serial_fault_once (s : Serial.St) (op : Serial.Op) (hinv : Serial.Inv s)
    (hf : Serial.connFailure s op = true) :
    (∀ t, s.processing = some t →
        ∃ k, k.isError = true ∧ (Serial.stepOut s op).2.eff.dels = [(t.id, k)]) ∧
    (s.processing = none → ∀ id, Serial.isReq op = some id →
        ∃ k, k.isError = true ∧ (Serial.stepOut s op).2.eff.dels = [(id, k)]) :=
  Serial.fault_once s op hinv hf

/-- over a whole history no request is ever handed more than one response -/
theorem C08_serial_responses_at_most_once (ops : List Serial.Op)
    (h : Serial.comp.wf () ops = true) (id : Nat) :
    Serial.responsesTo id (Serial.comp.modelTrace () ops) ≤ 1 :=
  Serial.responses_at_most_once ops h id

/-- after a connection failure the transport reports `closed`, the fault signal was raised
    exactly once if it did not already report `closed` (and not at all otherwise), and
    `_processing` is clear. -/
theorem C08_serial_closed_and_signalled (s : Serial.St) (op : Serial.Op) (hinv : Serial.Inv s)
    (hf : Serial.connFailure s op = true) :
    (Serial.stepOut s op).1.state = .closed ∧
    (Serial.stepOut s op).2.eff.faults = (if s.state = .closed then 0 else 1) ∧
    (Serial.stepOut s op).1.processing = none :=
  Serial.closed_and_signalled s op hinv hf

/-- a transport that reports `open` with no transaction in flight carries the next request:
    the request is not answered on the spot, its transaction blocks in the write, the
    transport still reports `open`, and when that write succeeds the request's frame is what
    reached the peer (true after the repair of F4: before it a refused re-connect left the
    transport `open` with `_processing` set for ever). -/
theorem C08_serial_open_idle_carries (s : Serial.St) (id : Nat) (dl : Serial.DL) (hinv : Serial.Inv s)
    (hopen : s.state = .opened) (hidle : s.processing = none) (hdl : dl = .none ∨ dl = .future) :
    (s.request id dl).2.eff.dels = [] ∧
    (∃ b, (s.request id dl).1.processing = some ⟨id, b, .write⟩) ∧
    (s.request id dl).1.state = .opened ∧
    ((s.request id dl).1.io .ok).2.sent = [id] :=
  Serial.open_idle_carries s id dl hinv hopen hidle hdl

/-- a transport that reports `open` with no transaction in flight has a connected socket: the
    state "`_state` Open, no socket handle" only exists while `_processing` is set (the time-out
    handler blocked in its re-connect) -/
theorem C08_serial_open_idle_connected (s : Serial.St) (hinv : Serial.Inv s)
    (hopen : s.state = .opened) (hidle : s.processing = none) : s.sockOpen = true :=
  Serial.open_idle_connected s hinv hopen hidle

/-- **in every reachable state** — whatever the operations, no hypothesis on them; also between
    the two halves of a re-connect that takes time — a transport that reports `open` with no
    transaction in flight has a connected socket and carries the next request: the request is
    not answered on the spot, its transaction blocks in the write, and when that write succeeds
    the request's frame is what reached the peer -/
theorem C08_serial_reachable_open_idle_carries (ops : List Serial.Op) (id : Nat) (dl : Serial.DL)
    (hopen : (Serial.runOps Serial.St.init ops).state = .opened)
    (hidle : (Serial.runOps Serial.St.init ops).processing = none)
    (hdl : dl = .none ∨ dl = .future) :
    (Serial.runOps Serial.St.init ops).sockOpen = true ∧
    ((Serial.runOps Serial.St.init ops).request id dl).2.eff.dels = [] ∧
    (∃ b, ((Serial.runOps Serial.St.init ops).request id dl).1.processing = some ⟨id, b, .write⟩) ∧
    (((Serial.runOps Serial.St.init ops).request id dl).1.io .ok).2.sent = [id] :=
  Serial.reachable_open_idle_carries ops id dl hopen hidle hdl

/-- **every observation of every history** (no hypothesis on the operations): whenever the
    transport reports `open` and not busy (`_processing` clear) its socket is connected — also in
    the observations taken while a re-connect is in progress, where it reports busy -/
theorem C08_serial_observed_open_idle_connected (ops : List Serial.Op) :
    ∀ p ∈ Serial.comp.modelTrace () ops,
      p.2.state = .opened → p.2.busy = false → p.2.sock = true :=
  Serial.observed_open_idle_connected ops

/-- the deadline of the transaction in flight passes and the re-connect takes time: the
    operation hands out nothing, raises nothing, the transaction stays in flight (`_processing`
    set) blocked in the re-connect; the transport still reports `open`, its socket is not
    connected — the request gets its TimeoutError when the re-connect has concluded
    (`C08_serial_reconnect_window`) -/
theorem C08_serial_timeout_block_defers (s : Serial.St) (t : Serial.Txn) (hinv : Serial.Inv s)
    (hp : s.processing = some t) (hd : t.hasDl = true) (hph : t.phase ≠ .reconn) :
    (s.timeoutBlock).2 = {} ∧
    (s.timeoutBlock).1.processing = some { t with phase := .reconn } ∧
    (s.timeoutBlock).1.state = .opened ∧ (s.timeoutBlock).1.sockOpen = false :=
  Serial.timeout_block_defers s t hinv hp hd hph

/-- **the window.**  While the time-out handler of transaction `t` is blocked in its re-connect
    the transport reports `open` but is *not idle* (`_processing` is set), and
    * whatever else is attempted changes nothing: a request is rejected with the concurrency
      error (it is never started on the socket that is not there), `Open()`, an I/O outcome or a
      second time-out find nothing to do;
    * when the re-connect is accepted the transaction is handed its one TimeoutError, nothing
      is raised, `_processing` is clear and the socket is connected: the transport is `open`,
      idle and carries the next request;
    * when it is refused the transaction is handed its one TimeoutError, the fault signal is
      raised once, the transport reports `closed` and `_processing` is clear;
    * `Close()` leaves a closed transport with nothing in flight. -/
theorem C08_serial_reconnect_window (s : Serial.St) (t : Serial.Txn) (hinv : Serial.Inv s)
    (hp : s.processing = some t) (hph : t.phase = .reconn) :
    (s.state = .opened ∧ s.sockOpen = false) ∧
    (∀ id dl, s.request id dl = (s, { eff := { dels := [(id, .conc)] } })) ∧
    (∀ r, s.openT r = (s, {})) ∧ (∀ o, s.io o = (s, {})) ∧ (∀ r, s.timeoutHere r = (s, {})) ∧
    s.timeoutBlock = (s, {}) ∧
    ((s.reconnDone .ok).2 = { eff := { faults := 0, dels := [(t.id, .timeout)], conns := 1 } } ∧
      (s.reconnDone .ok).1.state = .opened ∧ (s.reconnDone .ok).1.processing = none ∧
      (s.reconnDone .ok).1.sockOpen = true ∧
      ∀ id dl, dl = .none ∨ dl = .future →
        ((s.reconnDone .ok).1.request id dl).2.eff.dels = [] ∧
        ((((s.reconnDone .ok).1.request id dl).1.io .ok).2.sent = [id])) ∧
    ((s.reconnDone .refuse).2 = { eff := { faults := 1, dels := [(t.id, .timeout)], conns := 1 } } ∧
      (s.reconnDone .refuse).1.state = .closed ∧ (s.reconnDone .refuse).1.processing = none) ∧
    (s.close.state = .closed ∧ s.close.processing = none) :=
  Serial.reconnect_window s t hinv hp hph

/-- **serial transport, specification level.**  For every operation list satisfying the
    hypotheses, the history of the model satisfies the executable specification that the
    harness evaluates on the implementation's observations. -/
theorem C08_serial_model_satisfies_spec (ops : List Serial.Op) (h : Serial.comp.wf () ops = true) :
    Serial.comp.spec () (Serial.comp.modelTrace () ops) = .ok :=
  Serial.model_satisfies_spec ops h

/-! ## ThriftMux transport (scales/mux/sink.py, scales/thriftmux/sink.py) -/

/-- the invariant (a closed transport has no live loop and no ping helper; only an Open
    transport has requests in its tag map; between two operations no `_ProcessReply` greenlet
    is pending) holds in every reachable state -/
theorem C08_mux_inv_reachable (ops : List MuxT.POp) :
    MuxT.Inv (MuxT.runOpsP MuxT.PSt.init ops).t :=
  MuxT.inv_reachableP ops

/-- on a connection failure (refused connect, write error, read error or end-of-stream in a
    header or a body — alone or right behind frames read in the same burst —, ping silence)
    every request in the tag map — queued, being written or
    awaiting its reply — is handed exactly one `ClientError`, in tag-map order, nothing else is
    handed out, and the tag map and the send queue are empty afterwards. -/
theorem C08_mux_shutdown_fails_all_once (s : MuxT.St) (op : MuxT.Op) (hinv : MuxT.Inv s)
    (hf : MuxT.connFailure s op = true) :
    (MuxT.stepOut s op).2.eff.dels = s.tagMap.map (fun p => (p.2, Resp.cerr)) ∧
    (MuxT.stepOut s op).1.tagMap = [] ∧ (MuxT.stepOut s op).1.sendQ = [] :=
  MuxT.shutdown_fails_all_once s op hinv hf

/-- over a whole history no request — issued to an open transport, rejected on the spot, or handed
    to the transport while its open was pending — is ever handed more than one response -/
theorem C08_mux_responses_at_most_once (ops : List MuxT.POp) (h : MuxT.pcomp.wf () ops = true)
    (id : Nat) : MuxT.responsesToP id (MuxT.pcomp.modelTrace () ops) ≤ 1 :=
  MuxT.responses_at_most_onceP ops h id

/-- a `_ProcessReply` greenlet that was spawned before `_Shutdown` and runs after it (its frame
    had been read, the next read failed before the receive loop yielded) finds an empty tag map
    and no outstanding ping: whatever the frames, nothing is handed to any request and the
    closed transport does not change.  `Inv0` is `Inv` without "nothing pending". -/
theorem C08_mux_reply_after_shutdown_dropped (s : MuxT.St) (fs : List MuxT.Frame)
    (hinv : MuxT.Inv0 s) (hc : s.cstate = .closed) : MuxT.dispatchGo fs s = (s, []) :=
  MuxT.reply_after_shutdown_dropped s fs hinv hc

/-- frames and a failing read (error or end-of-stream, in a header or a body) right behind
    them, without a yield in between: every request in the tag map is handed exactly one
    `ClientError` — also one whose reply was among the frames read — and nothing else is handed
    out; the fault signal is raised once, the transport is closed, the tag map is empty and no
    `_ProcessReply` greenlet is left behind. -/
theorem C08_mux_burst_fault_once (s : MuxT.St) (rs : List (IOOut × MuxT.Frame)) (hinv : MuxT.Inv s)
    (hrl : s.rl ≠ .dead) (hex : ∃ r ∈ rs, r.1 ≠ IOOut.ok) :
    (MuxT.stepOut s (.burst rs)).2.eff.dels = s.tagMap.map (fun p => (p.2, Resp.cerr)) ∧
    (MuxT.stepOut s (.burst rs)).2.eff.faults = 1 ∧
    (MuxT.stepOut s (.burst rs)).1.cstate = .closed ∧ (MuxT.stepOut s (.burst rs)).1.tagMap = [] ∧
    (MuxT.stepOut s (.burst rs)).1.pending = [] :=
  MuxT.burst_fault_once s rs hinv hrl hex

/-- **every accepted request is failed exactly once when the connection fails, over whole
    histories.**  Whatever happened before and whatever happens afterwards (replies for its tag
    arriving late included): a request the transport has accepted and not answered — it is in the
    tag map, or its caller is blocked on the open result (`PSt.inflight`) — when the connection
    fails (`connFailureP`: a refused connect, also one that was in progress; a connection reset
    or ended at once; a write error, a read error or an end-of-stream, alone, in a burst or in a
    race; ping silence) is handed an error in that very operation, and that is the only response
    it is handed in the whole history.  (With `C08_mux_responses_at_most_once`: a request is
    completed by its reply or by one error, never both.) -/
theorem C08_mux_inflight_failed_exactly_once (pre : List MuxT.POp) (op : MuxT.POp) (post : List MuxT.POp)
    (h : MuxT.pcomp.wf () (pre ++ op :: post) = true)
    (hf : MuxT.connFailureP (MuxT.runOpsP MuxT.PSt.init pre) op = true) (id : Nat)
    (hin : id ∈ (MuxT.runOpsP MuxT.PSt.init pre).inflight) :
    (∃ r, r.isError = true ∧
        (id, r) ∈ (MuxT.stepOutP (MuxT.runOpsP MuxT.PSt.init pre) op).2.eff.dels) ∧
    MuxT.responsesToP id (MuxT.pcomp.modelTrace () (pre ++ op :: post)) = 1 :=
  MuxT.inflight_failed_exactly_onceP pre op post h hf id hin

/-- **on a connection failure the requests in the tag map and the callers blocked on the open
    result are failed, each exactly once, and nothing else happens**: the operation hands out
    `ClientError` to the requests in the tag map, in tag-map order, then the 'Sink not open.' error
    to the blocked callers, in the order in which they arrived, and nothing else; the fault signal
    is raised once; the transport reports `closed`; tag map and send queue are empty — no blocked
    caller was entered or queued —; nobody is blocked any more; a pending open has failed. -/
theorem C08_mux_failure_fails_inflight_and_parked (ps : MuxT.PSt) (op : MuxT.POp) (hinv : MuxT.InvP ps)
    (hf : MuxT.connFailureP ps op = true) :
    (MuxT.stepOutP ps op).2.eff.dels =
      ps.t.tagMap.map (fun p => (p.2, Resp.cerr)) ++ ps.parked.map (fun p => (p.1, Resp.other)) ∧
    (MuxT.stepOutP ps op).2.eff.faults = 1 ∧
    (MuxT.stepOutP ps op).1.t.cstate = .closed ∧ (MuxT.stepOutP ps op).1.t.tagMap = [] ∧
    (MuxT.stepOutP ps op).1.t.sendQ = [] ∧ (MuxT.stepOutP ps op).1.parked = [] ∧
    (MuxT.stepOutP ps op).1.t.openRes ≠ .pending :=
  MuxT.failure_fails_allP ps op hinv hf

/-- the invariant of the combined state (the transport's own invariants; while a connect is in
    progress the transport is as `Open()` left it, or as a `Close()` left that; callers are
    blocked only while the open is pending) holds in every reachable state -/
theorem C08_mux_invP_reachable (ops : List MuxT.POp) : MuxT.InvP (MuxT.runOpsP MuxT.PSt.init ops) :=
  MuxT.invP_reachable ops

/-- callers are blocked on the open result only while the open is pending: then the transport
    reports `idle` and nothing is in its tag map — in every reachable state -/
theorem C08_mux_parked_only_while_pending (ops : List MuxT.POp)
    (h : (MuxT.runOpsP MuxT.PSt.init ops).parked ≠ []) :
    (MuxT.runOpsP MuxT.PSt.init ops).waiting = true ∧
    (MuxT.runOpsP MuxT.PSt.init ops).t.cstate = .idle ∧
    (MuxT.runOpsP MuxT.PSt.init ops).t.tagMap = [] :=
  MuxT.parked_only_while_pending ops h

/-- **what becomes of the blocked callers at the end of a drain.**  An operation `op` of the
    transport takes it to `(stepOut ps.t op).1`; then:
    * the open is still pending — everybody stays blocked, nothing is added to what `op` does;
    * the transport is Open — the callers go on in the order in which they arrived: each is
      entered in the tag map under the tag the pool hands it, its frame is queued behind what was
      queued, in that order; none of them is answered; nobody is blocked any more;
    * otherwise (the open failed, or `Close()`) — each of them is handed the 'Sink not open.'
      error once, in that order, after the responses of `op` itself; the transport is exactly as
      `op` left it — nothing of them is in the tag map or queued; nobody is blocked any more. -/
theorem C08_mux_parked_resume (ps : MuxT.PSt) (op : MuxT.Op) :
    ((MuxT.stepOutP ps (.tr op)).1.waiting = true →
      (MuxT.stepOutP ps (.tr op)).1.parked = ps.parked ∧
      (MuxT.stepOutP ps (.tr op)).1.t = (MuxT.stepOut ps.t op).1 ∧
      (MuxT.stepOutP ps (.tr op)).2 = (MuxT.stepOut ps.t op).2) ∧
    ((MuxT.stepOutP ps (.tr op)).1.waiting = false → (MuxT.stepOut ps.t op).1.cstate = .opened →
      (MuxT.stepOutP ps (.tr op)).1.parked = [] ∧
      (MuxT.stepOutP ps (.tr op)).1.t.tagMap =
        (MuxT.stepOut ps.t op).1.tagMap ++ ps.parked.map (fun p => (p.2, p.1)) ∧
      MuxT.qItems (MuxT.stepOutP ps (.tr op)).1.t =
        MuxT.qItems (MuxT.stepOut ps.t op).1 ++ ps.parked.map (fun p => MuxT.Item.req p.2 p.1) ∧
      (MuxT.stepOutP ps (.tr op)).1.t.cstate = .opened ∧
      (MuxT.stepOutP ps (.tr op)).2.eff.dels = (MuxT.stepOut ps.t op).2.eff.dels) ∧
    ((MuxT.stepOutP ps (.tr op)).1.waiting = false → (MuxT.stepOut ps.t op).1.cstate ≠ .opened →
      (MuxT.stepOutP ps (.tr op)).1.parked = [] ∧
      (MuxT.stepOutP ps (.tr op)).1.t = (MuxT.stepOut ps.t op).1 ∧
      (MuxT.stepOutP ps (.tr op)).2.eff.dels =
        (MuxT.stepOut ps.t op).2.eff.dels ++ ps.parked.map (fun p => (p.1, Resp.other))) :=
  MuxT.parked_resume ps op

/-- **a request handed to the transport while its open was pending, whose open does not succeed, is
    answered exactly once and nothing of it stays behind — over whole histories.**  Whatever
    happened before and whatever happens afterwards: if a caller is blocked on the open result and
    an operation of the transport — a write or read fault or an end-of-stream of the handshake,
    ping silence, a burst, a race at any position, a `Close()` — ends with the open no longer
    pending and the transport not Open, that caller is handed the 'Sink not open.' error in that
    very operation; it is the only response it is handed in the whole history; nobody is blocked
    afterwards; and the transport is exactly as the operation left it (closed, with an empty tag
    map and send queue: `C08_mux_closed_and_signalled`, `C08_mux_race_closed_and_signalled`) — the
    request was neither given a tag-map entry nor queued.  (The refused or reset connect that was
    in progress: `C08_mux_inflight_failed_exactly_once`, `C08_mux_failure_fails_inflight_and_parked`.) -/
theorem C08_mux_parked_failed_exactly_once (pre : List MuxT.POp) (op : MuxT.Op) (post : List MuxT.POp)
    (h : MuxT.pcomp.wf () (pre ++ .tr op :: post) = true) (id tag : Nat)
    (hin : (id, tag) ∈ (MuxT.runOpsP MuxT.PSt.init pre).parked)
    (hw : (MuxT.stepOutP (MuxT.runOpsP MuxT.PSt.init pre) (.tr op)).1.waiting = false)
    (hno : (MuxT.stepOut (MuxT.runOpsP MuxT.PSt.init pre).t op).1.cstate ≠ .opened) :
    (id, Resp.other) ∈ (MuxT.stepOutP (MuxT.runOpsP MuxT.PSt.init pre) (.tr op)).2.eff.dels ∧
    MuxT.responsesToP id (MuxT.pcomp.modelTrace () (pre ++ .tr op :: post)) = 1 ∧
    (MuxT.stepOutP (MuxT.runOpsP MuxT.PSt.init pre) (.tr op)).1.parked = [] ∧
    (MuxT.stepOutP (MuxT.runOpsP MuxT.PSt.init pre) (.tr op)).1.t =
      (MuxT.stepOut (MuxT.runOpsP MuxT.PSt.init pre).t op).1 :=
  MuxT.parked_failed_exactly_once pre op post h id tag hin hw hno

/-- without blocked callers the combined component is the transport: `tr op` does to the
    transport what `op` does, hands out what `op` hands out, and nobody gets blocked -/
theorem C08_mux_transport_alone (ps : MuxT.PSt) (op : MuxT.Op) (h : ps.parked = []) :
    (MuxT.stepOutP ps (.tr op)).1.t = (MuxT.stepOut ps.t op).1 ∧
    (MuxT.stepOutP ps (.tr op)).2 = (MuxT.stepOut ps.t op).2 ∧
    (MuxT.stepOutP ps (.tr op)).1.parked = [] :=
  MuxT.tr_without_parked ps op h

/-- after a connection failure the transport reports `closed`, the fault signal was raised
    exactly once, both loops, the ping loop and the ping helper are gone, and an open that was
    still pending has failed. -/
theorem C08_mux_closed_and_signalled (s : MuxT.St) (op : MuxT.Op) (hinv : MuxT.Inv s)
    (hf : MuxT.connFailure s op = true) :
    (MuxT.stepOut s op).1.cstate = .closed ∧ (MuxT.stepOut s op).2.eff.faults = 1 ∧
    (MuxT.stepOut s op).1.sl = .dead ∧ (MuxT.stepOut s op).1.rl = .dead ∧
    (MuxT.stepOut s op).1.pingLoop = false ∧ (MuxT.stepOut s op).1.pingWait = false ∧
    (MuxT.stepOut s op).1.openRes ≠ .pending :=
  MuxT.closed_and_signalled s op hinv hf

/-- a peer that stops answering pings: five seconds after a ping was queued without an Rping
    arriving, every request in flight is failed exactly once with `ClientError`, the transport
    reports `closed` and the fault signal is raised (once).  A ping is outstanding only on a
    transport that is not closed, so this applies whenever the helper is waiting. -/
theorem C08_ping_silence (s : MuxT.St) (hinv : MuxT.Inv s) (hpw : s.pingWait = true) :
    s.cstate ≠ .closed ∧
    (MuxT.stepOut s .pingSilence).2.eff.dels = s.tagMap.map (fun p => (p.2, Resp.cerr)) ∧
    (MuxT.stepOut s .pingSilence).1.tagMap = [] ∧
    (MuxT.stepOut s .pingSilence).1.cstate = .closed ∧
    (MuxT.stepOut s .pingSilence).2.eff.faults = 1 :=
  MuxT.ping_silence s hinv hpw

/-- the ping loop of an open transport arms the helper: when its sleep ends and no ping is
    outstanding, a ping is queued for transmission and the helper waits for the Rping. -/
theorem C08_mux_ping_due_arms_helper (s : MuxT.St) (hop : s.cstate = .opened)
    (hl : s.pingLoop = true) (hw : s.pingWait = false) :
    (MuxT.stepOut s .pingDue).1.pingWait = true ∧
    MuxT.Item.ping ∈ MuxT.qItems (MuxT.stepOut s .pingDue).1 :=
  MuxT.ping_due_arms_helper s hop hl hw

/-- a transport that reports `open` carries the next request: it is not answered on the spot,
    it is entered in the tag map and its frame is queued for transmission; and every successful
    write call of the send loop puts exactly the frame it was given on the wire and moves on to
    the next queued frame. -/
theorem C08_mux_open_carries (s : MuxT.St) (id tag : Nat) (hop : s.cstate = .opened)
    (hno : s.opening = false) :
    (s.request id tag).2.eff.dels = [] ∧ (tag, id) ∈ (s.request id tag).1.tagMap ∧
    MuxT.Item.req tag id ∈ MuxT.qItems (s.request id tag).1 ∧
    (s.request id tag).1.cstate = .opened ∧
    (∀ (s' : MuxT.St) (it : MuxT.Item), s'.sl = .writing it →
        (s'.wr .ok).2.sent = [it] ∧ MuxT.qItems (s'.wr .ok).1 = s'.sendQ) :=
  MuxT.open_carries s id tag hop hno

/-! ### events in the middle of a drain (`race`) -/

/-- while `_OpenImpl` waits for the handshake's Rping the open result is pending, the transport
    reports `idle` and the ping is outstanding — in every reachable state -/
theorem C08_mux_opening_means_pending (ops : List MuxT.POp)
    (hop : (MuxT.runOpsP MuxT.PSt.init ops).t.opening = true) :
    (MuxT.runOpsP MuxT.PSt.init ops).t.openRes = .pending ∧
    (MuxT.runOpsP MuxT.PSt.init ops).t.cstate = .idle ∧
    (MuxT.runOpsP MuxT.PSt.init ops).t.pingWait = true :=
  MuxT.opening_means_pendingP ops hop

/-- **after a race the transport is closed.**  The receive loop reads `rs` (any frames, any
    outcomes) without yielding, and in the same drain a failing next read of the receive loop, a
    failing write of the send loop or a `Close()` lands at any of the three positions (`hitOk`:
    the greenlet concerned exists).  Afterwards the transport reports `closed`, both loops, the
    ping loop and the ping helper are gone, no `_ProcessReply` greenlet is left, `_OpenImpl` is not
    waiting, tag map and send queue are empty; the fault signal was raised exactly once if the
    race contains a connection failure and not at all if its only event is the `Close()`; an open
    that was pending has failed, one that had completed is untouched.  In particular the
    `_OpenImpl` greenlet that the handshake's Rping woke just before the failure does not declare
    the transport Open (repair F16). -/
theorem C08_mux_race_closed_and_signalled (s : MuxT.St) (rs : List (IOOut × MuxT.Frame))
    (pos : MuxT.Pos) (x : MuxT.Hit) (hinv : MuxT.Inv s) (hrl : s.rl ≠ .dead)
    (hok : MuxT.hitOk s rs pos x = true) :
    (MuxT.stepOut s (.race rs pos x)).1.cstate = .closed ∧
    (MuxT.stepOut s (.race rs pos x)).2.eff.faults = (if MuxT.raceFails rs pos x then 1 else 0) ∧
    (MuxT.stepOut s (.race rs pos x)).1.sl = .dead ∧ (MuxT.stepOut s (.race rs pos x)).1.rl = .dead ∧
    (MuxT.stepOut s (.race rs pos x)).1.pingLoop = false ∧
    (MuxT.stepOut s (.race rs pos x)).1.pingWait = false ∧
    (MuxT.stepOut s (.race rs pos x)).1.opening = false ∧
    (MuxT.stepOut s (.race rs pos x)).1.hasOpenResult = false ∧
    (MuxT.stepOut s (.race rs pos x)).1.tagMap = [] ∧ (MuxT.stepOut s (.race rs pos x)).1.sendQ = [] ∧
    (MuxT.stepOut s (.race rs pos x)).1.pending = [] ∧
    (MuxT.stepOut s (.race rs pos x)).1.openRes = (if s.openRes = .pending then .failed else s.openRes) :=
  MuxT.race_closed_and_signalled s rs pos x hinv hrl hok

/-- **F16 at the level of the transport, with callers blocked on the open result.**  In every
    reachable state in which `_OpenImpl` waits for the handshake's Rping: whatever the receive loop
    reads in a drain (the Rping among the frames or not) and wherever in that drain a failing read,
    a failing write or a `Close()` lands — in particular after the Rping was dispatched and before
    `_OpenImpl` resumes —, the transport ends up `closed`, `Open()` has failed, the fault signal was
    raised once (not for a lone `Close()`), every caller blocked on the open result is handed the
    'Sink not open.' error and nothing else is handed to anybody, nobody stays blocked, and the next
    request is rejected on the spot and changes nothing.  The transport never reports `open`. -/
theorem C08_mux_race_during_handshake_fails_open (ops : List MuxT.POp) (rs : List (IOOut × MuxT.Frame))
    (pos : MuxT.Pos) (x : MuxT.Hit) (hop : (MuxT.runOpsP MuxT.PSt.init ops).t.opening = true)
    (hrl : (MuxT.runOpsP MuxT.PSt.init ops).t.rl ≠ .dead)
    (hok : MuxT.hitOk (MuxT.runOpsP MuxT.PSt.init ops).t rs pos x = true) :
    (MuxT.stepOutP (MuxT.runOpsP MuxT.PSt.init ops) (.tr (.race rs pos x))).1.t.cstate = .closed ∧
    (MuxT.stepOutP (MuxT.runOpsP MuxT.PSt.init ops) (.tr (.race rs pos x))).1.t.openRes = .failed ∧
    (MuxT.stepOutP (MuxT.runOpsP MuxT.PSt.init ops) (.tr (.race rs pos x))).2.eff.faults =
      (if MuxT.raceFails rs pos x then 1 else 0) ∧
    (MuxT.stepOutP (MuxT.runOpsP MuxT.PSt.init ops) (.tr (.race rs pos x))).2.eff.dels =
      (MuxT.runOpsP MuxT.PSt.init ops).parked.map (fun p => (p.1, Resp.other)) ∧
    (MuxT.stepOutP (MuxT.runOpsP MuxT.PSt.init ops) (.tr (.race rs pos x))).1.parked = [] ∧
    ∀ id tag,
      ((MuxT.stepOutP (MuxT.runOpsP MuxT.PSt.init ops) (.tr (.race rs pos x))).1.t.request id tag).1 =
        (MuxT.stepOutP (MuxT.runOpsP MuxT.PSt.init ops) (.tr (.race rs pos x))).1.t ∧
      ((MuxT.stepOutP (MuxT.runOpsP MuxT.PSt.init ops) (.tr (.race rs pos x))).1.t.request id tag).2.eff.dels =
        [(id, Resp.other)] := by
  obtain ⟨h1, h2, h3, h4, h5, h6⟩ := MuxT.race_during_handshake_fails_openP ops rs pos x hop hrl hok
  exact ⟨h1, h2, h3, h4, h5, fun id tag => by rw [h6 id tag]; exact ⟨rfl, rfl⟩⟩

/-- **each in-flight request is completed exactly once by a race, over whole histories.**  Whatever
    happened before and whatever happens afterwards: a request that is in the tag map when a race
    begins is handed a response in that very operation — its reply, if that was among the frames
    and was dispatched before the event (position `mid`), otherwise a `ClientError` — and that is
    the only response it is handed in the whole history. -/
theorem C08_mux_race_inflight_answered_exactly_once (pre : List MuxT.POp)
    (rs : List (IOOut × MuxT.Frame)) (pos : MuxT.Pos) (x : MuxT.Hit) (post : List MuxT.POp)
    (h : MuxT.pcomp.wf () (pre ++ .tr (.race rs pos x) :: post) = true) (tag id : Nat)
    (hin : (tag, id) ∈ (MuxT.runOpsP MuxT.PSt.init pre).t.tagMap) :
    (∃ r, (id, r) ∈ (MuxT.stepOutP (MuxT.runOpsP MuxT.PSt.init pre) (.tr (.race rs pos x))).2.eff.dels ∧
        (r = Resp.stream ∨ r = Resp.cerr)) ∧
    MuxT.responsesToP id (MuxT.pcomp.modelTrace () (pre ++ .tr (.race rs pos x) :: post)) = 1 :=
  MuxT.race_inflight_answered_exactly_onceP pre rs pos x post h tag id hin

/-- **outside the opening handshake the position `mid` is nothing new**: whenever `_OpenImpl` is not
    waiting for the handshake's Rping, a race at `mid` is the `burst` of its reads followed by its
    event, as two operations one after the other would have it — a reply is delivered, then the
    rest of the tag map is failed; a periodic Rping only wakes the ping helper, which finds its
    ping answered. -/
theorem C08_mux_race_mid_sequential_outside_handshake (s : MuxT.St) (rs : List (IOOut × MuxT.Frame))
    (x : MuxT.Hit) (hno : s.opening = false) :
    (s.race rs .mid x).1 = ((s.burst rs).1.hit x).1 ∧
    (s.race rs .mid x).2.eff = MuxT.effApp (s.burst rs).2.eff ((s.burst rs).1.hit x).2 :=
  MuxT.race_mid_sequential s rs x hno

/-- **during the opening handshake the position of the event does not matter** (after repair
    F16): in every reachable state in which `_OpenImpl` waits for the handshake's Rping, whether
    the failing read, the failing write or the `Close()` runs before the `_ProcessReply` greenlet
    of the Rping or between it and the resumption of `_OpenImpl`, the operation ends in the same
    state with the same effects. -/
theorem C08_mux_race_handshake_position_irrelevant (ops : List MuxT.POp)
    (rs : List (IOOut × MuxT.Frame)) (x : MuxT.Hit)
    (hop : (MuxT.runOpsP MuxT.PSt.init ops).t.opening = true)
    (hrl : (MuxT.runOpsP MuxT.PSt.init ops).t.rl ≠ .dead)
    (hok : MuxT.hitOk (MuxT.runOpsP MuxT.PSt.init ops).t rs .mid x = true) :
    MuxT.stepOutP (MuxT.runOpsP MuxT.PSt.init ops) (.tr (.race rs .mid x)) =
      MuxT.stepOutP (MuxT.runOpsP MuxT.PSt.init ops) (.tr (.race rs .pre x)) :=
  MuxT.race_handshake_position_irrelevantP ops rs x hop hrl hok

/-- **the code as found (before repair F16), counterexample.**  Tping written, the Rping is read
    and dispatched, the next read fails, `_OpenImpl` as it was resumes: the transport reports
    `open` after a connection failure whose fault signal was raised, with both loops dead.  The
    repaired model ends `closed` on the same input. -/
theorem C08_mux_race_as_found_counterexample :
    ((MuxT.runOps MuxT.St.init [.openT .ok, .wr .ok]).raceMidAsFound
        [(.ok, .junk), (.ok, .rping)] .rdRaise).1.cstate = .opened ∧
    ((MuxT.runOps MuxT.St.init [.openT .ok, .wr .ok]).raceMidAsFound
        [(.ok, .junk), (.ok, .rping)] .rdRaise).2.eff.faults = 1 ∧
    ((MuxT.runOps MuxT.St.init [.openT .ok, .wr .ok]).raceMidAsFound
        [(.ok, .junk), (.ok, .rping)] .rdRaise).1.rl = .dead ∧
    ((MuxT.runOps MuxT.St.init [.openT .ok, .wr .ok]).raceMidAsFound
        [(.ok, .junk), (.ok, .rping)] .rdRaise).1.sl = .dead ∧
    ((MuxT.runOps MuxT.St.init [.openT .ok, .wr .ok]).race
        [(.ok, .junk), (.ok, .rping)] .mid .rdRaise).1.cstate = .closed := by decide

/-- **a connection that is accepted and answered, reset or ended at once** (`openBurst`: the outcomes
    of the receive loop's first reads are there when it starts, before the send loop and the ping
    helper spawned by the same `_OpenImpl` have run) is the open followed by the burst: same state,
    same fault signals, same responses, one connect.  With `C08_mux_shutdown_fails_all_once` and
    `C08_mux_closed_and_signalled` (whose `connFailure` covers it): a reset right after the connect
    leaves the transport closed, the open failed and the fault signal raised once. -/
theorem C08_mux_open_burst_is_open_then_burst (s : MuxT.St) (rs : List (IOOut × MuxT.Frame)) :
    (MuxT.stepOut s (.openBurst rs)).1 = (MuxT.stepOut (MuxT.stepOut s (.openT .ok)).1 (.burst rs)).1 ∧
    (MuxT.stepOut s (.openBurst rs)).2.eff.faults =
      (MuxT.stepOut (MuxT.stepOut s (.openT .ok)).1 (.burst rs)).2.eff.faults ∧
    (MuxT.stepOut s (.openBurst rs)).2.eff.dels =
      (MuxT.stepOut (MuxT.stepOut s (.openT .ok)).1 (.burst rs)).2.eff.dels ∧
    (MuxT.stepOut s (.openBurst rs)).2.eff.conns = (MuxT.stepOut s (.openT .ok)).2.eff.conns :=
  ⟨rfl, rfl, rfl, rfl⟩

/-- **ThriftMux transport with the callers blocked on its open result, specification level.**  For
    every operation list of the component `muxt` satisfying its hypotheses — operations of the
    transport, connects that take time, requests handed to the transport while the open is
    pending, in any order — the history of the model satisfies the executable specification the
    harness evaluates on the implementation's observations; in particular every request owed a
    response when a connection failure is observed — in the tag map or blocked on the open
    result — is handed an error in that operation. -/
theorem C08_mux_model_satisfies_spec (ops : List MuxT.POp) (h : MuxT.pcomp.wf () ops = true) :
    MuxT.pcomp.spec () (MuxT.pcomp.modelTrace () ops) = .ok :=
  MuxT.model_satisfies_specP ops h

/-- **C08, specification level, both components.**  For every operation list satisfying the
    hypotheses of its component, the history of the model satisfies the executable
    specification the harness evaluates on the implementation's observations. -/
theorem C08_model_satisfies_spec :
    (∀ ops, Serial.comp.wf () ops = true →
        Serial.comp.spec () (Serial.comp.modelTrace () ops) = .ok) ∧
    (∀ ops, MuxT.pcomp.wf () ops = true → MuxT.pcomp.spec () (MuxT.pcomp.modelTrace () ops) = .ok) :=
  ⟨Serial.model_satisfies_spec, MuxT.model_satisfies_specP⟩

/-! ## non-vacuity: concrete instances of the hypotheses -/

section
open Scales.Serial
example : comp.wf () [.openT .ok, .req 1 .future, .io .ok, .timeoutHere .refuse, .openT .ok,
    .req 2 .none, .io .ok, .io .ok, .io .eof] = true := by decide
example : connFailure (runOps St.init [.openT .ok, .req 1 .future, .io .ok]) (.timeoutHere .refuse) = true := by
  decide
example : (stepOut (runOps St.init [.openT .ok, .req 1 .future, .io .ok]) (.timeoutHere .refuse)).2.eff
    = { faults := 1, dels := [(1, .timeout)], conns := 1 } := by decide
-- the re-connect as a yield point: a request and a Close() in the window, both ways it can end
example : comp.wf () [.openT .ok, .req 1 .future, .io .ok, .timeoutBlock, .look, .req 2 .none, .reconn .ok,
    .req 3 .none, .io .ok, .io .ok, .io .ok, .req 4 .pastBlock, .req 5 .future, .reconn .refuse, .openT .ok, .req 6 .future,
    .timeoutBlock, .close, .openT .ok] = true := by decide
example : (comp.modelTrace () [.openT .ok, .req 1 .future, .io .ok, .timeoutBlock, .req 2 .none, .reconn .ok]).map
    (fun p => (p.2.state, p.2.busy, p.2.dels, p.2.sock)) =
    [(.opened, false, [], true), (.opened, true, [], true), (.opened, true, [], true),
     (.opened, true, [], false), (.opened, true, [(2, .conc)], false),
     (.opened, false, [(1, .timeout)], true)] := by decide
example : ∃ t, (runOps St.init [.openT .ok, .req 1 .future, .io .ok, .timeoutBlock]).processing = some t ∧
    t.phase = .reconn := ⟨_, rfl, rfl⟩
example : connFailure (runOps St.init [.openT .ok, .req 1 .future, .io .ok, .timeoutBlock]) (.reconn .refuse) = true := by
  decide
end

section
open Scales.MuxT
example : comp.wf () [.openT .ok, .wr .ok, .rd .ok .junk, .rd .ok .rping, .req 1 2, .req 2 3, .wr .ok,
    .req 3 4, .rd .ok .junk, .rd .ok (.reply 2), .pingDue, .wr .ok, .pingSilence, .req 4 0] = true := by decide
example : (stepOut (runOps St.init [.openT .ok, .wr .ok, .rd .ok .junk, .rd .ok .rping, .req 1 2, .req 2 3,
    .wr .ok, .req 3 4]) (.rd .eof .junk)).2.eff
    = { faults := 1, dels := [(1, .cerr), (2, .cerr), (3, .cerr)] } := by decide
example : connFailure (runOps St.init [.openT .ok, .wr .ok, .rd .ok .junk, .rd .ok .rping, .req 1 2, .pingDue])
    .pingSilence = true := by decide
-- the reply to request 1 and the end of the stream arrive together: both requests get one error
example : comp.wf () [.openT .ok, .wr .ok, .rd .ok .junk, .rd .ok .rping, .req 1 2, .req 2 3, .wr .ok, .wr .ok,
    .burst [(.ok, .junk), (.ok, .reply 2), (.eof, .junk)], .look, .req 3 0] = true := by decide
example : (stepOut (runOps St.init [.openT .ok, .wr .ok, .rd .ok .junk, .rd .ok .rping, .req 1 2, .req 2 3,
    .wr .ok, .wr .ok]) (.burst [(.ok, .junk), (.ok, .reply 2), (.eof, .junk)])).2.eff
    = { faults := 1, dels := [(1, .cerr), (2, .cerr)] } := by decide
example : connFailure (runOps St.init [.openT .ok, .wr .ok, .rd .ok .junk, .rd .ok .rping, .req 1 2, .req 2 3,
    .wr .ok, .wr .ok]) (.burst [(.ok, .junk), (.ok, .reply 2), (.raise, .junk)]) = true := by decide
-- two replies in one burst without a fault: both are dispatched
example : (stepOut (runOps St.init [.openT .ok, .wr .ok, .rd .ok .junk, .rd .ok .rping, .req 1 2, .req 2 3,
    .wr .ok, .wr .ok]) (.burst [(.ok, .junk), (.ok, .reply 3), (.ok, .junk), (.ok, .reply 2)])).2.eff
    = { dels := [(2, .stream), (1, .stream)] } := by decide
-- the connection is accepted and reset at once
example : comp.wf () [.openBurst [(.raise, .junk)], .look, .req 1 0] = true := by decide
example : connFailure St.init (.openBurst [(.ok, .junk), (.ok, .rping), (.eof, .junk)]) = true := by decide
example : (comp.modelTrace () [.openBurst [(.raise, .junk)]]).map
    (fun p => (p.2.state, p.2.openRes, p.2.faults, p.2.conns)) = [(.closed, .failed, 1, 1)] := by decide
-- the handshake's Rping is dispatched, the next read fails, and only then does `_OpenImpl` resume
example : comp.wf () [.openT .ok, .wr .ok, .race [(.ok, .junk), (.ok, .rping)] .mid .rdRaise, .look, .req 1 0]
    = true := by decide
example : (comp.modelTrace () [.openT .ok, .wr .ok, .race [(.ok, .junk), (.ok, .rping)] .mid .rdRaise]).map
    (fun p => (p.2.state, p.2.openRes, p.2.faults)) =
    [(.idle, .pending, 0), (.idle, .pending, 0), (.closed, .failed, 1)] := by decide
example : (runOps St.init [.openT .ok, .wr .ok]).opening = true ∧
    hitOk (runOps St.init [.openT .ok, .wr .ok]) [(.ok, .junk), (.ok, .rping)] .mid .rdEof = true := by decide
-- the same frames without the failure open the transport
example : (runOps St.init [.openT .ok, .wr .ok, .burst [(.ok, .junk), (.ok, .rping)]]).cstate = .opened := by
  decide
-- a reply is dispatched, then the write of the next request fails: request 1 has its reply, request 2 the error
example : comp.wf () [.openT .ok, .wr .ok, .rd .ok .junk, .rd .ok .rping, .req 1 2, .wr .ok, .req 2 3,
    .race [(.ok, .junk), (.ok, .reply 2)] .mid .wr, .look] = true := by decide
example : (stepOut (runOps St.init [.openT .ok, .wr .ok, .rd .ok .junk, .rd .ok .rping, .req 1 2, .wr .ok,
    .req 2 3]) (.race [(.ok, .junk), (.ok, .reply 2)] .mid .wr)).2.eff
    = { faults := 1, dels := [(1, .stream), (2, .cerr)] } := by decide
-- the same with the failing write noticed before the reply is dispatched: both get the error
example : (stepOut (runOps St.init [.openT .ok, .wr .ok, .rd .ok .junk, .rd .ok .rping, .req 1 2, .wr .ok,
    .req 2 3]) (.race [(.ok, .junk), (.ok, .reply 2)] .pre .wr)).2.eff
    = { faults := 1, dels := [(1, .cerr), (2, .cerr)] } := by decide
-- the Rping of the opening handshake with the end of the stream right behind it: the open fails
example : (runOps St.init [.openT .ok, .wr .ok, .burst [(.ok, .junk), (.ok, .rping), (.eof, .junk)]]).cstate
    = .closed := by decide
-- every operation list of the transport alone is one of the combined component
example : pcomp.wf () ([.openT .ok, .wr .ok, .rd .ok .junk, .rd .ok .rping, .req 1 2, .req 2 3, .wr .ok,
    .req 3 4, .rd .ok .junk, .rd .ok (.reply 2), .pingDue, .wr .ok, .pingSilence, .req 4 0].map .tr) = true := by
  decide
-- requests handed to the transport while the connect is in progress and during the handshake; the peer hangs up
example : pcomp.wf () [.openStart, .park 1 2, .connected .ok [], .park 2 3, .tr (.wr .ok), .tr (.rd .eof .junk),
    .tr .look, .tr (.req 3 0)] = true := by decide
example : (pcomp.modelTrace () [.openStart, .park 1 2, .connected .ok [], .park 2 3, .tr (.wr .ok),
    .tr (.rd .eof .junk)]).map (fun p => (p.2.state, p.2.faults, p.2.dels, p.2.parked)) =
    [(.idle, 0, [], []), (.idle, 0, [], [1]), (.idle, 0, [], [1]), (.idle, 0, [], [1, 2]),
     (.idle, 0, [], [1, 2]), (.closed, 1, [(1, .other), (2, .other)], [])] := by decide
example : connFailureP (runOpsP PSt.init [.openStart, .park 1 2, .connected .ok [], .park 2 3, .tr (.wr .ok)])
    (.tr (.rd .eof .junk)) = true ∧
    (runOpsP PSt.init [.openStart, .park 1 2, .connected .ok [], .park 2 3, .tr (.wr .ok)]).inflight = [1, 2] := by
  decide
-- the connect that was in progress is refused
example : (pcomp.modelTrace () [.openStart, .park 1 2, .connected .refuse []]).map
    (fun p => (p.2.state, p.2.openRes, p.2.faults, p.2.dels)) =
    [(.idle, .pending, 0, []), (.idle, .pending, 0, []), (.closed, .failed, 1, [(1, .other)])] := by decide
example : connFailureP (runOpsP PSt.init [.openStart, .park 1 2]) (.connected .refuse []) = true := by decide
-- the open succeeds: the blocked callers go on in order; a reply read in the same burst as the Rping finds no tag
example : (pcomp.modelTrace () [.tr (.openT .ok), .park 1 2, .park 2 3, .tr (.wr .ok),
    .tr (.burst [(.ok, .junk), (.ok, .rping), (.ok, .junk), (.ok, .reply 2)]), .tr (.wr .ok), .tr (.wr .ok),
    .tr (.rd .ok .junk), .tr (.rd .ok (.reply 3)), .tr (.rd .raise .junk)]).map
    (fun p => (p.2.state, p.2.dels, p.2.inflight, p.2.parked)) =
    [(.idle, [], [], []), (.idle, [], [], [1]), (.idle, [], [], [1, 2]), (.idle, [], [], [1, 2]),
     (.opened, [], [1, 2], []), (.opened, [], [1, 2], []), (.opened, [], [1, 2], []),
     (.opened, [], [1, 2], []), (.opened, [(2, .stream)], [1], []), (.closed, [(1, .cerr)], [], [])] := by
  decide
example : (pcomp.modelTrace () [.tr (.openT .ok), .park 1 2, .park 2 3, .tr (.wr .ok),
    .tr (.burst [(.ok, .junk), (.ok, .rping), (.ok, .junk), (.ok, .reply 2)]), .tr (.wr .ok), .tr (.wr .ok)]).map
    (fun p => p.2.sent) = [[], [], [], [.ping], [], [.req 2 1], [.req 3 2]] := by decide
-- the handshake's Rping is dispatched, the write fails, and only then does `_OpenImpl` resume: the caller gets the error
example : pcomp.wf () [.tr (.openT .ok), .park 1 2, .tr (.race [(.ok, .junk), (.ok, .rping)] .mid .wr), .tr .look]
    = true := by decide
example : (stepOutP (runOpsP PSt.init [.tr (.openT .ok), .park 1 2])
    (.tr (.race [(.ok, .junk), (.ok, .rping)] .mid .wr))).2.eff = { faults := 1, dels := [(1, .other)] } := by decide
-- `Close()` while the connect is in progress; the connect then concludes on a transport that is shut down
example : pcomp.wf () [.openStart, .park 1 2, .tr .close, .connected .ok [], .tr (.req 2 0)] = true := by decide
example : (pcomp.modelTrace () [.openStart, .park 1 2, .tr .close, .connected .ok []]).map
    (fun p => (p.2.state, p.2.faults, p.2.dels, p.2.conns)) =
    [(.idle, 0, [], 0), (.idle, 0, [], 0), (.closed, 0, [(1, .other)], 0), (.closed, 0, [], 1)] := by decide
example : (runOpsP PSt.init [.tr (.openT .ok), .park 1 2]).parked = [(1, 2)] ∧
    (stepOutP (runOpsP PSt.init [.tr (.openT .ok), .park 1 2]) (.tr .pingSilence)).1.waiting = false ∧
    (stepOut (runOpsP PSt.init [.tr (.openT .ok), .park 1 2]).t .pingSilence).1.cstate ≠ .opened := by decide
end

end Scales.C08
