import ScalesModel.Adapter.FrontEnd
namespace Scales.FrontEnd
theorem C01_placeholder : True := trivial
end Scales.FrontEnd
