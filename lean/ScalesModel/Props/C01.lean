/-
  Props/C01.lean — every call completes exactly once, no later than its deadline
  (front end: dispatcher + timeout sink + sink stack; everything below is the environment).

  Quantification: every list of operations (issues before/after the client finished opening,
  replies/errors/time-outs posted by the environment at any time and any number of times,
  timer actions, clock advances) that satisfies `opsOk`: time is monotone, the timer queue
  is punctual (C10), the environment answers only requests it was handed and does not forge
  a TimeoutError before the deadline.
-/
import ScalesModel.Proofs.FrontEndLemmas
namespace Scales.FrontEnd

def Good (oa : Option Nat) (i : CallInfo) (cl : Call) : Prop := CallInv oa i cl ∧ FirstOK i cl

structure Rel (a : Acc) (s : FE) : Prop where
  openNone : a.openAt = none ↔ s.openSt = .pending
  calls : List.Forall₂ (Good a.openAt) a.infos s.calls

def StepOK (oa' : Option Nat) (a' : Acc) (idx : Nat) (op : Op) (i' : CallInfo) (cl' : Call) : Prop :=
  CallInv oa' i' cl' ∧ (∀ c, Acceptable (specCall a' idx op c i' (viewOf cl'))) ∧
  FirstOK (note1 i' (viewOf cl')) cl'

theorem forall₂_imp_mem {α β : Type} {R S : α → β → Prop} {l₁ : List α} {l₂ : List β}
    (h : List.Forall₂ R l₁ l₂) (H : ∀ a b, a ∈ l₁ → b ∈ l₂ → R a b → S a b) : List.Forall₂ S l₁ l₂ := by
  induction h with
  | nil => exact .nil
  | cons hab _ ih =>
    refine .cons (H _ _ (by simp) (by simp) hab) (ih ?_)
    intro a b ha hb; exact H a b (by simp [ha]) (by simp [hb])

theorem punct_of (s : FE) (t : Nat) (h : armedBefore s t = false) :
    ∀ cl ∈ s.calls, ∀ due, cl.armedDue = some due → t ≤ due := by
  intro cl hcl due hp
  unfold armedBefore at h
  rw [List.any_eq_false] at h
  have := h cl hcl
  simp [hp] at this; exact this

theorem punct_strict_of (s : FE) (t : Nat) (h : armedAtOrBefore s t = false) :
    ∀ cl ∈ s.calls, ∀ due, cl.armedDue = some due → t < due := by
  intro cl hcl due hp
  unfold armedAtOrBefore at h
  rw [List.any_eq_false] at h
  have := h cl hcl
  simp [hp] at this; exact this

theorem dispatch_new_zero (n t : Nat) : (newCall n t 0 false).dispatch t =
    { cid := n, issueT := t, T := 0, phase := .live none, evtSet := false, lowerGot := true, sets := [] } := by
  simp [Call.dispatch, newCall]

theorem dispatch_new_pos (n t T : Nat) (hT : T ≠ 0) : (newCall n t T false).dispatch t =
    { cid := n, issueT := t, T := T, phase := .live (some (roundUp (t + T))), evtSet := false, lowerGot := true,
      sets := [] } := by
  have hd : ¬ (t + T < t) := by omega
  simp [Call.dispatch, newCall, hT, hd]

/-- a freshly issued call -/
theorem step_new (a : Acc) (s : FE) (hrel : Rel a s) (T t : Nat) (idx : Nat) :
    let a' := a.after (.issue T t)
    let cl' := (match s.openSt with
      | .done _ _ => (newCall s.calls.length t T false).dispatch t
      | .pending => newCall s.calls.length t T true)
    StepOK a'.openAt a' idx (.issue T t)
      { cid := a.infos.length, issueT := t, T := T, preOpen := a.openAt.isNone } cl' := by
  intro a' cl'
  have hlen := hrel.calls.length_eq
  have hoa : a'.openAt = a.openAt := rfl
  cases hos : s.openSt with
  | pending =>
    have hnone : a.openAt = none := hrel.openNone.mpr hos
    have hcl : cl' = newCall s.calls.length t T true := by simp [cl', hos]
    rw [hcl, hoa, hnone]
    have hinv : CallInv none { cid := a.infos.length, issueT := t, T := T, preOpen := (none : Option Nat).isNone }
        (newCall s.calls.length t T true) :=
      ⟨by simp [newCall, hlen], rfl, rfl, by simp [newCall], by simp [newCall],
        by intro g hg; simp only [newCall, Phase.waitOpen.injEq] at hg; simp [newCall, ← hg],
        by simp, by simp [newCall], by simp [newCall], by simp [newCall]⟩
    refine ⟨hinv, ?_, note1_first _ _ (by simp [newCall]) (Or.inl rfl)⟩
    intro c
    apply spec_pending a' idx c _ _ _ (by simp [newCall]) rfl
    intro hT hlate
    simp only [Op.time, Op.isTick] at hlate
    have := le_roundUp (t + T)
    simp only at hT
    rcases hlate with h | ⟨_, h⟩
    · omega
    · cases h
  | done ok t0 =>
    have hsome : a.openAt ≠ none := fun h => by have := hrel.openNone.mp h; rw [hos] at this; cases this
    obtain ⟨t1, ht1⟩ := Option.ne_none_iff_exists'.mp hsome
    have hcl : cl' = (newCall s.calls.length t T false).dispatch t := by simp [cl', hos]
    rw [hcl, hoa, ht1]
    by_cases hT : T = 0
    · subst hT
      rw [dispatch_new_zero]
      have hinv : CallInv (some t1) { cid := a.infos.length, issueT := t, T := 0, preOpen := (some t1).isNone }
          { cid := s.calls.length, issueT := t, T := 0, phase := .live none, evtSet := false, lowerGot := true,
            sets := [] } :=
        ⟨by simp [hlen], rfl, rfl, by simp, by simp, by simp, by simp, by simp, fun _ => rfl, by simp⟩
      refine ⟨hinv, ?_, note1_first _ _ (by simp) (Or.inl rfl)⟩
      intro c
      apply spec_pending a' idx c _ _ _ rfl rfl
      intro h; simp only at h; omega
    · rw [dispatch_new_pos _ _ _ hT]
      have hinv : CallInv (some t1) { cid := a.infos.length, issueT := t, T := T, preOpen := (some t1).isNone }
          { cid := s.calls.length, issueT := t, T := T, phase := .live (some (roundUp (t + T))), evtSet := false,
            lowerGot := true, sets := [] } :=
        ⟨by simp [hlen], rfl, rfl, by simp, by simp, by simp, by simp, by simp; omega, by simp, by simp⟩
      refine ⟨hinv, ?_, note1_first _ _ (by simp) (Or.inl rfl)⟩
      intro c
      apply spec_pending a' idx c _ _ _ rfl rfl
      intro _ hlate
      simp only [Op.time, Op.isTick] at hlate
      have := le_roundUp (t + T)
      rcases hlate with h | ⟨_, h⟩
      · omega
      · cases h


theorem opOk_parts (s : FE) (op : Op) (h : opOk s op = true) :
    s.clock ≤ op.time ∧ armedBefore s op.time = false := by
  unfold opOk at h
  simp only [Bool.and_eq_true, decide_eq_true_eq, Bool.not_eq_true'] at h
  exact ⟨h.1.1, h.1.2⟩

/-- one operation: every (remembered info, call) pair moves to a pair that satisfies the
    per-call invariant, is acceptable to the specification, and is remembered correctly -/
theorem after_step (a : Acc) (s : FE) (hrel : Rel a s) (op : Op) (hok : opOk s op = true) (idx : Nat) :
    List.Forall₂ (StepOK (a.after op).openAt (a.after op) idx op) (a.after op).infos (stepSt s op).calls ∧
    ((a.after op).openAt = none ↔ (stepSt s op).openSt = .pending) := by
  obtain ⟨_, hab⟩ := opOk_parts s op hok
  have hpunct := punct_of s op.time hab
  have hcalls := hrel.calls
  cases op with
  | issue T t =>
    constructor
    · show List.Forall₂ _ (a.infos ++ [_]) (s.calls ++ [_])
      apply List.rel_append
      · apply forall₂_imp_mem hcalls
        intro i cl _ hcl hg
        obtain ⟨r1, r2, r3⟩ := step_same a.openAt a.openAt (a.after (.issue T t)) rfl idx 0 (.issue T t) i i cl
          hg.1 hg.2 ⟨rfl, rfl, rfl, rfl, rfl⟩ (Or.inl rfl)
          (fun due hp => ⟨hpunct cl hcl due hp, fun h => by cases h⟩)
        refine ⟨r1, fun c => ?_, r3⟩
        exact (step_same a.openAt a.openAt (a.after (.issue T t)) rfl idx c (.issue T t) i i cl
          hg.1 hg.2 ⟨rfl, rfl, rfl, rfl, rfl⟩ (Or.inl rfl)
          (fun due hp => ⟨hpunct cl hcl due hp, fun h => by cases h⟩)).2.1
      · exact .cons (step_new a s hrel T t idx) .nil
    · show a.openAt = none ↔ s.openSt = .pending
      exact hrel.openNone
  | openDone ok t =>
    cases hos : s.openSt with
    | done ok0 t0 =>
      have hsome : a.openAt ≠ none := fun h => by have := hrel.openNone.mp h; rw [hos] at this; cases this
      have ha' : a.after (.openDone ok t) = a := by
        simp only [Acc.after]
        cases hoa : a.openAt with
        | none => exact absurd hoa hsome
        | some _ => simp
      have hs' : (stepSt s (.openDone ok t)).calls = s.calls ∧ (stepSt s (.openDone ok t)).openSt = s.openSt := by
        simp [stepSt, FE.openDone, hos]
      rw [ha', hs'.1, hs'.2]
      refine ⟨?_, hrel.openNone⟩
      apply forall₂_imp_mem hcalls
      intro i cl _ hcl hg
      have := fun c => step_same a.openAt a.openAt a rfl idx c (.openDone ok t) i i cl
          hg.1 hg.2 ⟨rfl, rfl, rfl, rfl, rfl⟩ (Or.inl rfl)
          (fun due hp => ⟨hpunct cl hcl due hp, fun h => by cases h⟩)
      exact ⟨(this 0).1, fun c => (this c).2.1, (this 0).2.2⟩
    | pending =>
      have hnone : a.openAt = none := hrel.openNone.mpr hos
      have ha' : (a.after (.openDone ok t)).openAt = some t ∧ (a.after (.openDone ok t)).infos = a.infos := by
        simp [Acc.after, hnone]
      have hs' : (stepSt s (.openDone ok t)).calls = s.calls.map (fun c => c.dispatch t) ∧
          (stepSt s (.openDone ok t)).openSt = .done ok t := by
        simp [stepSt, FE.openDone, hos]
      rw [ha'.1, ha'.2, hs'.1, hs'.2]
      refine ⟨?_, by simp⟩
      rw [List.forall₂_map_right_iff]
      apply forall₂_imp_mem hcalls
      intro i cl _ hcl hg
      rw [hnone] at hg
      cases hph : cl.phase with
      | waitOpen g =>
        have := fun c => step_dispatch (a.after (.openDone ok t)) t ha'.1 idx c (.openDone ok t) rfl rfl i i cl
          hg.1 hg.2 ⟨rfl, rfl, rfl, rfl, rfl⟩ g hph (fun due hd => hpunct cl hcl due hd)
        exact ⟨(this 0).1, fun c => (this c).2.1, (this 0).2.2⟩
      | live d =>
        have hid : cl.dispatch t = cl := by unfold Call.dispatch; simp [hph]
        rw [hid]
        have := fun c => step_same none (some t) (a.after (.openDone ok t)) ha'.1 idx c (.openDone ok t) i i cl
          hg.1 hg.2 ⟨rfl, rfl, rfl, rfl, rfl⟩ (Or.inr ⟨rfl, fun g => by rw [hph]; simp⟩)
          (fun due hp => ⟨hpunct cl hcl due hp, fun h => by cases h⟩)
        exact ⟨(this 0).1, fun c => (this c).2.1, (this 0).2.2⟩
      | over e =>
        have hid : cl.dispatch t = cl := by unfold Call.dispatch; simp [hph]
        rw [hid]
        have := fun c => step_same none (some t) (a.after (.openDone ok t)) ha'.1 idx c (.openDone ok t) i i cl
          hg.1 hg.2 ⟨rfl, rfl, rfl, rfl, rfl⟩ (Or.inr ⟨rfl, fun g => by rw [hph]; simp⟩)
          (fun due hp => ⟨hpunct cl hcl due hp, fun h => by cases h⟩)
        exact ⟨(this 0).1, fun c => (this c).2.1, (this 0).2.2⟩
  | lower c0 o t =>
    have hoa : (a.after (.lower c0 o t)).openAt = a.openAt := rfl
    have hall : ∀ cl ∈ s.calls, cl.cid = c0 → cl.lowerGot = true ∧
        (o = .timeout → 0 < cl.T ∧ cl.issueT + cl.T ≤ t) := by
      intro cl hcl hc
      unfold opOk at hok
      simp only [Bool.and_eq_true, List.all_eq_true] at hok
      have := hok.2.2 cl hcl
      simp [hc] at this
      refine ⟨this.1, fun ho => ?_⟩
      rcases this.2 with h | h
      · exact absurd ho h
      · exact h
    refine ⟨?_, hrel.openNone⟩
    show List.Forall₂ _ (a.infos.map _) (s.calls.map _)
    rw [List.forall₂_map_left_iff, List.forall₂_map_right_iff]
    apply forall₂_imp_mem hcalls
    intro i cl _ hcl hg
    have hcid : i.cid = cl.cid := hg.1.cid
    by_cases hc : cl.cid = c0
    · have hic : i.cid = c0 := hcid.trans hc
      simp only [if_pos hc, if_pos hic]
      have := fun c => step_respond a.openAt (a.after (.lower c0 o t)) hoa idx c (.lower c0 o t) o i
          { i with posts := i.posts ++ [o] } cl hg.1 hg.2 ⟨rfl, rfl, rfl, rfl, rfl⟩ (by simp)
          (hall cl hcl hc).1 (hall cl hcl hc).2 (fun due hp => hpunct cl hcl due hp)
      exact ⟨(this 0).1, fun c => (this c).2.1, (this 0).2.2⟩
    · have hic : ¬ i.cid = c0 := fun h => hc (hcid.symm.trans h)
      simp only [if_neg hc, if_neg hic]
      have := fun c => step_same a.openAt a.openAt (a.after (.lower c0 o t)) hoa idx c (.lower c0 o t) i i cl
          hg.1 hg.2 ⟨rfl, rfl, rfl, rfl, rfl⟩ (Or.inl rfl)
          (fun due hp => ⟨hpunct cl hcl due hp, fun h => by cases h⟩)
      exact ⟨(this 0).1, fun c => (this c).2.1, (this 0).2.2⟩
  | fire cs t =>
    have hoa : (a.after (.fire cs t)).openAt = a.openAt := rfl
    refine ⟨?_, hrel.openNone⟩
    show List.Forall₂ _ (a.infos.map _) (s.calls.map _)
    rw [List.forall₂_map_left_iff, List.forall₂_map_right_iff]
    apply forall₂_imp_mem hcalls
    intro i cl _ hcl hg
    have hcid : i.cid = cl.cid := hg.1.cid
    by_cases hc : (cs.contains cl.cid && cl.fireEnabled t) = true
    · simp only [hc, if_true]
      simp only [Bool.and_eq_true] at hc
      have := fun c => step_fire a.openAt (a.after (.fire cs t)) hoa idx c (.fire cs t) i
          (if cs.contains i.cid then { i with fired := true } else i) cl hg.1 hg.2
          (by split <;> exact ⟨rfl, rfl, rfl, rfl, rfl⟩) hc.2 (fun due hp => hpunct cl hcl due hp)
      exact ⟨(this 0).1, fun c => (this c).2.1, (this 0).2.2⟩
    · simp only [hc]
      have := fun c => step_same a.openAt a.openAt (a.after (.fire cs t)) hoa idx c (.fire cs t) i
          (if cs.contains i.cid then { i with fired := true } else i) cl
          hg.1 hg.2 (by split <;> exact ⟨rfl, rfl, rfl, rfl, rfl⟩) (Or.inl rfl)
          (fun due hp => ⟨hpunct cl hcl due hp, fun h => by cases h⟩)
      exact ⟨(this 0).1, fun c => (this c).2.1, (this 0).2.2⟩
  | tick t =>
    have hstrict : armedAtOrBefore s t = false := by
      unfold opOk at hok
      simp only [Bool.and_eq_true, Bool.not_eq_true'] at hok
      exact hok.2
    have hps := punct_strict_of s t hstrict
    refine ⟨?_, hrel.openNone⟩
    show List.Forall₂ _ a.infos s.calls
    apply forall₂_imp_mem hcalls
    intro i cl _ hcl hg
    have := fun c => step_same a.openAt a.openAt (a.after (.tick t)) rfl idx c (.tick t) i i cl
        hg.1 hg.2 ⟨rfl, rfl, rfl, rfl, rfl⟩ (Or.inl rfl)
        (fun due hp => ⟨hpunct cl hcl due hp, fun _ => hps cl hcl due hp⟩)
    exact ⟨(this 0).1, fun c => (this c).2.1, (this 0).2.2⟩

theorem specCalls_acceptable (a : Acc) (idx : Nat) (op : Op) (oa : Option Nat) :
    ∀ (infos : List CallInfo) (calls : List Call), List.Forall₂ (StepOK oa a idx op) infos calls →
      ∀ c, Acceptable (specCalls a idx op c infos (calls.map viewOf)) := by
  intro infos calls h
  induction h with
  | nil => intro c; rfl
  | cons hab _ ih =>
    intro c
    simp only [List.map_cons, specCalls]
    exact Acceptable.and (hab.2.1 c) (ih (c + 1))

theorem noteFirst_good (a : Acc) (idx : Nat) (op : Op) (oa : Option Nat) :
    ∀ (infos : List CallInfo) (calls : List Call), List.Forall₂ (StepOK oa a idx op) infos calls →
      List.Forall₂ (Good oa) (noteFirst infos (calls.map viewOf)) calls := by
  intro infos calls h
  induction h with
  | nil => exact .nil
  | cons hab _ ih =>
    simp only [List.map_cons, noteFirst]
    refine .cons ⟨?_, hab.2.2⟩ ih
    obtain ⟨f1, f2, f3, f4, _⟩ := note1_fields _ (viewOf _)
    exact hab.1.congr ⟨f1, f2, f3, f4⟩

theorem specGo_acceptable : ∀ (ops : List Op) (a : Acc) (s : FE) (idx : Nat), Rel a s → opsOk s ops = true →
    Acceptable (specGo a idx (comp.trace () s ops)) := by
  intro ops
  induction ops with
  | nil => intro a s idx _ _; rfl
  | cons op ops ih =>
    intro a s idx hrel hok
    simp only [opsOk, Bool.and_eq_true] at hok
    obtain ⟨h1, h2⟩ := hok
    obtain ⟨hstep, hopen⟩ := after_step a s hrel op h1 idx
    simp only [TComp.trace, comp, step, specGo]
    apply Acceptable.and
    · exact specCalls_acceptable _ idx op _ _ _ hstep 0
    · apply ih _ (stepSt s op) (idx + 1) _ h2
      exact ⟨hopen, noteFirst_good _ idx op _ _ _ hstep⟩

/-- **C01, specification level.**  For every legal operation list the history of the model is
    accepted by the executable specification — every clause of it, the deadline bound included,
    also for calls issued before the client finished opening (the dispatcher keeps its own timer
    for them, `_DispatchWhenOpen`). -/
theorem C01_model_satisfies_spec (ops : List Op) (hok : opsOk FE.init ops = true) :
    spec () (comp.modelTrace () ops) = .ok := by
  apply specGo_acceptable ops {} FE.init 0 _ hok
  exact ⟨by simp [FE.init], .nil⟩


/-! ### consequences stated on the model directly -/

def runOps (s : FE) (ops : List Op) : FE := ops.foldl stepSt s

theorem reachable_rel : ∀ (ops : List Op) (a : Acc) (s : FE), Rel a s → opsOk s ops = true →
    ∃ a', Rel a' (runOps s ops) := by
  intro ops
  induction ops with
  | nil => intro a s h _; exact ⟨a, h⟩
  | cons op ops ih =>
    intro a s hrel hok
    simp only [opsOk, Bool.and_eq_true] at hok
    obtain ⟨hstep, hopen⟩ := after_step a s hrel op hok.1 0
    exact ih { a.after op with infos := noteFirst (a.after op).infos ((stepSt s op).calls.map viewOf) }
      (stepSt s op) ⟨hopen, noteFirst_good _ 0 op _ _ _ hstep⟩ hok.2

/-- The result of every call is set at most once, whatever replies, faults and timers arrive,
    and it is set exactly when the call's sink stack has been drained. -/
theorem C01_at_most_once (ops : List Op) (hok : opsOk FE.init ops = true) :
    ∀ cl ∈ (runOps FE.init ops).calls, cl.sets.length ≤ 1 ∧ ((∃ t, cl.phase = .over t) ↔ cl.sets ≠ []) := by
  obtain ⟨a, hrel⟩ := reachable_rel ops {} FE.init ⟨by simp [FE.init], .nil⟩ hok
  intro cl hcl
  have : ∀ (infos : List CallInfo) (calls : List Call), List.Forall₂ (Good a.openAt) infos calls →
      ∀ cl ∈ calls, cl.sets.length ≤ 1 ∧ ((∃ t, cl.phase = .over t) ↔ cl.sets ≠ []) := by
    intro infos calls h
    induction h with
    | nil => intro cl h; cases h
    | cons hab _ ih =>
      intro cl h
      rcases List.mem_cons.mp h with h | h
      · subst h; exact ⟨hab.1.setsLe, hab.1.overIff⟩
      · exact ih cl h
  exact this _ _ hrel.calls cl hcl

/-- **TimeoutError is never delivered before t+T.**  In every reachable state, a result that was
    set to TimeoutError at time `t` belongs to a call with a timeout `T > 0` issued at `t₀` with
    `t₀ + T ≤ t` — whether it came from the call's timer, from the expired-at-dispatch path, or
    from a sink below (which `opsOk` constrains to post TimeoutError only after the deadline,
    the obligation discharged for the serial transport by its `gevent.Timeout(deadline − now)`). -/
theorem C01_timeout_not_early (ops : List Op) (hok : opsOk FE.init ops = true) :
    ∀ cl ∈ (runOps FE.init ops).calls, ∀ t, (t, Outcome.timeout) ∈ cl.sets →
      0 < cl.T ∧ cl.issueT + cl.T ≤ t := by
  obtain ⟨a, hrel⟩ := reachable_rel ops {} FE.init ⟨by simp [FE.init], .nil⟩ hok
  intro cl hcl
  have : ∀ (infos : List CallInfo) (calls : List Call), List.Forall₂ (Good a.openAt) infos calls →
      ∀ cl ∈ calls, ∀ t, (t, Outcome.timeout) ∈ cl.sets → 0 < cl.T ∧ cl.issueT + cl.T ≤ t := by
    intro infos calls h
    induction h with
    | nil => intro cl h; cases h
    | cons hab _ ih =>
      intro cl h
      rcases List.mem_cons.mp h with h | h
      · subst h; exact hab.1.tmo
      · exact ih cl h
  exact this _ _ hrel.calls cl hcl

/-- A reply, fault or timer that arrives after completion has no further effect on the caller:
    on a completed call neither a posted response nor the timer action touches the result. -/
theorem C01_late_arrivals_inert (cl : Call) (now : Nat) (o : Outcome)
    (hdone : ∃ t, cl.phase = .over t) :
    (cl.respond now o).sets = cl.sets ∧ (cl.fire now).sets = cl.sets ∧
    (cl.respond now o).phase = cl.phase := by
  obtain ⟨t, ht⟩ := hdone
  refine ⟨by simp [Call.respond, ht], ?_, by simp [Call.respond, ht]⟩
  unfold Call.fire
  cases t <;> simp [ht]

/-! ### the deadline bound -/

theorem opsOk_append : ∀ (ops : List Op) (s : FE) (op : Op), opsOk s (ops ++ [op]) = true →
    opsOk s ops = true ∧ opOk (runOps s ops) op = true := by
  intro ops
  induction ops with
  | nil => intro s op h; simpa [opsOk, runOps] using h
  | cons o os ih =>
    intro s op h
    simp only [List.cons_append, opsOk, Bool.and_eq_true] at h
    obtain ⟨h1, h2⟩ := ih (stepSt s o) op h.2
    exact ⟨by simp [opsOk, h.1, h1], by simpa [runOps] using h2⟩

/-- Every call that has a timeout and is not complete has a timer queued for its rounded
    deadline, in every reachable state: the timeout sink's once the call has been dispatched,
    the dispatcher's own while the client is still opening. -/
theorem C01_pending_call_has_timer (ops : List Op) (hok : opsOk FE.init ops = true) :
    ∀ cl ∈ (runOps FE.init ops).calls, 0 < cl.T → cl.sets = [] →
      cl.armedDue = some (roundUp (cl.issueT + cl.T)) := by
  obtain ⟨a, hrel⟩ := reachable_rel ops {} FE.init ⟨by simp [FE.init], .nil⟩ hok
  intro cl hcl
  have : ∀ (infos : List CallInfo) (calls : List Call), List.Forall₂ (Good a.openAt) infos calls →
      ∀ cl ∈ calls, 0 < cl.T → cl.sets = [] → cl.armedDue = some (roundUp (cl.issueT + cl.T)) := by
    intro infos calls h
    induction h with
    | nil => intro cl h; cases h
    | cons hab _ ih =>
      intro cl h
      rcases List.mem_cons.mp h with h | h
      · subst h
        intro hT hs
        have hinv := hab.1
        unfold Call.armedDue
        cases hp : cl.phase with
        | waitOpen g =>
          have := (hinv.waiting g hp).2.2.2
          rw [if_pos hT] at this; simp [this]
        | live d =>
          cases d with
          | none => have := hinv.liveNone hp; omega
          | some due => obtain ⟨e, _⟩ := hinv.liveDue due hp; simp [e]
        | over t =>
          have := (hinv.overIff).mp ⟨t, hp⟩
          exact absurd hs this
      · exact ih cl h
  exact this _ _ hrel.calls cl hcl

/-- **Deadline bound.**  A call with timeout T issued at t — before or after the client finished
    opening — is complete at every quiescent point from ⌈t+T⌉ (10 ms grid) on: if, after any legal
    history, the clock can reach `now ≥ ⌈t+T⌉` with no queued timer overdue (the timer queue's
    contract, C10), the call's result has been set. -/
theorem C01_deadline_bound (ops : List Op) (now : Nat) (hok : opsOk FE.init (ops ++ [.tick now]) = true) :
    ∀ cl ∈ (runOps FE.init ops).calls, 0 < cl.T → roundUp (cl.issueT + cl.T) ≤ now → cl.sets ≠ [] := by
  obtain ⟨h1, h2⟩ := opsOk_append ops FE.init (.tick now) hok
  intro cl hcl hT hdue hs
  have harmed := C01_pending_call_has_timer ops h1 cl hcl hT hs
  have hstrict : armedAtOrBefore (runOps FE.init ops) now = false := by
    unfold opOk at h2
    simp only [Bool.and_eq_true, Bool.not_eq_true'] at h2
    exact h2.2
  have := punct_strict_of _ now hstrict cl hcl _ harmed
  omega

/-- the scenario of the former finding K1 (repaired in /repo): T = 25 ms issued at 3.7 ms while the
    client never finishes opening.  The dispatcher's timer completes the call with TimeoutError at
    the rounded deadline; letting the clock run on without that timer firing is not a legal history
    of a punctual timer queue. -/
theorem C01_deadline_bound_open_never_completes :
    opsOk FE.init [.issue 25000 3700, .fire [0] 30000, .tick 4003700] = true ∧
    (spec () (comp.modelTrace () [.issue 25000 3700, .fire [0] 30000, .tick 4003700])).isOk = true ∧
    (runOps FE.init [.issue 25000 3700, .fire [0] 30000, .tick 4003700]).calls.map (fun c => c.sets) =
      [[(30000, .timeout)]] ∧
    opsOk FE.init [.issue 25000 3700, .tick 4003700] = false := by
  decide

/-! non-vacuity: a legal history with a reply, a late duplicate and a timer; and one with calls
    issued before the client finished opening (one timed out by the dispatcher's timer, one
    dispatched when opening completes) -/
example : opsOk FE.init
    [.issue 25000 3700, .issue 95000 3700, .fire [0] 30000, .openDone true 43700, .lower 1 (.ok 9) 53700,
     .tick 203700] = true ∧
    (runOps FE.init
    [.issue 25000 3700, .issue 95000 3700, .fire [0] 30000, .openDone true 43700, .lower 1 (.ok 9) 53700,
     .tick 203700]).calls.map (fun c => (c.sets, c.lowerGot)) =
    [([(30000, .timeout)], false), ([(53700, .ok 9)], true)] := by decide

example : opsOk FE.init
    [.openDone true 0, .issue 25000 3700, .issue 17000 3700, .lower 0 (.ok 5) 13700, .lower 0 (.ok 6) 13700,
     .fire [1] 30000, .tick 53700] = true := by decide

example : (runOps FE.init
    [.openDone true 0, .issue 25000 3700, .issue 17000 3700, .lower 0 (.ok 5) 13700, .lower 0 (.ok 6) 13700,
     .fire [1] 30000, .tick 53700]).calls.map (fun c => c.sets) =
    [[(13700, .ok 5)], [(30000, .timeout)]] := by decide

end Scales.FrontEnd
