/-
  Props/C17.lean — property theorems for C17 (async combinators).  Statements only rely on
  Model/Async.lean; helper lemmas live in Proofs/AsyncLemmas.lean.

  Quantification: `outs` is any assignment of success/failure to n ≥ 1 inputs, `ds` is any
  duplicate-free sequence of deliveries (a completion order, or any prefix of one), `pre`
  any subset already complete at call time.
-/
import ScalesModel.Proofs.AsyncLemmas
namespace Scales.Async

/-- WhenAll: a success result carries the inputs' values in input order, and occurs exactly
    when every input succeeded and all have been delivered. -/
theorem C17_whenAll_success_iff_all (outs : List Out) (ds : List Nat) (hn : 1 ≤ outs.length)
    (hnd : ds.Nodup) (hlt : ∀ x ∈ ds, x < outs.length) (vs : List (Option Nat)) :
    (WA.run outs (WA.init outs.length) ds).ret = .vals vs ↔
      (vs = outs.map valOf ∧ (∀ o ∈ outs, o.isOk = true) ∧ ds.length = outs.length) := by
  have hm := WA_master outs ds hn hnd hlt
  unfold WAInv at hm
  cases hf : (failsIn outs ds).getLast? with
  | some d =>
    simp only [hf] at hm
    have hdm : d ∈ failsIn outs ds := List.mem_of_getLast? hf
    unfold failsIn at hdm
    rw [List.mem_filter] at hdm
    constructor
    · intro h; rw [hm] at h; cases h
    · rintro ⟨_, hall, _⟩
      exfalso
      have hdl := hlt d hdm.1
      have := hall outs[d] (List.getElem_mem hdl)
      have h2 := hdm.2
      unfold isErrAt at h2
      rw [List.getElem?_eq_getElem hdl] at h2
      cases ho : outs[d] with
      | ok v => simp [ho] at h2
      | err e => simp [ho, Out.isOk] at this
  | none =>
    simp only [hf] at hm
    obtain ⟨_, _, hret⟩ := hm
    have hnofail : ∀ d ∈ ds, isErrAt outs d = false := by
      intro d hd
      by_contra hc
      have : d ∈ failsIn outs ds := by unfold failsIn; rw [List.mem_filter]; exact ⟨hd, by simpa using hc⟩
      have hne : failsIn outs ds ≠ [] := List.ne_nil_of_mem this
      rw [List.getLast?_eq_none_iff] at hf
      exact hne hf
    by_cases hfull : ds.length = outs.length
    · have hall := nodup_lt_length_eq_mem ds _ hnd hlt hfull
      simp only [hfull, if_true] at hret
      rw [hret, resultsOf_full outs ds hall]
      constructor
      · intro h; injection h with h
        refine ⟨h.symm, ?_, hfull⟩
        intro o ho
        obtain ⟨i, hi, rfl⟩ := List.getElem_of_mem ho
        have := hnofail i (hall i hi)
        unfold isErrAt at this
        rw [List.getElem?_eq_getElem hi] at this
        cases ho' : outs[i] with
        | ok v => rfl
        | err e => simp [ho'] at this
      · rintro ⟨h, _, _⟩; rw [h]
    · simp only [hfull, if_false] at hret
      rw [hret]
      constructor
      · intro h; cases h
      · rintro ⟨_, _, h⟩; exact absurd h hfull

/-- WhenAll fails as soon as a failing input has been delivered, with the exception of the
    most recently delivered failing input; and stays pending while nothing failed and not
    everything has been delivered. -/
theorem C17_whenAll_fails_at_first_failure (outs : List Out) (ds : List Nat) (hn : 1 ≤ outs.length)
    (hnd : ds.Nodup) (hlt : ∀ x ∈ ds, x < outs.length) :
    (∀ d, (failsIn outs ds).getLast? = some d →
        (WA.run outs (WA.init outs.length) ds).ret = .err (errAt outs d)) ∧
    ((failsIn outs ds) = [] → ds.length ≠ outs.length →
        (WA.run outs (WA.init outs.length) ds).ret = .pending) := by
  have hm := WA_master outs ds hn hnd hlt
  unfold WAInv at hm
  constructor
  · intro d hd; simpa [hd] using hm
  · intro he hne
    simp only [he, List.getLast?_nil] at hm
    simpa [hne] using hm.2.2

/-- WhenAny without a pre-completed success: the result is the value of the first delivered
    success; it is a failure exactly when every input was delivered and failed, carrying the
    last delivered failure; otherwise it is pending. -/
theorem C17_whenAny_fresh (outs : List Out) (pre : List Bool) (ds : List Nat)
    (hnd : ds.Nodup) (hlt : ∀ x ∈ ds, x < outs.length) (hpre : firstReadyOk outs pre = none) :
    WAny.run outs (WAny.init outs pre) ds = .fresh (outs.length - ds.length) (anyExpected outs ds) := by
  have hm := WAny_master outs ds hnd hlt
  unfold WAny.init
  rw [hpre]
  simp only
  generalize WAny.run outs (.fresh outs.length .pending) ds = s at hm
  cases s with
  | same i => simp [WAnyInv] at hm
  | fresh t r => obtain ⟨rfl, rfl⟩ := hm; rfl

theorem C17_whenAny_first_success (outs : List Out) (ds : List Nat) (d : Nat)
    (hd : ds.find? (isOkAt outs) = some d) : anyExpected outs ds = .val (valAt outs d) := by
  unfold anyExpected; rw [hd]

theorem C17_whenAny_fails_iff_all_failed_with_last (outs : List Out) (ds : List Nat) (e : Nat)
    (hn : 1 ≤ outs.length) :
    anyExpected outs ds = .err e ↔
      (ds.find? (isOkAt outs) = none ∧ ds.length = outs.length ∧
        ∃ d, ds.getLast? = some d ∧ errAt outs d = e) := by
  unfold anyExpected
  cases hf : ds.find? (isOkAt outs) with
  | some d => simp
  | none =>
    by_cases hfull : ds.length = outs.length
    · simp only [hfull, if_true, true_and]
      cases hl : ds.getLast? with
      | none =>
        rw [List.getLast?_eq_none_iff] at hl
        subst hl; simp at hfull; omega
      | some d => simp
    · simp [hfull]

/-- WhenAny with a pre-completed success returns that (first such) input itself, so the
    caller sees that input's value at once, whatever happens later. -/
theorem C17_whenAny_shortcut (outs : List Out) (pre : List Bool) (ds : List Nat) (i : Nat)
    (hpre : firstReadyOk outs pre = some i) :
    WAny.run outs (WAny.init outs pre) ds = .same i ∧
    ∃ v, outs[i]? = some (.ok v) ∧ pre.getD i false = true ∧
      WAny.view outs pre ds (.same i) = .val v := by
  unfold WAny.init
  rw [hpre]
  refine ⟨WAny_alias_run outs i ds, ?_⟩
  unfold firstReadyOk at hpre
  have hsome := List.find?_some hpre
  have hmem := List.mem_of_find?_eq_some hpre
  simp at hmem hsome
  obtain ⟨hp, hok⟩ := hsome
  have hi : outs[i]? = some outs[i] := by simp [hmem]
  cases ho : outs[i] with
  | ok v =>
    refine ⟨v, by rw [hi, ho], hp, ?_⟩
    simp [WAny.view, hi, ho, hp]
  | err e =>
    simp [hi, ho, Out.isOk] at hok

/-- Unwrap: in every state reachable by completions of any levels in any order interleaved
    with link deliveries, the target has been set at most once, and a set target carries
    the chain's innermost plain value or first failure. -/
inductive UWOp where
  | set (k : Nat)
  | deliver

def UW.apply (s : UW) : UWOp → UW
  | .set k => s.setLevel k
  | .deliver => s.deliver

theorem C17_unwrap_inv (chain : List Lvl) (pre : List Bool) (ops : List UWOp)
    (hwf : chainWF chain = true) : UWInv (ops.foldl UW.apply (UW.init chain pre)) := by
  have : ∀ s, UWInv s → UWInv (ops.foldl UW.apply s) := by
    induction ops with
    | nil => intro s h; exact h
    | cons op ops ih =>
      intro s h
      apply ih
      cases op with
      | set k => exact UW_setLevel_inv s k h
      | deliver => exact UW_deliver_inv s h
  exact this _ (UW_init_inv chain pre hwf)

theorem C17_unwrap_innermost_or_first_failure (chain : List Lvl) (pre : List Bool)
    (ops : List UWOp) (hwf : chainWF chain = true) :
    let s := ops.foldl UW.apply (UW.init chain pre)
    s.sets ≤ 1 ∧ (s.target ≠ .pending → s.target = chainOutcome chain ∧ s.sets = 1) ∧
    -- quiescent (no delivery outstanding) with every level up to the terminal one complete
    ((∀ j, j ≤ termIdx chain → s.ready.getD j false = true) → s.deliverEnabled = false →
        s.target = chainOutcome chain ∧ s.sets = 1) := by
  intro s
  have hinv : UWInv s := C17_unwrap_inv chain pre ops hwf
  have hchain : s.chain = chain := by
    have : ∀ (ops : List UWOp) (s0 : UW), (ops.foldl UW.apply s0).chain = s0.chain := by
      intro ops
      induction ops with
      | nil => intro s0; rfl
      | cons op ops ih =>
        intro s0
        simp only [List.foldl_cons]; rw [ih]
        cases op with
        | set k => rfl
        | deliver =>
          simp only [UW.apply, UW.deliver]
          split
          · simp only [UW.settle]; split <;> rfl
          · rfl
    rw [this]
    simp only [UW.init, UW.settle]; split <;> rfl
  obtain ⟨_, _, hpos, _, hwait, hdone⟩ := hinv
  rw [hchain] at hdone hpos
  cases hw : s.waiting with
  | true =>
    obtain ⟨ht, hs⟩ := hwait hw
    refine ⟨by omega, fun h => absurd ht h, ?_⟩
    intro hall hde
    exfalso
    unfold UW.deliverEnabled at hde
    rw [hw, hall s.pos hpos] at hde
    simp at hde
  | false =>
    obtain ⟨_, _, ht, hs⟩ := hdone hw
    exact ⟨by omega, fun _ => ⟨ht, hs⟩, fun _ _ => ⟨ht, hs⟩⟩

/-- ContinueWith runs its continuation exactly once per delivery of the source result (and
    the source is delivered once — gevent link contract), capturing value or exception. -/
theorem C17_continueWith_once (f : FnRes) :
    CW.init.ran = 0 ∧ CW.init.cw = .pending ∧ (CW.init.deliver f).ran = 1 ∧
    (CW.init.deliver f).cw = (match f with | .ret v => .val v | .raise e => .err e) := by
  cases f <;> simp [CW.init, CW.deliver]

/-- Map applies its function only to successful values. -/
theorem C17_map_only_success (o : Out) (f : FnRes) :
    ((mapDeliver o f).1 = 1 ↔ o.isOk = true) ∧
    (∀ e, o = .err e → mapDeliver o f = (0, .err e)) := by
  cases o <;> cases f <;> simp [mapDeliver, Out.isOk]

/-! ### the model's observations always satisfy the executable specification

  `spec` is the predicate the harness evaluates on the implementation's observations;
  here it is shown to hold of the model's own history for every legal operation list. -/

theorem Verdict_and_ok (v : Verdict) (f : Unit → Verdict) (h1 : v = .ok) (h2 : f () = .ok) :
    v.and f = .ok := by
  subst h1; exact h2

theorem spec_whenAll (outs : List Out) :
    ∀ (ops : List Op) (a : Acc) (s : WA) (idx : Nat), a.ds.Nodup → (∀ x ∈ a.ds, x < outs.length) →
      WAInv outs a.ds s → opsOk (.whenAll outs) a ops = true →
      specGo (.whenAll outs) a idx (comp.trace (.whenAll outs) (.wa s a.ds) ops) = .ok := by
  intro ops
  induction ops with
  | nil => intros; rfl
  | cons op ops ih =>
    intro a s idx hnd hlt hinv hok
    simp only [opsOk, Bool.and_eq_true] at hok
    obtain ⟨hop, hrest⟩ := hok
    cases op with
    | look =>
      simp only [TComp.trace, comp, step, stepSt, specGo, Acc.after]
      apply Verdict_and_ok
      · simp [specObs, obsOf, accAll_of_WAInv outs a.ds s hnd hlt hinv]
      · exact ih a s (idx + 1) hnd hlt hinv hrest
    | deliver i =>
      simp only [opOk, Bool.and_eq_true, decide_eq_true_eq, Bool.not_eq_true', List.contains_eq_mem,
        decide_eq_false_iff_not] at hop
      obtain ⟨hi, hni⟩ := hop
      have hd : outs[i]? = some outs[i] := List.getElem?_eq_getElem hi
      have hnd' : (a.ds ++ [i]).Nodup := by
        rw [List.nodup_append]; exact ⟨hnd, by simp, by intro x hx y hy; simp at hy; subst hy; intro h; subst h; exact hni hx⟩
      have hlt' : ∀ x ∈ a.ds ++ [i], x < outs.length := by
        intro x hx; simp at hx; rcases hx with hx | hx
        · exact hlt x hx
        · subst hx; exact hi
      have hinv' := WAInv_step outs a.ds s i outs[i] hd hnd' hlt' hinv
      simp only [TComp.trace, comp, step, stepSt, hd, specGo, Acc.after]
      apply Verdict_and_ok
      · simp [specObs, obsOf, accAll_of_WAInv outs _ _ hnd' hlt' hinv']
      · exact ih { a with ds := a.ds ++ [i] } _ (idx + 1) hnd' hlt' hinv' hrest
    | set k => simp [opOk] at hop
    | drain => simp [opOk] at hop

theorem spec_whenAny (outs : List Out) (pre : List Bool) (hn : 1 ≤ outs.length) :
    ∀ (ops : List Op) (a : Acc) (s : AnyRet) (idx : Nat), a.ds.Nodup → (∀ x ∈ a.ds, x < outs.length) →
      ((∀ i, firstReadyOk outs pre = some i → s = .same i) ∧
       (firstReadyOk outs pre = none → WAnyInv outs a.ds s)) →
      opsOk (.whenAny outs pre) a ops = true →
      specGo (.whenAny outs pre) a idx (comp.trace (.whenAny outs pre) (.wany s a.ds) ops) = .ok := by
  have hacc : ∀ (ds : List Nat) (s : AnyRet), ds.Nodup → (∀ x ∈ ds, x < outs.length) →
      ((∀ i, firstReadyOk outs pre = some i → s = .same i) ∧
       (firstReadyOk outs pre = none → WAnyInv outs ds s)) →
      accAny outs pre ds (WAny.view outs pre ds s) = true := by
    intro ds s hnd hlt hrel
    cases hf : firstReadyOk outs pre with
    | some i => rw [hrel.1 i hf]; exact accAny_same outs pre ds i hf
    | none =>
      have := hrel.2 hf
      cases s with
      | same i => simp [WAnyInv] at this
      | fresh t r =>
        obtain ⟨_, rfl⟩ := this
        simpa [WAny.view] using accAny_expected outs pre ds hn hnd hlt
  intro ops
  induction ops with
  | nil => intros; rfl
  | cons op ops ih =>
    intro a s idx hnd hlt hrel hok
    simp only [opsOk, Bool.and_eq_true] at hok
    obtain ⟨hop, hrest⟩ := hok
    cases op with
    | look =>
      simp only [TComp.trace, comp, step, stepSt, specGo, Acc.after]
      apply Verdict_and_ok
      · simp [specObs, obsOf, hacc a.ds s hnd hlt hrel]
      · exact ih a s (idx + 1) hnd hlt hrel hrest
    | deliver i =>
      simp only [opOk, Bool.and_eq_true, decide_eq_true_eq, Bool.not_eq_true', List.contains_eq_mem,
        decide_eq_false_iff_not] at hop
      obtain ⟨hi, hni⟩ := hop
      have hd : outs[i]? = some outs[i] := List.getElem?_eq_getElem hi
      have hnd' : (a.ds ++ [i]).Nodup := by
        rw [List.nodup_append]; exact ⟨hnd, by simp, by intro x hx y hy; simp at hy; subst hy; intro h; subst h; exact hni hx⟩
      have hlt' : ∀ x ∈ a.ds ++ [i], x < outs.length := by
        intro x hx; simp at hx; rcases hx with hx | hx
        · exact hlt x hx
        · subst hx; exact hi
      have hrel' : (∀ j, firstReadyOk outs pre = some j → WAny.complete s outs[i] = .same j) ∧
          (firstReadyOk outs pre = none → WAnyInv outs (a.ds ++ [i]) (WAny.complete s outs[i])) := by
        refine ⟨fun j hj => by rw [hrel.1 j hj]; rfl, fun hnone => ?_⟩
        exact WAnyInv_step outs a.ds s i outs[i] hd hnd' hlt' (hrel.2 hnone)
      simp only [TComp.trace, comp, step, stepSt, hd, specGo, Acc.after]
      apply Verdict_and_ok
      · simp [specObs, obsOf, hacc _ _ hnd' hlt' hrel']
      · exact ih { a with ds := a.ds ++ [i] } _ (idx + 1) hnd' hlt' hrel' hrest
    | set k => simp [opOk] at hop
    | drain => simp [opOk] at hop

theorem spec_unwrap_obs (chain : List Lvl) (pre : List Bool) (a : Acc) (u : UW) (idx : Nat) (op : Op)
    (hinv : UWInv u) (hc : u.chain = chain) (hr : u.ready = readyOf pre chain.length a.sets)
    (hdrain : op = .drain → u.waiting = true → u.ready.getD u.pos false = false) :
    specObs (.unwrap chain pre) a idx op ⟨u.target, u.sets⟩ = .ok := by
  unfold specObs
  simp only
  rw [← hr]
  cases hw : u.waiting with
  | true =>
    obtain ⟨ht, _⟩ := hinv.wait hw
    have hstuck : ¬ (op = .drain ∧ allReadyUpTo u.ready (termIdx chain) = true) := by
      rintro ⟨hop, hall⟩
      have h1 := hdrain hop hw
      unfold allReadyUpTo at hall
      simp only [List.all_eq_true, List.mem_range] at hall
      have := hall u.pos (by have := hinv.posle; rw [hc] at this; omega)
      rw [h1] at this; cases this
    simp only [ht]
    by_cases hop : op = .drain
    · have : allReadyUpTo u.ready (termIdx chain) = false := by
        cases hh : allReadyUpTo u.ready (termIdx chain) with
        | false => rfl
        | true => exact absurd ⟨hop, hh⟩ hstuck
      simp [this]
    · simp [hop]
  | false =>
    obtain ⟨_, _, ht, _⟩ := hinv.done hw
    have hall := allReady_of_done u hinv hw
    rw [hc] at ht hall
    obtain ⟨_, _, _, ht4, ht5⟩ := termIdx_spec chain (hc ▸ hinv.wf)
    have hne : chainOutcome chain ≠ .pending := by
      rw [ht4]; intro h; rw [h] at ht5; cases ht5
    rw [ht]
    simp [hall, hne]

theorem spec_unwrap (chain : List Lvl) (pre : List Bool) :
    ∀ (ops : List Op) (a : Acc) (u : UW) (idx : Nat), UWInv u → u.chain = chain →
      u.ready = readyOf pre chain.length a.sets →
      opsOk (.unwrap chain pre) a ops = true →
      specGo (.unwrap chain pre) a idx (comp.trace (.unwrap chain pre) (.uw u) ops) = .ok := by
  intro ops
  induction ops with
  | nil => intros; rfl
  | cons op ops ih =>
    intro a u idx hinv hc hr hok
    simp only [opsOk, Bool.and_eq_true] at hok
    obtain ⟨hop, hrest⟩ := hok
    cases op with
    | look =>
      simp only [TComp.trace, comp, step, stepSt, specGo, Acc.after, obsOf]
      apply Verdict_and_ok
      · exact spec_unwrap_obs chain pre a u idx .look hinv hc hr (by intro h; cases h)
      · exact ih a u (idx + 1) hinv hc hr hrest
    | deliver i => simp [opOk] at hop
    | set k =>
      have hinv' := UW_setLevel_inv u k hinv
      have hr' : (u.setLevel k).ready = readyOf pre chain.length (a.sets ++ [k]) := by
        simp only [UW.setLevel, hr]; exact readyOf_set pre chain.length a.sets k
      simp only [TComp.trace, comp, step, stepSt, specGo, Acc.after, obsOf]
      apply Verdict_and_ok
      · exact spec_unwrap_obs chain pre _ _ idx (.set k) hinv' hc hr' (by intro h; cases h)
      · exact ih { a with sets := a.sets ++ [k] } _ (idx + 1) hinv' hc hr' hrest
    | drain =>
      have hinv' := UW_deliver_inv u hinv
      have hcr := deliver_chain u
      simp only [TComp.trace, comp, step, stepSt, specGo, Acc.after, obsOf]
      apply Verdict_and_ok
      · exact spec_unwrap_obs chain pre a _ idx .drain hinv' (hcr.1.trans hc) (hcr.2.trans hr)
          (fun _ => deliver_wait u hinv)
      · exact ih a _ (idx + 1) hinv' (hcr.1.trans hc) (hcr.2.trans hr) hrest

theorem spec_cw (f : FnRes) :
    ∀ (ops : List Op) (a : Acc) (c : CW) (idx : Nat), c.ran = a.ds.length →
      c.cw = (if a.ds.length = 0 then .pending else fnRes f) →
      opsOk (.cw f) a ops = true →
      specGo (.cw f) a idx (comp.trace (.cw f) (.cw c) ops) = .ok := by
  intro ops
  induction ops with
  | nil => intros; rfl
  | cons op ops ih =>
    intro a c idx h1 h2 hok
    simp only [opsOk, Bool.and_eq_true] at hok
    obtain ⟨hop, hrest⟩ := hok
    cases op with
    | look =>
      simp only [TComp.trace, comp, step, stepSt, specGo, Acc.after, obsOf]
      apply Verdict_and_ok
      · simp [specObs, h1, h2]
      · exact ih a c (idx + 1) h1 h2 hrest
    | deliver i =>
      simp only [opOk, List.isEmpty_iff] at hop
      simp only [TComp.trace, comp, step, stepSt, specGo, Acc.after, obsOf]
      have e1 : (c.deliver f).ran = (a.ds ++ [i]).length := by
        cases f <;> simp [CW.deliver, h1, hop]
      have e2 : (c.deliver f).cw = (if (a.ds ++ [i]).length = 0 then .pending else fnRes f) := by
        cases f <;> simp [CW.deliver, fnRes]
      apply Verdict_and_ok
      · simp [specObs, e1, e2]
      · exact ih { a with ds := a.ds ++ [i] } _ (idx + 1) e1 e2 hrest
    | set k => simp [opOk] at hop
    | drain => simp [opOk] at hop

theorem spec_map (src : Out) (f : FnRes) :
    ∀ (ops : List Op) (a : Acc) (n : Nat) (r : Res) (idx : Nat),
      (n, r) = (if a.ds.length = 0 then ((0 : Nat), Res.pending) else mapSpec src f) →
      opsOk (.map src f) a ops = true →
      specGo (.map src f) a idx (comp.trace (.map src f) (.mp n r) ops) = .ok := by
  intro ops
  induction ops with
  | nil => intros; rfl
  | cons op ops ih =>
    intro a n r idx h1 hok
    simp only [opsOk, Bool.and_eq_true] at hok
    obtain ⟨hop, hrest⟩ := hok
    cases op with
    | look =>
      simp only [TComp.trace, comp, step, stepSt, specGo, Acc.after, obsOf]
      apply Verdict_and_ok
      · simp only [specObs, ← h1]; simp
      · exact ih a n r (idx + 1) h1 hrest
    | deliver i =>
      simp only [TComp.trace, comp, step, stepSt, specGo, Acc.after, obsOf]
      have e : mapDeliver src f = (if (a.ds ++ [i]).length = 0 then ((0 : Nat), Res.pending) else mapSpec src f) := by
        cases src <;> cases f <;> simp [mapDeliver, mapSpec, fnRes]
      apply Verdict_and_ok
      · simp only [specObs, ← e]; simp
      · exact ih { a with ds := a.ds ++ [i] } _ _ (idx + 1) e hrest
    | set k => simp [opOk] at hop
    | drain => simp [opOk] at hop

/-- **C17, specification level.**  For every well-formed configuration (n ≥ 1 inputs; a
    well-formed chain) and every legal operation list (each link delivered at most once),
    the history of the model satisfies the executable specification `spec`. -/
theorem C17_model_satisfies_spec (cfg : Cfg) (ops : List Op) (hc : cfgWF cfg = true)
    (ho : opsOk cfg {} ops = true) : spec cfg (comp.modelTrace cfg ops) = .ok := by
  unfold spec TComp.modelTrace
  cases cfg with
  | whenAll outs =>
    simp only [cfgWF, decide_eq_true_eq] at hc
    exact spec_whenAll outs ops {} _ 0 (by simp) (by simp) (WAInv_init outs hc) ho
  | whenAny outs pre =>
    simp only [cfgWF, decide_eq_true_eq] at hc
    refine spec_whenAny outs pre hc ops {} _ 0 (by simp) (by simp) ?_ ho
    simp only [WAny.init]
    constructor
    · intro i hi; simp [hi]
    · intro hnone; simp [hnone, WAnyInv, anyExpected]
  | unwrap chain pre =>
    simp only [cfgWF] at hc
    refine spec_unwrap chain pre ops {} _ 0 (UW_init_inv chain pre hc) ?_ ?_ ho
    · simp only [UW.init]; exact (settle_chain _ 0).1
    · simp only [UW.init]; rw [(settle_chain _ 0).2]; simp [readyOf]
  | cw f => exact spec_cw f ops {} _ 0 rfl rfl ho
  | map src f => exact spec_map src f ops {} 0 .pending 0 rfl ho

/-! non-vacuity: concrete instances of the hypotheses -/
example : (WA.run [.ok 5, .ok 6, .ok 7] (WA.init 3) [2, 0, 1]).ret = .vals [some 5, some 6, some 7] := by decide
example : (WA.run [.ok 5, .err 9, .ok 7] (WA.init 3) [2, 1]).ret = .err 9 := by decide
example : WAny.run [.err 1, .ok 6, .err 3] (WAny.init [.err 1, .ok 6, .err 3] [true, false, false]) [0, 2, 1]
    = .fresh 0 (.val 6) := by decide
example : WAny.run [.err 1, .err 3] (WAny.init [.err 1, .err 3] [false, false]) [1, 0]
    = .fresh 0 (.err 1) := by decide
example : chainWF [.inner, .inner, .plain 4] = true := by decide
example : ([UWOp.set 2, .set 0, .deliver, .set 1, .deliver].foldl UW.apply
    (UW.init [.inner, .inner, .plain 4] [false, false, false])).target = .val 4 := by decide

end Scales.Async
