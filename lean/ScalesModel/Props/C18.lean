/-
  Props/C18.lean — property theorems for C18 (metrics are neither lost, duplicated nor split
  across equal sources).  Statements rely on Model/Varz.lean and Adapter/Varz.lean; helper
  lemmas live in Proofs/VarzLemmas.lean.

  Quantification: `cfg` is any set of registered metrics with any reservoir size and any
  percentile list, `ops` any finite sequence of IncrementVarz / SetVarz /
  RecordPercentileSample / read / Aggregate calls, every one of them made with a freshly
  constructed `Source` (a `Source` value in the model *is* its four fields, so two
  constructions with equal fields are the same value — this is the repaired equality, F12).
  `run cfg ops` is the model state after `ops`; the history functions `incSum`, `lastSet`,
  `srcs`, `sampleCount`, `lastRetain` read a history newest-first, hence `ops.reverse`.
  Time (LOW_RESOLUTION_TIME_SOURCE.now, whole seconds) is a parameter of every sample and
  aggregate operation; no monotonicity is assumed.
-/
import ScalesModel.Proofs.VarzLemmas
import Mathlib.Data.List.Perm.Subperm
namespace Scales.Varz

/-- Counter-like metrics (Counter, Rate, AggregateTimer): the total Aggregate reports for a
    key (service, client id) equals the sum of all increments recorded by sources rolling up
    to that key — nothing lost, nothing counted twice, for every history. -/
theorem C18_aggregate_is_sum (cfg : Cfg) (ops : List Op) (m : Nat) (t : VType) (K : Key)
    (ht : typeOf cfg m = some t) (hc : t.isCounterLike = true) :
    aggTotal K (seriesOf m (run cfg ops)) = incSum m K ops.reverse :=
  aggTotal_replay cfg m t K ht hc ops.reverse

/-- A gauge holds, for every source, the last value set by a source with equal fields
    (`none` if there was none), for every history. -/
theorem C18_gauge_last (cfg : Cfg) (ops : List Op) (m : Nat) (s : Source)
    (ht : typeOf cfg m = some .gauge) :
    lookup (m, s) (run cfg ops) = (lastSet m s ops.reverse).map Cell.num :=
  lookup_replay_gauge cfg m s ht ops.reverse

/-- ... and where one source rolls up to a key, Aggregate reports that last value. -/
theorem C18_gauge_last_aggregated (cfg : Cfg) (ops : List Op) (m : Nat) (K : Key) (s : Source)
    (ht : typeOf cfg m = some .gauge) (hacc : opsOk cfg ops = true)
    (hone : (distinctSrcs m ops.reverse).filter (fun s => s.key = K) = [s]) :
    some (aggTotal K (seriesOf m (run cfg ops))) = lastSet m s ops.reverse :=
  gauge_entry cfg m ht ops.reverse (by simpa [opsOk] using hacc) K s hone

/-- Recording against two separately constructed sources whose method, service, endpoint and
    client id are equal lands in one series: the second recording adds no series, in any
    state and whatever the two recordings do to the stored value. -/
theorem C18_equal_sources_one_series (st : Store) (m : Nat) (s s' : Source)
    (f g : Option Cell → Cell) (h1 : s.method = s'.method) (h2 : s.service = s'.service)
    (h3 : s.endpoint = s'.endpoint) (h4 : s.client = s'.client) :
    nSeries m (upd (m, s') g (upd (m, s) f st)) = nSeries m (upd (m, s) f st) := by
  have : s = s' := by
    cases s; cases s'; simp_all
  subst this
  rw [nSeries_eq, nSeries_eq, srcKeys_upd_same m s g]
  have : s ∈ srcKeys m (upd (m, s) f st) := by
    rw [srcKeys_upd_same]; split <;> simp_all
  simp [this]

/-- The series of a metric are exactly the distinct sources recorded against. -/
theorem C18_series_eq_distinct_sources (cfg : Cfg) (ops : List Op) (m : Nat)
    (hacc : opsOk cfg ops = true) :
    nSeries m (run cfg ops) = (distinctSrcs m ops.reverse).length := by
  rw [nSeries_eq, run, srcKeys_replay cfg m ops.reverse (by simpa [opsOk] using hacc)]

/-- The number of series is bounded by the number of distinct sources however many calls
    are made: for every list `ds` that contains each source recorded against. -/
theorem C18_series_le_distinct_sources (cfg : Cfg) (ops : List Op) (m : Nat)
    (hacc : opsOk cfg ops = true) (ds : List Source) (hds : ∀ s ∈ srcs m ops.reverse, s ∈ ds) :
    nSeries m (run cfg ops) ≤ ds.length := by
  rw [C18_series_eq_distinct_sources cfg ops m hacc]
  apply List.Subperm.length_le
  apply List.Nodup.subperm (nodup_firstOcc _)
  intro s hs
  exact hds s (List.mem_reverse.mp ((mem_firstOcc _ _).mp hs))

/-- Percentiles lie between the smallest and the largest retained sample: for every sample
    list, every percentile p/q in [0,1], every lower bound `lo` and upper bound `hi` of the
    samples (in particular their minimum and maximum), lo ≤ reported value ≤ hi. -/
theorem C18_percentile_between_min_max (xs : List Int) (hne : xs ≠ []) (p q : Nat) (hq : 0 < q)
    (hp : p ≤ q) (lo hi : Int) (hlo : ∀ x ∈ xs, lo ≤ x) (hhi : ∀ x ∈ xs, x ≤ hi) :
    lo * (q : Int) ≤ pctNum (isort xs) p q ∧ pctNum (isort xs) p q ≤ hi * (q : Int) := by
  have hne' : isort xs ≠ [] := by
    intro h
    have := length_isort xs
    rw [h] at this
    cases xs with
    | nil => exact hne rfl
    | cons _ _ => simp at this
  obtain ⟨⟨x, hx, hxl⟩, ⟨y, hy, hyu⟩⟩ := pctNum_witness _ (isort_sorted xs) hne' p q hq hp
  have hq0 : (0 : Int) ≤ (q : Int) := Int.natCast_nonneg _
  rw [mem_isort] at hx hy
  exact ⟨le_trans (mul_le_mul_of_nonneg_right (hlo x hx) hq0) hxl,
         le_trans hyu (mul_le_mul_of_nonneg_right (hhi y hy) hq0)⟩

/-- Percentiles do not decrease as the percentile rises: p₁/q₁ ≤ p₂/q₂ implies
    value₁ ≤ value₂ (both sides cross-multiplied by the positive denominators). -/
theorem C18_percentile_monotone (xs : List Int) (hne : xs ≠ []) (p1 q1 p2 q2 : Nat)
    (hq1 : 0 < q1) (hp1 : p1 ≤ q1) (hq2 : 0 < q2) (hp2 : p2 ≤ q2) (h : p1 * q2 ≤ p2 * q1) :
    pctNum (isort xs) p1 q1 * (q2 : Int) ≤ pctNum (isort xs) p2 q2 * (q1 : Int) := by
  have hne' : isort xs ≠ [] := by
    intro h
    have := length_isort xs
    rw [h] at this
    cases xs with
    | nil => exact hne rfl
    | cons _ _ => simp at this
  exact pctNum_mono _ (isort_sorted xs) hne' p1 q1 p2 q2 hq1 hp1 hq2 hp2 h

/-- The reservoir retains at most `cap` samples, and each retained sample was recorded. -/
theorem C18_reservoir_bounded (cap : Nat) (keep : Bool) (v : Int) (now : Nat) (data : List Int)
    (seen last : Nat) (hb : data.length ≤ cap) (hs : data.length ≤ seen) :
    ∃ d n l, sampleInto cap keep v now data seen last = .res d n l ∧ d.length ≤ cap ∧ d.length ≤ n ∧
      ∀ x ∈ d, x = v ∨ x ∈ data := by
  unfold sampleInto
  split
  · refine ⟨_, _, _, rfl, ?_, ?_, ?_⟩
    · simp; omega
    · simp; omega
    · intro x hx; simp at hx; tauto
  · split
    · have hd : (data ++ [v]).length = data.length + 1 := by simp
      refine ⟨_, _, _, rfl, ?_, ?_, ?_⟩
      · split
        · rw [List.length_drop]; omega
        · omega
      · split
        · rw [List.length_drop]; omega
        · omega
      · intro x hx
        split at hx
        · have := List.mem_of_mem_drop hx; simp at this; tauto
        · simp at hx; tauto
    · exact ⟨_, _, _, rfl, hb, by omega, fun x hx => Or.inr hx⟩

/-- A reservoir's `last_update` is the time at which it last retained a sample (one of the
    first `cap` samples, or a later one the draw kept), and `seen` counts every sample — for
    every history, in particular after the reservoir is full. -/
theorem C18_last_update_is_last_retained (cfg : Cfg) (ops : List Op) (m : Nat) (s : Source) (t : VType)
    (ht : typeOf cfg m = some t) (hp : t.isPct = true) (d : List Int) (n l : Nat)
    (hl : lookup (m, s) (run cfg ops) = some (.res d n l)) :
    n = sampleCount m s ops.reverse ∧ ∀ tr, lastRetain cfg.cap m s ops.reverse = some tr → l = tr := by
  have := lookup_replay_pct cfg m s t ht hp ops.reverse
  unfold run at hl
  rw [hl] at this
  exact this

/-- A single source that retained a sample within the last MAX_AGG_AGE seconds is never
    dropped: Aggregate at time `now` counts exactly its reservoir and reports the percentiles
    of its retained samples (which therefore lie within their minimum and maximum and are
    monotone, by the two theorems above). -/
theorem C18_recent_source_reported (cfg : Cfg) (ops : List Op) (hw : comp.wf cfg ops = true) (m : Nat)
    (t : VType) (ht : typeOf cfg m = some t) (hp : t.isPct = true) (K : Key) (s : Source) (now : Nat)
    (hone : (distinctSrcs m ops.reverse).filter (fun s => s.key = K) = [s])
    (hrec : retainedRecently cfg.cap m s now ops.reverse = true) :
    pctCount now K (seriesOf m (run cfg ops)) = 1 ∧
    aggPcts cfg.pcts now K (seriesOf m (run cfg ops)) =
      cfg.pcts.map (fun pq => pctNum (isort (mergedData K (seriesOf m (run cfg ops)))) pq.1 pq.2) := by
  simp only [comp, Bool.and_eq_true] at hw
  have := pct_entry cfg hw.1 m t ht hp ops.reverse (by simpa [opsOk] using hw.2) K s now hone hrec
  exact ⟨this.1, this.2.2⟩

/-- **C18, specification level.**  For every configuration whose percentiles are fractions
    in [0,1] and every operation list that uses each metric through the entry point of its
    type, the history of the model satisfies the executable specification `spec` — the
    predicate the harness evaluates on the implementation's observations. -/
theorem C18_model_satisfies_spec (cfg : Cfg) (ops : List Op) (hw : comp.wf cfg ops = true) :
    spec cfg (comp.modelTrace cfg ops) = .ok := by
  simp only [comp, Bool.and_eq_true] at hw
  exact specGo_model cfg hw.1 ops [] 0 (by simp) (by simpa [opsOk] using hw.2)

/-! non-vacuity -/
example : typeOf ⟨[(0, .counter), (1, .gauge)], 3, [(1, 2)]⟩ 0 = some .counter := by decide
example : comp.wf ⟨[(0, .counter), (1, .avgTimer)], 3, [(1, 2), (9, 10)]⟩
    [.inc 0 ⟨some 1, some 2, none, none⟩ 5, .inc 0 ⟨some 1, some 2, none, none⟩ 7,
     .sample 1 ⟨none, some 2, none, none⟩ 4 true 10, .agg [0, 1] 20] = true := by decide
example : nSeries 0 (run ⟨[(0, .counter)], 3, []⟩
    [.inc 0 ⟨some 1, some 2, none, none⟩ 5, .inc 0 ⟨some 1, some 2, none, none⟩ 7]) = 1 := by decide
example : aggTotal (some 2, none) (seriesOf 0 (run ⟨[(0, .counter)], 3, []⟩
    [.inc 0 ⟨some 1, some 2, none, none⟩ 5, .inc 0 ⟨some 4, some 2, some 0, none⟩ 7])) = 12 := by decide
-- samples 5 1 9, p = 9/10: k = 1.8, value = 5·0.2 + 9·0.8 = 8.2 = 82/10
example : pctNum (isort [5, 1, 9]) 9 10 = 82 := by decide
-- cap 2: three samples at t = 0, one kept at t = 301; aggregated at t = 400 the source is recent
example : retainedRecently 2 0 ⟨none, some 2, none, none⟩ 400
    [.sample 0 ⟨none, some 2, none, none⟩ 9 true 301, .sample 0 ⟨none, some 2, none, none⟩ 7 false 0,
     .sample 0 ⟨none, some 2, none, none⟩ 6 false 0, .sample 0 ⟨none, some 2, none, none⟩ 5 false 0] = true := by
  decide

end Scales.Varz
