/-
  Model/Varz.lean — C18: executable model of scales/varz.py (VarzReceiver, _SampleSet,
  VarzAggregator.Aggregate / CalculatePercentile) with the repaired `Source` equality (F12:
  two sources are the same dictionary key iff their four fields are equal).  Import-free.

  `VARZ_DATA` (metric -> source -> value | reservoir) is one insertion-ordered association
  list keyed by (metric, source); the view of one metric is the sub-list with that metric, in
  insertion order, which is the iteration order of the nested Python dictionaries.

  Numbers are integers.  Percentiles are exact: a percentile is the fraction p/q and the
  reported value is returned as its numerator over the denominator q (`pctNum`), i.e. the
  value CalculatePercentile computes equals `pctNum vs p q / q`.
-/
namespace Scales.Varz

/-- scales.varz.Source: four optional fields (strings in the code, interned as numbers) -/
structure Source where
  method : Option Nat
  service : Option Nat
  endpoint : Option Nat
  client : Option Nat
  deriving DecidableEq, Repr

/-- DefaultKeySelector: (service, client_id) -/
abbrev Key := Option Nat × Option Nat

def Source.key (s : Source) : Key := (s.service, s.client)

/-- VarzType -/
inductive VType where
  | gauge | rate | aggTimer | counter | avgTimer | avgRate
  deriving DecidableEq, Repr

/-- types whose per-source datum is a number that IncrementVarz adds to -/
def VType.isCounterLike : VType → Bool
  | .rate | .counter | .aggTimer => true
  | _ => false

def VType.isPct : VType → Bool
  | .avgTimer | .avgRate => true
  | _ => false

/-- what VARZ_DATA[metric][source] holds -/
inductive Cell where
  | num (v : Int)
  /-- _SampleSet: retained samples oldest first, number of samples seen, `last_update`
      (LOW_RESOLUTION_TIME_SOURCE.now, whole seconds, when a sample was last retained) -/
  | res (data : List Int) (seen : Nat) (last : Nat)
  deriving DecidableEq, Repr

abbrev Store := List ((Nat × Source) × Cell)

/-- `d[k] = f(d.get(k))` on an insertion-ordered dictionary -/
def upd (k : Nat × Source) (f : Option Cell → Cell) : Store → Store
  | [] => [(k, f none)]
  | (k', c) :: rest => if k' = k then (k', f (some c)) :: rest else (k', c) :: upd k f rest

def lookup (k : Nat × Source) : Store → Option Cell
  | [] => none
  | (k', c) :: rest => if k' = k then some c else lookup k rest

/-- the sources of one metric, in insertion order: `VARZ_DATA[m].keys()` -/
def seriesOf (m : Nat) (st : Store) : List (Source × Cell) :=
  (st.filter (fun e => e.1.1 = m)).map (fun e => (e.1.2, e.2))

def nSeries (m : Nat) (st : Store) : Nat := (seriesOf m st).length

/-! ### the three recording entry points -/

def incCell (a : Int) : Option Cell → Cell
  | some (.num v) => .num (v + a)
  | some (.res _ _ _) => .num (0 + a)   -- unreachable: a metric is only used through its type's entry point
  | none => .num (0 + a)

def setCell (v : Int) : Option Cell → Cell
  | _ => .num v

/-- _SampleSet.Sample at time `now`: below `cap` samples seen the value is appended; afterwards
    only if the random draw said so (`keep`), the deque then drops its oldest element.
    `last_update` is refreshed exactly when a value is appended. -/
def sampleInto (cap : Nat) (keep : Bool) (v : Int) (now : Nat) (data : List Int) (seen last : Nat) : Cell :=
  if seen < cap then .res (data ++ [v]) (seen + 1) now
  else if keep then
    let d := data ++ [v]
    .res (if d.length > cap then d.drop (d.length - cap) else d) (seen + 1) now
  else .res data (seen + 1) last

/-- RecordPercentileSample: a missing reservoir is created first (`_SampleSet.__init__` sets
    `last_update` to the current time) -/
def sampleCell (cap : Nat) (keep : Bool) (v : Int) (now : Nat) : Option Cell → Cell
  | some (.res data seen last) => sampleInto cap keep v now data seen last
  | _ => sampleInto cap keep v now [] 0 now

/-! ### aggregation -/

/-- first occurrences, order preserved -/
def firstOcc {α : Type} [DecidableEq α] : List α → List α
  | [] => []
  | x :: xs => x :: (firstOcc xs).filter (fun y => y ≠ x)

def cellNum : Cell → Int
  | .num v => v
  | .res _ _ _ => 0

def cellData : Cell → List Int
  | .num _ => []
  | .res d _ _ => d

/-- VarzAggregator.MAX_AGG_AGE, seconds -/
def maxAggAge : Nat := 300

/-- `(now - data.last_update) < MAX_AGG_AGE` (a clock that went backwards counts as fresh,
    as in the code, where the difference is then negative) -/
def cellFresh (now : Nat) : Cell → Bool
  | .num _ => true
  | .res _ _ last => decide (now - last < maxAggAge)

/-- the series of a metric that roll up to one key -/
def withKey (K : Key) (ser : List (Source × Cell)) : List (Source × Cell) :=
  ser.filter (fun e => e.1.key = K)

def sumCells (ser : List (Source × Cell)) : Int :=
  (ser.map (fun e => cellNum e.2)).foldr (· + ·) 0

/-- aggregated total and count of one key for a counter-like / gauge metric -/
def aggTotal (K : Key) (ser : List (Source × Cell)) : Int := sumCells (withKey K ser)
def aggCount (K : Key) (ser : List (Source × Cell)) : Nat := (withKey K ser).length

/-- keys in the order Aggregate first meets them -/
def aggKeys (ser : List (Source × Cell)) : List Key := firstOcc (ser.map (fun e => e.1.key))

/-- insertion sort (Aggregate uses `sorted`) -/
def insertSorted (x : Int) : List Int → List Int
  | [] => [x]
  | y :: ys => if x ≤ y then x :: y :: ys else y :: insertSorted x ys

def isort : List Int → List Int
  | [] => []
  | x :: xs => insertSorted x (isort xs)

/-- CalculatePercentile(values, p/q) · q for sorted `vs`:
      k = (n-1)·p/q ; f = ⌊k⌋ ; r/q = k − f
      r = 0 : values[f]                         → values[f]·q
      else  : values[f]·(c−k) + values[c]·(k−f) → values[f]·(q−r) + values[f+1]·r
    and 0 for no values. -/
def pctNum (vs : List Int) (p q : Nat) : Int :=
  match vs with
  | [] => 0
  | _ :: _ =>
    let a := (vs.length - 1) * p
    let f := a / q
    let r := a % q
    if r = 0 then vs.getD f 0 * (q : Int)
    else vs.getD f 0 * ((q : Int) - (r : Int)) + vs.getD (f + 1) 0 * (r : Int)

/-- the retained samples of all reservoirs of one key (fresh or not) -/
def mergedData (K : Key) (ser : List (Source × Cell)) : List Int :=
  (withKey K ser).foldr (fun e acc => cellData e.2 ++ acc) []

/-- the reservoirs of one key that Aggregate uses at time `now`: those not older than MAX_AGG_AGE -/
def freshOf (now : Nat) (K : Key) (ser : List (Source × Cell)) : List (Source × Cell) :=
  (withKey K ser).filter (fun e => cellFresh now e.2)

def freshData (now : Nat) (K : Key) (ser : List (Source × Cell)) : List Int :=
  (freshOf now K ser).foldr (fun e acc => cellData e.2 ++ acc) []

/-- `count` of a percentile key: the number of fresh reservoirs -/
def pctCount (now : Nat) (K : Key) (ser : List (Source × Cell)) : Nat := (freshOf now K ser).length

/-- the percentile list Aggregate reports for a key at time `now`: with one fresh reservoir the
    percentiles of its retained samples; with none, CalculatePercentile([]) = 0 for each; for
    several the code down-samples with float arithmetic, which is not modelled: `[]` -/
def aggPcts (pcts : List (Nat × Nat)) (now : Nat) (K : Key) (ser : List (Source × Cell)) : List Int :=
  if pctCount now K ser = 1 then pcts.map (fun pq => pctNum (isort (freshData now K ser)) pq.1 pq.2)
  else if pctCount now K ser = 0 then pcts.map (fun _ => 0)
  else []

/-- metrics present in VARZ_DATA in first-touch order -/
def metricsOf (st : Store) : List Nat := firstOcc (st.map (fun e => e.1.1))

end Scales.Varz
