/-
  Model/Watermark.lean — scales/pool/watermark.py (WatermarkPoolSink) together with
  PoolSink.AsyncProcessRequest/AsyncProcessResponse of scales/pool/base.py and the sink-stack
  mechanics of scales/sink.py that the pool relies on.  Import-free, total.

  What is modelled (repaired behaviour, see fixes/C07-*.patch):

  * `_cache`, `_waiters` (FIFO deques), `_current_size`, `_state`;
  * the store of underlying sinks (`alive` = `state <= Open`; `lent` = the call whose stack
    holds the pool's frame with this sink as context);
  * every call's position: arriving (inside `AsyncProcessRequest`), connecting (its greenlet is
    blocked in `sink.Open().wait()` inside `_Get`, the slot already counted), pending (its
    stack is in `_waiters` with the QueuingMessageSink frame on top), started on a sink,
    released (the pool's frame has been popped, the response is travelling up), done (stack
    drained); a call whose caller was answered by the timer while it was still connecting is
    an *orphan* (its greenlet will still push the pool's frame and send the request when the
    connect ends) and then a *zombie* (its stack holds nothing but the pool's frame, so the
    connection's answer releases the connection and reaches nobody);
  * the hub's FIFO of deferred `gevent.spawn(self._ProcessQueue, sink)` calls (`tasks`).

  Between two yield points a pool method is atomic, so an operation is a sequence of
  primitive effects; each effect on sinks and calls is an *event* (`Ev`) that the harness
  can observe on the real objects, and the model's own picture of sinks and calls (`View`)
  is by construction the fold of `View.apply` over the events it emitted.  The executable
  specification (Adapter/Watermark.lean) folds the same function over the events reported
  by the implementation.
-/
import ScalesModel.Core.Val
namespace Scales.Watermark

/-- what the caller of a request finally received -/
inductive Outcome where
  | reply
  | timeout
  | maxWaiters
  | serviceClosed
  | other
  deriving Repr, DecidableEq, Inhabited

inductive CStat where
  | arriving
  | pending
  | connecting (sid : Nat)   -- blocked in Open().wait() of a new connection
  | orphan (sid : Nat)       -- still connecting, but the caller has already been answered
  | started (sid : Nat)
  | zombie (sid : Nat)       -- started after the caller had been answered
  | released
  | done
  deriving Repr, DecidableEq, Inhabited

/-- the connection this call's greenlet / sink stack holds -/
def CStat.holds : CStat → Option Nat
  | .connecting sid => some sid
  | .orphan sid => some sid
  | .started sid => some sid
  | .zombie sid => some sid
  | _ => none

/-- `alive`: state <= Open (Idle while it is being opened); `lent`: the call that holds it;
    `opening`: that call is still blocked in `Open().wait()` -/
structure SinkSt where
  alive : Bool
  lent : Option Nat
  opening : Bool
  deriving Repr, DecidableEq, Inhabited

inductive Ev where
  | created (sid : Nat) (ok : Bool)   -- provider.CreateSink; `ok` = the sink opened
  | closed (sid : Nat)                -- pool called sink.Close()  (`_DiscardSink`)
  | sent (sid : Nat) (c : Nat)        -- sink `sid` received the request of call `c`
  | connecting (sid : Nat) (c : Nat)  -- call `c` is blocked in `Open().wait()` of new sink `sid`
  | queued (c : Nat)                  -- call `c` was appended to `_waiters`
  | rel (sid : Nat)                   -- `_Release(sink)` entered for a real sink
  | done (c : Nat) (out : Outcome)    -- the caller's frame received the response
  | raised (what : String)            -- an exception escaped (the model: only a failed `Open()` of the pool)
  deriving Repr, DecidableEq, Inhabited

structure View where
  calls : List CStat
  sinks : List SinkSt
  deriving Repr, DecidableEq

def holderOf (v : View) (sid : Nat) : Option Nat :=
  match v.sinks[sid]? with
  | some k => k.lent
  | none => none

def View.apply (v : View) : Ev → View
  | .created _ ok => { v with sinks := v.sinks ++ [⟨ok, none, false⟩] }
  | .closed sid => { v with sinks := v.sinks.modify sid (fun k => { k with alive := false }) }
  | .sent sid c =>
    { calls := v.calls.set c (match v.calls[c]? with
                              | some (.orphan _) => .zombie sid
                              | _ => .started sid),
      sinks := v.sinks.modify sid (fun k => { k with lent := some c, opening := false }) }
  | .connecting sid c =>
    { calls := v.calls.set c (.connecting sid),
      sinks := v.sinks.modify sid (fun k => { k with lent := some c, opening := true }) }
  | .queued c => { v with calls := v.calls.set c .pending }
  | .rel sid =>
    { calls := match holderOf v sid with
               | some c => v.calls.set c (match v.calls[c]? with
                                          | some (.zombie _) => .done
                                          | _ => .released)
               | none => v.calls,
      sinks := v.sinks.modify sid (fun k => { k with lent := none, opening := false }) }
  | .done c _ =>
    { v with calls := v.calls.set c (match v.calls[c]? with
                                     | some (.connecting sid) => .orphan sid
                                     | _ => .done) }
  | .raised _ => v

inductive PState where
  | idle
  | opened
  | closed
  deriving Repr, DecidableEq, Inhabited

/-- `ChannelState` numbering -/
def PState.code : PState → Nat
  | .idle => 1
  | .opened => 2
  | .closed => 4

structure Cfg where
  min : Nat
  max : Nat
  maxq : Nat
  deriving Repr, DecidableEq

structure St where
  base : View            -- sinks and calls as of the beginning of the current operation
  evs : List Ev          -- events emitted by the current operation so far
  cache : List Nat
  waiters : List Nat
  size : Nat
  pstate : PState
  tasks : List Nat
  everClosed : Bool      -- ghost: `Close()` has run at least once
  deriving Repr

def St.init : St :=
  { base := ⟨[], []⟩, evs := [], cache := [], waiters := [], size := 0, pstate := .idle,
    tasks := [], everClosed := false }

/-- the current picture of sinks and calls -/
def St.view (s : St) : View := s.evs.foldl View.apply s.base

def St.emit (s : St) (ev : Ev) : St := { s with evs := s.evs ++ [ev] }

def St.alive (s : St) (sid : Nat) : Bool :=
  match s.view.sinks[sid]? with
  | some k => k.alive
  | none => false

def St.stat (s : St) (c : Nat) : Option CStat := s.view.calls[c]?

/-- `_DiscardSink` -/
def discard (s : St) (sid : Nat) : St := s.emit (.closed sid)

/-- the comprehension at the end of `Close()`: a FailingMessageSink posts ServiceClosedError
    into each waiter's stack; a drained stack swallows it -/
def failWaiters (s : St) : List Nat → St
  | [] => s
  | c :: cs =>
    failWaiters (if s.stat c = some .pending then s.emit (.done c .serviceClosed) else s) cs

/-- `Close()` -/
def closePool (s : St) : St :=
  let s1 := { s with pstate := .closed, everClosed := true }
  let s2 := s1.cache.foldl discard s1
  failWaiters s2 s2.waiters

/-- `_Release(sink)` for a real sink -/
def release (cfg : Cfg) (s0 : St) (sid : Nat) : St :=
  let s := s0.emit (.rel sid)
  if s.pstate = .closed then discard { s with size := s.size - 1 } sid
  else if s.alive sid = false then closePool { s with size := s.size - 1 }
  else if s.waiters.isEmpty = false then { s with tasks := s.tasks ++ [sid] }
  else if s.size ≤ cfg.min then { s with cache := s.cache ++ [sid] }
  else discard { s with size := s.size - 1 } sid

/-- `_Dequeue`; the list argument is `s.cache` -/
def dequeue (s : St) : List Nat → St × Option Nat
  | [] => (s, none)
  | sid :: rest =>
    if s.alive sid then ({ s with cache := rest }, some sid)
    else dequeue (discard { s with cache := rest, size := s.size - 1 } sid) rest

inductive GetRes where
  | sink (sid : Nat) (fresh : Bool)
  | queue
  | fail
  deriving Repr, DecidableEq

/-- `_Get` up to `sink.Open()`; `ok`: the state of a newly created sink is <= Open when
    `Open()` returns (it opened at once, or it is still being opened) -/
def get (cfg : Cfg) (s0 : St) (ok : Bool) : St × GetRes :=
  match dequeue s0 s0.cache with
  | (s, some sid) => (s, .sink sid false)
  | (s, none) =>
    if s.size < cfg.max then
      (({ s with size := s.size + 1 }).emit (.created s.view.sinks.length ok),
        .sink s.view.sinks.length true)
    else if s.waiters.length + 1 > cfg.maxq then (s, .fail)
    else (s, .queue)

/-- `_ProcessQueue(sink)`; the list argument is `s.waiters` -/
def procQueue (cfg : Cfg) (s : St) (sid : Nat) : List Nat → St
  | [] => release cfg s sid
  | c :: rest =>
    if s.stat c = some .pending then ({ s with waiters := rest }).emit (.sent sid c)
    else procQueue cfg { s with waiters := rest } sid rest

inductive Op where
  | request (ok : Bool) (lat : Bool)
      -- a new call arrives (its id is the number of earlier requests); if a connection has to
      -- be created: `lat` — its Open() does not complete at once (the caller's greenlet blocks
      -- in `_Get`); otherwise `ok` — whether it opened
  | opened (sid : Nat) (ok : Bool)  -- the pending Open() of connection `sid` completes
  | respond (c : Nat)        -- the sink serving call c posts a reply into c's stack
  | timeout (c : Nat)        -- c's timer fires: the timeout sink drains c's stack
  | die (sid : Nat)          -- the underlying connection dies (state becomes Closed)
  | run                      -- the hub runs the oldest deferred `_ProcessQueue`
  | close                    -- `Close()` from above
  | openPool (ok : Bool)     -- `Open()` (`_OpenImpl`)
  deriving Repr, DecidableEq

/-- what an operation does to sinks and calls before any pool code runs -/
def preOp (v : View) : Op → View
  | .request _ _ => { v with calls := v.calls ++ [.arriving] }
  | .die sid => { v with sinks := v.sinks.modify sid (fun k => { k with alive := false }) }
  | .opened sid ok =>
    { v with sinks := v.sinks.modify sid (fun k => if k.opening then { k with alive := ok } else k) }
  | _ => v

/-- somebody drains call c's stack from the top, delivering `out` -/
def drainCall (cfg : Cfg) (s : St) (c : Nat) (out : Outcome) : St :=
  match s.stat c with
  | some .pending => s.emit (.done c out)
  | some (.connecting _) => s.emit (.done c out)
  | some (.started sid) => (release cfg s sid).emit (.done c out)
  | _ => s

/-- the pending `Open()` of `sid` completed: the blocked `_Get` returns the sink (whatever its
    state), `AsyncProcessRequest` pushes the pool's frame and forwards the request -/
def openedSt (s : St) (sid : Nat) : St :=
  match s.view.sinks[sid]? with
  | some k =>
    if k.opening then
      match k.lent with
      | some c => s.emit (.sent sid c)
      | none => s
    else s
  | none => s

/-- the end of `_OpenImpl`: if the pool is Closed (it was already, or `_Release` has just shut it
    down on a connection that failed to open) the open fails with ServiceClosedError and the
    pool stays Closed; otherwise the pool is Open -/
def openEnd (s : St) : St :=
  if s.pstate = .closed then s.emit (.raised "ServiceClosedError") else { s with pstate := .opened }

def stepSt (cfg : Cfg) (s0 : St) (op : Op) : St :=
  let s := { s0 with base := preOp s0.base op }
  match op with
  | .request ok lat =>
    let c := s0.base.calls.length
    match get cfg s (lat || ok) with
    | (s1, .sink sid fresh) =>
      if fresh && lat then s1.emit (.connecting sid c) else s1.emit (.sent sid c)
    | (s1, .queue) => ({ s1 with waiters := s1.waiters ++ [c] }).emit (.queued c)
    | (s1, .fail) => s1.emit (.done c .maxWaiters)
  | .respond c =>
    match s.stat c with
    | some (.started _) => drainCall cfg s c .reply
    | some (.zombie sid) => release cfg s sid
    | _ => s
  | .timeout c => drainCall cfg s c .timeout
  | .opened sid _ => openedSt s sid
  | .die _ => s
  | .run =>
    match s.tasks with
    | [] => s
    | sid :: rest => procQueue cfg { s with tasks := rest } sid s.waiters
  | .close => closePool s
  | .openPool ok =>
    openEnd (match get cfg s ok with
             | (s1, .sink sid _) => release cfg s1 sid
             | (s1, _) => s1)

structure Obs where
  evs : List Ev
  size : Nat
  cache : List Nat
  waiters : List Nat
  tasks : List Nat
  pstate : Nat
  deriving Repr, DecidableEq

def obsOf (s : St) : Obs := ⟨s.evs, s.size, s.cache, s.waiters, s.tasks, s.pstate.code⟩

/-- end of an operation: fold the emitted events into the base view -/
def finish (s : St) : St := { s with base := s.view, evs := [] }

def step (cfg : Cfg) (s : St) (op : Op) : St × Obs :=
  let s' := stepSt cfg s op
  (finish s', obsOf s')

end Scales.Watermark
