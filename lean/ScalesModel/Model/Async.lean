/-
  Model/Async.lean — scales/asynchronous.py : WhenAll, WhenAny, Unwrap, ContinueWith, Map.

  gevent's link mechanism (trusted): a callback registered with `rawlink` on a result is
  called exactly once, in the hub, after that result became ready, and sees the result's
  outcome.  A *delivery* `deliver i` is that call for input `i`.  The order of deliveries is
  the completion order; the harness observes it from the real run, the theorems quantify
  over all of them.  Import-free.
-/
import ScalesModel.Core.Val
namespace Scales.Async

/-- outcome of an input result -/
inductive Out where
  | ok (v : Nat)
  | err (e : Nat)
  deriving Repr, DecidableEq, Inhabited

def Out.isOk : Out → Bool
  | .ok _ => true
  | .err _ => false

/-- state of a combined result cell -/
inductive Res where
  | pending
  | val (v : Nat)
  | vals (vs : List (Option Nat))     -- WhenAll's list (a slot never filled would be `None`)
  | err (e : Nat)
  deriving Repr, DecidableEq, Inhabited

def Res.ready : Res → Bool
  | .pending => false
  | _ => true

/-! ## WhenAll -/

structure WA where
  total : Nat
  results : List (Option Nat)
  ret : Res
  deriving Repr, DecidableEq

def WA.init (n : Nat) : WA := ⟨n, List.replicate n none, .pending⟩

/-- `complete(_n, _ar)` -/
def WA.complete (s : WA) (i : Nat) (o : Out) : WA :=
  match o with
  | .err e => { s with ret := .err e }
  | .ok v =>
    if s.ret.ready then s
    else
      let results := s.results.set i (some v)
      let total := s.total - 1
      if total == 0 then ⟨total, results, .vals results⟩ else ⟨total, results, s.ret⟩

/-- deliveries in order `ds` (indices into `outs`); an index out of range is ignored
    (the driver rejects it before it gets here) -/
def WA.run (outs : List Out) (s : WA) : List Nat → WA
  | [] => s
  | d :: ds =>
    match outs[d]? with
    | some o => WA.run outs (s.complete d o) ds
    | none => WA.run outs s ds

/-! ## WhenAny -/

inductive AnyRet where
  | same (i : Nat)       -- the shortcut returned input `i` itself
  | fresh (total : Nat) (ret : Res)
  deriving Repr, DecidableEq

/-- index of the first input that is already complete *and successful* at call time -/
def firstReadyOk (outs : List Out) (pre : List Bool) : Option Nat :=
  (List.range outs.length).find? (fun i => pre.getD i false && (outs.getD i (.err 0)).isOk)

def WAny.init (outs : List Out) (pre : List Bool) : AnyRet :=
  match firstReadyOk outs pre with
  | some i => .same i
  | none => .fresh outs.length .pending

/-- the body of `complete(_ar)` after `total[0] -= 1` -/
def WAny.newRet (total' : Nat) (ret : Res) (o : Out) : Res :=
  if ret.ready then ret
  else match o with
    | .ok v => .val v
    | .err e => if total' == 0 then .err e else ret

/-- `complete(_ar)` -/
def WAny.complete (s : AnyRet) (o : Out) : AnyRet :=
  match s with
  | .same i => .same i
  | .fresh total ret => .fresh (total - 1) (WAny.newRet (total - 1) ret o)

def WAny.run (outs : List Out) (s : AnyRet) : List Nat → AnyRet
  | [] => s
  | d :: ds =>
    match outs[d]? with
    | some o => WAny.run outs (WAny.complete s o) ds
    | none => WAny.run outs s ds

/-- what the caller sees on the returned result -/
def WAny.view (outs : List Out) (pre : List Bool) (delivered : List Nat) : AnyRet → Res
  | .fresh _ r => r
  | .same i =>
    -- the returned object *is* input i, which was complete at call time
    match outs[i]? with
    | some (.ok v) => if pre.getD i false || delivered.contains i then .val v else .pending
    | some (.err e) => if pre.getD i false || delivered.contains i then .err e else .pending
    | none => .pending

/-! ## Unwrap

  A chain of nested results: level 0 is the result `Unwrap` was called on.  Level `k`
  (k < depth) completes either with the next level as its value, or — at the last level —
  with the terminal outcome; a level may also fail, which ends the chain there.
  `chain : List Lvl` lists what each level completes with.  -/

inductive Lvl where
  | inner            -- value is the next level's result
  | plain (v : Nat)  -- a plain value
  | fail (e : Nat)
  deriving Repr, DecidableEq, Inhabited

structure UW where
  chain : List Lvl
  ready : List Bool      -- which levels are complete
  pos : Nat              -- level whose completion the helper is linked to (if waiting)
  waiting : Bool
  target : Res
  sets : Nat             -- number of times the target was set
  deriving Repr, DecidableEq

/-- `_UnwrapHelper` walking down from level `k`; `fuel` bounds the walk by the chain length -/
def UW.walk (chain : List Lvl) (ready : List Bool) : Nat → Nat → (Nat × Bool × Res)
  | 0, k => (k, false, .pending)  -- out of fuel: malformed chain (never for k ≤ length)
  | fuel + 1, k =>
    if ready.getD k false then
      match chain[k]? with
      | some (.fail e) => (k, false, .err e)
      | some (.plain v) => (k, false, .val v)
      | some .inner => UW.walk chain ready fuel (k + 1)
      | none => (k, false, .pending)
    else (k, true, .pending)

def UW.settle (s : UW) (k : Nat) : UW :=
  let (pos, waiting, r) := UW.walk s.chain s.ready (s.chain.length + 1 - k) k
  if waiting then { s with pos := pos, waiting := true }
  else { s with pos := pos, waiting := false, target := r,
                sets := s.sets + (if r.ready then 1 else 0) }

def UW.init (chain : List Lvl) (pre : List Bool) : UW :=
  UW.settle ⟨chain, (List.range chain.length).map (fun i => pre.getD i false), 0, false, .pending, 0⟩ 0

/-- the environment completes level `k` -/
def UW.setLevel (s : UW) (k : Nat) : UW := { s with ready := s.ready.set k true }

/-- the link on level `pos` fires; enabled iff waiting and that level is ready -/
def UW.deliverEnabled (s : UW) : Bool := s.waiting && s.ready.getD s.pos false

def UW.deliver (s : UW) : UW := if s.deliverEnabled then UW.settle s s.pos else s

/-- well-formed chain: all `inner` except the last element -/
def chainWF : List Lvl → Bool
  | [] => false
  | [.inner] => false
  | [_] => true
  | .inner :: rest => chainWF rest
  | .fail _ :: _ => true    -- a failing level ends the chain; deeper levels are irrelevant
  | .plain _ :: _ => false

/-- the value the chain denotes -/
def chainOutcome : List Lvl → Res
  | [] => .pending
  | .fail e :: _ => .err e
  | .plain v :: _ => .val v
  | .inner :: rest => chainOutcome rest

/-! ## ContinueWith / Map -/

/-- result of running the continuation -/
inductive FnRes where
  | ret (v : Nat)
  | raise (e : Nat)
  deriving Repr, DecidableEq, Inhabited

structure CW where
  ran : Nat
  cw : Res
  deriving Repr, DecidableEq

def CW.init : CW := ⟨0, .pending⟩
def CW.deliver (s : CW) (f : FnRes) : CW :=
  match f with
  | .ret v => ⟨s.ran + 1, .val v⟩
  | .raise e => ⟨s.ran + 1, .err e⟩

/-- Map(fn) on a source with outcome `o`, where `fn` returns/raises `f`: the
    number of fn calls and the final mapped outcome after delivery (plain fn results). -/
def mapDeliver (o : Out) (f : FnRes) : Nat × Res :=
  match o with
  | .err e => (0, .err e)        -- mapper returns `self`; Unwrap propagates the failure
  | .ok _ => match f with
    | .ret v => (1, .val v)
    | .raise e => (1, .err e)


/-! ## Executable specification (what the property demands of the observations)

  These functions do not mention the step functions above: they compute, from the inputs'
  outcomes and the deliveries so far, what the caller must see.  Props/C17.lean proves
  that the model always shows exactly this; the harness evaluates the same functions on
  what the implementation showed. -/

def valOf : Out → Option Nat
  | .ok v => some v
  | .err _ => none

def isErrAt (outs : List Out) (d : Nat) : Bool :=
  match outs[d]? with
  | some (.err _) => true
  | _ => false

def errAt (outs : List Out) (d : Nat) : Nat :=
  match outs[d]? with
  | some (.err e) => e
  | _ => 0

/-- the delivered indices whose input failed, in delivery order -/
def failsIn (outs : List Out) (ds : List Nat) : List Nat := ds.filter (isErrAt outs)

def isOkAt (outs : List Out) (d : Nat) : Bool :=
  match outs[d]? with
  | some (.ok _) => true
  | _ => false

def valAt (outs : List Out) (d : Nat) : Nat :=
  match outs[d]? with
  | some (.ok v) => v
  | _ => 0

/-- WhenAll after deliveries `ds` -/
def allExpected (outs : List Out) (ds : List Nat) : Res :=
  match (failsIn outs ds).getLast? with
  | some d => .err (errAt outs d)
  | none => if ds.length = outs.length then .vals (outs.map valOf) else .pending

/-- fresh WhenAny result after deliveries `ds` -/
def anyExpected (outs : List Out) (ds : List Nat) : Res :=
  match ds.find? (isOkAt outs) with
  | some d => .val (valAt outs d)
  | none =>
    if ds.length = outs.length then
      match ds.getLast? with
      | some d => .err (errAt outs d)
      | none => .pending
    else .pending

/-- WhenAny as the caller sees it, including the pre-completed shortcut -/
def anyExpectedView (outs : List Out) (pre : List Bool) (ds : List Nat) : Res :=
  match firstReadyOk outs pre with
  | some i => .val (valAt outs i)
  | none => anyExpected outs ds

def termIdx : List Lvl → Nat
  | [] => 0
  | .inner :: r => termIdx r + 1
  | _ :: _ => 0

end Scales.Async
