/-
  Model/ThriftCodec.lean — scales/thrift/serializer.py (SerializeThriftCall,
  DeserializeThriftCall), the framing of scales/thrift/sink.py (4-byte length prefix, read
  path) and `readAll` of scales/scales_socket.py / scales/varz.py (VarzSocketWrapper).

  The binary protocol is the strict TBinaryProtocol of the Thrift library for the value
  language of the test interfaces: bool, i32, i64, string/binary (a byte string; text
  travels as its UTF-8 bytes), struct (also used for declared exceptions).

  Bytes are `List Nat` (every element < 256 in whatever the encoders produce; the decoders
  never look at the magnitude of payload bytes).  Import-free.
-/
import ScalesModel.Core.Val
namespace Scales.ThriftCodec

abbrev Bytes := List Nat

/-! ## integers -/

/-- big-endian, `w` bytes, of `u mod 256^w` -/
def beNat : Nat → Nat → Bytes
  | 0, _ => []
  | w + 1, u => beNat w (u / 256) ++ [u % 256]

def fromBE (bs : Bytes) : Nat := bs.foldl (fun a b => a * 256 + b) 0

/-- two's complement representative of `n` in `w` bytes (struct.pack '!b' '!h' '!i' '!q') -/
def toUnsigned (w : Nat) (n : Int) : Nat := (n % ((256 : Int) ^ w)).toNat

/-- struct.unpack of a signed big-endian integer -/
def toSigned (w : Nat) (u : Nat) : Int :=
  if 2 * u ≥ 256 ^ w then (u : Int) - ((256 : Int) ^ w) else (u : Int)

def encInt (w : Nat) (n : Int) : Bytes := beNat w (toUnsigned w n)

/-- `trans.readAll(n)` on an in-memory buffer -/
def takeN (n : Nat) (bs : Bytes) : Option (Bytes × Bytes) :=
  if n ≤ bs.length then some (bs.take n, bs.drop n) else none

def decInt (w : Nat) (bs : Bytes) : Option (Int × Bytes) :=
  match takeN w bs with
  | some (h, t) => some (toSigned w (fromBE h), t)
  | none => none

/-- does `n` fit a signed `w`-byte integer -/
def fitsInt (w : Nat) (n : Int) : Bool :=
  decide (-((256 : Int) ^ w) ≤ 2 * n) && decide (2 * n < (256 : Int) ^ w)

/-! ## values -/

mutual
  inductive TVal where
    | bool (b : Bool)
    | i32 (n : Int)
    | i64 (n : Int)
    | str (bs : Bytes)
    | struct (fs : TFields)
    deriving DecidableEq
  /-- the fields of a struct that are set (a field that is `None` is not written), in
      the order they are written -/
  inductive TFields where
    | nil
    | cons (fid : Nat) (v : TVal) (rest : TFields)
    deriving DecidableEq
end

/-- TType codes -/
def tyCode : TVal → Nat
  | .bool _ => 2
  | .i32 _ => 8
  | .i64 _ => 10
  | .str _ => 11
  | .struct _ => 12

mutual
  def encVal : TVal → Bytes
    | .bool b => [if b then 1 else 0]
    | .i32 n => encInt 4 n
    | .i64 n => encInt 8 n
    | .str bs => encInt 4 bs.length ++ bs
    | .struct fs => encFields fs
  /-- writeFieldBegin (type byte, i16 id), the value, …, writeFieldStop -/
  def encFields : TFields → Bytes
    | .nil => [0]
    | .cons fid v rest => tyCode v :: (encInt 2 fid ++ (encVal v ++ encFields rest))
end

/- values the protocol can carry: integers in range, lengths and field ids in range -/
mutual
  def TVal.wf : TVal → Bool
    | .bool _ => true
    | .i32 n => fitsInt 4 n
    | .i64 n => fitsInt 8 n
    | .str bs => decide (bs.length < 2147483648)
    | .struct fs => TFields.wf fs
  def TFields.wf : TFields → Bool
    | .nil => true
    | .cons fid v rest => decide (fid < 32768) && TVal.wf v && TFields.wf rest
end

/- generic (schema-free) decoder: the binary protocol is self-describing for this value
    language.  `fuel` bounds the recursion; every call consumes at least one byte, so the
    length of the input (+1) always suffices (proved in Proofs/ThriftCodecLemmas). -/
mutual
  def decVal : Nat → Nat → Bytes → Option (TVal × Bytes)
    | 0, _, _ => none
    | fuel + 1, ty, bs =>
      if ty = 2 then
        match bs with
        | b :: rest => some (.bool (b != 0), rest)
        | [] => none
      else if ty = 8 then
        match decInt 4 bs with
        | some (n, rest) => some (.i32 n, rest)
        | none => none
      else if ty = 10 then
        match decInt 8 bs with
        | some (n, rest) => some (.i64 n, rest)
        | none => none
      else if ty = 11 then
        match decInt 4 bs with
        | some (n, rest) =>
          if n < 0 then none
          else match takeN n.toNat rest with
            | some (s, rest') => some (.str s, rest')
            | none => none
        | none => none
      else if ty = 12 then
        match decFields fuel bs with
        | some (fs, rest) => some (.struct fs, rest)
        | none => none
      else none
  def decFields : Nat → Bytes → Option (TFields × Bytes)
    | 0, _ => none
    | _ + 1, [] => none
    | fuel + 1, ty :: bs =>
      if ty = 0 then some (.nil, bs)
      else
        match decInt 2 bs with
        | some (fid, bs1) =>
          if fid < 0 then none
          else match decVal fuel ty bs1 with
            | some (v, bs2) =>
              match decFields fuel bs2 with
              | some (fs, bs3) => some (.cons fid.toNat v fs, bs3)
              | none => none
            | none => none
        | none => none
end

def TFields.lookup (fid : Nat) : TFields → Option TVal
  | .nil => none
  | .cons f v r => if f = fid then some v else TFields.lookup fid r

/-! ## message envelope and frame -/

/-- TMessageType -/
def mtCall : Nat := 1
def mtReply : Nat := 2
def mtException : Nat := 3

structure Msg where
  name : Bytes
  mtype : Nat
  seqid : Int
  body : TFields
  deriving DecidableEq

/-- strict `writeMessageBegin`: VERSION_1 | type, name, seqid; then the args/result struct -/
def encMsg (m : Msg) : Bytes :=
  [128, 1, 0, m.mtype] ++ (encInt 4 m.name.length ++ (m.name ++ (encInt 4 m.seqid ++ encFields m.body)))

/-- `readMessageBegin` (strict header: the top bit set, version 0x8001, the third byte is
    ignored, the fourth is the type), then a generic struct.  The non-strict header is not
    modelled (`none`). -/
def decMsg (bs : Bytes) : Option Msg :=
  match bs with
  | b0 :: b1 :: _ :: t :: rest =>
    if b0 = 128 ∧ b1 = 1 then
      match decInt 4 rest with
      | some (n, r1) =>
        if n < 0 then none
        else match takeN n.toNat r1 with
          | some (name, r2) =>
            match decInt 4 r2 with
            | some (seqid, r3) =>
              match decFields r3.length r3 with
              | some (body, _) => some ⟨name, t, seqid, body⟩
              | none => none
            | none => none
          | none => none
      | none => none
    else none
  | _ => none

/-- `pack('!i', len(payload)) + payload` -/
def frame (payload : Bytes) : Bytes := encInt 4 payload.length ++ payload

/-- SerializeThriftCall + the framing of SocketTransportSink.AsyncProcessRequest.
    scales never advances its sequence id: it is always 0. -/
def callPayload (name : Bytes) (args : TFields) : Bytes := encMsg ⟨name, mtCall, 0, args⟩
def callBytes (name : Bytes) (args : TFields) : Bytes := frame (callPayload name args)

/-! ## readAll over a chunked stream

  The socket delivers the stream in pieces.  `recv(want)` returns at most `want` bytes of
  the piece at the head (the remainder stays at the head); with nothing left it returns
  the empty string (peer closed). -/

def recv (want : Nat) : List Bytes → Bytes × List Bytes
  | [] => ([], [])
  | p :: ps => if want ≥ p.length then (p, ps) else (p.take want, p.drop want :: ps)

inductive RdRes where
  | ok (data : Bytes) (rest : List Bytes)
  | eof
  | fuel                      -- never produced by `readAll` (theorem)
  deriving DecidableEq

/-- the loop `while have < sz: chunk = recv(sz - have); have += len(chunk); if not chunk: raise EOFError` -/
def readAllGo : Nat → Nat → Bytes → List Bytes → RdRes
  | fuel, want, acc, ps =>
    if acc.length ≥ want then .ok acc ps
    else match fuel with
      | 0 => .fuel
      | fuel + 1 =>
        let (chunk, ps') := recv (want - acc.length) ps
        if chunk.length = 0 then .eof
        else readAllGo fuel want (acc ++ chunk) ps'

def readAll (want : Nat) (ps : List Bytes) : RdRes := readAllGo want want [] ps

/-- cut `stream` into pieces of the given sizes; empty pieces are never delivered; bytes
    beyond the sum of the sizes never arrive (the peer closes instead) -/
def splitBy : List Nat → Bytes → List Bytes
  | [], _ => []
  | n :: ns, s =>
    if n = 0 ∨ s = [] then splitBy ns s
    else s.take n :: splitBy ns (s.drop n)

/-! ## the reply path -/

/-- what a method's `<name>_result` class looks like -/
structure Sig where
  name : Bytes
  nonvoid : Bool               -- `thrift_spec[0]` is a success field
  declared : List Nat          -- field ids of the declared exceptions, in spec order
  deriving DecidableEq

inductive Err where
  | declared (fid : Nat) (v : TVal)          -- a declared exception struct
  | app (ty : Int) (msg : Option Bytes)      -- TApplicationException
  | eof                                      -- EOFError from readAll
  | decode                                   -- anything the deserializer raises on bytes it cannot read
  | other (kind : String)                    -- any other exception class (never produced by the model)
  deriving DecidableEq

inductive Outcome where
  | none_                                    -- the call returns None
  | val (v : TVal)                           -- the call returns a value
  | valApp (ty : Int) (msg : Option Bytes)   -- the call *returns* a TApplicationException object (never produced by the model)
  | err (wrapped : Bool) (e : Err)           -- the call raises; `wrapped`: a ScalesError whose inner_exception is `e`
  deriving DecidableEq

/-- "unknown result" message of the MISSING_RESULT exception: `'%s failed: unknown result' % fn_name` -/
def missingMsg (name : Bytes) : Bytes :=
  name ++ [32, 102, 97, 105, 108, 101, 100, 58, 32, 117, 110, 107, 110, 111, 119, 110, 32, 114, 101, 115, 117, 108, 116]

def firstDeclared (body : TFields) : List Nat → Option (Nat × TVal)
  | [] => none
  | fid :: rest =>
    match body.lookup fid with
    | some v => some (fid, v)
    | none => firstDeclared body rest

/-- TApplicationException.read: field 1 (string) message, field 2 (i32) type, others skipped;
    defaults message=None, type=UNKNOWN(0); a later occurrence overwrites an earlier one -/
def appOf : TFields → (Int × Option Bytes) → (Int × Option Bytes)
  | .nil, acc => acc
  | .cons f v r, (ty, msg) =>
    match f, v with
    | 1, .str s => appOf r (ty, some s)
    | 2, .i32 n => appOf r (n, msg)
    | _, _ => appOf r (ty, msg)

/-- DeserializeThriftCall (after repair F9) on a decoded message -/
def decide_ (sig : Sig) (m : Msg) : Outcome :=
  if m.mtype = mtException then
    let (ty, msg) := appOf m.body (0, none)
    .err true (.app ty msg)
  else if m.name ≠ sig.name then .none_            -- no `<name>_result` class: empty return message
  else
    match (if sig.nonvoid then m.body.lookup 0 else none) with
    | some v => .val v
    | none =>
      match firstDeclared m.body sig.declared with
      | some (fid, v) => .err true (.declared fid v)
      | none =>
        if sig.nonvoid then .err true (.app 5 (some (missingMsg sig.name)))
        else .none_

/-- the client's read path: 4-byte length, payload, deserialize, decide -/
def clientOutcome (sig : Sig) (ps : List Bytes) : Outcome :=
  match readAll 4 ps with
  | .ok hdr rest =>
    let sz := toSigned 4 (fromBE hdr)
    (match readAll sz.toNat rest with
     | .ok payload _ =>
       (match decMsg payload with
        | some m => decide_ sig m
        | none => .err true .decode)
     | .eof => .err true .eof
     | .fuel => .err true (.other "fuel"))
  | .eof => .err true .eof
  | .fuel => .err true (.other "fuel")

/-! ## what the server answers -/

inductive Reply where
  | app (ty : Int) (msg : Option Bytes)     -- the handler raised a TApplicationException
  | result (fs : TFields)                   -- `<name>_result` with the fields that are set
  deriving DecidableEq

def appFields (ty : Int) : Option Bytes → TFields
  | some m => .cons 1 (.str m) (.cons 2 (.i32 ty) .nil)
  | none => .cons 2 (.i32 ty) .nil

/-- the reply message the generated Processor writes (it echoes the call's seqid, 0) -/
def replyMsg (name : Bytes) : Reply → Msg
  | .app ty msg => ⟨name, mtException, 0, appFields ty msg⟩
  | .result fs => ⟨name, mtReply, 0, fs⟩

def replyBytes (name : Bytes) (r : Reply) : Bytes := frame (encMsg (replyMsg name r))

/-- what the property demands of the caller-visible outcome of a reply -/
def expected (sig : Sig) : Reply → Outcome
  | .app ty msg => .err true (.app ty msg)
  | .result fs =>
    match (if sig.nonvoid then fs.lookup 0 else none) with
    | some v => .val v
    | none =>
      match firstDeclared fs sig.declared with
      | some (fid, v) => .err true (.declared fid v)
      | none =>
        if sig.nonvoid then .err true (.app 5 (some (missingMsg sig.name)))
        else .none_

end Scales.ThriftCodec
