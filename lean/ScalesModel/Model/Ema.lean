/-
  Model/Ema.lean — scales/varz.py `Ema`: exponential moving average over exact rationals.

  `Ema.Update(ts, sample)`: the first sample initialises the value; afterwards
  `value = sample * (1 - w) + value * w` with `w = exp(-(ts - last_ts) / window)`.
  The decay weight `w` is a parameter here (`math.exp` is not modelled; the harness passes the
  exact rational of the float the implementation computed).  Import-free.
-/
namespace Scales.Ema

/-- one smoothing step with decay weight `w` -/
def step (w prev sample : Rat) : Rat := sample * (1 - w) + prev * w

/-- `Ema.Update`: `none` is the state before the first sample (`_time == -1`) -/
def update (e : Option Rat) (w sample : Rat) : Rat :=
  match e with
  | none => sample
  | some v => step w v sample

/-- the value after a whole list of `(weight, sample)` updates -/
def run (e : Option Rat) : List (Rat × Rat) → Option Rat
  | [] => e
  | (w, x) :: rest => run (some (update e w x)) rest

/-- repeated smoothing of a constant sample `x` with weights `ws` -/
def iter (v x : Rat) : List Rat → Rat
  | [] => v
  | w :: ws => iter (step w v x) x ws

end Scales.Ema
