/-
  Model/Ema.lean — scales/varz.py `Ema`: exponential moving average over exact rationals.

  `Ema.Update(ts, sample)`: the first sample initialises the value; afterwards
  `value = sample * (1 - w) + value * w` with `w = exp(-(ts - last_ts) / window)`.
  The decay weight `w` is a parameter here (`math.exp` is not modelled; the harness passes the
  exact rational of the float the implementation computed); `weightLegal` says what is known about
  it without modelling `exp`.

  `MonoClock` (same file of the code): the time source of the aperture's EMA.  `Sample()` reads the wall
  clock and returns `_last`, moved forward to the reading only if the reading is later:
  the sampled time never decreases, whatever the wall clock does.  Import-free.
-/
namespace Scales.MonoClock

/-- `MonoClock.Sample()` with `_last = last` when the wall clock reads `now`: the new `_last`, which is also
    the value returned (`if now - self._last > 0: self._last = now; return self._last`) -/
def sample (last now : Rat) : Rat := if now - last > 0 then now else last

/-- the values returned by successive `Sample()` calls for a sequence of wall-clock readings -/
def samples (last : Rat) : List Rat → List Rat
  | [] => []
  | now :: rest => sample last now :: samples (sample last now) rest

end Scales.MonoClock

namespace Scales.Ema

/-- What is known of `w = math.exp(-dt / window)` (window > 0) without modelling `exp`: it is not negative
    (it may underflow to 0), at most 1 when `dt ≥ 0`, at least 1 when `dt ≤ 0` (so exactly 1 for `dt = 0`). -/
def weightLegal (dt w : Rat) : Bool :=
  decide (0 ≤ w) && (!decide (0 ≤ dt) || decide (w ≤ 1)) && (!decide (dt ≤ 0) || decide (1 ≤ w))

/-- one smoothing step with decay weight `w` -/
def step (w prev sample : Rat) : Rat := sample * (1 - w) + prev * w

/-- `Ema.Update`: `none` is the state before the first sample (`_time == -1`) -/
def update (e : Option Rat) (w sample : Rat) : Rat :=
  match e with
  | none => sample
  | some v => step w v sample

/-- the value after a whole list of `(weight, sample)` updates -/
def run (e : Option Rat) : List (Rat × Rat) → Option Rat
  | [] => e
  | (w, x) :: rest => run (some (update e w x)) rest

/-- repeated smoothing of a constant sample `x` with weights `ws` -/
def iter (v x : Rat) : List Rat → Rat
  | [] => v
  | w :: ws => iter (step w v x) x ws

end Scales.Ema
