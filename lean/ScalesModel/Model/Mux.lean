/-
  Model/Mux.lean — scales/mux/sink.py : MuxSocketTransportSink (tag handling only) with the
  ThriftMux specialisation of scales/thriftmux/sink.py (`_ProcessReply`, `_OnTimeout`, ping).

  State of one open transport sink:

      _tag_pool                      ↦ `pool`
      _tag_map  {tag: (stack, …)}    ↦ `tagmap : List (tag × request id)`
      _send_queue                    ↦ `sendq`   (payloads already carry their tag)
      msg.properties of request r    ↦ `reqs[r]` : the `Tag.KEY` entry, the Deadline event and
                                        whether the one-shot timeout callback is subscribed

  Every operation is one atomic step of the real code (no yield inside, measured on the fake
  socket): which step happens next is observed from the real run; its effect is computed here.
  The one yield point inside an iteration of `_SendLoop` is `self._socket.write(payload)`: when
  the peer is slow the greenlet is parked inside the call.  `wbegin` is the part of an iteration
  up to and including the *issue* of a write call that does not return at once (from then on the
  peer may see any prefix of the frame: the frame counts as written); `wend` is that call
  returning.  In between every other step can happen (requests and time-out Tdiscardeds queue
  up behind the frame, deadline events fire, their callbacks run, peer frames are processed) —
  only the send loop itself cannot move.  `send` is an iteration whose write returned at once.
  `quiet` is not a step of the code: it is the harness reporting that nothing is runnable (every
  spawned callback has run; the send loop is blocked in `queue.get()` or inside `write`).
  The model describes the code *after* the two repairs of fixes/C11-release-only-leased-tags.patch:
  `_ReleaseTag` returns a tag to the pool only if it was in `_tag_map`, and the send loop does
  not write a request that was completed while it was waiting in the send queue.  Import-free.
-/
import ScalesModel.Model.TagPool
namespace Scales.TagPool

/-- the `Tag.KEY` entry of a request's property dict -/
inductive Key where
  | tag (t : Nat)      -- `props[Tag.KEY] = tag`            (AsyncProcessRequest)
  | answered           -- `props[Tag.KEY] = None`           (_ProcessTaggedReply)
  | absent             -- popped (_HandleTimeout / timeout_proc) or never set
  deriving Repr, DecidableEq, Inhabited

/-- the `Deadline.EVENT_KEY` entry -/
inductive Ev where
  | noev | unfired | fired
  deriving Repr, DecidableEq, Inhabited

structure Req where
  key : Key
  ev : Ev
  sub : Bool           -- `timeout_event.Subscribe(…, one_shot=True)` done and not yet consumed
  deriving Repr, DecidableEq, Inhabited

/-- an element of the send queue -/
inductive Item where
  | req (rid tag : Nat)      -- Tdispatch of request `rid`, header built with `tag`
  | discard (which : Nat)    -- Tdiscarded naming tag `which` (one-way: header tag 0)
  | ping                     -- Tping, header tag 1
  deriving Repr, DecidableEq, Inhabited

structure St where
  pool : Pool
  tagmap : List (Nat × Nat)
  sendq : List Item
  reqs : List Req
  writing : Bool             -- the send loop is parked inside `self._socket.write(payload)`
  deriving Repr, DecidableEq, Inhabited

/-- a transport sink that has just been opened, nothing in flight, nothing queued, whose tag pool is
    in state `p` (a connection of some age: `p` is what earlier traffic left behind) -/
def St.initWith (p : Pool) : St := ⟨p, [], [], [], false⟩

/-- a fresh transport sink: `TagPool.__init__` -/
def St.init : St := ⟨Pool.init, [], [], [], false⟩

/-! ### `_tag_map` as an association list -/

def tmLookup (t : Nat) : List (Nat × Nat) → Option Nat
  | [] => none
  | (k, r) :: m => if k = t then some r else tmLookup t m

def tmErase (t : Nat) (m : List (Nat × Nat)) : List (Nat × Nat) := m.filter (fun p => p.1 != t)

def tmKeys (m : List (Nat × Nat)) : List Nat := m.map (·.1)

/-- `self._tag_map[tag] = …` -/
def tmSet (t rid : Nat) (m : List (Nat × Nat)) : List (Nat × Nat) := (t, rid) :: tmErase t m

/-! ### frames written to the socket -/

inductive FrameKind where
  | req | discard | ping | other
  deriving Repr, DecidableEq, Inhabited

/-- `(kind, tag in the mux header, argument)`; the argument is the request id carried in the
    body of a request frame, the discarded tag of a Tdiscarded, 0 for a ping -/
structure Frame where
  kind : FrameKind
  tag : Nat
  arg : Nat
  deriving Repr, DecidableEq, Inhabited

inductive Res where
  | ok
  | exhausted      -- AsyncProcessRequest raised "No tags left in pool."
  | badop          -- the operation is not enabled in this state / illegal choice
  | raised         -- only ever reported by the implementation
  deriving Repr, DecidableEq, Inhabited

inductive EvKind where
  | noev           -- no Deadline event on the message
  | ev             -- event present, not signalled
  | pre            -- event present and already signalled when the request arrives
  deriving Repr, DecidableEq, Inhabited

inductive Op where
  | req (e : EvKind) (popped : Nat)   -- AsyncProcessRequest of a two-way message
  | fire (rid : Nat)                  -- `evt.Set(True)` by the time-out sink
  | send                              -- one iteration of `_SendLoop`
  | notify (rid : Nat)                -- the subscribed `timeout_proc` of request `rid` runs
  | process (mtype : Int) (tag : Nat) -- `_ProcessReply` on a frame sent by the peer
  | ping                              -- `_SendPingMessage`
  | reopen                            -- the connection is replaced (fresh sink, fresh pool)
  | wbegin                            -- an iteration of `_SendLoop` up to a `write` call that blocks
  | wend                              -- the blocked `write` call returns
  | quiet                             -- (harness) nothing is runnable
  deriving Repr, DecidableEq, Inhabited

/-- what one step shows -/
structure Out where
  res : Res := .ok
  assigned : Nat := 0
  wrote : List Frame := []
  delivered : List Nat := []
  deriving Repr, DecidableEq, Inhabited

/-- `_ReleaseTag` (repaired): pop from the tag map; back to the pool only if it was there -/
def releaseTag (s : St) (t : Nat) : St × Option Nat :=
  match tmLookup t s.tagmap with
  | some rid => ({ s with tagmap := tmErase t s.tagmap, pool := s.pool.release t }, some rid)
  | none => (s, none)

def setKey (reqs : List Req) (rid : Nat) (k : Key) : List Req :=
  match reqs[rid]? with
  | some r => reqs.set rid { r with key := k }
  | none => reqs

def evOf : EvKind → Ev
  | .noev => .noev
  | .ev => .unfired
  | .pre => .fired

/-- `AsyncProcessRequest(sink_stack, msg, stream, headers)` for a two-way message on an open sink.
    The request id is the number of requests issued on this connection so far. -/
def stepReq (max : Nat) (s : St) (e : EvKind) (popped : Nat) : St × Out :=
  match s.pool.get max popped with
  | .exhausted => ({ s with reqs := s.reqs ++ [⟨.absent, evOf e, false⟩] }, { res := .exhausted })
  | .badChoice => (s, { res := .badop })
  | .tag t p =>
    let rid := s.reqs.length
    ({ pool := p, tagmap := tmSet t rid s.tagmap, sendq := s.sendq ++ [.req rid t],
       reqs := s.reqs ++ [⟨.tag t, evOf e, false⟩], writing := s.writing },
     { assigned := t })

def stepFire (s : St) (rid : Nat) : St × Out :=
  match s.reqs[rid]? with
  | some r =>
    if r.ev = .unfired then ({ s with reqs := s.reqs.set rid { r with ev := .fired } }, {})
    else (s, { res := .badop })
  | none => (s, { res := .badop })

/-- one iteration of `_SendLoop` on the head of the queue (the loop is not parked in a write):
    already answered → skipped (repair); `_HandleTimeout`: event signalled → pop the key and
    `_ReleaseTag`, nothing written; event pending → subscribe, write; no event → write. -/
def stepSend (s : St) : St × Out :=
  match s.sendq with
  | [] => (s, { res := .badop })
  | .ping :: q => ({ s with sendq := q }, { wrote := [⟨.ping, 1, 0⟩] })
  | .discard w :: q => ({ s with sendq := q }, { wrote := [⟨.discard, 0, w⟩] })
  | .req rid t :: q =>
    let s := { s with sendq := q }
    match s.reqs[rid]? with
    | none => (s, { res := .badop })
    | some r =>
      match r.key with
      | .answered => (s, {})
      | k =>
        match r.ev with
        | .fired =>
          let s := { s with reqs := s.reqs.set rid { r with key := .absent } }
          match k with
          | .tag t' => ((releaseTag s t').1, {})
          | _ => (s, {})
        | .unfired =>
          ({ s with reqs := s.reqs.set rid { r with sub := true } }, { wrote := [⟨.req, t, rid⟩] })
        | .noev => (s, { wrote := [⟨.req, t, rid⟩] })

/-- `timeout_proc`: `tag = props.pop(Tag.KEY, 0); if tag: _OnTimeout(tag)` → a Tdiscarded is queued -/
def stepNotify (s : St) (rid : Nat) : St × Out :=
  match s.reqs[rid]? with
  | some r =>
    if r.ev = .fired ∧ r.sub = true then
      let s' := { s with reqs := s.reqs.set rid { r with sub := false, key := .absent } }
      match r.key with
      | .tag t => ({ s' with sendq := s'.sendq ++ [.discard t] }, {})
      | _ => (s', {})
    else (s, { res := .badop })
  | none => (s, { res := .badop })

/-- `SocketTransportSink._ProcessReply`: Rping on tag 1 is the ping answer; any other frame with
    a non-zero tag goes to `_ProcessTaggedReply`; tag 0 is logged and ignored. -/
def stepProcess (s : St) (mtype : Int) (t : Nat) : St × Out :=
  if t = 1 ∧ mtype = -65 then (s, {})
  else if t ≠ 0 then
    match releaseTag s t with
    | (s', some rid) => ({ s' with reqs := setKey s'.reqs rid .answered }, { delivered := [rid] })
    | (s', none) => (s', {})
  else (s, {})

/-! ### the Kafka transport (scales/kafka/sink.py : KafkaTransportSink)

  Same base class, same tag pool, tag map, send loop and `_HandleTimeout`.  Differences:
  `_OnTimeout` is `pass` (Kafka has no discard message: the tag stays leased until the broker
  answers); `_CheckInitialConnection` is a no-op and there is no ping; the tag travels as the
  int32 correlation id of the request header; `_ProcessReply` reads the correlation id of a
  reply and hands *every* reply to `_ProcessTaggedReply` (no reserved values on the way in). -/

/-- which concrete transport sink -/
inductive Flavour where
  | thriftmux | kafka
  deriving Repr, DecidableEq, Inhabited

/-- `timeout_proc` with Kafka's `_OnTimeout`: the key is popped, nothing is queued -/
def stepNotifyKafka (s : St) (rid : Nat) : St × Out :=
  match s.reqs[rid]? with
  | some r =>
    if r.ev = .fired ∧ r.sub = true then
      ({ s with reqs := s.reqs.set rid { r with sub := false, key := .absent } }, {})
    else (s, { res := .badop })
  | none => (s, { res := .badop })

/-- `KafkaTransportSink._ProcessReply`: `_ProcessTaggedReply(correlation id)`, whatever the id -/
def stepProcessKafka (s : St) (t : Nat) : St × Out :=
  match releaseTag s t with
  | (s', some rid) => ({ s' with reqs := setKey s'.reqs rid .answered }, { delivered := [rid] })
  | (s', none) => (s', {})

/-- a time-out callback is runnable: the event has fired and the one-shot subscription is there -/
def Req.notifyPending (r : Req) : Bool := r.ev == .fired && r.sub

/-- `wbegin`: the iteration of `stepSend`, when it gets as far as `self._socket.write(payload)`
    (`_HandleTimeout` has run: the deadline subscription of a request exists *before* the write
    call is issued) and the call does not return: the loop is parked.  An iteration that writes
    nothing (frame skipped or dropped) never reaches the call. -/
def stepWBegin (s : St) : St × Out :=
  if s.writing then (s, { res := .badop })
  else if (stepSend s).2.wrote.isEmpty then (s, { res := .badop })
  else ({ (stepSend s).1 with writing := true }, (stepSend s).2)

/-- `wend`: the parked write call returns; the loop goes back to `queue.get()` -/
def stepWEnd (s : St) : St × Out :=
  if s.writing then ({ s with writing := false }, {}) else (s, { res := .badop })

/-- `quiet`: nothing is runnable — the send loop is parked in a write or waits on an empty queue,
    and no time-out callback is pending -/
def stepQuiet (s : St) : St × Out :=
  if (s.writing || s.sendq.isEmpty) && s.reqs.all (fun r => !r.notifyPending) then (s, {})
  else (s, { res := .badop })

def stepOp (fl : Flavour) (max : Nat) (s : St) : Op → St × Out
  | .req e popped => stepReq max s e popped
  | .fire rid => stepFire s rid
  | .send => if s.writing then (s, { res := .badop }) else stepSend s
  | .wbegin => stepWBegin s
  | .wend => stepWEnd s
  | .quiet => stepQuiet s
  | .notify rid =>
    match fl with
    | .thriftmux => stepNotify s rid
    | .kafka => stepNotifyKafka s rid
  | .process mt t =>
    match fl with
    | .thriftmux => stepProcess s mt t
    | .kafka => stepProcessKafka s t
  | .ping =>
    match fl with
    | .thriftmux => ({ s with sendq := s.sendq ++ [.ping] }, {})
    | .kafka => (s, { res := .badop })          -- the Kafka sink has no ping
  | .reopen => (St.init, {})

/-! ### the code as found, before the repairs

  Only the `…_counterexample_unrepaired` theorems of Props/C11.lean mention these: they exhibit,
  inside Lean, the histories with which the check convicts the unrepaired code. -/

/-- `_ReleaseTag` as found: `self._tag_pool.release(tag)` whether or not the tag was leased (F6) -/
def releaseTagF6 (s : St) (t : Nat) : St × Option Nat :=
  match tmLookup t s.tagmap with
  | some rid => ({ s with tagmap := tmErase t s.tagmap, pool := s.pool.release t }, some rid)
  | none => ({ s with pool := s.pool.release t }, none)

def stepProcessF6 (s : St) (mtype : Int) (t : Nat) : St × Out :=
  if t = 1 ∧ mtype = -65 then (s, {})
  else if t ≠ 0 then
    match releaseTagF6 s t with
    | (s', some rid) => ({ s' with reqs := setKey s'.reqs rid .answered }, { delivered := [rid] })
    | (s', none) => (s', {})
  else (s, {})

/-- `_SendLoop` as found: a request answered while queued (and without a passed deadline) is
    written all the same (F6b) -/
def stepSendF6b (s : St) : St × Out :=
  match s.sendq with
  | .req rid t :: q =>
    match s.reqs[rid]? with
    | some r =>
      if r.key = .answered ∧ r.ev ≠ .fired then ({ s with sendq := q }, { wrote := [⟨.req, t, rid⟩] })
      else stepSend s
    | none => stepSend s
  | _ => stepSend s

/-- the transport with neither repair -/
def stepOpUnrepaired (max : Nat) (s : St) : Op → St × Out
  | .process mt t => stepProcessF6 s mt t
  | .send => stepSendF6b s
  | op => stepOp .thriftmux max s op

/-- the transport with `_ReleaseTag` repaired only -/
def stepOpF6bOnly (max : Nat) (s : St) : Op → St × Out
  | .send => stepSendF6b s
  | op => stepOp .thriftmux max s op

end Scales.TagPool
