/-
  Model/Uri.lean — C20: executable model of ScalesUriParser.Parse (scales/core.py) on top of
  urllib's urlsplit, for URIs made of printable ASCII characters.  Import-free.

      urlsplit : scheme = the characters before the first ':' if they start with a letter and
                 are all scheme characters (lower-cased); after "//" the netloc runs to the
                 first of "/?#"; one unmatched bracket in the netloc is a ValueError; the
                 fragment is what follows the first '#', the query what follows the first '?'
                 before it.
      tcp      : netloc.split(',') ; each `host, port = s.split(':')` ; int(port)
      zk       : ZooKeeperServerSetProvider(netloc, path, endpoint_name = fragment or None)
      other    : Exception("No handler found for prefix …")
-/
namespace Scales.Uri

abbrev Str := List Char

/-- Python `s.split(c)` -/
def splitOn (c : Char) : Str → List Str
  | [] => [[]]
  | x :: xs =>
    if x = c then [] :: splitOn c xs
    else match splitOn c xs with
      | [] => [[x]]
      | p :: ps => (x :: p) :: ps

/-- Python `s.split(c, 1)` as (before, after) when `c` occurs, `(s, [])` otherwise -/
def cut (c : Char) : Str → Str × Str
  | [] => ([], [])
  | x :: xs => if x = c then ([], xs) else let r := cut c xs; (x :: r.1, r.2)

def isAlpha (c : Char) : Bool := ('a' ≤ c && c ≤ 'z') || ('A' ≤ c && c ≤ 'Z')
def isDigit (c : Char) : Bool := '0' ≤ c && c ≤ '9'
def isSchemeChar (c : Char) : Bool := isAlpha c || isDigit c || c = '+' || c = '-' || c = '.'
def lower (c : Char) : Char := if 'A' ≤ c && c ≤ 'Z' then Char.ofNat (c.toNat + 32) else c

/-- (scheme, rest) as urlsplit determines them -/
def splitScheme (s : Str) : Str × Str :=
  if s.contains ':' then
    let r := cut ':' s
    match r.1 with
    | [] => ([], s)
    | c :: cs => if isAlpha c && (c :: cs).all isSchemeChar then ((c :: cs).map lower, r.2) else ([], s)
  else ([], s)

def isNetlocEnd (c : Char) : Bool := c = '/' || c = '?' || c = '#'

/-- (netloc, rest) -/
def splitNetloc (url : Str) : Str × Str :=
  match url with
  | '/' :: '/' :: body => (body.takeWhile (fun c => !isNetlocEnd c), body.dropWhile (fun c => !isNetlocEnd c))
  | _ => ([], url)

inductive Err where
  | value       -- ValueError
  | nohandler   -- "No handler found for prefix"
  deriving DecidableEq, Repr

inductive Result where
  | tcp (eps : List (Str × Nat))
  | zk (hosts path : Str) (endpoint : Option Str)
  | err (e : Err)
  deriving DecidableEq, Repr

/-- int(s) for a string of ASCII digits -/
def decToNat : Str → Option Nat
  | [] => none
  | cs => cs.foldl (fun acc c => match acc with
      | none => none
      | some n => if isDigit c then some (n * 10 + (c.toNat - 48)) else none) (some 0)

def parseServer (s : Str) : Option (Str × Nat) :=
  match splitOn ':' s with
  | [host, port] => match decToNat port with
    | some p => some (host, p)
    | none => none
  | _ => none

def handleTcp (netloc : Str) : Result :=
  match (splitOn ',' netloc).mapM parseServer with
  | some eps => .tcp eps
  | none => .err .value

def tcpScheme : Str := ['t', 'c', 'p']
def zkScheme : Str := ['z', 'k']

def schemeOf (s : Str) : Str := (splitScheme s).1

def parseUri (s : Str) : Result :=
  let sr := splitScheme s
  let nr := splitNetloc sr.2
  let netloc := nr.1
  if (netloc.contains '[' && !netloc.contains ']') || (netloc.contains ']' && !netloc.contains '[') then
    .err .value
  else
    let fr := if nr.2.contains '#' then cut '#' nr.2 else (nr.2, [])
    let qr := if fr.1.contains '?' then cut '?' fr.1 else (fr.1, [])
    if sr.1 = tcpScheme then handleTcp netloc
    else if sr.1 = zkScheme then .zk netloc qr.1 (if fr.2 = [] then none else some fr.2)
    else .err .nohandler

/-! rendering (used by the round-trip theorems; the harness renders in Python) -/

def digitChar (d : Nat) : Char := Char.ofNat (48 + d)

def natToDecFuel : Nat → Nat → Str
  | 0, _ => ['0']
  | fuel + 1, n => if n < 10 then [digitChar n] else natToDecFuel fuel (n / 10) ++ [digitChar (n % 10)]

/-- decimal numeral of `n` (fuel n+1 always suffices) -/
def natToDec (n : Nat) : Str := natToDecFuel (n + 1) n

def intercalate (sep : Char) : List Str → Str
  | [] => []
  | [x] => x
  | x :: y :: rest => x ++ sep :: intercalate sep (y :: rest)

def renderServer (ep : Str × Nat) : Str := ep.1 ++ ':' :: natToDec ep.2

def renderTcp (eps : List (Str × Nat)) : Str :=
  ['t', 'c', 'p', ':', '/', '/'] ++ intercalate ',' (eps.map renderServer)

def renderZk (hosts path : Str) (endpoint : Option Str) : Str :=
  ['z', 'k', ':', '/', '/'] ++ hosts ++ path ++
    (match endpoint with | some f => '#' :: f | none => [])

end Scales.Uri
