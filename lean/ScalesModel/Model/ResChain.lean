/-
  Model/ResChain.lean — the way of the fault signal in the Thrift stack:
      SocketTransportSink (scales/thrift/sink.py)  →  WatermarkPoolSink (scales/pool/watermark.py)
      →  ResurrectorSink (scales/resurrector.py),   with scales/observable.py in between.

  One resurrector, its current pool `p`, that pool's one transport `t` (requests are issued one at
  a time, min_watermark = 1).  Everything deferred by the code is a task in `tasks`:

    poolOpen   SafeLink greenlet of `WatermarkPoolSink.Open()`     (`_OpenImpl` → `_Get`)
    trOpen     SafeLink greenlet of `SocketTransportSink.Open()`   (`_OpenImpl`: connect)
    wakeGet    link of the transport's open result: resumes the pool greenlet blocked in
               `sink.Open().wait()`, which continues with `_Release` and the end of `_OpenImpl`
    notifyT    `Observable.__Notify` of the transport's `on_faulted`  (reads subscribers when run)
    notifyP    the same for the pool's `on_faulted`
    notifyUp   the same for the resurrector's `on_faulted` (the balancer's subscription)
    resStart   first switch into `_TryResurrect`
    resume     link of the pool's open result: resumes `_TryResurrect` blocked in `Open().get()`
    kill       `Greenlet.kill(block=False)`
    reqStart   the caller's greenlet entering `ResurrectorSink.AsyncProcessRequest`
    tx         `SocketTransportSink._AsyncProcessTransaction` (write, read; peer answers or closes)
    reply      `SocketTransportSink._ProcessReply`
    ffResp     the caller after `gevent.sleep(0)` in fail-fast mode

  `fixed = true` is the repaired code (the pool subscribes to the transport's fault signal *before*
  `Open().wait()`, and `_OpenImpl` raises when `_Release` closed the pool); `fixed = false` is the
  code as found (F5), kept so that the counterexample is a theorem.

  gevent runs tasks FIFO (`runFIFO`); `run` takes an arbitrary schedule (which queued task runs
  next), so that the theorems do not depend on that order.  Import-free.
-/
import ScalesModel.Model.Resurrector
namespace Scales.Chain
open Scales.Res (ChSt Ar)

/-- the pool's open greenlet -/
inductive PG where
  | none | waitT | done
  deriving Repr, DecidableEq, Inhabited

/-- the `_TryResurrect` greenlet -/
inductive RR where
  | none | start | sleeping | opening
  deriving Repr, DecidableEq, Inhabited

/-- which `gevent.sleep` the retry greenlet entered during this run -/
inductive Slp where
  | none | fresh | backoff
  deriving Repr, DecidableEq, Inhabited

inductive RespK where
  | none | ok | err | ff
  deriving Repr, DecidableEq, Inhabited

inductive Task where
  | poolOpen | trOpen | wakeGet | notifyT | notifyP | notifyUp | resStart | resume | kill
  | reqStart (eof : Bool) | tx (eof : Bool) | reply | ffResp
  deriving Repr, DecidableEq, Inhabited

structure C where
  fixed : Bool := true
  reach : Bool := true          -- the endpoint accepts connections
  -- transport t
  tSt : ChSt := .idle           -- `state` (opened ⇔ the socket is open)
  tSub : Bool := false          -- the pool's `__PropagateShutdown` is subscribed to t.on_faulted
  tAr : Ar := .none             -- t's open result
  -- pool p
  pSt : ChSt := .idle
  pSize : Nat := 0
  pCache : Bool := false        -- t is in the cache
  pAr : Ar := .none             -- result of p.Open()
  pG : PG := .none
  -- resurrector
  rNext : Bool := false         -- next_sink is p
  rSub : Bool := false          -- `_OnSinkFaulted` is subscribed to p.on_faulted
  rDown : Bool := false
  rRes : RR := .none
  slp : Slp := .none
  -- what the outside sees of this run
  ups : Nat := 0
  connects : Nat := 0
  resp : RespK := .none
  uncovered : Bool := false     -- a path this model does not describe (a second transport)
  tasks : List Task := []
  deriving Repr, DecidableEq, Inhabited

def push (c : C) (t : Task) : C := { c with tasks := c.tasks ++ [t] }

/-- `WatermarkPoolSink._FlushCache` + the state change of `Close()` (no waiters) -/
def poolClose (c : C) : C :=
  let c := { c with pSt := .closed }
  if c.pCache then { c with tSub := false, tSt := .closed, tAr := .none } else c

/-- `WatermarkPoolSink._Release(t)` (no waiters, min_watermark = 1) -/
def poolRelease (c : C) : C :=
  if c.pSt = .closed then { c with pSize := c.pSize - 1 }
  else if c.tSt = .closed then poolClose { c with pSize := c.pSize - 1 }
  else if c.pSize ≤ 1 then { c with pCache := true }
  else { c with pSize := c.pSize - 1, tSub := false, tSt := .closed, tAr := .none }

/-- `ResurrectorSink._OnSinkFaulted` -/
def onSinkFaulted (c : C) : C :=
  if c.rDown then push c .notifyUp
  else
    let c := { c with rDown := true }
    if c.rNext then
      let c := poolClose { c with rNext := false }
      let c := { c with rSub := false, rRes := .start }
      push (push c .resStart) .notifyUp
    else { c with uncovered := true }

/-- `SocketTransportSink._Fault` -/
def trFault (c : C) : C :=
  if c.tSt = .closed then c
  else push { c with tSt := .closed, tAr := .none } .notifyT

def runTask (c : C) : Task → C
  | .poolOpen =>
    -- _OpenImpl → _Get: cache empty, create t, (subscribe,) t.Open(), wait
    if c.pCache then
      -- a cached sink is handed out and released again at once
      let c := poolRelease { c with pCache := false }
      if c.fixed && c.pSt = .closed then { c with pAr := .fail, pG := .done }
      else
        let c := { c with pSt := .opened, pAr := .ok, pG := .done }
        if c.rRes = .opening then push c .resume else c
    else
      let c := { c with pSize := c.pSize + 1, tSt := .idle, tSub := c.fixed, tAr := .pending, pG := .waitT }
      push c .trOpen
  | .trOpen =>
    let c := { c with connects := c.connects + 1 }
    if c.reach then
      let c := { c with tSt := .opened, tAr := .ok }
      if c.pG = .waitT then push c .wakeGet else c
    else
      let c := trFault c
      let c := { c with tAr := .fail }
      if c.pG = .waitT then push c .wakeGet else c
  | .wakeGet =>
    if c.pG = .waitT then
      let c := if c.fixed then c else { c with tSub := true }
      let c := poolRelease c
      if c.fixed && c.pSt = .closed then
        let c := { c with pAr := .fail, pG := .done }
        if c.rRes = .opening then push c .resume else c
      else
        let c := { c with pSt := .opened, pAr := .ok, pG := .done }
        if c.rRes = .opening then push c .resume else c
    else c
  | .notifyT => if c.tSub then push c .notifyP else c
  | .notifyP => if c.rSub then onSinkFaulted c else c
  | .notifyUp => { c with ups := c.ups + 1 }
  | .resStart =>
    if c.rRes = .start then
      if c.rDown then { c with rRes := .sleeping, slp := .fresh } else { c with rRes := .none }
    else c
  | .resume =>
    if c.rRes = .opening then
      match c.pAr with
      | .ok =>
        if c.rDown then { c with rSub := true, rNext := true, rDown := false, rRes := .none }
        else { poolClose c with rRes := .none }
      | .fail => { poolClose c with rRes := .sleeping, slp := .backoff }
      | _ => c
    else c
  | .kill =>
    if c.rRes = .sleeping ∨ c.rRes = .opening then { c with rRes := .none } else c
  | .reqStart eof =>
    if c.rNext then
      -- pool._Get: the cached transport, if it is still open
      if c.pCache && c.tSt ≠ .closed then push { c with pCache := false } (.tx eof)
      else { c with uncovered := true }
    else push c .ffResp
  | .tx eof =>
    if c.tSt = .opened then
      if eof then
        -- EOFError → _Fault(ex) → response → pool._Release
        let c := trFault c
        { poolRelease c with resp := .err }
      else push c .reply
    else
      -- write on a closed socket → _Fault (no-op) → response → pool._Release
      { poolRelease c with resp := .err }
  | .reply => { poolRelease c with resp := .ok }
  | .ffResp => { c with resp := .ff }

/-- remove the `i`-th queued task and run it -/
def fire (c : C) (i : Nat) : C :=
  match c.tasks[i]? with
  | some t => runTask { c with tasks := c.tasks.eraseIdx i } t
  | none => c

/-- run under a schedule: each pick selects (mod the queue length) the task that runs next;
    stops when nothing is queued or the schedule is exhausted -/
def run (c : C) : List Nat → C
  | [] => c
  | k :: ks =>
    if c.tasks.length = 0 then c
    else run (fire c (k % c.tasks.length)) ks

/-- gevent's order -/
def runFIFO (c : C) : Nat → C
  | 0 => c
  | n + 1 => if c.tasks.length = 0 then c else runFIFO (fire c 0) n

/-- the final states of all schedules, `none` if some schedule is longer than `fuel` -/
def explore : Nat → C → Option (List C)
  | 0, c => if c.tasks.length = 0 then some [c] else none
  | fuel + 1, c =>
    if c.tasks.length = 0 then some [c]
    else
      (List.range c.tasks.length).foldr
        (fun i acc => do
          let a ← acc
          let b ← explore fuel (fire c i)
          pure (b ++ a))
        (some [])

/-! ### the operations, on a quiescent state -/

/-- counters and answers are per run -/
def begin (c : C) : C := { c with ups := 0, connects := 0, resp := .none, slp := .none }

/-- a fresh pool and transport replace the previous (closed) ones -/
def newPool (c : C) : C :=
  { c with tSt := .idle, tSub := false, tAr := .none, pSt := .idle, pSize := 0, pCache := false,
           pAr := .pending, pG := .none }

/-- `ResurrectorSink.Open()` -/
def opOpen (c : C) : C :=
  if c.rNext then push { c with pAr := .pending } .poolOpen
  else
    let c := newPool c
    push { c with rNext := true, rSub := true } .poolOpen

/-- the retry greenlet wakes: CreateSink, `Open().get()` -/
def opWake (c : C) : C :=
  if c.rRes = .sleeping then
    let c := newPool c
    push { c with rRes := .opening } .poolOpen
  else c

def opReq (c : C) (eof : Bool) : C := push c (.reqStart eof)

/-- `ResurrectorSink.Close()` -/
def opClose (c : C) : C :=
  let c :=
    match c.rRes with
    | .start => { c with rRes := .none, tasks := c.tasks.filter (fun t => t ≠ Task.resStart) }
    | .sleeping => push c .kill
    | .opening => push c .kill
    | .none => c
  let c := { c with rDown := false }
  if c.rNext then poolClose { c with rSub := false } else c

/-- the resurrector has learnt of the failure: fail-fast mode, retry greenlet asleep -/
def learned (c : C) : Prop := c.rDown = true ∧ c.rNext = false ∧ c.rRes = .sleeping ∧ c.uncovered = false

instance (c : C) : Decidable (learned c) := by unfold learned; infer_instance

/-- enough for every schedule of every operation (see `C09_chain_terminates`) -/
def fuel : Nat := 16

end Scales.Chain
