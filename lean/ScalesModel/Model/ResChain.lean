/-
  Model/ResChain.lean — the way of the fault signal in the Thrift stack:
      SocketTransportSink (scales/thrift/sink.py)  →  WatermarkPoolSink (scales/pool/watermark.py)
      →  ResurrectorSink (scales/resurrector.py),   with scales/observable.py in between.

  One resurrector, its current pool `p`, that pool's one live transport `t` (requests are issued one
  at a time).  The pool's configuration `WM` (`lo` = min_watermark, `hi` = max_watermark) is a
  parameter: `_Release` caches the returned transport iff `_current_size ≤ lo`, `_Get` creates one
  iff the cache is empty and `_current_size < hi`.  With `lo = 0` the pool keeps nothing: the probe
  transport of `_OpenImpl` is discarded (unsubscribed, closed) after a *successful* connect, and
  every request creates, connects (blocking the caller in `sink.Open().wait()`), uses and discards
  its own transport.  Everything deferred by the code is a task in `tasks`:

    poolOpen   SafeLink greenlet of `WatermarkPoolSink.Open()`     (`_OpenImpl` → `_Get`)
    trOpen     SafeLink greenlet of `SocketTransportSink.Open()`   (`_OpenImpl`: connect)
    wakeGet    link of the transport's open result: resumes the pool greenlet blocked in
               `sink.Open().wait()`, which continues with `_Release` and the end of `_OpenImpl`
    wakeReq    the same link when the greenlet blocked in `_Get` is a caller's
               (`PoolSink.AsyncProcessRequest`): it continues with `sink.AsyncProcessRequest`
    notifyT    `Observable.__Notify` of the transport's `on_faulted`  (reads subscribers when run)
    notifyP    the same for the pool's `on_faulted`
    notifyUp   the same for the resurrector's `on_faulted` (the balancer's subscription)
    resStart   first switch into `_TryResurrect`
    resume     link of the pool's open result: resumes `_TryResurrect` blocked in `Open().get()`
    kill       `Greenlet.kill(block=False)`
    reqStart   the caller's greenlet entering `ResurrectorSink.AsyncProcessRequest`
    tx         `SocketTransportSink._AsyncProcessTransaction` (write, read; peer answers or closes)
    reply      `SocketTransportSink._ProcessReply`
    ffResp     the caller after `gevent.sleep(0)` in fail-fast mode

  `fixed = true` is the repaired code (the pool subscribes to the transport's fault signal *before*
  `Open().wait()`, and `_OpenImpl` raises when `_Release` closed the pool); `fixed = false` is the
  code as found (F5), kept so that the counterexample is a theorem.

  gevent runs tasks FIFO (`runFIFO`); `run` takes an arbitrary schedule (which queued task runs
  next), so that the theorems do not depend on that order.  Import-free.
-/
import ScalesModel.Model.Resurrector
namespace Scales.Chain
open Scales.Res (ChSt Ar)

/-- the pool's open greenlet -/
inductive PG where
  | none | waitT | done
  deriving Repr, DecidableEq, Inhabited

/-- the `_TryResurrect` greenlet -/
inductive RR where
  | none | start | sleeping | opening
  deriving Repr, DecidableEq, Inhabited

/-- which `gevent.sleep` the retry greenlet entered during this run -/
inductive Slp where
  | none | fresh | backoff
  deriving Repr, DecidableEq, Inhabited

/-- the answer to a request; `pending` (never answered within the drain) is never produced by the
    model — it is there so that the specification can judge an implementation that hangs -/
inductive RespK where
  | none | ok | err | ff | pending
  deriving Repr, DecidableEq, Inhabited

inductive Task where
  | poolOpen | trOpen | wakeGet | wakeReq | notifyT | notifyP | notifyUp | resStart | resume | kill
  | reqStart (eof : Bool) | tx (eof : Bool) | reply | ffResp
  deriving Repr, DecidableEq, Inhabited

/-- the pool's configuration: `min_watermark`, `max_watermark` (shipped: 1 and Int.MaxValue) -/
structure WM where
  lo : Nat := 1
  hi : Nat := 2147483647
  deriving Repr, DecidableEq, Inhabited

structure C where
  fixed : Bool := true
  reach : Bool := true          -- the endpoint accepts connections
  -- transport t
  tSt : ChSt := .idle           -- `state` (opened ⇔ the socket is open)
  tSub : Bool := false          -- the pool's `__PropagateShutdown` is subscribed to t.on_faulted
  tAr : Ar := .none             -- t's open result
  -- pool p
  pSt : ChSt := .idle
  pSize : Nat := 0
  pCache : Bool := false        -- t is in the cache
  pAr : Ar := .none             -- result of p.Open()
  pG : PG := .none
  qG : Option Bool := none      -- a caller's greenlet is blocked in `_Get` → `sink.Open().wait()`
                                -- (the flag: will the peer close the connection instead of answering)
  -- resurrector
  rNext : Bool := false         -- next_sink is p
  rSub : Bool := false          -- `_OnSinkFaulted` is subscribed to p.on_faulted
  rDown : Bool := false
  rRes : RR := .none
  slp : Slp := .none
  -- what the outside sees of this run
  ups : Nat := 0
  connects : Nat := 0
  resp : RespK := .none
  uncovered : Bool := false     -- a path this model does not describe (a second transport)
  tasks : List Task := []
  deriving Repr, DecidableEq, Inhabited

def push (c : C) (t : Task) : C := { c with tasks := c.tasks ++ [t] }

/-- `WatermarkPoolSink._FlushCache` + the state change of `Close()` (no waiters) -/
def poolClose (c : C) : C :=
  let c := { c with pSt := .closed }
  if c.pCache then { c with tSub := false, tSt := .closed, tAr := .none } else c

/-- `WatermarkPoolSink._DiscardSink(t)`: unsubscribe, `t.Close()` -/
def discard (c : C) : C := { c with tSub := false, tSt := .closed, tAr := .none }

/-- `WatermarkPoolSink._Release(t)` (no waiters) -/
def poolRelease (w : WM) (c : C) : C :=
  if c.pSt = .closed then discard { c with pSize := c.pSize - 1 }
  else if c.tSt = .closed then poolClose { c with pSize := c.pSize - 1 }
  else if c.pSize ≤ w.lo then { c with pCache := true }
  else discard { c with pSize := c.pSize - 1 }

/-- `_Get` with an empty cache and room below the high watermark: count, create `t`, subscribe
    (repaired code: before the wait), `t.Open()` -/
def poolCreate (c : C) : C :=
  push { c with pSize := c.pSize + 1, tSt := .idle, tSub := c.fixed, tAr := .pending } .trOpen

/-- resume whoever is blocked in `t.Open().wait()` -/
def wakeWaiter (c : C) : C :=
  if c.pG = .waitT then push c .wakeGet
  else if c.qG.isSome then push c .wakeReq
  else c

/-- `ResurrectorSink._OnSinkFaulted` -/
def onSinkFaulted (c : C) : C :=
  if c.rDown then push c .notifyUp
  else
    let c := { c with rDown := true }
    if c.rNext then
      let c := poolClose { c with rNext := false }
      let c := { c with rSub := false, rRes := .start }
      push (push c .resStart) .notifyUp
    else { c with uncovered := true }

/-- `SocketTransportSink._Fault` -/
def trFault (c : C) : C :=
  if c.tSt = .closed then c
  else push { c with tSt := .closed, tAr := .none } .notifyT

def runTask (w : WM) (c : C) : Task → C
  | .poolOpen =>
    -- _OpenImpl → _Get
    if c.pCache then
      -- a cached sink is handed out and released again at once
      let c := poolRelease w { c with pCache := false }
      if c.fixed && c.pSt = .closed then { c with pAr := .fail, pG := .done }
      else
        let c := { c with pSt := .opened, pAr := .ok, pG := .done }
        if c.rRes = .opening then push c .resume else c
    else if c.pSize < w.hi then
      -- cache empty: create t, (subscribe,) t.Open(), wait
      poolCreate { c with pG := .waitT }
    else
      -- at the high watermark: a QueuingMessageSink (not described)
      { c with uncovered := true }
  | .trOpen =>
    let c := { c with connects := c.connects + 1 }
    if c.reach then
      wakeWaiter { c with tSt := .opened, tAr := .ok }
    else
      let c := trFault c
      wakeWaiter { c with tAr := .fail }
  | .wakeGet =>
    if c.pG = .waitT then
      let c := if c.fixed then c else { c with tSub := true }
      let c := poolRelease w c
      if c.fixed && c.pSt = .closed then
        let c := { c with pAr := .fail, pG := .done }
        if c.rRes = .opening then push c .resume else c
      else
        let c := { c with pSt := .opened, pAr := .ok, pG := .done }
        if c.rRes = .opening then push c .resume else c
    else c
  | .wakeReq =>
    -- `_Get` returns the transport whatever became of its Open(); the request goes down to it
    match c.qG with
    | some eof =>
      let c := if c.fixed then c else { c with tSub := true }
      push { c with qG := none } (.tx eof)
    | none => c
  | .notifyT => if c.tSub then push c .notifyP else c
  | .notifyP => if c.rSub then onSinkFaulted c else c
  | .notifyUp => { c with ups := c.ups + 1 }
  | .resStart =>
    if c.rRes = .start then
      if c.rDown then { c with rRes := .sleeping, slp := .fresh } else { c with rRes := .none }
    else c
  | .resume =>
    if c.rRes = .opening then
      match c.pAr with
      | .ok =>
        if c.rDown then { c with rSub := true, rNext := true, rDown := false, rRes := .none }
        else { poolClose c with rRes := .none }
      | .fail => { poolClose c with rRes := .sleeping, slp := .backoff }
      | _ => c
    else c
  | .kill =>
    if c.rRes = .sleeping ∨ c.rRes = .opening then { c with rRes := .none } else c
  | .reqStart eof =>
    if c.rNext then
      if c.pCache then
        -- pool._Get: the cached transport, if it is still open
        if c.tSt ≠ .closed then push { c with pCache := false } (.tx eof)
        else { c with uncovered := true }
      else if c.pSize < w.hi ∧ c.tSt = .closed ∧ c.tSub = false ∧ c.qG = none then
        -- nothing cached, the previous transport is gone: the caller creates one and waits for
        -- its connect
        poolCreate { c with qG := some eof }
      else { c with uncovered := true }
    else push c .ffResp
  | .tx eof =>
    if c.tSt = .opened then
      if eof then
        -- EOFError → _Fault(ex) → response → pool._Release
        let c := trFault c
        { poolRelease w c with resp := .err }
      else push c .reply
    else
      -- write on a closed socket → _Fault (no-op) → response → pool._Release
      { poolRelease w c with resp := .err }
  | .reply => { poolRelease w c with resp := .ok }
  | .ffResp => { c with resp := .ff }

/-- remove the `i`-th queued task and run it -/
def fire (w : WM) (c : C) (i : Nat) : C :=
  match c.tasks[i]? with
  | some t => runTask w { c with tasks := c.tasks.eraseIdx i } t
  | none => c

/-- run under a schedule: each pick selects (mod the queue length) the task that runs next;
    stops when nothing is queued or the schedule is exhausted -/
def run (w : WM) (c : C) : List Nat → C
  | [] => c
  | k :: ks =>
    if c.tasks.length = 0 then c
    else run w (fire w c (k % c.tasks.length)) ks

/-- gevent's order -/
def runFIFO (w : WM) (c : C) : Nat → C
  | 0 => c
  | n + 1 => if c.tasks.length = 0 then c else runFIFO w (fire w c 0) n

/-- the pool sizes up to which the watermarks `w` and `clampWM w` decide alike -/
def sizeBound : Nat := 2

/-- every pair of watermarks behaves, while the pool holds at most `sizeBound` transports, like
    one of the nine pairs lo ∈ {0, 1, 2}, hi ∈ {1, 2, 3} (hi = 0 stays 0) -/
def clampWM (w : WM) : WM := ⟨min w.lo 2, min w.hi 3⟩

/-- the final states of all schedules; `none` if some schedule is longer than `fuel` or passes
    through a state with more than `sizeBound` transports counted -/
def explore (w : WM) : Nat → C → Option (List C)
  | 0, c => if c.tasks.length = 0 ∧ c.pSize ≤ sizeBound then some [c] else none
  | fuel + 1, c =>
    if sizeBound < c.pSize then none
    else if c.tasks.length = 0 then some [c]
    else
      (List.range c.tasks.length).foldr
        (fun i acc => do
          let a ← acc
          let b ← explore w fuel (fire w c i)
          pure (b ++ a))
        (some [])

/-! ### the operations, on a quiescent state -/

/-- counters and answers are per run -/
def begin (c : C) : C := { c with ups := 0, connects := 0, resp := .none, slp := .none }

/-- a fresh pool and transport replace the previous (closed) ones -/
def newPool (c : C) : C :=
  { c with tSt := .idle, tSub := false, tAr := .none, pSt := .idle, pSize := 0, pCache := false,
           pAr := .pending, pG := .none, qG := none }

/-- `ResurrectorSink.Open()` -/
def opOpen (c : C) : C :=
  if c.rNext then push { c with pAr := .pending } .poolOpen
  else
    let c := newPool c
    push { c with rNext := true, rSub := true } .poolOpen

/-- the retry greenlet wakes: CreateSink, `Open().get()` -/
def opWake (c : C) : C :=
  if c.rRes = .sleeping then
    let c := newPool c
    push { c with rRes := .opening } .poolOpen
  else c

def opReq (c : C) (eof : Bool) : C := push c (.reqStart eof)

/-- `ResurrectorSink.Close()` -/
def opClose (c : C) : C :=
  let c :=
    match c.rRes with
    | .start => { c with rRes := .none, tasks := c.tasks.filter (fun t => t ≠ Task.resStart) }
    | .sleeping => push c .kill
    | .opening => push c .kill
    | .none => c
  let c := { c with rDown := false }
  if c.rNext then poolClose { c with rSub := false } else c

/-- the resurrector has learnt of the failure: fail-fast mode, retry greenlet asleep -/
def learned (c : C) : Prop := c.rDown = true ∧ c.rNext = false ∧ c.rRes = .sleeping ∧ c.uncovered = false

instance (c : C) : Decidable (learned c) := by unfold learned; infer_instance

/-- enough for every schedule of every operation (see `C09_chain_terminates`) -/
def fuel : Nat := 20

end Scales.Chain
