/-
  Model/KafkaCodec.lean — scales/kafka/protocol.py (KafkaProtocol), scales/kafka/sink.py
  (KafkaTransportSink._BuildHeader / _ProcessReply, KafkaSerializerSink), scales/binary.py
  (BinaryReader / BinaryWriter) and the tag map of scales/mux/sink.py
  (MuxSocketTransportSink.AsyncProcessRequest / _ProcessTaggedReply).

  Bytes are `List Nat` (every element < 256 on the wire; nothing below needs that as a
  hypothesis).  `struct.pack` raises `struct.error` for a value outside the range of its
  format character: the packers below return `none` in exactly those cases.  `BytesIO.read(n)`
  returns *up to* n bytes (everything for a negative n) and `struct.unpack` raises unless the
  buffer has exactly the required size: the readers below are `Option`-valued accordingly.

  Three groups:
    1. client side encoders: produce request body, metadata request body, request header;
    2. broker side (the environment): request parser written from the protocol guide
       (independent of 1.; this is what the specification judges requests with) and the
       produce / metadata response encoders;
    3. client side decoders of protocol.py and the transport's routing of a reply frame by
       correlation id.
  Import-free.
-/
import ScalesModel.Core.Val
namespace Scales.Kafka

abbrev Bytes := List Nat

/-! ## integers on the wire (network byte order) -/

/-- the `n` low-order base-256 digits of `v`, most significant first -/
def be : Nat → Nat → Bytes
  | 0, _ => []
  | n + 1, v => be n (v / 256) ++ [v % 256]

def beVal (bs : Bytes) : Nat := bs.foldl (fun a b => a * 256 + b) 0

/-- two's complement encodings (what `struct.pack('!h' | '!i' | '!q', i)` writes for an
    in-range `i`) -/
def i16 (i : Int) : Bytes := be 2 (i % 65536).toNat
def i32 (i : Int) : Bytes := be 4 (i % 4294967296).toNat
def i64 (i : Int) : Bytes := be 8 (i % 18446744073709551616).toNat

/-- `-32768 ≤ i ≤ 32767` etc. (lemmas `inI16_def`, `inI32_def`, `inI64_def`), phrased over `Nat`
    so that the kernel never evaluates an `Int` subtraction of a 2³¹-sized literal -/
def inI16 (i : Int) : Bool := decide (i.toNat ≤ 32767) && decide ((-i).toNat ≤ 32768)
def inI32 (i : Int) : Bool := decide (i.toNat ≤ 2147483647) && decide ((-i).toNat ≤ 2147483648)
def inI64 (i : Int) : Bool :=
  decide (i.toNat ≤ 9223372036854775807) && decide ((-i).toNat ≤ 9223372036854775808)

/-- `struct.pack` with range check -/
def pk16 (i : Int) : Option Bytes := if inI16 i then some (i16 i) else none
def pk32 (i : Int) : Option Bytes := if inI32 i then some (i32 i) else none
def pk64 (i : Int) : Option Bytes := if inI64 i then some (i64 i) else none

/-- signed reading of an unsigned `v < m` (m = 2^16, 2^32, 2^64) -/
def toS (m : Nat) (v : Nat) : Int := if 2 * v < m then (v : Int) else (v : Int) - (m : Int)

/-- a reader consumes a prefix of the input -/
abbrev Rd (α : Type) := Bytes → Option (α × Bytes)

/-- exactly `n` bytes, or failure (the `struct.unpack(fmt, buf.read(n))` idiom) -/
def takeExact (n : Nat) : Rd Bytes := fun bs =>
  if n ≤ bs.length then some (bs.take n, bs.drop n) else none

def rdU8 : Rd Nat := fun bs =>
  match bs with
  | b :: r => some (b, r)
  | [] => none

def rdI16 : Rd Int := fun bs =>
  match takeExact 2 bs with
  | some (b, r) => some (toS 65536 (beVal b), r)
  | none => none

def rdI32 : Rd Int := fun bs =>
  match takeExact 4 bs with
  | some (b, r) => some (toS 4294967296 (beVal b), r)
  | none => none

def rdU32 : Rd Nat := fun bs =>
  match takeExact 4 bs with
  | some (b, r) => some (beVal b, r)
  | none => none

def rdI64 : Rd Int := fun bs =>
  match takeExact 8 bs with
  | some (b, r) => some (toS 18446744073709551616 (beVal b), r)
  | none => none

/-- `n` items with the same reader (`for _ in range(n)`) -/
def rdMany {α : Type} (p : Rd α) : Nat → Rd (List α)
  | 0, bs => some ([], bs)
  | n + 1, bs =>
    match p bs with
    | none => none
    | some (x, r) =>
      match rdMany p n r with
      | none => none
      | some (xs, r') => some (x :: xs, r')

/-! ## CRC-32 (reflected polynomial 0xEDB88320, bit by bit) -/

def crcBit (c : Nat) : Nat := if c % 2 = 1 then (c / 2) ^^^ 0xEDB88320 else c / 2

def crcByte (c b : Nat) : Nat :=
  crcBit (crcBit (crcBit (crcBit (crcBit (crcBit (crcBit (crcBit (c ^^^ b))))))))

def crcUpdate (c : Nat) (bs : Bytes) : Nat := bs.foldl crcByte c

/-- `zlib.crc32(data, start)` -/
def zcrc (bs : Bytes) (start : Nat) : Nat := crcUpdate (start ^^^ 0xFFFFFFFF) bs ^^^ 0xFFFFFFFF

/-- CRC-32 of a byte string -/
def crc32 (bs : Bytes) : Nat := zcrc bs 0

/-! ## 1. client side encoders -/

/-- `BinaryWriter.WriteString` : int16 length, then the bytes -/
def wrString (s : Bytes) : Option Bytes :=
  match pk16 s.length with
  | some l => some (l ++ s)
  | none => none

/-- `_GetMessageHeader` : `MSG_STRUCT.pack(0, 0, -1, len(payload))`, format `!BBii`
    (magic 0, attributes 0, null key, value length) -/
def msgHeader (p : Bytes) : Option Bytes :=
  match pk32 p.length with
  | some l => some ([0, 0] ++ i32 (-1) ++ l)
  | none => none

/-- one message of the set: `MSG_HEADER.pack(0, len(header)+len(p)+4, crc & 0xffffffff)`
    (format `!qiI`), the message header, the payload -/
def encMessage (p : Bytes) : Option Bytes :=
  match msgHeader p with
  | none => none
  | some header =>
    let crc := zcrc p (zcrc header 0)
    match pk32 (header.length + p.length + 4) with
    | none => none
    | some sz => some (i64 0 ++ sz ++ be 4 (crc % 4294967296) ++ header ++ p)

def encMessages : List Bytes → Option Bytes
  | [] => some []
  | p :: ps =>
    match encMessage p, encMessages ps with
    | some m, some ms => some (m ++ ms)
    | _, _ => none

/-- `sum([8 + 4 + 4 + len(p) + 10 for p in payloads])` -/
def msgSetLen : List Bytes → Nat
  | [] => 0
  | p :: ps => (8 + 4 + 4 + p.length + 10) + msgSetLen ps

/-- `_SerializeProduceRequest` (any `struct.error` rejects the whole request) -/
def produceBody (acks : Int) (topic : Bytes) (partition : Int) (payloads : List Bytes) :
    Option Bytes :=
  match pk16 acks, wrString topic, pk32 partition, pk32 (msgSetLen payloads), encMessages payloads with
  | some a, some t, some part, some len, some msgs =>
    some (a ++ i32 1000 ++ i32 1 ++ t ++ i32 1 ++ part ++ len ++ msgs)
  | _, _, _, _, _ => none

/-- `_SerializeMetadataRequest` for the empty topic list the router sends -/
def metadataBody : Bytes := i32 0

/-- `KafkaTransportSink._BuildHeader(tag, msg_type, data_len)`, format `!ihhih<n>s` -/
def buildHeader (cid : Bytes) (tag : Int) (msgType : Int) (dataLen : Nat) : Option Bytes :=
  match pk32 (2 + 2 + 4 + 2 + cid.length + dataLen), pk16 msgType, pk32 tag, pk16 cid.length with
  | some sz, some mt, some tg, some cl => some (sz ++ mt ++ i16 0 ++ tg ++ cl ++ cid)
  | _, _, _, _ => none

/-- what `MuxSocketTransportSink.AsyncProcessRequest` queues: header + serialized body -/
def wireRequest (cid : Bytes) (tag : Int) (msgType : Int) (body : Bytes) : Option Bytes :=
  match buildHeader cid tag msgType body.length with
  | some h => some (h ++ body)
  | none => none

def produceRequest (cid : Bytes) (tag : Int) (acks : Int) (topic : Bytes) (partition : Int)
    (payloads : List Bytes) : Option Bytes :=
  match produceBody acks topic partition payloads with
  | some b => wireRequest cid tag 0 b
  | none => none

/-! ## 2a. broker side: request parser (Kafka protocol guide, API v0)

    RequestMessage  => Size ApiKey ApiVersion CorrelationId ClientId Body
    ProduceRequest  => RequiredAcks Timeout [TopicName [Partition MessageSetSize MessageSet]]
    MessageSet      => [Offset MessageSize Message]      (not count-prefixed: fills its size)
    Message         => Crc MagicByte Attributes Key Value (Crc covers MagicByte … Value)
    MetadataRequest => [TopicName]
    string = int16 length + bytes; bytes = int32 length (−1: null) + bytes; arrays are
    int32-count prefixed.  Every size must match the bytes present, nothing may be left over. -/

structure PMsg where
  offset : Int
  crc : Nat            -- the Crc field
  crcCalc : Nat        -- CRC-32 of the bytes it covers, as computed by the parser
  magic : Nat
  attrs : Nat
  key : Option Bytes
  value : Option Bytes
  deriving Repr, DecidableEq

structure PPart where
  partition : Int
  msgs : List PMsg
  deriving Repr, DecidableEq

structure PTopic where
  name : Bytes
  parts : List PPart
  deriving Repr, DecidableEq

inductive PBody where
  | produce (acks : Int) (timeout : Int) (topics : List PTopic)
  | metadata (topics : List Bytes)
  deriving Repr, DecidableEq

structure PRequest where
  apiKey : Int
  apiVersion : Int
  corr : Int
  clientId : Bytes
  body : PBody
  deriving Repr, DecidableEq

/-- protocol `string` (non-null) -/
def pString : Rd Bytes := fun bs =>
  match rdI16 bs with
  | none => none
  | some (l, r) => if l < 0 then none else takeExact l.toNat r

/-- protocol `bytes` (nullable) -/
def pBytes : Rd (Option Bytes) := fun bs =>
  match rdI32 bs with
  | none => none
  | some (l, r) =>
    if l = -1 then some (none, r)
    else if l < 0 then none
    else
      match takeExact l.toNat r with
      | some (b, r') => some (some b, r')
      | none => none

/-- a message occupying exactly `bs` -/
def pMessage (offset : Int) (bs : Bytes) : Option PMsg :=
  match rdU32 bs with
  | none => none
  | some (crc, covered) =>
    match rdU8 covered with
    | none => none
    | some (magic, r1) =>
      match rdU8 r1 with
      | none => none
      | some (attrs, r2) =>
        match pBytes r2 with
        | none => none
        | some (key, r3) =>
          match pBytes r3 with
          | some (value, []) => some ⟨offset, crc, crc32 covered % 4294967296, magic, attrs, key, value⟩
          | _ => none

/-- a message set occupying exactly `bs` (`fuel` bounds the number of messages) -/
def pMsgSet : Nat → Bytes → Option (List PMsg)
  | _, [] => some []
  | 0, _ :: _ => none
  | fuel + 1, b :: bs =>
    match rdI64 (b :: bs) with
    | none => none
    | some (off, r1) =>
      match rdI32 r1 with
      | none => none
      | some (sz, r2) =>
        if sz < 0 then none
        else
          match takeExact sz.toNat r2 with
          | none => none
          | some (mb, r3) =>
            match pMessage off mb, pMsgSet fuel r3 with
            | some m, some ms => some (m :: ms)
            | _, _ => none

def pPart : Rd PPart := fun bs =>
  match rdI32 bs with
  | none => none
  | some (partition, r1) =>
    match rdI32 r1 with
    | none => none
    | some (sz, r2) =>
      if sz < 0 then none
      else
        match takeExact sz.toNat r2 with
        | none => none
        | some (ms, r3) =>
          match pMsgSet ms.length ms with
          | some msgs => some (⟨partition, msgs⟩, r3)
          | none => none

def pCount : Rd Nat := fun bs =>
  match rdI32 bs with
  | none => none
  | some (n, r) => if n < 0 then none else some (n.toNat, r)

def pArray {α : Type} (p : Rd α) : Rd (List α) := fun bs =>
  match pCount bs with
  | none => none
  | some (n, r) => rdMany p n r

def pTopic : Rd PTopic := fun bs =>
  match pString bs with
  | none => none
  | some (name, r1) =>
    match pArray pPart r1 with
    | none => none
    | some (parts, r2) => some (⟨name, parts⟩, r2)

def pProduceBody (bs : Bytes) : Option PBody :=
  match rdI16 bs with
  | none => none
  | some (acks, r1) =>
    match rdI32 r1 with
    | none => none
    | some (timeout, r2) =>
      match pArray pTopic r2 with
      | some (topics, []) => some (.produce acks timeout topics)
      | _ => none

def pMetadataBody (bs : Bytes) : Option PBody :=
  match pArray pString bs with
  | some (topics, []) => some (.metadata topics)
  | _ => none

/-- a request after its size prefix: header fields, then the body selected by the API key -/
def parseUnframed (r0 : Bytes) : Option PRequest :=
  match rdI16 r0 with
  | none => none
  | some (apiKey, r1) =>
    match rdI16 r1 with
    | none => none
    | some (apiVersion, r2) =>
      match rdI32 r2 with
      | none => none
      | some (corr, r3) =>
        match pString r3 with
        | none => none
        | some (clientId, r4) =>
          let body :=
            if apiKey = 0 then pProduceBody r4
            else if apiKey = 3 then pMetadataBody r4
            else none
          match body with
          | some b => some ⟨apiKey, apiVersion, corr, clientId, b⟩
          | none => none

/-- a whole request as it appears on the connection: the size prefix must equal the number
    of bytes that follow, and the body must fill the request exactly -/
def parseRequest (bs : Bytes) : Option PRequest :=
  match rdI32 bs with
  | none => none
  | some (size, r0) =>
    if size < 0 ∨ size.toNat ≠ r0.length then none else parseUnframed r0

/-- the bytes a v0 message with a null key and value `p` has after its Crc field -/
def msgCovered (p : Bytes) : Bytes := [0, 0] ++ i32 (-1) ++ i32 p.length ++ p

/-- what the parser yields for such a message at offset 0 whose Crc field is right -/
def expectedMsg (p : Bytes) : PMsg :=
  ⟨0, crc32 (msgCovered p) % 4294967296, crc32 (msgCovered p) % 4294967296, 0, 0, none, some p⟩

/-- the request the broker must see for a `Put(topic, payloads, acks)` to `partition` sent
    under correlation id `tag` by client `cid` (timeout 1000 ms, offsets 0, null keys) -/
def expectedProduce (cid : Bytes) (tag : Int) (acks : Int) (topic : Bytes) (partition : Int)
    (payloads : List Bytes) : PRequest :=
  ⟨0, 0, tag, cid, .produce acks 1000 [⟨topic, [⟨partition, payloads.map expectedMsg⟩]⟩]⟩

/-! ## 2b. broker side: response encoders (total; values are reduced modulo their width,
    the theorems ask for in-range values) -/

def str (s : Bytes) : Bytes := i16 s.length ++ s

/-- partition, error code, offset -/
structure PRPart where
  partition : Int
  error : Int
  offset : Int
  deriving Repr, DecidableEq

structure PRTopic where
  topic : Bytes
  parts : List PRPart
  deriving Repr, DecidableEq

def encPRPart (p : PRPart) : Bytes := i32 p.partition ++ i16 p.error ++ i64 p.offset

def encPRParts : List PRPart → Bytes
  | [] => []
  | p :: ps => encPRPart p ++ encPRParts ps

def encPRTopic (t : PRTopic) : Bytes := str t.topic ++ i32 t.parts.length ++ encPRParts t.parts

def encPRTopics : List PRTopic → Bytes
  | [] => []
  | t :: ts => encPRTopic t ++ encPRTopics ts

/-- ProduceResponse v0 => [TopicName [Partition ErrorCode Offset]] -/
def encProduceResp (r : List PRTopic) : Bytes := i32 r.length ++ encPRTopics r

structure MBroker where
  nodeId : Int
  host : Bytes
  port : Int
  deriving Repr, DecidableEq

structure MPart where
  error : Int
  partition : Int
  leader : Int
  replicas : List Int
  isr : List Int
  deriving Repr, DecidableEq

structure MTopic where
  error : Int
  name : Bytes
  parts : List MPart
  deriving Repr, DecidableEq

structure MResp where
  brokers : List MBroker
  topics : List MTopic
  deriving Repr, DecidableEq

def encI32s : List Int → Bytes
  | [] => []
  | x :: xs => i32 x ++ encI32s xs

def encI32Array (xs : List Int) : Bytes := i32 xs.length ++ encI32s xs

def encMBroker (b : MBroker) : Bytes := i32 b.nodeId ++ str b.host ++ i32 b.port

def encMBrokers : List MBroker → Bytes
  | [] => []
  | b :: bs => encMBroker b ++ encMBrokers bs

def encMPart (p : MPart) : Bytes :=
  i16 p.error ++ i32 p.partition ++ i32 p.leader ++ encI32Array p.replicas ++ encI32Array p.isr

def encMParts : List MPart → Bytes
  | [] => []
  | p :: ps => encMPart p ++ encMParts ps

def encMTopic (t : MTopic) : Bytes :=
  i16 t.error ++ str t.name ++ i32 t.parts.length ++ encMParts t.parts

def encMTopics : List MTopic → Bytes
  | [] => []
  | t :: ts => encMTopic t ++ encMTopics ts

/-- MetadataResponse v0 => [Broker] [TopicMetadata] -/
def encMetadataResp (m : MResp) : Bytes :=
  i32 m.brokers.length ++ encMBrokers m.brokers ++ i32 m.topics.length ++ encMTopics m.topics

/-- a response as the broker writes it: size, correlation id, body -/
def replyFrame (corr : Int) (body : Bytes) : Bytes :=
  i32 (4 + body.length) ++ i32 corr ++ body

/-! ## 3a. client side decoders (protocol.py over binary.py) -/

/-- `BinaryReader.ReadString`: `buf.read(n)` returns what is there (all of it for n < 0) -/
def rdString : Rd Bytes := fun bs =>
  match rdI16 bs with
  | none => none
  | some (l, r) => if l < 0 then some (r, []) else some (r.take l.toNat, r.drop l.toNat)

/-- `BinaryReader.ReadInt32Array`: a negative count is a bad struct format -/
def rdI32Array : Rd (List Int) := fun bs =>
  match rdI32 bs with
  | none => none
  | some (n, r) => if n < 0 then none else rdMany rdI32 n.toNat r

/-- `for _ in range(ReadInt32())`: a negative count means no iteration -/
def rdLoop {α : Type} (p : Rd α) : Rd (List α) := fun bs =>
  match rdI32 bs with
  | none => none
  | some (n, r) => rdMany p n.toNat r

/-- ProduceResponse namedtuple: topic partition error offset -/
structure ProdResult where
  topic : Bytes
  partition : Int
  error : Int
  offset : Int
  deriving Repr, DecidableEq

def rdPRPart : Rd PRPart := fun bs =>
  match rdI32 bs with
  | none => none
  | some (p, r1) =>
    match rdI16 r1 with
    | none => none
    | some (e, r2) =>
      match rdI64 r2 with
      | none => none
      | some (o, r3) => some (⟨p, e, o⟩, r3)

def rdPRTopic : Rd PRTopic := fun bs =>
  match rdString bs with
  | none => none
  | some (t, r1) =>
    match rdLoop rdPRPart r1 with
    | none => none
    | some (ps, r2) => some (⟨t, ps⟩, r2)

def flattenPR : List PRTopic → List ProdResult
  | [] => []
  | t :: ts => t.parts.map (fun p => ⟨t.topic, p.partition, p.error, p.offset⟩) ++ flattenPR ts

/-- `_DeserializeProduceResponse` (trailing bytes are ignored) -/
def decProduceResp (bs : Bytes) : Option (List ProdResult) :=
  match rdLoop rdPRTopic bs with
  | none => none
  | some (ts, _) => some (flattenPR ts)

/-- Python dict assignment `d[k] = v`: replace in place or append -/
def assocSet {κ β : Type} [DecidableEq κ] (d : List (κ × β)) (k : κ) (v : β) : List (κ × β) :=
  match d with
  | [] => [(k, v)]
  | (k', v') :: rest => if k' = k then (k, v) :: rest else (k', v') :: assocSet rest k v

def assocOf {κ β : Type} [DecidableEq κ] (d : List (κ × β)) : List (κ × β) → List (κ × β)
  | [] => d
  | (k, v) :: rest => assocOf (assocSet d k v) rest

/-- PartitionMetadata namedtuple: topic_name partition_id leader replicas isr -/
structure PartMeta where
  topic : Bytes
  partition : Int
  leader : Int
  replicas : List Int
  isr : List Int
  deriving Repr, DecidableEq

/-- MetadataResponse(brokers, topics) with both dicts in iteration order -/
structure MetaResult where
  brokers : List (Int × MBroker)
  topics : List (Bytes × List (Int × PartMeta))
  deriving Repr, DecidableEq

def rdMBroker : Rd MBroker := fun bs =>
  match rdI32 bs with
  | none => none
  | some (n, r1) =>
    match rdString r1 with
    | none => none
    | some (h, r2) =>
      match rdI32 r2 with
      | none => none
      | some (p, r3) => some (⟨n, h, p⟩, r3)

def rdMPart : Rd MPart := fun bs =>
  match rdI16 bs with
  | none => none
  | some (e, r1) =>
    match rdI32 r1 with
    | none => none
    | some (pid, r2) =>
      match rdI32 r2 with
      | none => none
      | some (leader, r3) =>
        match rdI32Array r3 with
        | none => none
        | some (replicas, r4) =>
          match rdI32Array r4 with
          | none => none
          | some (isr, r5) => some (⟨e, pid, leader, replicas, isr⟩, r5)

def rdMTopic : Rd MTopic := fun bs =>
  match rdI16 bs with
  | none => none
  | some (e, r1) =>
    match rdString r1 with
    | none => none
    | some (name, r2) =>
      match rdLoop rdMPart r2 with
      | none => none
      | some (ps, r3) => some (⟨e, name, ps⟩, r3)

def partDict (t : MTopic) : List (Int × PartMeta) :=
  assocOf [] (t.parts.map (fun p => (p.partition, ⟨t.name, p.partition, p.leader, p.replicas, p.isr⟩)))

def metaView (m : MResp) : MetaResult :=
  ⟨assocOf [] (m.brokers.map (fun b => (b.nodeId, b))),
   assocOf [] (m.topics.map (fun t => (t.name, partDict t)))⟩

/-- `_DeserializeMetadataResponse` (trailing bytes are ignored) -/
def decMetadataResp (bs : Bytes) : Option MetaResult :=
  match rdLoop rdMBroker bs with
  | none => none
  | some (brokers, r1) =>
    match rdLoop rdMTopic r1 with
    | none => none
    | some (topics, _) => some (metaView ⟨brokers, topics⟩)

/-- what the caller of a request finally receives -/
inductive Result where
  | produce (rs : List ProdResult)
  | metadata (m : MetaResult)
  | error
  deriving Repr, DecidableEq

/-- the request kinds of `MessageType` (the serializer sink's context) -/
inductive Kind where
  | produce
  | metadata
  deriving Repr, DecidableEq

def Kind.apiKey : Kind → Int
  | .produce => 0
  | .metadata => 3

/-- `KafkaSerializerSink.AsyncProcessResponse` → `DeserializeMessage(stream, msg_type)`:
    skip the correlation id (`buf.read(4)`), decode by request kind; any exception becomes
    an error reply -/
def decodeReply (k : Kind) (stream : Bytes) : Result :=
  let body := stream.drop 4
  match k with
  | .produce =>
    match decProduceResp body with
    | some rs => .produce rs
    | none => .error
  | .metadata =>
    match decMetadataResp body with
    | some m => .metadata m
    | none => .error

/-! ## 3b. the transport: in-flight requests by tag, replies routed by correlation id -/

/-- `_tag_map` : tag ↦ (caller's request id, serializer context) -/
structure InFlight where
  tag : Int
  id : Nat
  kind : Kind
  deriving Repr, DecidableEq

def lookupTag (tag : Int) : List InFlight → Option InFlight
  | [] => none
  | e :: es => if e.tag = tag then some e else lookupTag tag es

/-- `_tag_map.pop(tag, None)` -/
def removeTag (tag : Int) : List InFlight → List InFlight
  | [] => []
  | e :: es => if e.tag = tag then es else e :: removeTag tag es

/-- `_RecvLoop` + `_ProcessReply`: size prefix, that many bytes, the first four of which are
    the correlation id.  Returns the id and the reply stream (rewound: it still starts with
    the correlation id). -/
def recvFrame (fr : Bytes) : Option (Int × Bytes) :=
  match rdI32 fr with
  | none => none
  | some (sz, r) =>
    if sz < 0 then none
    else
      match takeExact sz.toNat r with
      | none => none
      | some (stream, _) =>
        match rdI32 stream with
        | none => none
        | some (corr, _) => some (corr, stream)

/-- `_ProcessTaggedReply`: the request registered under the reply's correlation id, if any,
    receives the decoded reply and leaves the map -/
def routeReply (fl : List InFlight) (fr : Bytes) : List InFlight × List (Nat × Result) :=
  match recvFrame fr with
  | none => (fl, [])
  | some (corr, stream) =>
    match lookupTag corr fl with
    | none => (fl, [])
    | some e => (removeTag corr fl, [(e.id, decodeReply e.kind stream)])

end Scales.Kafka
