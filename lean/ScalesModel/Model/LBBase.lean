/-
  Model/LBBase.lean — scales/loadbalancer/base.py `LoadBalancerSink`: the membership
  bookkeeping (`_servers`, `__AddServer`, `__RemoveServer`), the `__init_done` gate in front
  of the server-set callbacks, `_OpenImpl`, and the request queue in front of `__open_ar`.

  The subclass (heap / aperture balancer) is a record of functions `Sub σ ρ` over its own
  state `σ`; `ρ` is the type of a dispatch result.  Import-free.

  * a join/leave callback that arrives before `__init_done` is set blocks in
    `self.__init_done.wait()`; `Event.set()` wakes the waiters in the order they arrived, each
    runs to completion.  Model: `blocked : List Notif`, appended on arrival, replayed by `load`.
  * `_OpenImpl`: `GetServers()` returns a list, `random.shuffle` permutes it (the permuted list is
    the parameter of `load`), `_servers = {}`, `__AddServer` for each, `__init_done.set()`,
    `_OpenInitialChannels()`; the blocked callbacks run afterwards.
  * `AsyncProcessRequest`: while `__open_ar` is not ready the request is linked to it; the links
    (`_on_open_done`) run in order once the subclass has called `_OnOpenComplete`; a link forwards its
    request to `_AsyncProcessRequestImpl` unless the request carries a deadline event
    (`Deadline.EVENT_KEY`) that has been set meanwhile — such a request is dropped without a word
    (its caller already has its TimeoutError).  Model: `queued : List (Option Bool)`, one entry per
    linked request in arrival order: `none` no deadline event, `some b` an event whose value is `b`.
-/
namespace Scales.LBBase

inductive Notif where
  | join (ep : Nat)
  | leave (ep : Nat)
  deriving Repr, DecidableEq

/-- what the base class needs from a subclass -/
structure Sub (σ ρ : Type) where
  /-- keys of `_servers` (the dict lives in the base class; the subclass state carries it) -/
  servers : σ → List Nat
  setServers : σ → List Nat → σ
  /-- `_OnServersChanged(ep, factory, True)` -/
  onAdd : σ → Nat → σ
  /-- `_OnServersChanged(ep, factory, False)` -/
  onRemove : σ → Nat → σ
  /-- `_OpenInitialChannels` -/
  openInitial : σ → σ
  /-- has the subclass called `_OnOpenComplete` (is `__open_ar` ready)? -/
  openReady : σ → Bool
  /-- `_AsyncProcessRequestImpl` -/
  request : σ → σ × ρ
  /-- run the hub until nothing is runnable (deferred continuations of the subclass) -/
  settle : σ → σ

variable {σ ρ : Type}

/-- `__AddServer` -/
def addServer (S : Sub σ ρ) (s : σ) (ep : Nat) : σ :=
  if ep ∈ S.servers s then s
  else S.onAdd (S.setServers s (S.servers s ++ [ep])) ep

/-- `__RemoveServer` : `_servers.pop(ep, None)` then `_OnServersChanged(ep, _, False)` -/
def removeServer (S : Sub σ ρ) (s : σ) (ep : Nat) : σ :=
  S.onRemove (S.setServers s ((S.servers s).filter (· ≠ ep))) ep

/-- `__OnServerSetJoin` / `__OnServerSetLeave` once `__init_done.wait()` has returned -/
def applyNotif (S : Sub σ ρ) (s : σ) : Notif → σ
  | .join ep => addServer S s ep
  | .leave ep => removeServer S s ep

structure LB (σ : Type) where
  sub : σ
  /-- `Open()` was called: `_OpenImpl` is waiting for `GetServers()` -/
  started : Bool := false
  /-- `__init_done.is_set()` -/
  initDone : Bool := false
  /-- callbacks blocked in `__init_done.wait()`, in arrival order -/
  blocked : List Notif := []
  /-- requests linked to `__open_ar`, oldest first: `none` = no deadline event, `some b` = deadline
      event present, `b` = it has been set -/
  queued : List (Option Bool) := []

/-- `Open()`: the first call spawns `_OpenImpl`; a call on a balancer that is already opening or open
    (`__open_ar` exists) returns the same open result and does nothing else — `started` stays set, nothing
    else is touched, `_OpenImpl` (`LB.load`) is not run again -/
def LB.start (lb : LB σ) : LB σ := { lb with started := true }

/-- a server-set callback arrives -/
def LB.notify (S : Sub σ ρ) (lb : LB σ) (n : Notif) : LB σ :=
  if lb.initDone then { lb with sub := applyNotif S lb.sub n }
  else { lb with blocked := lb.blocked ++ [n] }

/-- the initial list as `_OpenImpl` installs it -/
def loadInitial (S : Sub σ ρ) (s : σ) (l : List Nat) : σ :=
  l.foldl (addServer S) (S.setServers s [])

/-- `_OpenImpl` from the return of `GetServers()` on; `l` is the list after `random.shuffle` -/
def LB.load (S : Sub σ ρ) (lb : LB σ) (l : List Nat) : LB σ :=
  let s1 := loadInitial S lb.sub l
  let s2 := S.openInitial s1
  let s3 := lb.blocked.foldl (applyNotif S) s2
  { lb with sub := s3, initDone := true, blocked := [] }

/-- `AsyncProcessRequest`; `evt` describes the request's deadline event (see `LB.queued`) -/
def LB.request (S : Sub σ ρ) (lb : LB σ) (evt : Option Bool) : LB σ × Option ρ :=
  if S.openReady lb.sub then
    let (s, r) := S.request lb.sub
    ({ lb with sub := s }, some r)
  else ({ lb with queued := lb.queued ++ [evt] }, none)

/-- the timeout sink's timer fired for the `k`-th queued request: `evt.Set(True)`.  `none` if there
    is no such request or it carries no deadline event. -/
def LB.expire (lb : LB σ) (k : Nat) : Option (LB σ) :=
  match lb.queued[k]? with
  | some (some _) => some { lb with queued := lb.queued.set k (some true) }
  | _ => none

/-- is the request still to be forwarded when its link runs? (`not timeout_event or not timeout_event.Get()`) -/
def live (e : Option Bool) : Bool := e != some true

/-- the links of `__open_ar` (`_on_open_done`), oldest first: a live request is forwarded to
    `_AsyncProcessRequestImpl` (`some result`), one whose deadline event is set is dropped (`none`) -/
def flush (S : Sub σ ρ) : List (Option Bool) → σ → σ × List (Option ρ)
  | [], s => (s, [])
  | e :: q, s =>
    if live e then
      let (s1, r) := S.request s
      let (s2, rs) := flush S q s1
      (s2, some r :: rs)
    else
      let (s2, rs) := flush S q s
      (s2, none :: rs)

/-- the hub runs dry after an operation.  If the open result is already set while requests are
    queued (`_OpenInitialChannels` found no member and called `_OnOpenComplete` on the spot), their
    links run before the subclass' deferred continuations; otherwise the continuations run, and if
    that completed the open result the queued requests are served, after which the hub runs dry again -/
def LB.finish (S : Sub σ ρ) (lb : LB σ) : LB σ × List (Option ρ) :=
  if S.openReady lb.sub = true ∧ lb.queued ≠ [] then
    let (s2, rs) := flush S lb.queued lb.sub
    ({ lb with sub := S.settle s2, queued := [] }, rs)
  else
    let s1 := S.settle lb.sub
    if S.openReady s1 = true ∧ lb.queued ≠ [] then
      let (s2, rs) := flush S lb.queued s1
      ({ lb with sub := S.settle s2, queued := [] }, rs)
    else ({ lb with sub := s1 }, [])

end Scales.LBBase
