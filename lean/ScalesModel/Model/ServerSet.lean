/-
  Model/ServerSet.lean — scales/loadbalancer/zookeeper.py : ServerSet, together with the part of
  its environment that decides what it is told: the znode tree under the watched path,
  ZooKeeper's one-shot watches, and kazoo's DataWatch / ChildrenWatch recipes.

  Environment (harness/fakezk.py is the executable counterpart):
    * the watched path ("parent") exists or not; each creation is a new incarnation
      (its creation zxid); children are flat names; the path can only be deleted when it has
      no children (ZooKeeper);
    * `get`/`exists` on the path leave a one-shot data watch, `get_children` a one-shot child
      watch; creating/deleting the path fires the data watch (and, on deletion, after it, every
      child watch); creating/deleting a child fires every child watch;
    * fired events wait in a FIFO (`pending`) and are handed to the recipes one at a time
      (`deliver`) — kazoo runs watch callbacks sequentially from one queue;
    * reads done by the recipes are answered at once; the read of a *member* node by the
      notification worker is in flight: `requested`, then `served` (the tree is looked at), then
      returned (`ret`).

  Code (after the repair of F13): `_data_changed` (compares the path's creation zxid with the
  incarnation it is watching, `_watching`; starts a ChildrenWatch per incarnation, queues an
  empty child list when the path is gone), `_begin_watch`, `_on_set_changed` (ends a watch
  left over from an earlier incarnation; otherwise puts the filtered child list on the
  notification queue and remembers it in `_nodes`),
  `_notification_worker` (takes a child list, diffs it against `_members`, reads the new nodes
  one by one — each read is a yield point and may find the node gone —, then pops the removed
  members calling `on_leave` and calls `on_join` for the members read), callbacks that may raise.

  Listings by the consumer (`get_members()` / `__iter__`, what `ZooKeeperServerSetProvider.
  GetServers()` calls — every client does so once while it opens): `with self._cb_blocker:` list
  the children (answered at once, no watch), then read the members one by one (each read is in
  flight like the worker's: requested, served, returned; a member that vanished in between is
  skipped), return the members read.  Any number of listings may be in progress (`St.lists`;
  `_CallbackBlocker._count` is their number, its event is set iff there is none).  The worker
  calls `_cb_blocker.ensure_safe()` once per update, right after taking it from the queue: while
  a listing is in progress it does not *begin* an update (an update whose reads are already under
  way goes on and is delivered); it goes on when the last listing has returned.  In the model an
  update the worker has taken but is held back on stays at the head of `St.queue`
  (`_notification_queue` is `St.queue` without it).

  Names are natural numbers; `n < lim` is the member filter.  What a znode contains is
  `Cfg.keyOf`: the Member it carries up to `Member.__eq__` (endpoints, status, shard — not the
  znode name); different names may carry equal Members (a server that re-registered).  The
  ServerSet itself never compares Members, so the key only enters the observations (which Member
  each callback was handed) and the specification's view of a consumer that goes by Member
  equality.  Within one update the leaves are delivered before the joins (`finishJob`) — which
  is what keeps such a consumer right when one update removes a znode and adds another with an
  equal Member.  Import-free.
-/
import ScalesModel.Core.Val
namespace Scales.ServerSet

/-! ## the znode tree -/

structure Tree where
  gen : Nat              -- incarnations of the path handed out so far
  parent : Option Nat    -- incarnation of the path, `none` when it does not exist
  kids : List Nat        -- names of the children
  deriving Repr, DecidableEq

inductive TOp where
  | createParent
  | deleteParent
  | createChild (n : Nat)
  | deleteChild (n : Nat)
  deriving Repr, DecidableEq

def Tree.init : Tree := ⟨0, none, []⟩

def Tree.legal (t : Tree) : TOp → Bool
  | .createParent => t.parent.isNone
  | .deleteParent => t.parent.isSome && t.kids.isEmpty
  | .createChild n => t.parent.isSome && !t.kids.contains n
  | .deleteChild n => t.kids.contains n

def Tree.apply (t : Tree) : TOp → Tree
  | .createParent => { t with gen := t.gen + 1, parent := some (t.gen + 1) }
  | .deleteParent => { t with parent := none }
  | .createChild n => { t with kids := t.kids ++ [n] }
  | .deleteChild n => { t with kids := t.kids.erase n }

/-- the members currently present: children that pass the member filter -/
def Tree.present (lim : Nat) (t : Tree) : List Nat :=
  if t.parent.isSome then t.kids.filter (fun n => decide (n < lim)) else []

/-! ## configuration, events, worker -/

structure Cfg where
  lim : Nat                -- member filter: names below `lim` are members
  raiseJoin : List Nat     -- names for which the consumer's on_join raises
  raiseLeave : List Nat    -- names for which the consumer's on_leave raises
  keys : List Nat := []    -- content of the znodes: name `n` carries the Member `keys[n]` (name `n`
                           -- itself beyond the list); two names with the same key carry *equal*
                           -- Members (same endpoints / status / shard — `Member.__eq__` ignores
                           -- the znode name).  The ServerSet never looks at it.
  deriving Repr, DecidableEq

def Cfg.memberOk (cfg : Cfg) (n : Nat) : Bool := decide (n < cfg.lim)

/-- the Member (up to `Member.__eq__`) that znode `n` carries -/
def Cfg.keyOf (cfg : Cfg) (n : Nat) : Nat := cfg.keys.getD n n

/-- a fired watch event waiting to be delivered -/
inductive Ev where
  | data                        -- for kazoo's DataWatch on the path
  | child (tag : Option Nat)    -- for the ChildrenWatch started for incarnation `tag` of the
                                -- path (`none`: that ChildrenWatch has been stopped)
  deriving Repr, DecidableEq

/-- the member read the worker is blocked in -/
inductive Rd where
  | requested (n : Nat)
  | served (n : Nat) (found : Bool)
  deriving Repr, DecidableEq

def Rd.name : Rd → Nat
  | .requested n => n
  | .served n _ => n

/-- the update the notification worker is processing -/
structure Job where
  listing : List Nat     -- the child list taken from the queue
  todo : List Nat        -- new nodes still to be read (iteration order is the runtime's)
  cur : Rd               -- the read in flight
  got : List Nat         -- members read so far, in read order
  deriving Repr, DecidableEq

/-- a listing by the consumer (`get_members()`) that is reading the members it listed -/
structure Lst where
  id : Nat               -- how many listings were started before this one
  todo : List Nat        -- members listed, still to be read
  cur : Rd               -- the read in flight
  got : List Nat         -- members read so far, in read order
  deriving Repr, DecidableEq

/-- a notification: (true, n) = on_join(n), (false, n) = on_leave(n) -/
abbrev Note := Bool × Nat

def raises (cfg : Cfg) (e : Note) : Bool :=
  if e.1 then cfg.raiseJoin.contains e.2 else cfg.raiseLeave.contains e.2

structure St where
  tree : Tree
  started : Bool            -- the ServerSet has been constructed
  dw : Bool                 -- a data watch is registered on the path
  cw : List (Option Nat)    -- child watches registered on the path, in registration order,
                            -- each with the incarnation its ChildrenWatch was started for
  pending : List Ev         -- fired events, oldest first
  seen : Option Nat         -- DataWatch._version (incarnation it saw last)
  everCalled : Bool         -- DataWatch._ever_called
  watched : Option Nat      -- ServerSet._watching: the incarnation being watched
  nodes : List Nat          -- ServerSet._nodes
  members : List Nat        -- keys of ServerSet._members, in dict order
  queue : List (List Nat)   -- updates queued for the worker: `_notification_queue`, preceded by the
                            -- update the worker has taken and is held back on by a listing, if any
  job : Option Job          -- what the worker is in the middle of
  lgen : Nat := 0           -- listings started so far
  lists : List Lst := []    -- listings in progress (`_cb_blocker._count` of them), in start order
  done : List (Nat × List Nat) := []   -- listings that returned: (id, members returned), in return order
  deriving Repr, DecidableEq

def St.init : St :=
  { tree := Tree.init, started := false, dw := false, cw := [], pending := [], seen := none,
    everCalled := false, watched := none, nodes := [], members := [], queue := [], job := none,
    lgen := 0, lists := [], done := [] }

/-! ## environment steps -/

def fireData (s : St) : St :=
  if s.dw then { s with dw := false, pending := s.pending ++ [Ev.data] } else s

def fireChild (s : St) : St :=
  { s with cw := [], pending := s.pending ++ s.cw.map Ev.child }

/-- a (legal) change of the tree and the watches it fires -/
def treeStep (s : St) (o : TOp) : St :=
  let s := { s with tree := s.tree.apply o }
  match o with
  | .createParent => fireData s
  | .deleteParent => fireChild (fireData s)
  | .createChild _ => fireChild s
  | .deleteChild _ => fireChild s

/-! ## ServerSet and the recipes -/

/-- `_on_set_changed(children)` -/
def onSet (cfg : Cfg) (s : St) (children : List Nat) : St :=
  let l := children.filter cfg.memberOk
  { s with nodes := l, queue := s.queue ++ [l] }

/-- `ChildrenWatch._get_children` of the watch started for incarnation `g`, while the path
    exists: list, re-register, call back; `_on_set_changed` returns False (which stops the
    ChildrenWatch; the watch it just left stays behind) when `g` is no longer being watched -/
def listChildren (cfg : Cfg) (s : St) (g : Nat) : St :=
  if s.watched = some g then onSet cfg { s with cw := s.cw ++ [some g] } s.tree.kids
  else { s with cw := s.cw ++ [none] }

/-- `DataWatch._get_data` followed by `ServerSet._data_changed` -/
def dataDeliver (cfg : Cfg) (s : St) : St :=
  let cur := s.tree.parent
  let call := (s.seen != cur) || !s.everCalled
  let s := { s with dw := true, seen := cur }
  if call then
    let s := { s with everCalled := true }
    if cur = s.watched then s
    else
      match cur with
      | none => onSet cfg { s with watched := none } []
      | some g => listChildren cfg { s with watched := some g } g
  else s

/-- the watcher of a ChildrenWatch runs: a stopped watch does nothing, a vanished path stops
    the watch for good -/
def childDeliver (cfg : Cfg) (s : St) : Option Nat → St
  | none => s
  | some g => if s.tree.parent.isSome then listChildren cfg s g else s

/-- end of one update in `_notification_worker`: `_members.update(new)`, then pop every
    removed member calling on_leave, then on_join for every member read.  Dict order after
    that: the surviving members in their old order, then the new ones in read order. -/
def finishJob (members listing got : List Nat) : List Nat × List Note :=
  (members.filter (fun n => listing.contains n) ++ got,
   (members.filter (fun n => !listing.contains n)).map (fun n => (false, n)) ++
     got.map (fun n => (true, n)))

/-- what the worker is left with when it blocks again -/
structure WSt where
  members : List Nat
  queue : List (List Nat)
  job : Option Job
  notes : List Note
  deriving Repr, DecidableEq

/-- the worker loop from `queue.get()` on: take updates until one needs a read (then `nxt`
    names the node whose read was requested: any of the new nodes) or the queue is empty
    (then `nxt` must be `none`).  `none` = the label was not a legal choice. -/
def pump (members : List Nat) : List (List Nat) → Option Nat → Option WSt
  | [], nxt => if nxt.isNone then some ⟨members, [], none, []⟩ else none
  | q :: qs, nxt =>
    let todo := q.filter (fun n => !members.contains n)
    if todo.isEmpty then
      let r := finishJob members q []
      (pump r.1 qs nxt).map (fun w => { w with notes := r.2 ++ w.notes })
    else
      match nxt with
      | some n =>
        if todo.contains n then some ⟨members, qs, some ⟨q, todo.erase n, .requested n, []⟩, []⟩
        else none
      | none => none

/-- the worker loop with `ensure_safe()`: while a listing is in progress (`free = false`) the
    worker does not begin an update — whatever is queued stays queued -/
def pumpB (free : Bool) (members : List Nat) (queue : List (List Nat)) (nxt : Option Nat) :
    Option WSt :=
  if free then pump members queue nxt
  else if nxt.isNone then some ⟨members, queue, none, []⟩ else none

/-- after an event was delivered, at construction, or when a listing returned: a worker that is
    not in the middle of an update runs (if no listing holds it back) -/
def wake (s : St) (nxt : Option Nat) : Option (St × List Note) :=
  match s.job with
  | some _ => if nxt.isNone then some (s, []) else none
  | none =>
    (pumpB s.lists.isEmpty s.members s.queue nxt).map
      (fun w => ({ s with members := w.members, queue := w.queue, job := w.job }, w.notes))

/-- the read in flight is answered by the server -/
def serveStep (s : St) : Option St :=
  match s.job with
  | some j =>
    match j.cur with
    | .requested n => some { s with job := some { j with cur := .served n (s.tree.kids.contains n) } }
    | .served _ _ => none
  | none => none

/-- the answer reaches the worker, which goes on to its next blocking point -/
def retStep (s : St) (nxt : Option Nat) : Option (St × List Note) :=
  match s.job with
  | some j =>
    match j.cur with
    | .served n found =>
      let got := if found then j.got ++ [n] else j.got
      if j.todo.isEmpty then
        let r := finishJob s.members j.listing got
        (pumpB s.lists.isEmpty r.1 s.queue nxt).map
          (fun w => ({ s with members := w.members, queue := w.queue, job := w.job }, r.2 ++ w.notes))
      else
        match nxt with
        | some m =>
          if j.todo.contains m then
            some ({ s with job := some { j with todo := j.todo.erase m, cur := .requested m, got := got } }, [])
          else none
        | none => none
    | .requested _ => none
  | none => none

/-! ## listings by the consumer -/

/-- replace the listing with id `i` (the first one, as `find?` finds it; ids are unique) -/
def Lst.upd (i : Nat) (f : Lst → Lst) : List Lst → List Lst
  | [] => []
  | x :: xs => if x.id = i then f x :: xs else x :: Lst.upd i f xs

/-- drop the listing with id `i` -/
def Lst.drop (i : Nat) : List Lst → List Lst
  | [] => []
  | x :: xs => if x.id = i then xs else x :: Lst.drop i xs

/-- `get_members()` is called: the blocker is entered, the children are listed; with no member
    to read the listing returns at once (`nxt` must be `none`), otherwise `nxt` names the member
    whose read is requested first (any of those listed: the order is ZooKeeper's) -/
def listStep (cfg : Cfg) (s : St) (nxt : Option Nat) : Option St :=
  let l := s.tree.present cfg.lim
  match nxt with
  | none =>
    if l.isEmpty then some { s with lgen := s.lgen + 1, done := s.done ++ [(s.lgen, [])] } else none
  | some n =>
    if l.contains n then
      some { s with lgen := s.lgen + 1, lists := s.lists ++ [⟨s.lgen, l.erase n, .requested n, []⟩] }
    else none

/-- the read in flight of listing `i` is answered by the server -/
def lserveStep (s : St) (i : Nat) : Option St :=
  match s.lists.find? (fun x => x.id = i) with
  | some l =>
    match l.cur with
    | .requested n =>
      let f : Lst → Lst := fun x => { x with cur := .served n (s.tree.kids.contains n) }
      some { s with lists := Lst.upd i f s.lists }
    | .served _ _ => none
  | none => none

/-- the answer reaches listing `i`: it requests its next read (`nxt`: any member still to be
    read), or — nothing left to read — returns what it read and leaves the blocker; if it was the
    last listing in progress the worker goes on (`nxt` then names the worker's first read) -/
def lretStep (s : St) (i : Nat) (nxt : Option Nat) : Option (St × List Note) :=
  match s.lists.find? (fun x => x.id = i) with
  | some l =>
    match l.cur with
    | .served n found =>
      let got := if found then l.got ++ [n] else l.got
      if l.todo.isEmpty then
        wake { s with lists := Lst.drop i s.lists, done := s.done ++ [(i, got)] } nxt
      else
        match nxt with
        | some m =>
          if l.todo.contains m then
            let f : Lst → Lst := fun x => { x with todo := l.todo.erase m, cur := .requested m, got := got }
            some ({ s with lists := Lst.upd i f s.lists }, [])
          else none
        | none => none
    | .requested _ => none
  | none => none

/-! ## operations -/

inductive Op where
  | tree (o : TOp)
  | start (nxt : Option Nat)      -- construct the ServerSet (with callbacks)
  | deliver (nxt : Option Nat)    -- the oldest fired event reaches its watcher
  | serve
  | ret (nxt : Option Nat)
  | list (nxt : Option Nat)           -- the consumer calls get_members()
  | lserve (i : Nat)                  -- the read in flight of listing `i` is served
  | lret (i : Nat) (nxt : Option Nat) -- … and returns
  deriving Repr, DecidableEq

/-- `none`: the operation is not enabled in `s` (or its label is not a legal choice) -/
def next (cfg : Cfg) (s : St) : Op → Option (St × List Note)
  | .tree o => if s.tree.legal o then some (treeStep s o, []) else none
  | .start nxt =>
    if s.started then none else wake (dataDeliver cfg { s with started := true }) nxt
  | .deliver nxt =>
    if s.started then
      match s.pending with
      | [] => none
      | Ev.data :: rest => wake (dataDeliver cfg { s with pending := rest }) nxt
      | Ev.child tag :: rest => wake (childDeliver cfg { s with pending := rest } tag) nxt
    else none
  | .serve => (serveStep s).map (fun s' => (s', []))
  | .ret nxt => retStep s nxt
  | .list nxt => if s.started then (listStep cfg s nxt).map (fun s' => (s', [])) else none
  | .lserve i => if s.started then (lserveStep s i).map (fun s' => (s', [])) else none
  | .lret i nxt => if s.started then lretStep s i nxt else none

/-- nothing is on its way, as the environment sees it: no fired event undelivered, no member
    read in flight (the worker's or a listing's), no listing in progress — no scheduler step is
    enabled.  (In the model the queue is then empty: `Inv0.wok.idle`; an implementation whose
    worker is stuck is judged in such a state all the same.) -/
def St.quiet (s : St) : Bool :=
  s.started && s.pending.isEmpty && s.job.isNone && s.lists.isEmpty

/-- run an operation list, collecting the notifications; disabled operations are skipped -/
def exec (cfg : Cfg) : St → List Op → St × List Note
  | s, [] => (s, [])
  | s, op :: ops =>
    match next cfg s op with
    | some (s', ns) => let r := exec cfg s' ops; (r.1, ns ++ r.2)
    | none => exec cfg s ops

/-! ## the consumer's view -/

/-- apply one notification to the consumer's view -/
def applyNote (view : List Nat) (e : Note) : List Nat :=
  if e.1 then view ++ [e.2] else view.filter (fun x => x != e.2)

def viewOf (view : List Nat) (ns : List Note) : List Nat := ns.foldl applyNote view

/-- no join of a name already held, no leave of a name not held -/
def altOk : List Nat → List Note → Bool
  | _, [] => true
  | view, e :: es =>
    (if e.1 then !view.contains e.2 else view.contains e.2) && altOk (applyNote view e) es

/-- a notification as a consumer that identifies members by `Member.__eq__` sees it -/
def keyNote (k : Nat → Nat) (e : Note) : Note := (e.1, k e.2)

/-- same elements -/
def sameSet (a b : List Nat) : Bool := a.all (fun x => b.contains x) && b.all (fun x => a.contains x)

end Scales.ServerSet
