/-
  Model/TimerQueue.lean — scales/timer_queue.py : TimerQueue (Schedule, cancel closure, _TimerWorker).

  The queue is a labelled transition system.  The *environment* labels are `schedule d`,
  `cancel k`, `tick δ` (the queue's clock advances); the *scheduler* labels say which blocking
  primitive of the worker greenlet returns and why: `start` (the spawned greenlet runs for the
  first time), `resumeSleep` (`gevent.sleep(0)` returns), `resumeSet` (`Event.wait` returns
  because the event is set), `resumeTimeout` (a timed `Event.wait` returns because its time-out
  elapsed — enabled as soon as the clock reached the wake-up instant, *even if the event was set
  meanwhile*: gevent delivers whichever of timer / notifier runs first).  `idle` is the claim
  that no scheduler label is enabled (the loop is quiescent).  Between two blocking primitives
  the worker is atomic (gevent is cooperative), so a scheduler label runs the worker's code up to
  its next blocking call.

  Time is `Nat` (microseconds in the harness).  The heap is a list kept sorted by
  `(deadline, seq)` (heapq is trusted).  `recs`, `cancels`, `ran`, `out` are history (ghost)
  fields: they record what was scheduled / cancelled / run and influence nothing.
  Import-free.
-/
import ScalesModel.Core.Val
namespace Scales.TimerQ

/-- a heap entry `[deadline, seq, cancelled, action]` (the action is identified by `seq`) -/
structure Item where
  deadline : Nat
  seq : Nat
  cancelled : Bool
  deriving Repr, DecidableEq

/-- Python's list comparison on `[deadline, seq, …]` (seq is unique, later fields never decide) -/
def Item.lt (a b : Item) : Prop :=
  a.deadline < b.deadline ∨ (a.deadline = b.deadline ∧ a.seq < b.seq)

instance (a b : Item) : Decidable (a.lt b) := by unfold Item.lt; exact inferInstance

/-- where the worker greenlet is blocked -/
inductive Pc where
  | top                      -- spawned, has not run yet (about to evaluate the loop top)
  | sleeping0                -- inside `gevent.sleep(0)` after `event.clear()`
  | waiting (dl pk : Nat)    -- inside `event.wait(at - now)`; peeked `(at, seq) = (dl, pk)`
  | blockedEmpty             -- inside `event.wait()` (queue was empty)
  | crashed                  -- `self._queue[0]` / `heappop` on an empty queue: the greenlet died
  deriving Repr, DecidableEq

/-- history: one `Schedule(d, action)` call; `rd` is the rounded deadline -/
structure Rec where
  seq : Nat
  d : Nat
  rd : Nat
  deriving Repr, DecidableEq

structure St where
  queue : List Item
  ev : Bool                    -- `_event` flag
  seq : Nat                    -- `_seq`
  res : Nat                    -- `_resolution` (0: none)
  pc : Pc
  now : Nat                    -- the time source
  recs : List Rec              -- history: Schedule calls, newest first
  cancels : List (Nat × Nat)   -- history: cancel calls `(seq, time)`, newest first
  ran : List (Nat × Nat)       -- history: `gevent.spawn(action)` as `(seq, time)`, newest first
  out : List Nat               -- seqs spawned during the current transition, newest first
  deriving Repr

def insertSorted (x : Item) : List Item → List Item
  | [] => [x]
  | y :: ys => if x.lt y then x :: y :: ys else y :: insertSorted x ys

/-- `int(math.ceil(float(deadline) / resolution)) * resolution` -/
def ceilTo (r d : Nat) : Nat := if r = 0 then d else ((d + r - 1) / r) * r

/-- `Schedule(deadline, action)` -/
def schedule (s : St) (d : Nat) : St :=
  let rd := ceilTo s.res d
  let q := insertSorted ⟨rd, s.seq + 1, false⟩ s.queue
  let ev := match q with
    | h :: _ => if h.deadline = rd then true else s.ev     -- `if self._queue[0][0] == deadline: set()`
    | [] => s.ev
  { s with queue := q, seq := s.seq + 1, ev := ev, recs := ⟨s.seq + 1, d, rd⟩ :: s.recs }

/-- the closure returned by `Schedule` for entry `k` -/
def cancel (s : St) (k : Nat) : St :=
  { s with queue := s.queue.map (fun i => if i.seq = k then { i with cancelled := true } else i),
           cancels := (k, s.now) :: s.cancels }

/-- `gevent.spawn(action)` -/
def runItem (s : St) (h : Item) : St :=
  { s with ran := (h.seq, s.now) :: s.ran, out := h.seq :: s.out }

/-- the worker loop from its top while the event is clear, on queue `q`, until it blocks:
    cancelled heads are popped, due heads are popped and run, otherwise wait for the head. -/
def drain (s : St) : List Item → St
  | [] => { s with queue := [], pc := .blockedEmpty }
  | h :: rest =>
    if h.cancelled then drain s rest
    else if s.now < h.deadline then { s with queue := h :: rest, pc := .waiting h.deadline h.seq }
    else drain (runItem s h) rest

/-- loop top.  With the event set: (`wait()` returns at once if the queue is empty), `clear()`,
    `sleep(0)`. -/
def top (s : St) : St :=
  if s.ev then { s with ev := false, pc := .sleeping0 } else drain s s.queue

/-- `sleep(0)` returned: peek, … -/
def peek (s : St) : St :=
  match s.queue with
  | [] => { s with pc := .crashed }
  | h :: rest =>
    if h.cancelled then top { s with queue := rest }
    else if s.now < h.deadline then
      if s.ev then top s                                  -- `wait(to_wait)` returns True at once
      else { s with pc := .waiting h.deadline h.seq }
    else top (runItem { s with queue := rest } h)

/-- the timed wait reported a time-out: `heappop` whatever is the head *now* -/
def timeoutPop (s : St) : St :=
  match s.queue with
  | [] => { s with pc := .crashed }
  | h :: rest =>
    if h.cancelled then top { s with queue := rest }
    else top (runItem { s with queue := rest } h)

inductive Label where
  | schedule (d : Nat)
  | cancel (k : Nat)
  | tick (dt : Nat)
  | start
  | resumeSet
  | resumeTimeout
  | resumeSleep
  | idle
  deriving Repr, DecidableEq

/-- some scheduler label is enabled -/
def resumable (s : St) : Bool :=
  match s.pc with
  | .top => true
  | .sleeping0 => true
  | .blockedEmpty => s.ev
  | .waiting dl _ => s.ev || decide (dl ≤ s.now)
  | .crashed => false

/-- one transition; `none` if the label is not enabled -/
def step (s0 : St) (l : Label) : Option St :=
  let s := { s0 with out := [] }
  match l with
  | .schedule d => some (schedule s d)
  | .cancel k => if 1 ≤ k ∧ k ≤ s.seq then some (cancel s k) else none
  | .tick dt => some { s with now := s.now + dt }
  | .start =>
    match s.pc with
    | .top => some (top s)
    | _ => none
  | .resumeSleep =>
    match s.pc with
    | .sleeping0 => some (peek s)
    | _ => none
  | .resumeSet =>
    match s.pc with
    | .blockedEmpty => if s.ev then some (top s) else none
    | .waiting _ _ => if s.ev then some (top s) else none
    | _ => none
  | .resumeTimeout =>
    match s.pc with
    | .waiting dl _ => if dl ≤ s.now then some (timeoutPop s) else none
    | _ => none
  | .idle => if resumable s then none else some s

/-- `TimerQueue(time_source, resolution)`: empty heap, event clear, worker spawned -/
def init (res now0 : Nat) : St :=
  { queue := [], ev := false, seq := 0, res := res, pc := .top, now := now0,
    recs := [], cancels := [], ran := [], out := [] }

def runLabels (s : St) : List Label → Option St
  | [] => some s
  | l :: ls =>
    match step s l with
    | some s' => runLabels s' ls
    | none => none

end Scales.TimerQ
