/-
  Model/TagPool.lean — scales/mux/sink.py : class TagPool.

      _set   released tags (a Python set)          ↦ `free : List Nat`
      _next  high-water mark, starts at 1           ↦ `next`
      _max_tag                                      ↦ parameter `max`

  `get()` pops an *arbitrary* element of the set when it is not empty (`set.pop()`, order
  defined by the runtime): the popped element is a parameter of `get`, observed from the real
  run; the model checks that it was a member.  Import-free.
-/
import ScalesModel.Core.Val
namespace Scales.TagPool

structure Pool where
  free : List Nat
  next : Nat
  deriving Repr, DecidableEq, Inhabited

/-- `TagPool.__init__` -/
def Pool.init : Pool := ⟨[], 1⟩

/-- duplicate-freeness as a Boolean (structural: evaluates inside the kernel) -/
def nodupB : List Nat → Bool
  | [] => true
  | x :: xs => !xs.contains x && nodupB xs

/-- **The pool invariant** — what every state of a `TagPool(max)` reachable through `get` / `release`
    of leased tags satisfies, on a connection of any age: the released tags are distinct, each of
    them was handed out before (`2 ≤ t ≤ next`), the high-water mark started at 1 and stays below
    `max` (`get` refuses to move it to `max − 1 + 1`).  `Pool.init` is the youngest such state.
    It is the hypothesis on the *starting* pool of a script (Adapter: `cfgWF`) and the pool part of
    the invariant of the proofs (Proofs/TagPoolLemmas: `PoolInv`, `Pool.wf_iff`). -/
def Pool.wf (max : Nat) (p : Pool) : Bool :=
  nodupB p.free && p.free.all (fun t => decide (2 ≤ t) && decide (t ≤ p.next)) &&
    decide (1 ≤ p.next) && decide (p.next < max)

inductive GetRes where
  | tag (t : Nat) (p : Pool)     -- a tag was handed out; the pool afterwards
  | exhausted                    -- `raise Exception("No tags left in pool.")`, pool unchanged
  | badChoice                    -- `popped` is not an element of the free set (not a behaviour of the code)
  deriving Repr, DecidableEq

/-- `TagPool.get`:

        if not self._set:
          if self._next == self._max_tag - 1: raise …
          self._next += 1 ; return self._next
        else:
          return self._set.pop()                                                        -/
def Pool.get (max : Nat) (p : Pool) (popped : Nat) : GetRes :=
  match p.free with
  | [] =>
    if p.next + 1 = max then .exhausted
    else .tag (p.next + 1) { p with next := p.next + 1 }
  | _ :: _ =>
    if p.free.contains popped then .tag popped { p with free := p.free.erase popped }
    else .badChoice

/-- `TagPool.release`: `self._set.add(tag)` (a warning is logged if it was there already) -/
def Pool.release (p : Pool) (t : Nat) : Pool :=
  if p.free.contains t then p else { p with free := t :: p.free }

end Scales.TagPool
