/-
  Model/Aperture.lean — scales/loadbalancer/aperture.py `ApertureBalancerSink` on top of the
  heap balancer model (Model/Heap.lean): `_idle_endpoints`, `_pending_endpoints`, `_AddSink`
  (healthy-count rule), `_RemoveSink`, `_TryExpandAperture`, `_ContractAperture`, `_OnNodeDown`,
  `_Jitter` (two steps around `ar.wait()`), `_AdjustAperture`, and the open results of the nodes
  (`_OpenNode`: `Open().ContinueWith(_OnOpenNodeComplete).Unwrap()`), which decide when an endpoint
  leaves `_pending_endpoints`, when `_Jitter` resumes and when the balancer's own open result is set.

  With `Cfg.aperture = false` the same functions describe the plain `HeapBalancerSink`
  (`_OnNodeDown`, `_OnGet`, `_OnPut` do nothing, `_AddSink`/`_RemoveSink` are the heap's).

  Environment inputs, recorded from the run and put on two tapes in the state before every
  operation: the endpoints returned by `random.choice(list(self._idle_endpoints))` and, per
  `_AdjustAperture` call, the decay weight and the value returned by the real `Ema.Update` and the
  wall-clock reading of `MonoClock.Sample()` (seconds since the clock was created) as exact rationals.
  The clock itself is modelled (`AS.clock` is `MonoClock._last`): the wall clock may step backwards, the
  sampled time does not.  A choice that is not an idle endpoint, a missing tape entry, an operation that the
  implementation cannot be asked to perform in the current state: the model sets `bad` (and carries
  on with a legal default), the hypothesis `wf` of the theorems excludes it.  Import-free.
-/
import ScalesModel.Model.Heap
import ScalesModel.Model.Ema
namespace Scales.Aperture
open Scales.Heap

structure Cfg where
  aperture : Bool
  minSize : Nat
  maxSize : Nat
  minLoad : Rat
  maxLoad : Rat
  /-- channels whose `Open()` result is completed later by the environment (op `opened`);
      otherwise `Open()` returns a completed result -/
  slowOpen : Bool
  /-- the server set at the time `Open()` is called (used by `wf` and the specs only) -/
  initial : List Nat
  deriving Repr

/-- per node: its channel's `Open()` and the result `_OpenNode` hands out -/
structure ONode where
  /-- 0: `Open()` not called (`_AddSink` returned `Complete()`); 1: pending; 2: succeeded; 3: failed -/
  ost : Nat
  /-- after a failed open: the node whose result `_OnNodeDown` returned (`none`: `Complete()`) -/
  dep : Option Nat
  /-- `_TryExpandAperture` attached `pending.discard(endpoint)` to the result -/
  disc : Bool
  /-- the result has been set and its links have run -/
  done : Bool
  deriving Repr, DecidableEq

instance : Inhabited ONode := ⟨⟨0, none, false, true⟩⟩

/-- inputs of one `_AdjustAperture` call -/
structure AdjIn where
  /-- the decay weight `math.exp(-dt / window)` the implementation computed (unused for the first sample) -/
  w : Rat
  /-- the value the real `Ema.Update` returned -/
  avg : Rat
  /-- what `time.time()` returned inside `MonoClock.Sample()`, relative to the reading `MonoClock.__init__` took -/
  now : Rat
  deriving Repr

/-- what one `_AdjustAperture` call saw and did -/
structure AdjRec where
  size : Nat
  idle : Nat
  pend : Nat
  healthy : Nat
  /-- the smoothed number of outstanding requests the decision was taken on -/
  avg : Rat
  size' : Nat
  idle' : Nat
  /-- the value of the real `Ema.Update` agrees with one rational EMA step (Model/Ema.lean) from the
      value it returned the time before -/
  emaOk : Bool
  /-- the sampled time minus the time of the previous sample (`delta` of `Ema.Update`; 0 for the first sample) -/
  dt : Rat
  /-- the decay weight used (0 for the first sample, which is taken as it is) -/
  w : Rat
  /-- the smoothed value before the call (`none`: no sample yet) -/
  prev : Option Rat
  /-- the sample: `_total` after `amount` was added -/
  sample : Int
  deriving Repr, DecidableEq

structure AS where
  hs : HS
  idle : List Nat := []            -- `_idle_endpoints`
  pending : List Nat := []         -- `_pending_endpoints`
  total : Int := 0                 -- `_total`
  ema : Option Rat := none         -- `_ema.value` (`none` before the first sample: `_ema._time == -1`)
  clock : Rat := 0                 -- `_time._last` (= `_ema._time` once a sample was taken), relative to its first reading
  isOpen : Bool := false           -- `HeapBalancerSink._open`
  on : List ONode := []            -- node id ↦ open bookkeeping (same length as `hs.nodes`)
  initialNodes : List Nat := []    -- the nodes `_OpenInitialChannels` opened
  openAr : Bool := false           -- `_OnOpenComplete` was called
  jitterWait : Option Nat := none  -- `_Jitter` is blocked in `ar.wait()` on this node's result
  choices : List Nat := []         -- input tape: `random.choice` results
  adjIn : List AdjIn := []         -- input tape: per `_AdjustAperture` call
  bad : Bool := false
  adjLog : List AdjRec := []       -- the `_AdjustAperture` calls of the current operation
  gActive : Nat := 0               -- gauge scales.loadbalancer.Aperture.active
  gIdle : Nat := 0                 -- gauge scales.loadbalancer.Aperture.idle

def AS.init : AS := { hs := HS.init }

def AS.onOf (a : AS) (nid : Nat) : ONode := a.on.getD nid default

/-- endpoints of the nodes in the heap, in heap order -/
def heapEps (s : HS) : List Nat := s.heap.map (fun id => (s.node id).ep)

/-- `len([c for c in self._heap[1:] if c.channel.is_open])` (`is_open`: state ≤ Busy) -/
def AS.numHealthy (a : AS) : Nat := (a.hs.heap.filter (fun id => decide ((a.hs.node id).chan ≤ 3))).length

/-- `_UpdateSizeVarz` -/
def AS.updVarz (a : AS) : AS := { a with gActive := a.hs.size, gIdle := a.idle.length }

/-- set `add` -/
def setAdd (l : List Nat) (x : Nat) : List Nat := if x ∈ l then l else l ++ [x]

/-- `HeapBalancerSink._AddSink`: the new node has id `hs.nodes.length`; it is opened iff `_open` -/
def AS.heapAdd (cfg : Cfg) (a : AS) (ep : Nat) : AS :=
  { a with hs := a.hs.addSink ep,
           on := a.on ++ [⟨if a.isOpen then (if cfg.slowOpen then 1 else 2) else 0, none, false, false⟩] }

/-- `_AddSink` as `_OnServersChanged(…, True)` reaches it -/
def AS.addSink (cfg : Cfg) (a : AS) (ep : Nat) : AS :=
  if cfg.aperture then
    (if a.numHealthy < cfg.minSize then a.heapAdd cfg ep else { a with idle := setAdd a.idle ep }).updVarz
  else a.heapAdd cfg ep

/-- `random.choice(endpoints)`: next tape entry; an entry that is not idle (or a missing one) is
    flagged and replaced by the first idle endpoint -/
def AS.choose (a : AS) : AS × Option Nat :=
  match a.idle with
  | [] => (a, none)
  | i0 :: _ =>
    match a.choices with
    | [] => ({ a with bad := true }, some i0)
    | c :: cs =>
      if c ∈ a.idle then ({ a with choices := cs }, some c)
      else ({ a with choices := cs, bad := true }, some i0)

/-- `_TryExpandAperture(leave_pending)`; returns the node whose open result is handed back -/
def AS.tryExpand (cfg : Cfg) (a : AS) (leavePending : Bool) : AS × Option Nat :=
  match a.choose with
  | (a0, none) => (a0.updVarz, none)
  | (a0, some c) =>
    let nid := a0.hs.nodes.length
    let a1 : AS := { a0 with idle := a0.idle.filter (· ≠ c), pending := setAdd a0.pending c }
    let a2 := (a1.heapAdd cfg c).updVarz
    let a3 : AS := if leavePending then a2 else { a2 with on := a2.on.set nid { a2.onOf nid with disc := true } }
    (a3, some nid)

/-- `_RemoveSink` as `_OnServersChanged(…, False)` reaches it -/
def AS.removeSink (cfg : Cfg) (a : AS) (ep : Nat) : AS :=
  if cfg.aperture then
    let r := a.hs.removeSink ep
    let a1 : AS := { a with hs := r.1 }
    let a2 := if r.2 then (a1.tryExpand cfg false).1 else a1
    ({ a2 with idle := a2.idle.filter (· ≠ ep) }).updVarz
  else { a with hs := (a.hs.removeSink ep).1 }

/-- the endpoint `_ContractAperture` picks: the first closed non-pending node in heap order, else
    the first non-pending node -/
def AS.contractPick (a : AS) : Option Nat :=
  match a.hs.heap.find? (fun id => decide ((a.hs.node id).chan = 4) && !(a.pending.contains (a.hs.node id).ep)) with
  | some id => some (a.hs.node id).ep
  | none =>
    match a.hs.heap.find? (fun id => !(a.pending.contains (a.hs.node id).ep)) with
    | some id => some (a.hs.node id).ep
    | none => none

/-- `_ContractAperture(force)` -/
def AS.contract (cfg : Cfg) (a : AS) (force : Bool) : AS :=
  if a.pending ≠ [] ∧ force = false then a
  else if cfg.minSize < a.numHealthy then
    match a.contractPick with
    | none => a
    | some ep => ({ a with idle := setAdd a.idle ep, hs := (a.hs.removeSink ep).1 }).updVarz
  else a

/-- `_OnNodeDown(node)`; returns the node whose open result is handed back (`none`: `Complete()`) -/
def AS.onNodeDown (cfg : Cfg) (a : AS) (nid : Nat) : AS × Option Nat :=
  if cfg.aperture = true ∧ (a.hs.node nid).chan ≠ 1 then a.tryExpand cfg false else (a, none)

/-- tolerance of the EMA comparison -/
def emaTol : Rat := 1 / 1000000000

def ratAbs (x : Rat) : Rat := if x < 0 then -x else x

/-- the three-way decision of `_AdjustAperture` -/
inductive Decision where
  | expand
  | contract
  | stay
  deriving Repr, DecidableEq

/-- `aperture_load` -/
def apLoad (cfg : Cfg) (size : Nat) (avg : Rat) : Rat := if size = 0 then cfg.maxLoad else avg / (size : Rat)

/-- the condition under which `_AdjustAperture` grows the aperture: the smoothed load `avg` per active
    member is at or above `max_load`, an idle endpoint exists, the size is below `max_size` -/
def AS.growCond (cfg : Cfg) (a : AS) (avg : Rat) : Prop :=
  cfg.maxLoad ≤ apLoad cfg a.hs.size avg ∧ a.idle ≠ [] ∧ a.hs.size < cfg.maxSize

/-- the condition under which it shrinks the aperture (when it does not grow it): the load is at or
    below `min_load`, the size above `min_size`, no open is pending, more than `min_size` active
    members are healthy -/
def AS.shrinkCond (cfg : Cfg) (a : AS) (avg : Rat) : Prop :=
  apLoad cfg a.hs.size avg ≤ cfg.minLoad ∧ cfg.minSize < a.hs.size ∧ a.pending = [] ∧ cfg.minSize < a.numHealthy

/-- the branch `_AdjustAperture` takes -/
def AS.decision (cfg : Cfg) (a : AS) (avg : Rat) : Decision :=
  let size := a.hs.size
  let load := apLoad cfg size avg
  if cfg.maxLoad ≤ load ∧ a.idle ≠ [] ∧ size < cfg.maxSize then .expand
  else if load ≤ cfg.minLoad ∧ cfg.minSize < size then .contract
  else .stay

/-- `_AdjustAperture(amount)` with the inputs `i` of this call (`missing`: the tape was empty) -/
def AS.adjustWith (cfg : Cfg) (a : AS) (amount : Int) (i : AdjIn) (rest : List AdjIn) (missing : Bool) : AS :=
  let total' := a.total + amount
  let ts := MonoClock.sample a.clock i.now
  let dt : Rat := if a.ema.isSome then ts - a.clock else 0
  let w : Rat := if a.ema.isSome then i.w else 0
  let ema' := Ema.update a.ema w (total' : Rat)
  let emaOk := decide (ratAbs (ema' - i.avg) ≤ emaTol * (1 + ratAbs ema'))
  let a1 : AS := { a with total := total', ema := some i.avg, clock := ts, adjIn := rest, bad := a.bad || missing }
  let a2 :=
    match a1.decision cfg i.avg with
    | .expand => (a1.tryExpand cfg false).1
    | .contract => a1.contract cfg false
    | .stay => a1
  { a2 with adjLog := a2.adjLog ++
      [⟨a.hs.size, a.idle.length, a.pending.length, a.numHealthy, i.avg, a2.hs.size, a2.idle.length, emaOk,
        dt, w, a.ema, total'⟩] }

/-- `_AdjustAperture(amount)` -/
def AS.adjust (cfg : Cfg) (a : AS) (amount : Int) : AS :=
  match a.adjIn with
  | [] => a.adjustWith cfg amount ⟨0, 0, 0⟩ [] true
  | i :: rest => a.adjustWith cfg amount i rest false

/-- `__Get` with the aperture's `_OnNodeDown` in the loop (cf. `HS.getLoop`) -/
def AS.getLoop (cfg : Cfg) (a : AS) : Nat → AS × Nat
  | 0 => (a, a.hs.idAt 1)
  | fuel + 1 =>
    let r := a.hs.scan a.hs.down
    let s1 : HS := { r.1 with down := r.2 }
    let nid := s1.idAt 1
    let nd := s1.node nid
    if nd.chan = chOpen ∨ nd.load ≥ 0 then ({ a with hs := s1 }, nid)
    else
      let s2 := s1.setNode nid { nd with load := nd.load + Penalty }
      let s3 : HS := { s2 with down := nid :: s2.down }
      let s4 := s3.fixDown 1 s3.size
      (AS.onNodeDown cfg { a with hs := s4 } nid).1.getLoop cfg fuel

/-- `_AsyncProcessRequestImpl` -/
def AS.get (cfg : Cfg) (a : AS) : AS × GetRes :=
  if a.hs.size = 0 then (a, .noMembers)
  else
    let g := a.getLoop cfg (a.hs.nodes.length + a.idle.length + 1)
    let a1 := g.1
    let nid := g.2
    let nd := a1.hs.node nid
    let s2 := a1.hs.setNode nid { nd with load := nd.load + 1 }
    let s3 := s2.fixDown (s2.node nid).index.toNat s2.size
    let r := s3.reqs.length
    let a2 : AS := { a1 with hs := { s3 with reqs := s3.reqs ++ [(nid, false)] } }
    let a3 := if cfg.aperture then a2.adjust cfg 1 else a2
    (a3, .node nid nd.ep r)

/-- was `j` a possible `random.randint(1, size)` of `__Put` on node `nid` (0 when none is drawn)? -/
def putLegal (s : HS) (nid j : Nat) : Bool :=
  if s.putDraws nid then decide (1 ≤ j ∧ j ≤ s.size) else j == 0

/-- the `randint` the model goes on with: the recorded one if it was possible, else a legal one -/
def putDraw (s : HS) (nid j : Nat) : Nat :=
  if putLegal s nid j then j else (if s.putDraws nid then 1 else 0)

/-- `PutWrapper()` of dispatch `r`; `j` the `random.randint` of `__Put` (0 if none is drawn) -/
def AS.put (cfg : Cfg) (a : AS) (r j : Nat) : AS :=
  match a.hs.reqs[r]? with
  | none => { a with bad := true }
  | some (_, true) => a
  | some (nid, false) =>
    let a0 : AS := if putLegal a.hs nid j then a else { a with bad := true }
    let a1 : AS := { a0 with hs := a.hs.put r (putDraw a.hs nid j) }
    if cfg.aperture then a1.adjust cfg (-1) else a1

/-- the environment changes a channel's state -/
def AS.setChan (a : AS) (nid st : Nat) : AS :=
  if nid < a.hs.nodes.length ∧ 1 ≤ st ∧ st ≤ 4 then { a with hs := a.hs.setChan nid st } else { a with bad := true }

/-- the channel's `Open()` result is completed by the environment -/
def AS.opened (cfg : Cfg) (a : AS) (nid : Nat) (ok : Bool) : AS :=
  if (a.onOf nid).ost ≠ 1 ∨ a.on.length ≤ nid then { a with bad := true }
  else if ok then { a with on := a.on.set nid { a.onOf nid with ost := 2 } }
  else
    -- `_OnOpenNodeComplete`: the exception is logged, `_OnNodeDown(node)`'s result is handed on
    let r := a.onNodeDown cfg nid
    { r.1 with on := r.1.on.set nid { r.1.onOf nid with ost := 3, dep := r.2 } }

/-- `_OpenInitialChannels` -/
def AS.openInitial (cfg : Cfg) (a : AS) : AS :=
  let ids := a.hs.heap
  let o : Nat := if cfg.slowOpen then 1 else 2
  let on' := ids.foldl (fun on id => on.set id { on.getD id default with ost := o, done := false }) a.on
  { a with isOpen := true, on := on', initialNodes := ids, openAr := decide (a.hs.size = 0) }

/-- second half of `_Jitter`, after `ar.wait()` on the result of node `nid` returned -/
def AS.jitterEnd (cfg : Cfg) (a : AS) (nid : Nat) : AS :=
  let a1 := a.contract cfg true
  { a1 with pending := a1.pending.filter (· ≠ (a1.hs.node nid).ep), jitterWait := none }

/-- is the result `_OpenNode`/`_AddSink` handed out for node `nid` ready to be set? -/
def AS.arReady (a : AS) (nid : Nat) : Bool :=
  let o := a.onOf nid
  if o.ost = 0 ∨ o.ost = 2 then true
  else if o.ost = 3 then
    match o.dep with
    | none => true
    | some d => (a.onOf d).done
  else false

/-- first half of `_Jitter` -/
def AS.jitterStart (cfg : Cfg) (a : AS) : AS :=
  if cfg.aperture = false ∨ a.jitterWait.isSome then { a with bad := true }
  else
    let r := a.tryExpand cfg true
    match r.2 with
    | none => r.1
    | some nid =>
      -- `Complete()` (the balancer is not open yet) is ready at once: no yield
      if (r.1.onOf nid).ost = 0 then
        let a1 : AS := { r.1 with on := r.1.on.set nid { r.1.onOf nid with done := true } }
        a1.jitterEnd cfg nid
      else { r.1 with jitterWait := some nid }

/-- the links of node `nid`'s result run -/
def AS.fire (a : AS) (nid : Nat) : AS :=
  let o := a.onOf nid
  let a1 : AS := { a with on := a.on.set nid { o with done := true } }
  if o.disc then { a1 with pending := a1.pending.filter (· ≠ (a1.hs.node nid).ep) } else a1

/-- one turn of the hub: every result that can be set is set, its links run -/
def AS.settleRound (cfg : Cfg) (a : AS) : AS × Bool :=
  let ids := (List.range a.on.length).filter (fun i => !(a.onOf i).done && a.arReady i)
  let a1 := ids.foldl AS.fire a
  let a2 : AS := if !a1.openAr && ids.any (fun i => a1.initialNodes.contains i) then { a1 with openAr := true } else a1
  let a3 :=
    match a2.jitterWait with
    | some nid => if ids.contains nid then a2.jitterEnd cfg nid else a2
    | none => a2
  (a3, !ids.isEmpty)

/-- the hub runs until nothing is runnable -/
def AS.settleN (cfg : Cfg) (a : AS) : Nat → AS
  | 0 => a
  | fuel + 1 =>
    let r := a.settleRound cfg
    if r.2 then r.1.settleN cfg fuel else r.1

def AS.settle (cfg : Cfg) (a : AS) : AS := a.settleN cfg (a.on.length + 2)

end Scales.Aperture
