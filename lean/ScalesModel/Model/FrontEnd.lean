/-
  Model/FrontEnd.lean — the call front end: scales/dispatch.py (MessageDispatcher,
  StaticDispatchMessage, _AsyncResponseSink), scales/sink.py (ClientTimeoutSink,
  ClientMessageSinkStack), seen between two quiescent points of the gevent loop.

  Everything below the timeout sink is the environment: it may post any response into a
  call's sink stack at any time, any number of times (`lower`).  The timer queue is used
  through its contract (C10): an action runs at most once, not before its rounded deadline,
  never after a cancel that came before the queue popped it.  Time is Nat microseconds.
  Import-free.
-/
import ScalesModel.Core.Val
namespace Scales.FrontEnd

/-- timer-queue resolution of GLOBAL_TIMER_QUEUE: 10 ms -/
def resolution : Nat := 10000

def roundUp (d : Nat) : Nat := ((d + resolution - 1) / resolution) * resolution

inductive Outcome where
  | ok (v : Nat)
  | err (e : Nat)
  | timeout
  deriving Repr, DecidableEq, Inhabited

inductive Timer where
  | none
  | armed (due : Nat)                    -- queued, due = rounded deadline
  | cancelled (due : Nat) (cat : Nat)    -- cancel() called at time `cat`
  | fired
  deriving Repr, DecidableEq, Inhabited

inductive OpenSt where
  | pending
  | done (ok : Bool) (oat : Nat)
  deriving Repr, DecidableEq, Inhabited

structure Call where
  issueT : Nat
  T : Nat                   -- timeout in µs; 0 = none
  waitingOpen : Bool        -- linked on the dispatcher's open result
  stackResp : Bool          -- the _AsyncResponseSink frame is on the call's stack
  stackTmo : Bool           -- the ClientTimeoutSink frame is on the stack (above it)
  timer : Timer
  evtSet : Bool             -- Deadline event observable was set
  lowerGot : Bool           -- the request reached the sink below the timeout sink
  sets : List (Nat × Outcome)   -- every set / set_exception on the call's result, with time
  deriving Repr, DecidableEq, Inhabited

structure FE where
  clock : Nat
  openSt : OpenSt
  calls : List Call
  deriving Repr, DecidableEq

def FE.init : FE := ⟨0, .pending, []⟩

/-- `sink_stack.AsyncProcessResponse` : pop the timeout frame (cancelling the timer), then the
    response frame (setting the result) -/
def Call.respond (c : Call) (now : Nat) (o : Outcome) : Call :=
  let c1 := if c.stackTmo then
      { c with stackTmo := false,
               timer := match c.timer with
                 | .armed due => .cancelled due now
                 | t => t }
    else c
  if c1.stackResp then { c1 with stackResp := false, sets := c1.sets ++ [(now, o)] } else c1

/-- `_DispatchMethod` + the spawned `ClientTimeoutSink.AsyncProcessRequest`, run at `now` -/
def Call.dispatch (c : Call) (now : Nat) : Call :=
  let c0 := { c with waitingOpen := false }
  if c0.T = 0 then { c0 with lowerGot := true }
  else
    let deadline := c0.issueT + c0.T
    if deadline < now then
      -- `_TimeoutHelper(None, sink_stack)` : nothing pushed, the request goes no further
      c0.respond now .timeout
    else
      { c0 with timer := .armed (roundUp deadline), stackTmo := true, lowerGot := true }

def newCall (now T : Nat) : Call :=
  { issueT := now, T := T, waitingOpen := true, stackResp := true, stackTmo := false,
    timer := .none, evtSet := false, lowerGot := false, sets := [] }

def FE.updCall (s : FE) (i : Nat) (f : Call → Call) : FE :=
  match s.calls[i]? with
  | some c => { s with calls := s.calls.set i (f c) }
  | none => s

/-- `DispatchMethodCall` at time `at` -/
def FE.issue (s : FE) (T : Nat) (at_ : Nat) : FE :=
  let c := newCall at_ T
  let c' := match s.openSt with
    | .done _ _ => c.dispatch at_
    | .pending => c
  { s with clock := at_, calls := s.calls ++ [c'] }

/-- the dispatcher's open result completes (successfully or not — the continuation does not
    look at it); every call linked on it is dispatched now -/
def FE.openDone (s : FE) (ok : Bool) (at_ : Nat) : FE :=
  match s.openSt with
  | .done _ _ => { s with clock := at_ }
  | .pending =>
    { clock := at_, openSt := .done ok at_,
      calls := s.calls.map (fun c => if c.waitingOpen then c.dispatch at_ else c) }

/-- the environment posts response `o` into call `i`'s stack -/
def FE.lower (s : FE) (i : Nat) (o : Outcome) (at_ : Nat) : FE :=
  ({ s with clock := at_ } : FE).updCall i (fun c => c.respond at_ o)

/-- may the timer action of this call run at time `at_`? -/
def Call.fireEnabled (c : Call) (at_ : Nat) : Bool :=
  match c.timer with
  | .armed due => decide (due ≤ at_)
  | .cancelled due cat => decide (due ≤ at_) && decide (due ≤ cat)   -- popped before the cancel
  | _ => false

/-- the timer action `_TimeoutHelper(evt, sink_stack)` runs -/
def Call.fire (c : Call) (now : Nat) : Call :=
  let c1 := { c with evtSet := true,
                     timer := match c.timer with
                       | .armed _ => .fired
                       | .cancelled _ _ => .fired
                       | t => t }
  -- the frame's own cancel() is a no-op on a popped item
  let c2 := if c1.stackTmo then { c1 with stackTmo := false } else c1
  if c2.stackResp then { c2 with stackResp := false, sets := c2.sets ++ [(now, .timeout)] } else c2

def FE.fire (s : FE) (i : Nat) (at_ : Nat) : FE :=
  ({ s with clock := at_ } : FE).updCall i (fun c => if c.fireEnabled at_ then c.fire at_ else c)

def FE.tick (s : FE) (at_ : Nat) : FE := { s with clock := at_ }

end Scales.FrontEnd
