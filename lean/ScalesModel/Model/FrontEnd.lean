/-
  Model/FrontEnd.lean — the call front end: scales/dispatch.py (MessageDispatcher,
  StaticDispatchMessage, _AsyncResponseSink), scales/sink.py (ClientTimeoutSink,
  ClientMessageSinkStack), seen between two quiescent points of the gevent loop.

  Everything below the timeout sink is the environment: it may post any response into a
  call's sink stack at any time, any number of times (`lower`).  The timer queue is used
  through its contract (C10): an action runs at most once, not before its rounded deadline,
  never after a cancel that came before the queue popped it.  Time is Nat microseconds.
  Import-free.
-/
import ScalesModel.Core.Val
namespace Scales.FrontEnd

/-- timer-queue resolution of GLOBAL_TIMER_QUEUE: 10 ms -/
def resolution : Nat := 10000

def roundUp (d : Nat) : Nat := ((d + resolution - 1) / resolution) * resolution

inductive Outcome where
  | ok (v : Nat)
  | err (e : Nat)
  | timeout
  deriving Repr, DecidableEq, Inhabited

/-- what became of the timer of a call whose stack has been drained -/
inductive TimerEnd where
  | none                                 -- there never was one
  | cancelled (due : Nat) (cat : Nat)    -- cancel() was called at time `cat`
  | fired
  deriving Repr, DecidableEq, Inhabited

/-- life cycle of a call's sink stack as the front end sees it.
    `live (some due)`: the _AsyncResponseSink frame and, above it, the ClientTimeoutSink frame
    are on the stack and the timer is queued for `due` (the rounded deadline);
    `live none`: only the response frame (no deadline);
    `over`: the stack has been drained — whoever got there first (reply, fault, timer)
    popped both frames; later arrivals find it empty. -/
inductive Phase where
  | waitOpen (g : Option Nat)      -- linked on the dispatcher's open result, not dispatched yet; the
                                   -- dispatcher's own timer (`_DispatchWhenOpen`) is queued for `g`
  | live (due : Option Nat)
  | over (t : TimerEnd)
  deriving Repr, DecidableEq, Inhabited

inductive OpenSt where
  | pending
  | done (ok : Bool) (oat : Nat)
  deriving Repr, DecidableEq, Inhabited

structure Call where
  cid : Nat                 -- call number (issue order)
  issueT : Nat
  T : Nat                   -- timeout in µs; 0 = none
  phase : Phase
  evtSet : Bool             -- Deadline event observable was set
  lowerGot : Bool           -- the request reached the sink below the timeout sink
  sets : List (Nat × Outcome)   -- every set / set_exception on the call's result, with time
  deriving Repr, DecidableEq, Inhabited

structure FE where
  clock : Nat
  openSt : OpenSt
  calls : List Call
  deriving Repr, DecidableEq

def FE.init : FE := ⟨0, .pending, []⟩

/-- `sink_stack.AsyncProcessResponse` : pop the timeout frame (cancelling the timer), then the
    response frame (setting the result); an empty stack ignores the message -/
def cancelEnd (d : Option Nat) (now : Nat) : TimerEnd :=
  match d with
  | some due => .cancelled due now
  | none => .none

def Call.respond (c : Call) (now : Nat) (o : Outcome) : Call :=
  match c.phase with
  | .live d => { c with phase := .over (cancelEnd d now), sets := c.sets ++ [(now, o)] }
  | _ => c

/-- `_DispatchMethod` + the spawned `ClientTimeoutSink.AsyncProcessRequest`, run at `now` -/
def Call.dispatch (c : Call) (now : Nat) : Call :=
  match c.phase with
  | .waitOpen _ =>
    -- `on_open`: the dispatcher's timer is cancelled (if its action still runs it finds
    -- `waiting` false and does nothing); from here on the timeout sink guards the deadline
    if c.T = 0 then { c with phase := .live none, lowerGot := true }
    else
      let deadline := c.issueT + c.T
      if deadline < now then
        -- `_TimeoutHelper(None, sink_stack)` : nothing pushed, the request goes no further
        { c with phase := .over .none, sets := c.sets ++ [(now, .timeout)] }
      else
        { c with phase := .live (some (roundUp deadline)), lowerGot := true }
  | _ => c

/-- the deadline (rounded to the timer grid) a queued timer of this call is due at, if any -/
def Call.armedDue (c : Call) : Option Nat :=
  match c.phase with
  | .waitOpen g => g
  | .live d => d
  | .over _ => none

/-- a call as `DispatchMethodCall` creates it; `guard`: the client is still opening, so
    `_DispatchWhenOpen` queues the dispatcher's own timer for the (rounded) deadline -/
def newCall (cid now T : Nat) (guard : Bool) : Call :=
  { cid := cid, issueT := now, T := T,
    phase := .waitOpen (if guard && decide (0 < T) then some (roundUp (now + T)) else none),
    evtSet := false, lowerGot := false, sets := [] }

def FE.updCall (s : FE) (i : Nat) (f : Call → Call) : FE :=
  { s with calls := s.calls.map (fun c => if c.cid = i then f c else c) }

def FE.callOf (s : FE) (i : Nat) : Option Call := s.calls.find? (fun c => c.cid == i)

/-- `DispatchMethodCall` at time `at_` -/
def FE.issue (s : FE) (T : Nat) (at_ : Nat) : FE :=
  let c' := match s.openSt with
    | .done _ _ => (newCall s.calls.length at_ T false).dispatch at_
    | .pending => newCall s.calls.length at_ T true
  { s with clock := at_, calls := s.calls ++ [c'] }

/-- the dispatcher's open result completes (successfully or not — the continuation does not
    look at it); every call linked on it is dispatched now -/
def FE.openDone (s : FE) (ok : Bool) (at_ : Nat) : FE :=
  match s.openSt with
  | .done _ _ => { s with clock := at_ }
  | .pending =>
    { clock := at_, openSt := .done ok at_, calls := s.calls.map (fun c => c.dispatch at_) }

/-- the environment posts response `o` into call `i`'s stack -/
def FE.lower (s : FE) (i : Nat) (o : Outcome) (at_ : Nat) : FE :=
  ({ s with clock := at_ } : FE).updCall i (fun c => c.respond at_ o)

/-- may the timer action of this call run at time `at_`? (queued and due; or cancelled only
    after the queue had already popped it) -/
def Call.fireEnabled (c : Call) (at_ : Nat) : Bool :=
  match c.phase with
  | .waitOpen (some due) => decide (due ≤ at_)
  | .live (some due) => decide (due ≤ at_)
  | .over (.cancelled due cat) => decide (due ≤ at_) && decide (due ≤ cat)
  | _ => false

/-- the timer action runs: `_TimeoutHelper(evt, sink_stack)` of the timeout sink, or, for a call
    still waiting for the client to open, `on_deadline` of `_DispatchWhenOpen` (the caller gets
    TimeoutError; when the open result completes later, `on_open` finds the call no longer
    waiting and never dispatches it) -/
def Call.fire (c : Call) (now : Nat) : Call :=
  match c.phase with
  | .waitOpen (some _) => { c with phase := .over .fired, sets := c.sets ++ [(now, .timeout)] }
  | .waitOpen none => c
  | .live (some _) => { c with evtSet := true, phase := .over .fired, sets := c.sets ++ [(now, .timeout)] }
  | .over (.cancelled _ _) => { c with evtSet := true, phase := .over .fired }
  | _ => { c with evtSet := true }

/-- the timer actions of the calls `cs` (distinct calls, so independent of each other) run -/
def FE.fire (s : FE) (cs : List Nat) (at_ : Nat) : FE :=
  { s with clock := at_,
           calls := s.calls.map (fun c => if cs.contains c.cid && c.fireEnabled at_ then c.fire at_ else c) }

def FE.tick (s : FE) (at_ : Nat) : FE := { s with clock := at_ }

end Scales.FrontEnd
