/-
  Model/Transport.lean — vocabulary shared by the two transport models of C08
  (Model/Serial.lean : scales/thrift/sink.py SocketTransportSink,
   Model/MuxT.lean   : scales/mux/sink.py MuxSocketTransportSink + scales/thriftmux/sink.py
                       SocketTransportSink).  Import-free.
-/
import ScalesModel.Core.Val
namespace Scales.Transport

/-- `ChannelState` as a transport reports it (`Busy` is never used by a transport) -/
inductive CS where
  | idle
  | opened
  | closed
  deriving Repr, DecidableEq, Inhabited

/-- outcome of one blocking I/O call on the socket (write, read of a header, read of a body) -/
inductive IOOut where
  | ok
  | raise     -- the call raised socket.error
  | eof       -- the peer closed the stream (recv returned 0 bytes)
  deriving Repr, DecidableEq, Inhabited

/-- outcome of a connect / re-connect attempt -/
inductive Conn where
  | ok
  | refuse
  deriving Repr, DecidableEq, Inhabited

/-- what a request's sink stack is handed -/
inductive Resp where
  | stream     -- a reply body (AsyncProcessResponseStream)
  | timeout    -- MethodReturnMessage(error=TimeoutError)
  | conc       -- ChannelConcurrencyError
  | eof        -- EOFError
  | other      -- any other exception (socket.error, 'Sink not open', AttributeError …)
  | cerr       -- ClientError (mux shutdown)
  deriving Repr, DecidableEq, Inhabited

def Resp.isError : Resp → Bool
  | .stream => false
  | _ => true

/-- effects of one operation that the harness can see from outside -/
structure Eff where
  faults : Nat := 0                 -- on_faulted notifications raised
  dels : List (Nat × Resp) := []    -- (request id, response) handed to sink stacks, in order
  conns : Nat := 0                  -- connect attempts made on the socket
  deriving Repr, DecidableEq

/-! ### bookkeeping used by the executable specifications

  `owed` are the requests that were issued and have not been handed a response yet;
  `abandoned` were in flight at a deliberate `Close()` (the property claims nothing for them,
  they may be answered once or not at all). -/

/-- hand out the responses of one observation; `none` if a response went to a request that is
    not owed one (never issued, or already answered) — the offending id is returned -/
def settle : List Nat → List Nat → List (Nat × Resp) → Except Nat (List Nat × List Nat)
  | owed, ab, [] => .ok (owed, ab)
  | owed, ab, (id, _) :: rest =>
    if owed.contains id then settle (owed.erase id) ab rest
    else if ab.contains id then settle owed (ab.erase id) rest
    else .error id

/-- the first owed request that was not failed (handed an error) in this observation -/
def firstNotFailed (owed : List Nat) (dels : List (Nat × Resp)) : Option Nat :=
  owed.find? (fun id => !(dels.any (fun d => d.1 == id && d.2.isError)))

def encCS : CS → V
  | .idle => .a "idle"
  | .opened => .a "open"
  | .closed => .a "closed"

def decCS : V → Option CS
  | .a "idle" => some .idle
  | .a "open" => some .opened
  | .a "closed" => some .closed
  | _ => none

def decIO : V → Option IOOut
  | .a "ok" => some .ok
  | .a "raise" => some .raise
  | .a "eof" => some .eof
  | _ => none

def decConn : V → Option Conn
  | .a "ok" => some .ok
  | .a "refuse" => some .refuse
  | _ => none

def encResp : Resp → V
  | .stream => .a "stream"
  | .timeout => .a "timeout"
  | .conc => .a "conc"
  | .eof => .a "eof"
  | .other => .a "other"
  | .cerr => .a "cerr"

def decResp : V → Option Resp
  | .a "stream" => some .stream
  | .a "timeout" => some .timeout
  | .a "conc" => some .conc
  | .a "eof" => some .eof
  | .a "other" => some .other
  | .a "cerr" => some .cerr
  | _ => none

def encDel (d : Nat × Resp) : V := .l [V.ofNat d.1, encResp d.2]
def decDel : V → Option (Nat × Resp)
  | .l [i, r] => do pure (← i.nat?, ← decResp r)
  | _ => none

end Scales.Transport
