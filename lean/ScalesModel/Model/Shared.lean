/-
  Model/Shared.lean — C16: scales/pool/singleton.py (SingletonPoolSink), scales/sink.py
  (RefCountedSink, SharedSinkProvider), scales/pool/base.py (PoolSink.AsyncProcessRequest).

  Neighbours (trusted contract of an underlying sink, the one the socket transports and the
  test mocks implement): a sink is created `Idle`; `Open()` returns the sink's open result,
  creating a pending one if there is none; the environment completes a pending open with
  success (state `Open`) or failure (state `Closed`); `Close()` and a fault set the state to
  `Closed` and fail a pending open, which releases everybody waiting on it.

  Scheduling: every greenlet that enters `_Get` runs without yielding until it blocks in
  `Open().wait()` on a pending open result or leaves `_Get`; a released waiter runs to its end
  without yielding again.  Hence one operation of the history = its immediate effect plus the
  release of the waiters it wakes, in FIFO order (gevent's link order).

  An underlying `Close()` need not be atomic for the pool: a multiplexing transport
  (scales/mux/sink.py `_Shutdown`) marks itself Closed, fails its pending open and then fails
  its in-flight requests by calling the callers back — a caller may re-submit through the same
  pool *from inside* that `Close()` (`pcloseR`, `cresumeR`) — and it may yield before it returns,
  so that requests of other greenlets reach the pool while the `Close()` is suspended (`pcloseY`
  … any operations … `cresume`).  `SingletonPoolSink.Close` takes the sink out of its slot
  *before* it calls the sink's `Close()` and does nothing after that call has returned;
  therefore a request arriving during the underlying `Close()` finds an empty slot, and the end
  of the underlying `Close()` changes nothing in the pool.  Import-free.
-/
import ScalesModel.Core.Val
namespace Scales.Shared

/-! ## underlying sinks -/

/-- `ChannelState` of an underlying sink (`Busy` is never reported by the harness' sinks and
    is handled by `_Get` like `Open`) -/
inductive SSt where
  | idle
  | opened
  | closed
  deriving Repr, DecidableEq, Inhabited

/-- the sink's open result -/
inductive ORes where
  | absent
  | pending
  | done
  deriving Repr, DecidableEq, Inhabited

structure USink where
  st : SSt
  res : ORes
  opens : Nat      -- `Open()` calls seen by this sink
  closes : Nat     -- `Close()` calls seen by this sink
  deriving Repr, DecidableEq, Inhabited

/-- `sink.Open()` -/
def USink.callOpen (s : USink) : USink :=
  { s with opens := s.opens + 1, res := if s.res = .absent then .pending else s.res }

/-- the state change of `Close()` / a fault / a failed open: closed, pending open failed -/
def USink.shut (s : USink) : USink :=
  { s with st := .closed, res := if s.res = .pending then .done else s.res }

/-- `sink.Close()` -/
def USink.callClose (s : USink) : USink := { s.shut with closes := s.closes + 1 }

/-- the environment completes the pending open successfully -/
def USink.openOk (s : USink) : USink := { s with st := .opened, res := .done }

def USink.live (s : USink) : Bool := s.st != .closed

/-- replace element `k` -/
def upd (l : List USink) (k : Nat) (f : USink → USink) : List USink :=
  match l, k with
  | [], _ => []
  | x :: xs, 0 => f x :: xs
  | x :: xs, k + 1 => x :: upd xs k f

/-! ## SingletonPoolSink -/

/-- who is inside `_Get`: a request `r` (PoolSink.AsyncProcessRequest) or the greenlet started
    by `Open()` (`TryGet`) -/
inductive Who where
  | req (r : Nat)
  | tryget
  deriving Repr, DecidableEq, Inhabited

/-- a greenlet blocked in `Open().wait()` on sink `on` -/
structure Waiter where
  who : Who
  on : Nat
  deriving Repr, DecidableEq, Inhabited

structure Pool where
  sinks : List USink := []        -- every sink the provider created, in creation order
  next : Option Nat := none       -- `next_sink` (index into `sinks`)
  rc : Int := 0                   -- `_ref_count`
  waiters : List Waiter := []     -- FIFO
  deriving Repr, DecidableEq, Inhabited

/-- a request leaving the pool: (request id, the sink it is handed to).  `none`: `_Get` returned
    `None` (see `Pool.release`), PoolSink.AsyncProcessRequest raises AttributeError in the
    request's greenlet and the request is handed to nobody. -/
abbrev Fwd := Nat × Option Nat

def fwdOf (who : Who) (t : Option Nat) : List Fwd :=
  match who with
  | .req r => [(r, t)]
  | .tryget => []

/-- first branch of `_Get`: create a sink, subscribe, `Open()`, block on the (pending) result -/
def Pool.create (p : Pool) (who : Who) : Pool :=
  let k := p.sinks.length
  { p with sinks := p.sinks ++ [⟨.idle, .pending, 1, 0⟩], next := some k,
           waiters := p.waiters ++ [⟨who, k⟩] }

/-- `_Get()` followed by the hand-over of the caller to the sink it obtained.  Returns the
    requests forwarded in this step. -/
def Pool.get (p : Pool) (who : Who) : Pool × List Fwd :=
  match p.next with
  | none => (p.create who, [])
  | some k =>
    match p.sinks[k]? with
    | none => (p, fwdOf who (some k))                -- unreachable (invariant `next < length`)
    | some s =>
      match s.st with
      | .idle =>
        let s' := s.callOpen
        let p' := { p with sinks := upd p.sinks k (fun _ => s') }
        if s'.res = .pending then ({ p' with waiters := p'.waiters ++ [⟨who, k⟩] }, [])
        else (p', fwdOf who p'.next)
      | .closed => ({ p with next := none }.create who, [])
      | .opened => (p, fwdOf who (some k))

/-- the waiters on sink `k` resume (its open result became ready).  Each leaves `_Get` with
    `return self.next_sink` — the pool's sink *re-read after the wait* — and its request is handed
    to that.  If `Close()` detached the sink meanwhile this is `None` and the request is lost
    (observation F14, outside C16: a C01-type matter). -/
def Pool.release (p : Pool) (k : Nat) : Pool × List Fwd :=
  ({ p with waiters := p.waiters.filter (fun w => w.on != k) },
   (p.waiters.filter (fun w => w.on == k)).flatMap (fun w => fwdOf w.who p.next))

def isPending (p : Pool) (k : Nat) : Bool :=
  match p.sinks[k]? with
  | some s => s.res == .pending
  | none => false

/-- operations of a singleton-pool history -/
inductive SOp where
  | req (r : Nat)       -- a request enters AsyncProcessRequest
  | popen               -- pool.Open()
  | pclose              -- pool.Close()
  | ok (k : Nat)        -- the pending open of sink k succeeds
  | fail (k : Nat)      -- the pending open of sink k fails
  | fault (k : Nat)     -- sink k fails (at any time)
  | pcloseY             -- pool.Close() whose underlying Close() yields after it has marked the
                        -- sink Closed and failed its pending open; suspended until `cresume`
  | pcloseR (r : Nat)   -- pool.Close() during whose underlying Close() a caller submits request r
                        -- through the pool, synchronously (re-entrant request)
  | cresume (k : Nat)   -- the suspended Close() of sink k resumes and returns
  | cresumeR (k r : Nat) -- … and, before it returns, a caller submits request r re-entrantly
  deriving Repr, DecidableEq, Inhabited

/-- `pool.Close()` with an underlying `Close()` that does not call back into the pool: the count
    goes down; at ≤ 0 the sink is taken out of the slot and closed, which fails its pending open
    and so releases the greenlets waiting for it — they re-read the (now empty) slot. -/
def Pool.close (p : Pool) : Pool × List Fwd :=
  let p' := { p with rc := p.rc - 1 }
  match p'.next with
  | some k =>
    if p'.rc ≤ 0 then
      let wasPending := isPending p' k
      let p'' := { p' with next := none, sinks := upd p'.sinks k USink.callClose }
      if wasPending then p''.release k else (p'', [])
    else (p', [])
  | none => (p', [])

/-- `pool.Close()` during whose underlying `Close()` request `r` enters the pool re-entrantly.
    The slot is already empty, so `_Get` creates a fresh sink, opens it and blocks (the closing
    greenlet now waits for that open).  Only then does the loop run the greenlets that were
    waiting for the closed sink's open: they re-read the slot and find the *fresh* sink, to which
    their requests are handed.  (If the pool's `Close()` does not reach the sink's `Close()` — count
    still positive, or nothing in the slot — there is no underlying `Close()` to call back from;
    the request is then an ordinary one after the count went down.) -/
def Pool.closeR (p : Pool) (r : Nat) : Pool × List Fwd :=
  let p' := { p with rc := p.rc - 1 }
  match p'.next with
  | some k =>
    if p'.rc ≤ 0 then
      (({ p' with next := none, sinks := upd p'.sinks k USink.callClose } : Pool).create (.req r)).release k
    else p'.get (.req r)
  | none => p'.get (.req r)

def Pool.step (p : Pool) : SOp → Pool × List Fwd
  | .req r => p.get (.req r)
  | .popen =>
    let p' := { p with rc := p.rc + 1 }
    if p'.rc > 1 then (p', []) else p'.get .tryget
  | .pclose => p.close
  -- up to the yield the underlying Close() has done all it does to the pool's view of the sink
  | .pcloseY => p.close
  | .pcloseR r => p.closeR r
  -- `SingletonPoolSink.Close` does nothing after the underlying Close() has returned
  | .cresume _ => (p, [])
  | .cresumeR _ r => p.get (.req r)
  | .ok k =>
    if isPending p k then { p with sinks := upd p.sinks k USink.openOk }.release k else (p, [])
  | .fail k =>
    if isPending p k then { p with sinks := upd p.sinks k USink.shut }.release k else (p, [])
  | .fault k =>
    if isPending p k then { p with sinks := upd p.sinks k USink.shut }.release k
    else ({ p with sinks := upd p.sinks k USink.shut }, [])

/-- the requests among the greenlets blocked in `_Get`, in arrival order -/
def reqOf : Who → List Nat
  | .req r => [r]
  | .tryget => []

def reqsOf (ws : List Waiter) : List Nat := ws.flatMap (fun w => reqOf w.who)

def Pool.run (p : Pool) : List SOp → Pool
  | [] => p
  | op :: ops => Pool.run (p.step op).1 ops

def liveCount (l : List USink) : Nat := l.countP USink.live

/-! ## RefCountedSink -/

structure RC where
  count : Nat := 0      -- `_ref_count` (never negative: `Close` returns early at 0)
  opens : Nat := 0      -- `Open()` calls seen by the underlying sink
  closes : Nat := 0     -- `Close()` calls seen by the underlying sink
  ar : Nat := 0         -- `_open_ar`: 0 = None, n = the result of the n-th underlying Open()
  deriving Repr, DecidableEq, Inhabited

inductive ROp where
  | ropen (h : Nat)     -- holder h calls Open()
  | rclose (h : Nat)    -- holder h calls Close()
  | rfault              -- the underlying sink fails
  deriving Repr, DecidableEq, Inhabited

/-- returns the new state and what the call returned (the open result for `Open`, 0 otherwise) -/
def RC.step (s : RC) : ROp → RC × Nat
  | .ropen _ =>
    let c := s.count + 1
    if c = 1 then
      let o := s.opens + 1
      ({ s with count := c, opens := o, ar := o }, o)
    else ({ s with count := c }, s.ar)
  | .rclose _ =>
    if s.count = 0 then (s, 0)
    else
      let c := s.count - 1
      if c = 0 then ({ s with count := c, ar := 0, closes := s.closes + 1 }, 0)
      else ({ s with count := c }, 0)
  | .rfault => (s, 0)

def RC.run (s : RC) : List ROp → RC
  | [] => s
  | op :: ops => RC.run (s.step op).1 ops

/-- number of holders after a history, by the property's own reading: every Open adds one,
    every Close by somebody who holds removes one, a surplus Close removes nothing -/
def holders : Nat → List ROp → Nat
  | n, [] => n
  | n, .ropen _ :: ops => holders (n + 1) ops
  | n, .rclose _ :: ops => holders (n - 1) ops
  | n, .rfault :: ops => holders n ops

/-! ## SharedSinkProvider

  The provider over a next provider whose sinks are real enough to be opened, closed and to
  fail: an underlying sink is created `Idle`; `Open()` makes it `Open` unless it is `Closed`
  (a closed sink stays closed, its open result is a failure); `Close()` and a transport fault
  make it `Closed`.  A sink handed out under a sharing key is wrapped in a `RefCountedSink`
  whose `state` is the underlying sink's state.  Holders keep the (strong) reference they got
  from `CreateSink`, call `Open()` / `Close()` on it and drop it. -/

/-- what a holder keeps alive: (holder, key it asked with, sink id) -/
abbrev Hold := Nat × Nat × Nat

/-- an underlying sink created by the next provider, together with the `RefCountedSink` around
    it if it was handed out under a sharing key -/
structure PSink where
  st : SSt := .idle
  opens : Nat := 0        -- `Open()` calls seen by the underlying sink
  closes : Nat := 0       -- `Close()` calls seen by the underlying sink
  shared : Bool := false  -- wrapped in a `RefCountedSink`
  rc : Nat := 0           -- the wrapper's `_ref_count` (stays 0 for a sink that is not shared)
  deriving Repr, DecidableEq, Inhabited

/-- the underlying sink's `Open()` -/
def PSink.uopen (s : PSink) : PSink :=
  { s with opens := s.opens + 1, st := if s.st = .closed then .closed else .opened }

/-- the underlying sink's `Close()` -/
def PSink.uclose (s : PSink) : PSink := { s with closes := s.closes + 1, st := .closed }

/-- a transport fault of the underlying sink -/
def PSink.ufault (s : PSink) : PSink := { s with st := .closed }

/-- a holder calls `Open()` on what it holds: `RefCountedSink.Open` or the plain sink's `Open` -/
def PSink.hopen (s : PSink) : PSink :=
  if s.shared then
    if s.rc = 0 then { s with rc := 1 }.uopen else { s with rc := s.rc + 1 }
  else s.uopen

/-- a holder calls `Close()` on what it holds -/
def PSink.hclose (s : PSink) : PSink :=
  if s.shared then
    if s.rc = 0 then s
    else if s.rc = 1 then { s with rc := 0 }.uclose
    else { s with rc := s.rc - 1 }
  else s.uclose

/-- the sink with id `id` (ids 1, 2, …; anything else: a sink nobody ever created) -/
def sinkAt (l : List PSink) (id : Nat) : PSink :=
  match id with
  | 0 => {}
  | k + 1 => l.getD k {}

def modAt (l : List PSink) (id : Nat) (f : PSink → PSink) : List PSink :=
  match id with
  | 0 => l
  | k + 1 => l.modify k f

structure Prov where
  sinks : List PSink := []           -- sinks created by the next provider (ids 1, 2, …)
  cache : List (Nat × Nat) := []     -- the weak cache: (key, sink id), insertion order
  held : List Hold := []             -- strong references held by the holders
  deriving Repr, DecidableEq, Inhabited

/-- `CreateSink` calls seen by the next provider -/
def Prov.created (p : Prov) : Nat := p.sinks.length

inductive POp where
  | create (h key : Nat)   -- holder h: `held[h] = provider.CreateSink(properties(key))`; key 0 = no sharing
  | drop (h : Nat)         -- holder h drops its reference
  | hopen (h : Nat)        -- holder h calls `Open()` on the sink it holds
  | hclose (h : Nat)       -- holder h calls `Close()` on the sink it holds
  | fault (s : Nat)        -- the underlying sink with id s fails (transport fault)
  deriving Repr, DecidableEq, Inhabited

def lookup (c : List (Nat × Nat)) (key : Nat) : Option Nat :=
  match c with
  | [] => none
  | (k, s) :: rest => if k = key then some s else lookup rest key

def alive (held : List Hold) (s : Nat) : Bool := held.any (fun h => h.2.2 == s)

/-- weak references: an entry disappears when nobody holds its sink -/
def collect (held : List Hold) (c : List (Nat × Nat)) : List (Nat × Nat) :=
  c.filter (fun e => alive held e.2)

/-- what holder `h` holds -/
def heldBy (held : List Hold) (h : Nat) : Option Hold := held.find? (fun x => x.1 == h)

/-- returns the new state and the id of the sink concerned: the one handed out (`create`), the
    one the holder called (`hopen`, `hclose`; 0 if it holds nothing), 0 otherwise -/
def Prov.step (p : Prov) : POp → Prov × Nat
  | .create h key =>
    let (s, sinks, cache) :=
      if key = 0 then (p.sinks.length + 1, p.sinks ++ [{}], p.cache)
      else match lookup p.cache key with
        | some s => (s, p.sinks, p.cache)
        | none => (p.sinks.length + 1, p.sinks ++ [{ shared := true }],
                   p.cache ++ [(key, p.sinks.length + 1)])
    let held := p.held.filter (fun x => x.1 != h) ++ [(h, key, s)]
    ({ sinks := sinks, cache := collect held cache, held := held }, s)
  | .drop h =>
    let held := p.held.filter (fun x => x.1 != h)
    ({ p with cache := collect held p.cache, held := held }, 0)
  | .hopen h =>
    match heldBy p.held h with
    | some x => ({ p with sinks := modAt p.sinks x.2.2 PSink.hopen }, x.2.2)
    | none => (p, 0)
  | .hclose h =>
    match heldBy p.held h with
    | some x => ({ p with sinks := modAt p.sinks x.2.2 PSink.hclose }, x.2.2)
    | none => (p, 0)
  | .fault s => ({ p with sinks := modAt p.sinks s PSink.ufault }, 0)

def Prov.run (p : Prov) : List POp → Prov
  | [] => p
  | op :: ops => Prov.run (p.step op).1 ops

end Scales.Shared
