/-
  Model/Resurrector.lean — scales/resurrector.py (ResurrectorSink) and scales/observable.py.

  The next sinks are abstract channels: their `Open()` follows the endpoint's reachability at the
  moment of the call (`up`: completes, `down`: fails at once, `hang`: pending until the
  environment resolves it) and their fault signal (`on_faulted.Set`) is raised by the environment.

  gevent (trusted): `spawn`, `Observable.Set` (which spawns the notifier), a completed
  `AsyncResult` with a waiter, and `kill(block=False)` each append one entry to the hub's FIFO
  callback list — the `tasks` below.  `gevent.sleep(0)` by the running code lets every entry that
  is queued at that moment run (`runTurn`).  A timer (`gevent.sleep(w)`, w > 0) fires when the
  clock reaches its instant and the callback list is empty.

  `Observable.Set` spawns a notifier which reads the subscriber set *when it runs*: `notify sid`
  calls the resurrector's `_OnSinkFaulted` iff it is subscribed at that moment.

  The back-off is `wait' = min (f wait) maxWait` with `f` a parameter (`wait ** exponent` in the
  code; floats are not modelled).  Times are µs.  Import-free.
-/
import ScalesModel.Core.Val
namespace Scales.Res

inductive Reach where
  | up | down | hang
  deriving Repr, DecidableEq, Inhabited

inductive ChSt where
  | idle | opened | closed
  deriving Repr, DecidableEq, Inhabited

/-- the AsyncResult returned by a channel's last `Open()` -/
inductive Ar where
  | none | pending | ok | fail
  deriving Repr, DecidableEq, Inhabited

/-- a channel, as far as it is visible from outside (`state`, the result of its `Open()`) -/
structure Sink where
  st : ChSt
  ar : Ar
  deriving Repr, DecidableEq, Inhabited

inductive Task where
  | notify (sid : Nat)   -- `Observable.__Notify` of sink `sid`'s `on_faulted`
  | notifyUp             -- the same for the resurrector's own `on_faulted`
  | resStart             -- first switch into the `_TryResurrect` greenlet
  | resume               -- link of the `Open()` result the retry greenlet is blocked on
  | kill                 -- callback of `Greenlet.kill(block=False)`
  deriving Repr, DecidableEq, Inhabited

/-- the `_TryResurrect` greenlet -/
inductive Res where
  | none                               -- no live greenlet
  | start                              -- spawned, not yet run
  | sleep (wakeAt : Nat) (wait : Nat)  -- in `gevent.sleep(wait)`
  | opening (sid : Nat) (wait : Nat) (r : Ar)   -- in `sink.Open().get()`; `r`: that result now
  deriving Repr, DecidableEq, Inhabited

inductive Ev where
  | create (sid : Nat)
  | opn (sid : Nat) (r : Reach)
  | close (sid : Nat)
  | fwd (sid : Nat)
  | raised                 -- `_OnSinkFaulted` ran without a next sink (AttributeError)
  deriving Repr, DecidableEq, Inhabited

/-- parameters: initial wait, maximum wait, back-off function -/
structure Par where
  init : Nat
  maxW : Nat
  f : Nat → Nat

structure St where
  now : Nat := 0
  reach : Reach := .up
  sinks : List Sink := []
  subs : List Nat := []       -- sinks whose `on_faulted._callbacks` contains `_OnSinkFaulted`
  next : Option Nat := none
  down : Bool := false        -- `_down_on` is set
  res : Res := .none
  tasks : List Task := []
  ups : Nat := 0              -- notifications delivered to the subscriber above (the balancer)
  ev : List Ev := []          -- channel events of the current operation
  deriving Repr, DecidableEq, Inhabited

/-- the event log is per operation -/
def clearEv (s : St) : St := { s with ev := [] }

def emit (s : St) (e : Ev) : St := { s with ev := s.ev ++ [e] }
def push (s : St) (t : Task) : St := { s with tasks := s.tasks ++ [t] }

def updSink (s : St) (sid : Nat) (g : Sink → Sink) : St :=
  { s with sinks := s.sinks.modify sid g }

/-- `Chan.Close()` -/
def closeSink (s : St) (sid : Nat) : St :=
  emit (updSink s sid (fun k => { k with st := .closed })) (.close sid)

/-- `provider.CreateSink` -/
def createSink (s : St) : St × Nat :=
  let sid := s.sinks.length
  (emit { s with sinks := s.sinks ++ [⟨.idle, .none⟩] } (.create sid), sid)

/-- `Chan.Open()`: outcome by reachability now -/
def openSink (s : St) (sid : Nat) : St :=
  let s := emit s (.opn sid s.reach)
  match s.reach with
  | .up => updSink s sid (fun k => { k with st := .opened, ar := .ok })
  | .down => updSink s sid (fun k => { k with st := .closed, ar := .fail })
  | .hang => updSink s sid (fun k => { k with ar := .pending })

def nextWait (p : Par) (w : Nat) : Nat := min (p.f w) p.maxW

/-- the hypothesis on the back-off function: below the maximum it grows (`w ** 1.2` for `w > 1`) -/
def Grows (p : Par) : Prop := ∀ w, w ≤ p.maxW → w ≤ p.f w ∧ (w < p.maxW → w < p.f w)

/-- `sink.Open().get()` returned: if `Close()` intervened (`_down_on` cleared) the sink is closed
    and the greenlet ends; otherwise subscribe, install, leave the down state -/
def resSuccess (s : St) (sid : Nat) : St :=
  if s.down then
    { s with subs := sid :: s.subs.filter (· ≠ sid), next := some sid, down := false, res := .none }
  else
    { closeSink s sid with res := .none }

/-- lines 92–96 and 76: close the sink, back off, sleep again -/
def resFailure (p : Par) (s : St) (sid : Nat) (w : Nat) : St :=
  let s := closeSink s sid
  let w' := nextWait p w
  { s with res := .sleep (s.now + w') w' }

/-- the retry greenlet wakes from `gevent.sleep(wait)`: lines 77–84 -/
def resWake (p : Par) (s : St) (w : Nat) : St :=
  let (s, sid) := createSink s
  let s := openSink s sid
  match s.reach with
  | .up => resSuccess s sid
  | .down => resFailure p s sid w
  | .hang => { s with res := .opening sid w .pending }

/-- `_OnSinkFaulted` -/
def onSinkFaulted (s : St) : St :=
  if s.down then push s .notifyUp
  else
    let s := { s with down := true }
    match s.next with
    | none => emit s .raised
    | some n =>
      let s := { s with next := none }
      let s := closeSink s n
      let s := { s with subs := s.subs.filter (· ≠ n) }
      let s := push { s with res := .start } .resStart
      push s .notifyUp

def runTask (p : Par) (s : St) : Task → St
  | .notify sid =>
    if s.subs.contains sid then onSinkFaulted s else s
  | .notifyUp => { s with ups := s.ups + 1 }
  | .resStart =>
    match s.res with
    | .start => if s.down then { s with res := .sleep (s.now + p.init) p.init } else { s with res := .none }
    | _ => s
  | .resume =>
    match s.res with
    | .opening sid w r =>
      match r with
      | .ok => resSuccess s sid
      | .fail => resFailure p s sid w
      | _ => s
    | _ => s
  | .kill =>
    match s.res with
    | .sleep _ _ => { s with res := .none }
    | .opening _ _ _ => { s with res := .none }
    | _ => s

/-- take the head of the queue off -/
def pop (s : St) : St := { s with tasks := s.tasks.tail }

/-- run the first `n` queued tasks (those queued when the turn began) -/
def runN (p : Par) : Nat → St → St
  | 0, s => s
  | n + 1, s =>
    match s.tasks with
    | [] => s
    | t :: _ => runN p n (runTask p (pop s) t)

/-- one `gevent.sleep(0)` by the running code -/
def runTurn (p : Par) (s : St) : St := runN p s.tasks.length s

inductive Resp where
  | none | ff | fwd (sid : Nat)
  deriving Repr, DecidableEq, Inhabited

/-- `Open()` -/
def doOpen (s : St) : St :=
  match s.next with
  | some n => openSink s n
  | none =>
    let (s, sid) := createSink s
    openSink { s with subs := sid :: s.subs.filter (· ≠ sid), next := some sid } sid

/-- `AsyncProcessRequest` -/
def doReq (p : Par) (s : St) : St × Resp :=
  match s.next with
  | none => (runTurn p s, .ff)
  | some n => (emit s (.fwd n), .fwd n)

/-- the environment raises sink `sid`'s fault signal -/
def doFault (s : St) (sid : Nat) : St :=
  push (updSink s sid (fun k => { k with st := .closed })) (.notify sid)

/-- the environment resolves a pending `Open()` of sink `sid` -/
def doDone (s : St) (sid : Nat) (ok : Bool) : St :=
  let s := updSink s sid (fun k =>
    if ok then { k with st := .opened, ar := .ok } else { k with st := .closed, ar := .fail })
  match s.res with
  | .opening sid' w _ =>
    if sid' = sid then push { s with res := .opening sid w (if ok then .ok else .fail) } .resume else s
  | _ => s

def advance (s : St) (d : Nat) : St := { s with now := s.now + d }

/-- the clock advances by `d`; a sleeping retry greenlet whose instant is reached wakes -/
def doTick (p : Par) (s : St) (d : Nat) : St :=
  let s := advance s d
  match s.res with
  | .sleep wakeAt w => if wakeAt ≤ s.now then resWake p s w else s
  | _ => s

/-- `Close()`: kill the retry greenlet (one that has not run yet never will; a blocked one gets
    the kill callback), clear `_down_on`, unsubscribe from and close the next sink.
    (`_resurrector` is the live greenlet, if any: a channel is closed once.) -/
def doClose (s : St) : St :=
  let s :=
    match s.res with
    | .start => { s with res := .none, tasks := s.tasks.filter (fun t => t ≠ Task.resStart) }
    | .sleep _ _ => push s .kill
    | .opening _ _ _ => push s .kill
    | .none => s
  let s := { s with down := false }
  match s.next with
  | some n => closeSink { s with subs := s.subs.filter (· ≠ n) } n
  | none => s

/-- `state` -/
def stateOf (s : St) : ChSt :=
  if s.down then .closed
  else match s.next with
    | none => .idle
    | some n => (s.sinks.getD n default).st

/-- the waits of consecutive failed attempts -/
def waits (p : Par) : Nat → Nat
  | 0 => p.init
  | k + 1 => nextWait p (waits p k)

end Scales.Res
