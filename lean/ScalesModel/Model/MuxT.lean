/-
  Model/MuxT.lean — scales/mux/sink.py MuxSocketTransportSink as specialised by
  scales/thriftmux/sink.py SocketTransportSink (the ThriftMux transport): `_tag_map`, the send
  queue, the send and receive loops, `_Shutdown`, the ping cell with its 5 s helper and the
  ping loop.

  Greenlets are explicit: the send loop is dead, blocked in `queue.get()`, or blocked in
  `socket.write` with one item; the receive loop is dead or blocked in the read of a header or
  of a body; `_OpenImpl` may be blocked in `ar.get()` on the initial ping (`opening`); the ping
  helper may be blocked in `ar.wait(5)` (`pingWait`); the ping loop may be asleep.  Each
  blocking I/O call takes its outcome as a parameter of the operation that lets it return.
  The receive loop does not dispatch a frame itself: it spawns one `_ProcessReply` greenlet
  per frame (`pending`, oldest first) which `_Shutdown` does not kill; they run when the
  receive loop next yields — after the reads that were already buffered, and after the
  `_Shutdown` that a failing one of those reads causes (`burst`).
  Time is abstract: `pingDue` is "the ping loop's sleep ends", `pingSilence` is "five seconds
  passed since the ping was queued and no Rping arrived".  Tags are opaque keys (the tag pool
  is C11's subject): the tag the pool handed out is a parameter of `req`.  Import-free.
-/
import ScalesModel.Model.Transport
namespace Scales.MuxT
open Scales.Transport

/-- an entry of the send queue / a frame on the wire -/
inductive Item where
  | ping
  | req (tag : Nat) (id : Nat)
  deriving Repr, DecidableEq, Inhabited

/-- send loop -/
inductive SL where
  | dead
  | waitQ
  | writing (it : Item)
  deriving Repr, DecidableEq, Inhabited

/-- receive loop -/
inductive RL where
  | dead
  | hdr
  | body
  deriving Repr, DecidableEq, Inhabited

/-- a frame read from the peer -/
inductive Frame where
  | rping                -- Rping on tag 1
  | reply (tag : Nat)    -- any other frame on a non-zero tag
  | junk                 -- a frame on tag 0
  deriving Repr, DecidableEq, Inhabited

/-- the AsyncResult the last `Open()` returned, as its holder sees it -/
inductive ORes where
  | none
  | pending
  | ok
  | failed
  deriving Repr, DecidableEq, Inhabited

structure St where
  cstate : CS                   -- self._state
  hasOpenResult : Bool          -- self._open_result is not None
  opening : Bool                -- _OpenImpl is blocked on the initial ping
  openRes : ORes
  tagMap : List (Nat × Nat)     -- self._tag_map : tag ↦ request id, insertion order
  sendQ : List Item             -- self._send_queue
  sl : SL
  rl : RL
  pingLoop : Bool               -- the ping loop is alive (asleep)
  pingWait : Bool               -- a ping is outstanding and its helper waits
  pending : List Frame          -- frames read whose `_ProcessReply` greenlet has not run yet
  deriving Repr, DecidableEq

def St.init : St :=
  { cstate := .idle, hasOpenResult := false, opening := false, openRes := .none, tagMap := [],
    sendQ := [], sl := .dead, rl := .dead, pingLoop := false, pingWait := false, pending := [] }

structure Out where
  eff : Eff := {}
  sent : List Item := []
  deriving Repr, DecidableEq

/-- the send loop, if blocked on the queue, takes the next item and blocks in `write` -/
def St.pump (s : St) : St :=
  match s.sl, s.sendQ with
  | .waitQ, it :: rest => { s with sl := .writing it, sendQ := rest }
  | _, _ => s

/-- `_Shutdown(reason, fault)` (both classes).  The loops, the ping loop and the ping helper are
    gone, the outstanding ping is retired (repair F4c: a late Rping finds no ping to answer);
    `_ProcessReply` greenlets already spawned are *not* killed: they run later and find an empty
    tag map. -/
def St.shutdown (s : St) (fault : Bool) : St × Eff :=
  if s.cstate = .closed then (s, {})
  else
    ({ cstate := .closed, hasOpenResult := false, opening := false,
       openRes := if s.openRes = .pending then .failed else s.openRes,
       tagMap := [], sendQ := [], sl := .dead, rl := .dead, pingLoop := false, pingWait := false,
       pending := s.pending },
     { faults := if fault then 1 else 0, dels := s.tagMap.map (fun p => (p.2, Resp.cerr)) })

/-- `Open()` followed by a drain -/
def St.openT (s : St) (r : Conn) : St × Out :=
  if s.hasOpenResult then (s, {})
  else if s.cstate ≠ .idle then (s, {})      -- re-opening a closed mux transport: not modelled
  else
    match r with
    | .refuse =>
      let (s', e) := ({ s with hasOpenResult := true, openRes := .pending } : St).shutdown true
      (s', { eff := { e with conns := 1 } })
    | .ok =>
      (({ s with hasOpenResult := true, openRes := .pending, opening := true, tagMap := [],
                 sendQ := [.ping], sl := .waitQ, rl := .hdr, pingWait := true } : St).pump,
       { eff := { conns := 1 } })

/-- the pending `socket.write` of the send loop returns -/
def St.wr (s : St) (o : IOOut) : St × Out :=
  match s.sl with
  | .writing it =>
    match o with
    | .ok => (({ s with sl := .waitQ } : St).pump, { sent := [it] })
    | _ => let (s', e) := s.shutdown true; (s', { eff := e })
  | _ => (s, {})

/-- `_ProcessReply` for a frame -/
def St.process (s : St) (f : Frame) : St × Eff :=
  match f with
  | .junk => (s, {})
  | .rping =>
    if s.pingWait then
      if s.opening then
        ({ s with pingWait := false, opening := false, cstate := .opened, openRes := .ok,
                  pingLoop := true }, {})
      else ({ s with pingWait := false }, {})
    else (s, {})
  | .reply tag =>
    match s.tagMap.lookup tag with
    | some id =>
      -- `props[Tag.KEY] = None`: if the request's frame still waits in the send queue the send
      -- loop will skip it (repair F6b of C11); a frame the loop is already writing is written
      ({ s with tagMap := s.tagMap.filter (fun p => p.1 ≠ tag),
                sendQ := s.sendQ.filter (fun it => it ≠ .req tag id) }, { dels := [(id, .stream)] })
    | none => (s, {})

/-- one pending read of the receive loop returns.  A completed frame is handed to a new
    `_ProcessReply` greenlet (`gevent.spawn`), which does not run yet. -/
def St.rdRaw (s : St) (o : IOOut) (f : Frame) : St × Eff :=
  match s.rl with
  | .dead => (s, {})
  | .hdr =>
    match o with
    | .ok => ({ s with rl := .body }, {})
    | _ => s.shutdown true
  | .body =>
    match o with
    | .ok => ({ s with rl := .hdr, pending := s.pending ++ [f] }, {})
    | _ => s.shutdown true

/-- the reads of a burst return one after the other without the receive loop yielding -/
def St.rdMany (s : St) : List (IOOut × Frame) → St × Eff
  | [] => (s, {})
  | (o, f) :: rest =>
    let (s1, e1) := s.rdRaw o f
    let (s2, e2) := s1.rdMany rest
    (s2, { faults := e1.faults + e2.faults, dels := e1.dels ++ e2.dels, conns := e1.conns + e2.conns })

/-- the `_ProcessReply` greenlets of the frames `fs` run, oldest first -/
def dispatchGo : List Frame → St → St × List (Nat × Resp)
  | [], s => (s, [])
  | f :: fs, s =>
    let (s1, e1) := s.process f
    let (s2, d2) := dispatchGo fs s1
    (s2, e1.dels ++ d2)

/-- the drain after the receive loop yields: every pending `_ProcessReply` greenlet runs -/
def St.dispatch (s : St) : St × List (Nat × Resp) :=
  dispatchGo s.pending { s with pending := [] }

/-- the pending read of the receive loop returns, and so do the reads that follow it in `rs`
    (their bytes, or the end of stream / error, are already there): no other greenlet runs in
    between.  Then the drain: the `_ProcessReply` greenlets of the frames completed meanwhile
    run — also if one of the reads failed and `_Shutdown` ran first. -/
def St.burst (s : St) (rs : List (IOOut × Frame)) : St × Out :=
  let (s1, e1) := s.rdMany rs
  let (s2, d2) := s1.dispatch
  (s2, { eff := { e1 with dels := e1.dels ++ d2 } })

/-- the pending read of the receive loop returns; drain -/
def St.rd (s : St) (o : IOOut) (f : Frame) : St × Out := s.burst [(o, f)]

/-- the ping loop wakes up and sends a ping -/
def St.pingDue (s : St) : St × Out :=
  if s.pingLoop && !s.pingWait && s.cstate = .opened then
    (({ s with pingWait := true, sendQ := s.sendQ ++ [.ping] } : St).pump, {})
  else (s, {})

/-- five seconds after a ping was queued no Rping has arrived: `_PingTimeoutHelper` -/
def St.pingSilence (s : St) : St × Out :=
  if s.pingWait then let (s', e) := s.shutdown true; (s', { eff := e })
  else (s, {})

/-- `AsyncProcessRequest` (two-way message, no deadline event) followed by a drain -/
def St.request (s : St) (id tag : Nat) : St × Out :=
  if s.opening then (s, {})            -- the caller would block on the open result: not modelled
  else if s.cstate = .opened then
    (({ s with tagMap := s.tagMap ++ [(tag, id)], sendQ := s.sendQ ++ [.req tag id] } : St).pump, {})
  else (s, { eff := { dels := [(id, .other)] } })

/-- `Close()` -/
def St.close (s : St) : St × Out :=
  let (s', e) := s.shutdown false
  (s', { eff := e })

end Scales.MuxT
