/-
  Model/MuxT.lean — scales/mux/sink.py MuxSocketTransportSink as specialised by
  scales/thriftmux/sink.py SocketTransportSink (the ThriftMux transport): `_tag_map`, the send
  queue, the send and receive loops, `_Shutdown`, the ping cell with its 5 s helper and the
  ping loop.

  Greenlets are explicit: the send loop is dead, blocked in `queue.get()`, or blocked in
  `socket.write` with one item; the receive loop is dead or blocked in the read of a header or
  of a body; `_OpenImpl` may be blocked in `ar.get()` on the initial ping (`opening`); the ping
  helper may be blocked in `ar.wait(5)` (`pingWait`); the ping loop may be asleep.  Each
  blocking I/O call takes its outcome as a parameter of the operation that lets it return.
  The receive loop does not dispatch a frame itself: it spawns one `_ProcessReply` greenlet
  per frame (`pending`, oldest first) which `_Shutdown` does not kill; they run when the
  receive loop next yields — after the reads that were already buffered, and after the
  `_Shutdown` that a failing one of those reads causes (`burst`).
  A completed handshake ping does not make the transport Open by itself: `_ProcessReply` only
  sets the ping's result (`ar.set()`), and the `_OpenImpl` greenlet that waits for it resumes
  later in the same drain.  Something else can run in between — the failing next read of the
  receive loop, a failing write of the send loop, a `Close()` (`race`, positions `pre`/`mid`,
  and `first` for an event that is noticed before the frames of the same drain are even read).
  `_OpenImpl` then finds the transport shut down and fails the open (repair F16) instead of
  declaring it Open.
  Time is abstract: `pingDue` is "the ping loop's sleep ends", `pingSilence` is "five seconds
  passed since the ping was queued and no Rping arrived".  Tags are opaque keys (the tag pool
  is C11's subject): the tag the pool handed out is a parameter of `req`.  Callers of
  `AsyncProcessRequest` that arrive while the open is pending block on the open result (`PSt`:
  the transport, a connect in progress, the blocked callers).  Import-free.
-/
import ScalesModel.Model.Transport
namespace Scales.MuxT
open Scales.Transport

/-- an entry of the send queue / a frame on the wire -/
inductive Item where
  | ping
  | req (tag : Nat) (id : Nat)
  deriving Repr, DecidableEq, Inhabited

/-- send loop -/
inductive SL where
  | dead
  | waitQ
  | writing (it : Item)
  deriving Repr, DecidableEq, Inhabited

/-- receive loop -/
inductive RL where
  | dead
  | hdr
  | body
  deriving Repr, DecidableEq, Inhabited

/-- a frame read from the peer -/
inductive Frame where
  | rping                -- Rping on tag 1
  | reply (tag : Nat)    -- any other frame on a non-zero tag
  | junk                 -- a frame on tag 0
  deriving Repr, DecidableEq, Inhabited

/-- the AsyncResult the last `Open()` returned, as its holder sees it -/
inductive ORes where
  | none
  | pending
  | ok
  | failed
  deriving Repr, DecidableEq, Inhabited

structure St where
  cstate : CS                   -- self._state
  hasOpenResult : Bool          -- self._open_result is not None
  opening : Bool                -- _OpenImpl is blocked on the initial ping
  openRes : ORes
  tagMap : List (Nat × Nat)     -- self._tag_map : tag ↦ request id, insertion order
  sendQ : List Item             -- self._send_queue
  sl : SL
  rl : RL
  pingLoop : Bool               -- the ping loop is alive (asleep)
  pingWait : Bool               -- a ping is outstanding and its helper waits
  pending : List Frame          -- frames read whose `_ProcessReply` greenlet has not run yet
  deriving Repr, DecidableEq

def St.init : St :=
  { cstate := .idle, hasOpenResult := false, opening := false, openRes := .none, tagMap := [],
    sendQ := [], sl := .dead, rl := .dead, pingLoop := false, pingWait := false, pending := [] }

structure Out where
  eff : Eff := {}
  sent : List Item := []
  deriving Repr, DecidableEq

/-- the send loop, if blocked on the queue, takes the next item and blocks in `write` -/
def St.pump (s : St) : St :=
  match s.sl, s.sendQ with
  | .waitQ, it :: rest => { s with sl := .writing it, sendQ := rest }
  | _, _ => s

/-- `_Shutdown(reason, fault)` (both classes).  The loops, the ping loop and the ping helper are
    gone, the outstanding ping is retired (repair F4c: a late Rping finds no ping to answer);
    `_ProcessReply` greenlets already spawned are *not* killed: they run later and find an empty
    tag map. -/
def St.shutdown (s : St) (fault : Bool) : St × Eff :=
  if s.cstate = .closed then (s, {})
  else
    ({ cstate := .closed, hasOpenResult := false, opening := false,
       openRes := if s.openRes = .pending then .failed else s.openRes,
       tagMap := [], sendQ := [], sl := .dead, rl := .dead, pingLoop := false, pingWait := false,
       pending := s.pending },
     { faults := if fault then 1 else 0, dels := s.tagMap.map (fun p => (p.2, Resp.cerr)) })

/-- `Open()` followed by a drain -/
def St.openT (s : St) (r : Conn) : St × Out :=
  if s.hasOpenResult then (s, {})
  else if s.cstate ≠ .idle then (s, {})      -- re-opening a closed mux transport: not modelled
  else
    match r with
    | .refuse =>
      let (s', e) := ({ s with hasOpenResult := true, openRes := .pending } : St).shutdown true
      (s', { eff := { e with conns := 1 } })
    | .ok =>
      (({ s with hasOpenResult := true, openRes := .pending, opening := true, tagMap := [],
                 sendQ := [.ping], sl := .waitQ, rl := .hdr, pingWait := true } : St).pump,
       { eff := { conns := 1 } })

/-- the pending `socket.write` of the send loop returns -/
def St.wr (s : St) (o : IOOut) : St × Out :=
  match s.sl with
  | .writing it =>
    match o with
    | .ok => (({ s with sl := .waitQ } : St).pump, { sent := [it] })
    | _ => let (s', e) := s.shutdown true; (s', { eff := e })
  | _ => (s, {})

/-- `_ProcessReply` for a frame -/
def St.process (s : St) (f : Frame) : St × Eff :=
  match f with
  | .junk => (s, {})
  | .rping =>
    if s.pingWait then
      if s.opening then
        ({ s with pingWait := false, opening := false, cstate := .opened, openRes := .ok,
                  pingLoop := true }, {})
      else ({ s with pingWait := false }, {})
    else (s, {})
  | .reply tag =>
    match s.tagMap.lookup tag with
    | some id =>
      -- `props[Tag.KEY] = None`: if the request's frame still waits in the send queue the send
      -- loop will skip it (repair F6b of C11); a frame the loop is already writing is written
      ({ s with tagMap := s.tagMap.filter (fun p => p.1 ≠ tag),
                sendQ := s.sendQ.filter (fun it => it ≠ .req tag id) }, { dels := [(id, .stream)] })
    | none => (s, {})

/-- one pending read of the receive loop returns.  A completed frame is handed to a new
    `_ProcessReply` greenlet (`gevent.spawn`), which does not run yet. -/
def St.rdRaw (s : St) (o : IOOut) (f : Frame) : St × Eff :=
  match s.rl with
  | .dead => (s, {})
  | .hdr =>
    match o with
    | .ok => ({ s with rl := .body }, {})
    | _ => s.shutdown true
  | .body =>
    match o with
    | .ok => ({ s with rl := .hdr, pending := s.pending ++ [f] }, {})
    | _ => s.shutdown true

/-- the reads of a burst return one after the other without the receive loop yielding -/
def St.rdMany (s : St) : List (IOOut × Frame) → St × Eff
  | [] => (s, {})
  | (o, f) :: rest =>
    let (s1, e1) := s.rdRaw o f
    let (s2, e2) := s1.rdMany rest
    (s2, { faults := e1.faults + e2.faults, dels := e1.dels ++ e2.dels, conns := e1.conns + e2.conns })

/-- the `_ProcessReply` greenlets of the frames `fs` run, oldest first -/
def dispatchGo : List Frame → St → St × List (Nat × Resp)
  | [], s => (s, [])
  | f :: fs, s =>
    let (s1, e1) := s.process f
    let (s2, d2) := dispatchGo fs s1
    (s2, e1.dels ++ d2)

/-- the drain after the receive loop yields: every pending `_ProcessReply` greenlet runs -/
def St.dispatch (s : St) : St × List (Nat × Resp) :=
  dispatchGo s.pending { s with pending := [] }

/-- the pending read of the receive loop returns, and so do the reads that follow it in `rs`
    (their bytes, or the end of stream / error, are already there): no other greenlet runs in
    between.  Then the drain: the `_ProcessReply` greenlets of the frames completed meanwhile
    run — also if one of the reads failed and `_Shutdown` ran first. -/
def St.burst (s : St) (rs : List (IOOut × Frame)) : St × Out :=
  let (s1, e1) := s.rdMany rs
  let (s2, d2) := s1.dispatch
  (s2, { eff := { e1 with dels := e1.dels ++ d2 } })

/-- the pending read of the receive loop returns; drain -/
def St.rd (s : St) (o : IOOut) (f : Frame) : St × Out := s.burst [(o, f)]

/-- the ping loop wakes up and sends a ping -/
def St.pingDue (s : St) : St × Out :=
  if s.pingLoop && !s.pingWait && s.cstate = .opened then
    (({ s with pingWait := true, sendQ := s.sendQ ++ [.ping] } : St).pump, {})
  else (s, {})

/-- five seconds after a ping was queued no Rping has arrived: `_PingTimeoutHelper` -/
def St.pingSilence (s : St) : St × Out :=
  if s.pingWait then let (s', e) := s.shutdown true; (s', { eff := e })
  else (s, {})

/-- `AsyncProcessRequest` (two-way message, no deadline event) followed by a drain -/
def St.request (s : St) (id tag : Nat) : St × Out :=
  if s.opening then (s, {})            -- the caller would block on the open result: `PSt.park`
  else if s.cstate = .opened then
    (({ s with tagMap := s.tagMap ++ [(tag, id)], sendQ := s.sendQ ++ [.req tag id] } : St).pump, {})
  else (s, { eff := { dels := [(id, .other)] } })

/-- `Close()` -/
def St.close (s : St) : St × Out :=
  let (s', e) := s.shutdown false
  (s', { eff := e })

/-! ### events that land in the middle of a drain

  Between two operations of the model the callback list of the event loop is empty.  Within
  one drain the order is: the receive loop takes the reads that are there (`rdMany`) and
  spawns one `_ProcessReply` greenlet per frame; those run (`dispatchQ`); the greenlets they
  woke — `_OpenImpl` blocked in `ar.get()` on the handshake's ping, the ping helper — resume
  (`resumeOpen`).  A *hit* is an event of the environment that is noticed somewhere in
  between. -/

/-- the event that lands in the middle of the drain -/
inductive Hit where
  | rdRaise     -- the receive loop's next read raises
  | rdEof       -- the receive loop's next read meets the end of the stream
  | wr          -- the send loop's pending write raises
  | close       -- `Close()` is called
  deriving Repr, DecidableEq, Inhabited

/-- is the event a connection failure (`Close()` is not: no fault signal) -/
def Hit.isFault : Hit → Bool
  | .close => false
  | _ => true

/-- where it lands -/
inductive Pos where
  | first       -- before the receive loop has taken the reads of this drain
  | pre         -- after the reads, before the `_ProcessReply` greenlets of their frames run
  | mid         -- after those ran, before the greenlets they woke resume
  deriving Repr, DecidableEq, Inhabited

/-- the hit itself: the loop concerned (if it is still there) calls `_Shutdown(e)`; `Close()` is
    `_Shutdown` without the fault signal -/
def St.hit (s : St) : Hit → St × Eff
  | .rdRaise => if s.rl = .dead then (s, {}) else s.shutdown true
  | .rdEof => if s.rl = .dead then (s, {}) else s.shutdown true
  | .wr =>
    match s.sl with
    | .writing _ => s.shutdown true
    | _ => (s, {})
  | .close => s.shutdown false

/-- does the `_ProcessReply` greenlet of `f` complete the ping `_OpenImpl` is waiting for -/
def St.wakes (s : St) (f : Frame) : Bool :=
  decide (f = .rping) && s.pingWait && s.opening

/-- `_ProcessReply` for a frame, up to but not including the resumption of the greenlets it
    wakes: the handshake's Rping sets the ping's result — `_OpenImpl` is no longer blocked on it,
    but has not run yet -/
def St.processQ (s : St) (f : Frame) : St × Eff :=
  if s.wakes f then ({ s with pingWait := false, opening := false }, {}) else s.process f

/-- the `_ProcessReply` greenlets of the frames run, oldest first; the flag says whether one of
    them (or an earlier one: `w`) woke `_OpenImpl` -/
def dispatchQGo : List Frame → St → Bool → St × List (Nat × Resp) × Bool
  | [], s, w => (s, [], w)
  | f :: fs, s, w =>
    let (s1, e1) := s.processQ f
    let (s2, d2, w2) := dispatchQGo fs s1 (w || s.wakes f)
    (s2, e1.dels ++ d2, w2)

def St.dispatchQ (s : St) : St × List (Nat × Resp) × Bool :=
  dispatchQGo s.pending { s with pending := [] } false

/-- `_OpenImpl` resumes from `ar.get()` with the handshake's Rping.  Repair F16: if `_Shutdown`
    ran meanwhile this is not an open transport — 'Connection lost while opening.'; the open
    result was already failed by that `_Shutdown`, the `_Shutdown('Open failed')` of the handler
    returns at once.  Otherwise the transport is Open and the ping loop starts. -/
def St.resumeOpen (s : St) : St :=
  if s.cstate = .closed then s
  else { s with cstate := .opened, openRes := .ok, pingLoop := true, opening := false }

/-- … if it was woken -/
def St.resumeIf (s : St) : Bool → St
  | true => s.resumeOpen
  | false => s

/-- effects of two consecutive parts of one operation -/
def effApp (a b : Eff) : Eff :=
  { faults := a.faults + b.faults, dels := a.dels ++ b.dels, conns := a.conns + b.conns }

/-- The reads `rs` of the receive loop return without a yield in between, as in `burst`, and in
    the same drain the event `h` lands at position `pos`.
    * `first`: `h` is noticed first; the reads find a receive loop that has been killed (their
      frames, if the loop still completes one, are dispatched on a closed transport and dropped).
    * `pre`: the receive loop has taken the reads and spawned the `_ProcessReply` greenlets, `h`
      runs, then they do — on a transport that has been shut down.
    * `mid`: the `_ProcessReply` greenlets have run — replies are delivered, a ping is answered —
      then `h` runs, and only then do the greenlets resume that the frames woke. -/
def St.race (s : St) (rs : List (IOOut × Frame)) (pos : Pos) (h : Hit) : St × Out :=
  match pos with
  | .first =>
    let r1 := s.hit h
    let r2 := r1.1.burst rs
    (r2.1, { eff := effApp r1.2 r2.2.eff })
  | .pre =>
    let r1 := s.rdMany rs
    let r2 := r1.1.hit h
    let r3 := r2.1.dispatch
    (r3.1, { eff := effApp (effApp r1.2 r2.2) { dels := r3.2 } })
  | .mid =>
    let r1 := s.rdMany rs
    let r2 := r1.1.dispatchQ
    let r3 := r2.1.hit h
    (r3.1.resumeIf r2.2.2, { eff := effApp (effApp r1.2 { dels := r2.2.1 }) r3.2 })

/-- `Open()` on an endpoint that accepts the connection and whose first bytes — or reset, or end
    of stream — are already there when the receive loop starts: `_OpenImpl` connects, spawns the
    receive loop, the send loop and (with the handshake's Tping) the ping helper and blocks; the
    receive loop, first to start, runs through the reads `rs` before the other two have started
    (a failing read shuts the transport down before the send loop ever runs and before the helper
    has picked up its ping); then the drain.  In effect: the open, then the burst. -/
def St.openBurst (s : St) (rs : List (IOOut × Frame)) : St × Out :=
  let r1 := s.openT .ok
  let r2 := r1.1.burst rs
  (r2.1, { eff := { faults := r2.2.eff.faults, dels := r2.2.eff.dels, conns := r1.2.eff.conns } })

/-! ### callers blocked on the open result

  `AsyncProcessRequest` on a transport whose `Open()` is pending (`_state == Idle and
  _open_result`) blocks in `_open_result.wait()`.  The open is pending while `_OpenImpl` is
  blocked in `socket.open()` (`connecting`: a connect takes time, and the greenlet yields in it)
  and then while it waits for the handshake's Rping (`St.opening`).  The callers resume when the
  result is set — by `_OpenImpl` returning (success), or by the `_Shutdown` that fails the
  pending result (refused connect, a read or write fault during the handshake, ping silence,
  `Close()`) — and they resume *last* in that drain, oldest first: the notification of the result's
  waiters is scheduled when the result is set, behind everything that was already runnable.
  Each of them then goes on with `AsyncProcessRequest` on the transport as it is by then: Open — a
  tag, the tag map, the send queue; shut down — the 'Sink not open.' error, and nothing is
  queued. -/

/-- the transport right after `Open()` while `_OpenImpl` is blocked in the connect: the open
    result exists and is pending, no loop has been spawned yet -/
def St.connecting0 : St := { St.init with hasOpenResult := true, openRes := .pending }

/-- the transport together with the callers blocked on its open result -/
structure PSt where
  t : St
  connecting : Bool := false          -- `_OpenImpl` is blocked in `self._socket.open()`
  parked : List (Nat × Nat) := []     -- (request id, the tag the pool hands it if it goes on), oldest first
  deriving Repr, DecidableEq

def PSt.init : PSt := { t := St.init }

/-- `self._state == Idle and self._open_result`: a caller of `AsyncProcessRequest` blocks -/
def PSt.waiting (ps : PSt) : Bool :=
  ps.t.opening || (ps.connecting && decide (ps.t.cstate = .idle))

/-- the blocked callers resume, oldest first: each goes on with `AsyncProcessRequest` -/
def parkedGo : List (Nat × Nat) → St → St × List (Nat × Resp)
  | [], t => (t, [])
  | p :: rest, t =>
    let r1 := t.request p.1 p.2
    let r2 := parkedGo rest r1.1
    (r2.1, r1.2.eff.dels ++ r2.2)

/-- the end of the drain of an operation that took the transport to `t'`: if the open result
    has been set meanwhile the blocked callers resume — after everything else of that drain -/
def PSt.finish (ps : PSt) (t' : St) (c' : Bool) (o : Out) : PSt × Out :=
  if ({ t := t', connecting := c', parked := ps.parked } : PSt).waiting then
    ({ t := t', connecting := c', parked := ps.parked }, o)
  else
    let w := parkedGo ps.parked t'
    ({ t := w.1, connecting := c', parked := [] },
     { o with eff := { o.eff with dels := o.eff.dels ++ w.2 } })

/-- `Open()` whose connect does not conclude at once: `_OpenImpl` blocks in `socket.open()` -/
def PSt.openStart (ps : PSt) : PSt × Out :=
  if ps.t.cstate = .idle ∧ ps.t.hasOpenResult = false ∧ ps.connecting = false then
    ({ ps with t := St.connecting0, connecting := true }, {})
  else (ps, {})

/-- the connect in progress concludes: refused, or accepted — then, as in `openBurst`, with the
    outcomes `rs` of the receive loop's first reads already there (`[]`: nothing yet).  If
    `Close()` was called meanwhile `_OpenImpl` goes on on a transport that is shut down: the
    loops it spawns end at once, nothing is visible any more (but the connect attempt). -/
def PSt.connected (ps : PSt) (r : Conn) (rs : List (IOOut × Frame)) : PSt × Out :=
  if ps.connecting then
    if ps.t.cstate = .closed then ({ ps with connecting := false }, { eff := { conns := 1 } })
    else
      match r with
      | .refuse => let x := St.init.openT .refuse; ps.finish x.1 false x.2
      | .ok => let x := St.init.openBurst rs; ps.finish x.1 false x.2
  else (ps, {})

/-- `AsyncProcessRequest` while the open is pending: the caller blocks.  `tag`: what the pool
    hands it if it goes on after a successful open. -/
def PSt.park (ps : PSt) (id tag : Nat) : PSt × Out :=
  if ps.waiting then ({ ps with parked := ps.parked ++ [(id, tag)] }, {})
  else (ps, {})                      -- it would not block: that is `request`

/-! ### the code as found (before repair F16), for the counterexample theorem only -/

/-- `_OpenImpl` as found: after `ar.get()` returned it declared the transport Open without
    looking at what had happened meanwhile -/
def St.resumeOpenAsFound (s : St) : St :=
  { s with cstate := .opened, openRes := .ok, pingLoop := true, opening := false }

/-- `race … mid h` with `_OpenImpl` as found -/
def St.raceMidAsFound (s : St) (rs : List (IOOut × Frame)) (h : Hit) : St × Out :=
  let r1 := s.rdMany rs
  let r2 := r1.1.dispatchQ
  let r3 := r2.1.hit h
  ((match r2.2.2 with
    | true => r3.1.resumeOpenAsFound
    | false => r3.1), { eff := effApp (effApp r1.2 { dels := r2.2.1 }) r3.2 })

end Scales.MuxT
