/-
  Model/Proxy.lean — C20: executable model of ClientProxyBuilder._BuildServiceProxy
  (scales/core.py).  Import-free.

  An interface is the list of its classes in method-resolution order, each with the names of
  the functions it defines.  `inspect.getmembers(Iface, is_user_method)` yields every
  attribute name once (inheritance flattened) whose value is a function not named `__x` or
  `x__`.  The generated class dictionary is built exactly as the code builds it:

      iface_methods = { m: sync(m) }                 for every user method m
      iface_methods.update({ m + "_async": async(m) })  -- later entries replace earlier ones

  so a user method that is itself called `foo_async` loses its blocking form when `foo`
  exists (known finding K2); the model reproduces that.
-/
namespace Scales.Proxy

abbrev Name := List Char

def asyncSuffix : Name := ['_', 'a', 's', 'y', 'n', 'c']

def dunder : Name := ['_', '_']

/-- is_user_method, as far as it depends on the name -/
def isUserMethod (n : Name) : Bool := !dunder.isPrefixOf n && !dunder.isSuffixOf n

/-- first occurrences -/
def dedup : List Name → List Name
  | [] => []
  | x :: xs => x :: (dedup xs).filter (fun y => y ≠ x)

/-- the user methods of an interface given as its classes (each a list of function names) -/
def userMethods (classes : List (List Name)) : List Name :=
  (dedup classes.flatten).filter isUserMethod

inductive Form where
  | sync | async
  deriving DecidableEq, Repr

/-- a generated attribute: which form, and the method name it hands to the dispatcher -/
abbrev Gen := Form × Name

abbrev Table := List (Name × Gen)

/-- `d[k] = v` -/
def dset (k : Name) (v : Gen) : Table → Table
  | [] => [(k, v)]
  | (k', v') :: rest => if k' = k then (k', v) :: rest else (k', v') :: dset k v rest

def dget (k : Name) : Table → Option Gen
  | [] => none
  | (k', v) :: rest => if k' = k then some v else dget k rest

def dupdate (t : Table) (kvs : List (Name × Gen)) : Table :=
  kvs.foldl (fun t kv => dset kv.1 kv.2 t) t

/-- the generated class dictionary for user methods `ms` -/
def table (ms : List Name) : Table :=
  dupdate (ms.map (fun m => (m, (Form.sync, m))))
    (ms.map (fun m => (m ++ asyncSuffix, (Form.async, m))))

/-- how the stubbed dispatcher's result completes -/
inductive Outcome where
  | ok (v : Int)
  | err (e : Int)
  deriving DecidableEq, Repr

/-- what the caller of a generated attribute gets back -/
inductive Ret where
  /-- the dispatcher's AsyncResult itself -/
  | pending
  | value (v : Int)
  | raised (e : Int)
  deriving DecidableEq, Repr

def Outcome.ret : Outcome → Ret
  | .ok v => .value v
  | .err e => .raised e

/-- one call of a generated attribute: what reaches the dispatcher, whether the caller was
    blocked until the result completed (`late` = the result completes only after the call was
    made), and what the caller got -/
structure Fwd where
  method : Name
  args : List Int
  kwargs : List (Name × Int)
  blocked : Bool
  ret : Ret
  deriving DecidableEq, Repr

def callGen (g : Gen) (args : List Int) (kwargs : List (Name × Int)) (late : Bool) (out : Outcome) : Fwd :=
  match g.1 with
  | .sync => ⟨g.2, args, kwargs, late, out.ret⟩
  | .async => ⟨g.2, args, kwargs, false, .pending⟩

end Scales.Proxy
