/-
  Model/ThriftShared.lean — one `MessageSerializer` (scales/thrift/serializer.py) inside the
  single `ThriftSerializerSink` of a client (scales/thrift/sink.py), which sits ABOVE the load
  balancer and the pool: every connection of the client serializes its calls and deserializes
  its replies through the same object.  Several calls are open at once, each on its own serial
  connection (`SocketTransportSink`: one transaction at a time), and the replies arrive in any
  order and in any chunking.

  What the serializer may use to decode a reply is the reply itself and the interface (the
  generated service module): `DeserializeThriftCall` takes the method name from the reply's
  message header and looks `<name>_result` up in the module.  Nothing is carried over from
  `SerializeThriftCall`, so the state of the model is one record per call and a step of one
  call reads and writes the record of that call only.

  Built on Model/ThriftCodec.lean (binary protocol, frame, `readAll`, the reply decision for
  a given result class).  Import-free.
-/
import ScalesModel.Core.Val
import ScalesModel.Model.ThriftCodec
namespace Scales.ThriftShared
open Scales.ThriftCodec

/-! ## the read path up to the decoded message -/

/-- what the transport's read path and `readMessageBegin` / the generic struct reader make of
    the pieces delivered so far -/
inductive Rd where
  | msg (m : Msg)          -- a whole frame was read and decoded
  | eof                    -- `recv` returned nothing before the frame was complete
  | bad (o : Outcome)      -- undecodable payload (or the read loop out of fuel: never, theorem)
  deriving DecidableEq

/-- `unpack('!i', readAll(4))`, `readAll(sz)`, `readMessageBegin`, the struct — the part of
    `ThriftCodec.clientOutcome` before the decision (`clientOutcome_readMsg`) -/
def readMsg (ps : List Bytes) : Rd :=
  match readAll 4 ps with
  | .ok hdr rest =>
    let sz := toSigned 4 (fromBE hdr)
    (match readAll sz.toNat rest with
     | .ok payload _ =>
       (match decMsg payload with
        | some m => .msg m
        | none => .bad (.err true .decode))
     | .eof => .eof
     | .fuel => .bad (.err true (.other "fuel")))
  | .eof => .eof
  | .fuel => .bad (.err true (.other "fuel"))

/-! ## the interface -/

/-- `_FindClass('%s_result' % fn_name)`: the result class of that name in the service module
    (a module has at most one attribute of a name: the first match) -/
def findSig : List Sig → Bytes → Option Sig
  | [], _ => none
  | s :: rest, name => if s.name = name then some s else findSig rest name

/-- `DeserializeThriftCall` on a decoded message: EXCEPTION → application exception; otherwise
    the result class is the one named by the *reply*; without one, an empty return message -/
def decideI (sigs : List Sig) (m : Msg) : Outcome :=
  if m.mtype = mtException then
    let (ty, msg) := appOf m.body (0, none)
    .err true (.app ty msg)
  else
    match findSig sigs m.name with
    | some sig => decide_ sig m
    | none => .none_

/-- what the caller of a call has got once the pieces `ps` were delivered on its connection
    (`closed`: the server closed the connection afterwards).  `none`: the transport is parked
    in `recv` — the call is still pending. -/
def sharedOutcome (sigs : List Sig) (ps : List Bytes) (closed : Bool) : Option Outcome :=
  match readMsg ps with
  | .msg m => some (decideI sigs m)
  | .eof => if closed then some (.err true .eof) else none
  | .bad o => some o

/-! ## calls in flight -/

/-- one call of the client -/
structure Call where
  m : Nat                      -- index of its method in the interface
  conn : Nat                   -- the connection it was sent on
  reply : Option Reply         -- what the server's handler answered (once it has)
  flen : Nat                   -- length of the reply frame the server wrote
  sizes : List Nat             -- sizes of the pieces of that frame handed to the socket so far
  closed : Bool                -- the server closed the connection
  deriving DecidableEq

/-- the byte stream the server has for the call's connection -/
def Call.stream (sigs : List Sig) (cl : Call) : Bytes :=
  match cl.reply, sigs[cl.m]? with
  | some r, some sig => replyBytes sig.name r
  | _, _ => []

/-- the pieces that reached the client's socket: the stream cut by the sizes asked for
    (empty pieces are not delivered; nothing beyond the end of the stream) -/
def Call.pieces (sigs : List Sig) (cl : Call) : List Bytes := splitBy cl.sizes (cl.stream sigs)

def Call.outcome (sigs : List Sig) (cl : Call) : Option Outcome :=
  sharedOutcome sigs (cl.pieces sigs) cl.closed

/-- hand the next `n` bytes of the stream to the socket (nothing after the server closed) -/
def Call.feed (cl : Call) (n : Nat) : Call :=
  if cl.closed then cl else { cl with sizes := cl.sizes ++ [n] }

def Call.close (cl : Call) : Call := { cl with closed := true }

end Scales.ThriftShared
