/-
  Model/ResMux.lean — the chain the ThriftMux builder assembles below the balancer
  (scales/thriftmux/builder.py):

      ResurrectorSink (scales/resurrector.py)  →  SocketTransportSink (scales/thriftmux/sink.py,
                                                    scales/mux/sink.py)

  There is no pool between the two: the resurrector's `next_factory` is the transport's provider,
  `CreateSink` makes a fresh socket and a fresh transport, and the resurrector subscribes to the
  transport's `on_faulted` itself.

  The transport is Model/MuxT.lean (the model C08 is proved on), one instance: the *newest*
  transport.  An older one is always dead (closed by `_Shutdown`, its loops killed, no timer left).
  On top of it:

    * the resurrector: `next_sink` (`inst`), its subscription (`sub`), `_down_on` (`down`), the
      `_TryResurrect` greenlet (`rg`: asleep until `wakeAt`, or blocked in `sink.Open().get()`);
    * the callers blocked in `_open_result.wait()` of an installed transport whose opening
      handshake (connect, Tping, Rping) is still in progress (`waiters`);
    * real time: the 5 s of `_PingTimeoutHelper` (`pingDl`), the ping loop's sleep (`pingDue`; the
      period drawn by `random.randint(30, 40)` is a parameter), the retry sleep.

  Granularity: every function below is one stimulus from outside *followed by a full drain of
  gevent's callback list* — the state between two operations is quiescent.  `absorb` is what the
  drain does with the outcome of a transport step: the fault signal reaches `_OnSinkFaulted` (if
  subscribed), a completed or failed open result resumes the retry greenlet and the blocked
  callers.

  Repaired behaviour (finding F16): a connection failure that lands between the dispatch of the
  handshake's Rping and the resumption of the `_OpenImpl` greenlet fails the open (`raceT`); the
  code as found reported such a transport Open and the resurrector installed it.

  Times are µs.  Import-free.
-/
import ScalesModel.Model.Resurrector
import ScalesModel.Model.MuxT
namespace Scales.ResMux
open Scales.Transport
open Scales.Res (Par nextWait)

/-- `self._ping_timeout = 5` -/
def pingTimeout : Nat := 5000000

/-- the `_TryResurrect` greenlet, at quiescence -/
inductive RG where
  | none
  | sleep (wakeAt : Nat) (wait : Nat)    -- in `gevent.sleep(wait)`
  | opening (wait : Nat)                 -- in `sink.Open().get()` of the newest transport
  deriving Repr, DecidableEq, Inhabited

/-- what a caller's sink stack is handed -/
inductive RK where
  | ff        -- FailedFastError (resurrector)
  | stream    -- a reply
  | cerr      -- ClientError (transport shut down with the request in flight)
  | other     -- 'Sink not open.'
  deriving Repr, DecidableEq, Inhabited

/-- parameters: the resurrector's (initial wait, maximum, back-off function) and the ping period -/
structure P where
  r : Par
  period : Nat

structure St where
  now : Nat := 0
  reach : Bool := true            -- the endpoint accepts connections
  tr : MuxT.St := MuxT.St.init    -- the newest transport
  made : Nat := 0                 -- transports created so far
  inst : Bool := false            -- `next_sink` is the newest transport
  sub : Bool := false             -- `_OnSinkFaulted` is subscribed to its `on_faulted`
  down : Bool := false            -- `_down_on` is set
  rg : RG := .none
  waiters : List Nat := []        -- callers blocked in `_open_result.wait()`, oldest first
  pingDl : Option Nat := none     -- instant at which `_PingTimeoutHelper` gives up
  pingDue : Option Nat := none    -- instant at which the ping loop wakes
  ups : Nat := 0                  -- notifications delivered to the balancer's subscription
  deriving Repr, DecidableEq

/-- what one operation shows outside -/
structure Out where
  conns : Nat := 0                      -- connect attempts
  dels : List (Nat × RK) := []          -- responses handed to callers
  sent : List MuxT.Item := []           -- frames that reached the peer
  deriving Repr, DecidableEq

def Out.app (a b : Out) : Out := ⟨a.conns + b.conns, a.dels ++ b.dels, a.sent ++ b.sent⟩

/-- the tag a request travels under (tags are C11's subject: distinct for requests in flight) -/
def tagOf (id : Nat) : Nat := id + 1

def cvt : Resp → RK
  | .stream => .stream
  | .cerr => .cerr
  | _ => .other

def cvtDels (l : List (Nat × Resp)) : List (Nat × RK) := l.map (fun d => (d.1, cvt d.2))

/-- the callers blocked on the open result resume, oldest first: `AsyncProcessRequest` continues -/
def wakeGo : List Nat → MuxT.St → MuxT.St × List (Nat × Resp)
  | [], t => (t, [])
  | id :: ids, t =>
    let r1 := t.request id (tagOf id)
    let r2 := wakeGo ids r1.1
    (r2.1, r1.2.eff.dels ++ r2.2)

/-- `ResurrectorSink._OnSinkFaulted` (the faulted sink is closed already: `sink.Close()` is a no-op) -/
def onFault (p : P) (s : St) : St :=
  if s.down then { s with ups := s.ups + 1 }
  else { s with down := true, inst := false, sub := false,
                rg := .sleep (s.now + p.r.init) p.r.init, ups := s.ups + 1 }

/-- `sink.Open().get()` returned in `_TryResurrect`: subscribe, install, leave the down state -/
def resSuccess (s : St) : St :=
  if s.down then { s with inst := true, sub := true, down := false, rg := .none }
  else { s with rg := .none }

/-- `sink.Open().get()` raised: `sink.Close()` (no-op on the failed transport), back off, sleep -/
def resFailure (p : P) (s : St) (w : Nat) : St :=
  { s with rg := .sleep (s.now + nextWait p.r w) (nextWait p.r w) }

/-- the drain after a step of the newest transport, first part: the transport itself (the ping
    helper's and the ping loop's timers start and stop with the flags of the transport; if the open
    result was pending and is not any more, the callers blocked on it go on) -/
def settle (p : P) (s : St) (t' : MuxT.St) : St × List (Nat × Resp) :=
  let t := s.tr
  let wk := if t.openRes = .pending ∧ t'.openRes ≠ .pending then wakeGo s.waiters t' else (t', [])
  ({ s with
     tr := wk.1
     waiters := if t.openRes = .pending ∧ t'.openRes ≠ .pending then [] else s.waiters
     pingDl := if t'.pingWait then (if t.pingWait then s.pingDl else some (s.now + pingTimeout)) else none
     pingDue := if t'.pingLoop then (if t.pingLoop then s.pingDue else some (s.now + p.period)) else none },
   wk.2)

/-- second part: the fault signal reaches `_OnSinkFaulted`, if it is subscribed -/
def react (p : P) (s : St) (faults : Nat) : St :=
  if 0 < faults ∧ s.sub = true then onFault p s else s

/-- third part: the retry greenlet blocked on the open result `r` of the newest transport -/
def resume (p : P) (s : St) (r : MuxT.ORes) : St :=
  match s.rg with
  | .opening w =>
    if r = .ok then resSuccess s
    else if r = .failed then resFailure p s w
    else s
  | _ => s

/-- the drain after a step of the newest transport that took it from `s.tr` to `t'` -/
def absorb (p : P) (s : St) (t' : MuxT.St) (o : MuxT.Out) : St × Out :=
  let a := settle p s t'
  (resume p (react p a.1 o.eff.faults) t'.openRes,
   { conns := o.eff.conns, dels := cvtDels (o.eff.dels ++ a.2), sent := o.sent })

/-- `CreateSink` + `Open()` of a fresh transport: the connect meets the endpoint's reachability -/
def connect (s : St) : MuxT.St × MuxT.Out :=
  MuxT.St.init.openT (if s.reach then .ok else .refuse)

/-- `ResurrectorSink.Open()` (called once, by the balancer) -/
def doOpen (p : P) (s : St) : St × Out :=
  if s.inst then (s, {})
  else
    let c := connect s
    absorb p { s with tr := MuxT.St.init, made := s.made + 1, inst := true, sub := true, waiters := [],
                      pingDl := none, pingDue := none } c.1 c.2

/-- the retry greenlet wakes from `gevent.sleep(w)`: lines 77–84 of resurrector.py -/
def resWake (p : P) (s : St) (w : Nat) : St × Out :=
  let c := connect s
  absorb p { s with tr := MuxT.St.init, made := s.made + 1, rg := .opening w,
                    pingDl := none, pingDue := none } c.1 c.2

/-- `ResurrectorSink.AsyncProcessRequest` for a fresh request `id` -/
def doReq (p : P) (s : St) (id : Nat) : St × Out :=
  if s.inst = false then (s, { dels := [(id, .ff)] })
  else if s.tr.opening then ({ s with waiters := s.waiters ++ [id] }, {})
  else
    let r := s.tr.request id (tagOf id)
    absorb p s r.1 r.2

/-- the pending `socket.write` of the newest transport's send loop returns -/
def doWr (p : P) (s : St) (o : IOOut) : St × Out :=
  let r := s.tr.wr o
  absorb p s r.1 r.2

/-- the pending read of its receive loop returns, and the reads of `rs` behind it without a yield -/
def doBurst (p : P) (s : St) (rs : List (IOOut × MuxT.Frame)) : St × Out :=
  let r := s.tr.burst rs
  absorb p s r.1 r.2

/-- The pending *body* read of the receive loop returns with the frame `f`, and the read behind it
    with `o`, in this order of events: the receive loop spawns `_ProcessReply` and blocks in the
    next read; that read's outcome arrives before `_ProcessReply` has been scheduled; so
    `_ProcessReply` runs (the frame takes effect), then the receive loop sees `o`, and only then
    do the greenlets woken by the frame resume.  For every frame but one this is the same as the
    two reads one after the other.  The exception is the handshake's Rping: the `_OpenImpl`
    greenlet it wakes resumes *after* `_Shutdown`, finds the transport closed and fails the open
    (repair F16) — the outcome of a burst in which the failing read came first. -/
def raceT (t : MuxT.St) (f : MuxT.Frame) (o : IOOut) : MuxT.St × MuxT.Out :=
  if t.opening = true ∧ f = .rping then t.burst [(.ok, f), (o, .junk)]
  else
    let r1 := t.rd .ok f
    let r2 := r1.1.rd o .junk
    (r2.1, { eff := { faults := r1.2.eff.faults + r2.2.eff.faults,
                      dels := r1.2.eff.dels ++ r2.2.eff.dels, conns := 0 }, sent := [] })

def doRace (p : P) (s : St) (f : MuxT.Frame) (o : IOOut) : St × Out :=
  let r := raceT s.tr f o
  absorb p s r.1 r.2

def due (t : Option Nat) (now : Nat) : Bool :=
  match t with
  | some x => decide (x ≤ now)
  | none => false

/-- `_PingTimeoutHelper` gives up if its five seconds are over -/
def tickPing (p : P) (s : St) : St × Out :=
  if due s.pingDl s.now then
    let r := s.tr.pingSilence
    absorb p s r.1 r.2
  else (s, {})

/-- the ping loop sends a ping if its sleep is over, and sleeps again -/
def tickLoop (p : P) (s : St) : St × Out :=
  if due s.pingDue s.now then
    let r := s.tr.pingDue
    let a := absorb p s r.1 r.2
    ({ a.1 with pingDue := if a.1.tr.pingLoop then some (a.1.now + p.period) else none }, a.2)
  else (s, {})

/-- the retry greenlet wakes and connects if its sleep is over -/
def tickWake (p : P) (s : St) : St × Out :=
  match s.rg with
  | .sleep wk w => if wk ≤ s.now then resWake p s w else (s, {})
  | _ => (s, {})

/-- the clock advances by `d`; what is due then happens: the ping helper gives up, the ping loop
    sends a ping, the retry greenlet wakes and connects -/
def doTick (p : P) (s : St) (d : Nat) : St × Out :=
  let r1 := tickPing p { s with now := s.now + d }
  let r2 := tickLoop p r1.1
  let r3 := tickWake p r2.1
  (r3.1, (r1.2.app r2.2).app r3.2)

/-- `ResurrectorSink.Close()`: the retry greenlet is killed (the kill lands within the drain; a
    transport it was opening is left to itself), `_down_on` cleared, the next sink unsubscribed
    and closed -/
def doClose (p : P) (s : St) : St × Out :=
  let s1 : St := { s with rg := .none, down := false }
  if s1.inst then
    let r := s1.tr.close
    absorb p { s1 with sub := false } r.1 r.2
  else (s1, {})

/-- `ResurrectorSink.state` -/
def stateOf (s : St) : CS :=
  if s.down then .closed
  else if s.inst = false then .idle
  else s.tr.cstate

/-- connections the client holds open -/
def live (t : MuxT.St) : Nat := if t.opening = true ∨ t.cstate = .opened then 1 else 0

def optMin (a b : Option Nat) : Option Nat :=
  match a, b with
  | some x, some y => some (min x y)
  | some x, none => some x
  | none, b => b

/-- the earliest instant at which something of the chain is due -/
def nextTimer (s : St) : Option Nat :=
  optMin (optMin s.pingDl s.pingDue) (match s.rg with | .sleep wk _ => some wk | _ => none)

end Scales.ResMux
