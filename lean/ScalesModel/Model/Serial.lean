/-
  Model/Serial.lean — scales/thrift/sink.py : SocketTransportSink (the serial framed
  transport: one transaction at a time) over scales/varz.py VarzSocketWrapper.

  A transaction is the greenlet `_AsyncProcessTransaction`:
      checkDeadline → write(frame) → readAll(4) → readAll(sz) → deliver
  Each blocking I/O call takes its outcome as a parameter of the operation that lets it
  return (`io o`), the firing of the transaction's `gevent.Timeout` while it is blocked in
  such a call is the operation `timeoutHere r` (r = outcome of the re-connect the handler
  makes, when that connect concludes without yielding) or `timeoutBlock` (the connect takes
  time: `socket.open()` is a blocking call like the others, the greenlet yields in it with
  `_processing` still set and the socket handle gone — phase `reconn` — until the operation
  `reconn r` lets it conclude; only then is the request handed its TimeoutError).  Between two
  blocking calls the greenlet is atomic (gevent is cooperative).

  The model describes the code *after* the repair of F4/F4b (the re-connect in the timeout
  handler is guarded: it is only made if the socket was connected, and a refused re-connect
  goes through `_Fault`).  Import-free.
-/
import ScalesModel.Model.Transport
namespace Scales.Serial
open Scales.Transport

/-- where the transaction greenlet is blocked -/
inductive Phase where
  | write
  | read4
  | readN
  | reconn               -- in the time-out handler, blocked in the re-connect (`self._socket.open()`)
  deriving Repr, DecidableEq, Inhabited

/-- the deadline carried by a request -/
inductive DL where
  | none                 -- no Deadline property: NoopTimeout
  | future               -- deadline ahead: a gevent.Timeout is started
  | past (r : Conn)      -- deadline already passed at the check: Timeout raised before the write;
                         -- `r` is the outcome of the re-connect the handler makes
  | pastBlock            -- the same, and the re-connect takes time (the greenlet blocks in it)
  deriving Repr, DecidableEq, Inhabited

structure Txn where
  id : Nat
  hasDl : Bool
  phase : Phase
  deriving Repr, DecidableEq

structure St where
  cstate : CS              -- self._state
  sockOpen : Bool          -- self._socket.isOpen()
  openRes : Bool           -- self._open_result is not None
  processing : Option Txn  -- self._processing
  deriving Repr, DecidableEq

def St.init : St := ⟨.idle, false, false, none⟩

/-- the `state` property -/
def St.state (s : St) : CS := if s.sockOpen then .opened else s.cstate

/-- `Close()`: a transaction in flight is killed (it never reaches its response) -/
def St.close (_s : St) : St :=
  { cstate := .closed, sockOpen := false, openRes := false, processing := none }

/-- `_Fault(reason)`: returns the new state and the number of fault signals raised -/
def St.fault (s : St) : St × Nat :=
  if s.state = .closed then (s, 0) else (s.close, 1)

/-- `_OpenImpl` -/
def St.openImpl (s : St) (r : Conn) : St × Nat :=
  match r with
  | .ok => ({ s with sockOpen := true, cstate := .opened }, 0)
  | .refuse => s.fault

/-- `Open()` followed by a drain of the loop -/
def St.openT (s : St) (r : Conn) : St × Eff :=
  if s.openRes then (s, {})
  else
    let (s', f) := ({ s with openRes := true } : St).openImpl r
    (s', { faults := f, conns := 1 })

/-- the `except Exception` arm of the transaction for request `id` -/
def St.txnFail (s : St) (id : Nat) (k : Resp) : St × Eff :=
  let (s', f) := s.fault
  ({ s' with processing := none }, { faults := f, dels := [(id, k)] })

/-- the `except gevent.Timeout` arm (repaired): close; re-connect if the socket was connected,
    a refused re-connect goes through `_Fault`; clear; respond -/
def St.txnTimeout (s : St) (id : Nat) (r : Conn) : St × Eff :=
  let s1 : St := { s with sockOpen := false }
  if s.sockOpen then
    let (s2, f) : St × Nat :=
      match r with
      | .ok => ({ s1 with sockOpen := true }, 0)
      | .refuse => s1.fault
    ({ s2 with processing := none }, { faults := f, dels := [(id, .timeout)], conns := 1 })
  else
    ({ s1 with processing := none }, { dels := [(id, .timeout)] })

/-- the `except gevent.Timeout` arm of transaction `t` when the re-connect takes time: close;
    if the socket was connected the greenlet blocks in `self._socket.open()` — `_processing` is
    still set, `_state` is untouched, nothing has been handed to the request yet; otherwise
    (nothing to re-connect) clear and respond as in `txnTimeout` -/
def St.txnTimeoutStart (s : St) (t : Txn) : St × Eff :=
  if s.sockOpen then
    ({ s with sockOpen := false, processing := some { t with phase := .reconn } }, {})
  else
    ({ s with sockOpen := false, processing := none }, { dels := [(t.id, .timeout)] })

/-- frames that reached the peer are reported separately from `Eff` -/
structure Out where
  eff : Eff := {}
  sent : List Nat := []
  deriving Repr, DecidableEq

/-- `AsyncProcessRequest` followed by a drain: the transaction greenlet runs up to its first
    blocking call -/
def St.request (s : St) (id : Nat) (dl : DL) : St × Out :=
  match s.processing with
  | some _ => (s, { eff := { dels := [(id, .conc)] } })
  | none =>
    match dl with
    | .past r =>
      let (s', e) := ({ s with processing := some ⟨id, true, .write⟩ } : St).txnTimeout id r
      (s', { eff := e })
    | .pastBlock =>
      let (s', e) := ({ s with processing := some ⟨id, true, .write⟩ } : St).txnTimeoutStart ⟨id, true, .write⟩
      (s', { eff := e })
    | .none =>
      if s.sockOpen then ({ s with processing := some ⟨id, false, .write⟩ }, {})
      else let (s', e) := ({ s with processing := some ⟨id, false, .write⟩ } : St).txnFail id .other
           (s', { eff := e })
    | .future =>
      if s.sockOpen then ({ s with processing := some ⟨id, true, .write⟩ }, {})
      else let (s', e) := ({ s with processing := some ⟨id, true, .write⟩ } : St).txnFail id .other
           (s', { eff := e })

/-- the blocking I/O call of the transaction in flight returns with outcome `o` (a transaction
    blocked in the re-connect is in no I/O call: nothing happens) -/
def St.io (s : St) (o : IOOut) : St × Out :=
  match s.processing with
  | none => (s, {})
  | some t =>
    if t.phase = .reconn then (s, {}) else
    match o with
    | .raise => let (s', e) := s.txnFail t.id .other; (s', { eff := e })
    | .eof => let (s', e) := s.txnFail t.id .eof; (s', { eff := e })
    | .ok =>
      match t.phase with
      | .write => ({ s with processing := some { t with phase := .read4 } }, { sent := [t.id] })
      | .read4 => ({ s with processing := some { t with phase := .readN } }, {})
      | .readN => ({ s with processing := none }, { eff := { dels := [(t.id, .stream)] } })
      | .reconn => (s, {})

/-- the transaction's `gevent.Timeout` fires while it is blocked in an I/O call (it fires once:
    nothing happens to a transaction that is already in the time-out handler) -/
def St.timeoutHere (s : St) (r : Conn) : St × Out :=
  match s.processing with
  | none => (s, {})
  | some t =>
    if t.hasDl && t.phase != .reconn then let (s', e) := s.txnTimeout t.id r; (s', { eff := e })
    else (s, {})

/-- the same, with a re-connect that takes time -/
def St.timeoutBlock (s : St) : St × Out :=
  match s.processing with
  | none => (s, {})
  | some t =>
    if t.hasDl && t.phase != .reconn then let (s', e) := s.txnTimeoutStart t; (s', { eff := e })
    else (s, {})

/-- the re-connect in progress concludes: accepted — the socket is connected again —, or refused
    — `_Fault` —; then `_processing` is cleared and the request is handed its TimeoutError -/
def St.reconnDone (s : St) (r : Conn) : St × Out :=
  match s.processing with
  | none => (s, {})
  | some t =>
    if t.phase = .reconn then
      let (s2, f) : St × Nat :=
        match r with
        | .ok => ({ s with sockOpen := true }, 0)
        | .refuse => s.fault
      ({ s2 with processing := none },
       { eff := { faults := f, dels := [(t.id, .timeout)], conns := 1 } })
    else (s, {})

end Scales.Serial
