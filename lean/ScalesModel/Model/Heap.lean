/-
  Model/Heap.lean — scales/loadbalancer/heap.py (HeapBalancerSink, Heap) together with the
  membership bookkeeping of scales/loadbalancer/base.py that feeds it.  L1 (algorithmic)
  model: node store indexed by creation order, 1-based heap of node ids, down list as a
  linked list through the nodes, one record per dispatch for `PutWrapper`.  Import-free.

  Environment inputs (parameters of operations): channel states, the `random.randint`
  drawn by `__Put`.
-/
import ScalesModel.Core.Val
namespace Scales.Heap

def Idle : Int := -2147483647      -- Int.MinValue + 1
def Penalty : Int := 2147483647    -- Int.MaxValue

/-- ChannelState: Idle = 1, Open = 2, Busy = 3, Closed = 4 -/
def chOpen : Nat := 2

structure Node where
  load : Int
  index : Int            -- heap position (1-based), -1 once discarded
  ep : Nat               -- endpoint id
  chan : Nat             -- channel state (environment)
  closed : Nat           -- number of `Close()` calls on the channel
  deriving Repr, DecidableEq

instance : Inhabited Node := ⟨⟨0, -1, 0, 4, 0⟩⟩

structure HS where
  nodes : List Node          -- store: node id ↦ node
  heap : List Nat            -- heap position p (1-based) ↦ node id  = heap[p-1]
  down : List Nat            -- the down list (`_downq` chain through `Node.downq`), head first
  reqs : List (Nat × Bool)   -- dispatch id ↦ (node id, put_called)
  servers : List Nat         -- `_servers` keys (endpoint ids), base.py
  deriving Repr, DecidableEq

def HS.init : HS := ⟨[], [], [], [], []⟩

def HS.size (s : HS) : Nat := s.heap.length

def HS.node (s : HS) (id : Nat) : Node := s.nodes.getD id default

/-- node id at heap position `p` (1-based); position 0 (the sentinel) and positions beyond
    the heap yield an id outside the store, i.e. the default node -/
def HS.idAt (s : HS) (p : Nat) : Nat := if p = 0 then s.nodes.length else s.heap.getD (p - 1) s.nodes.length

def HS.at (s : HS) (p : Nat) : Node := s.node (s.idAt p)

def HS.setNode (s : HS) (id : Nat) (n : Node) : HS := { s with nodes := s.nodes.set id n }

/-- `Node.__lt__` : compare (load, index) -/
def Node.lt (a b : Node) : Bool :=
  if a.load > b.load then false
  else if a.load < b.load then true
  else decide (a.index < b.index)

def HS.setIndex (s : HS) (id : Nat) (ix : Int) : HS := s.setNode id { s.node id with index := ix }

/-- `Heap.Swap(heap, i, j)` for 1 ≤ i, j ≤ size -/
def HS.swap (s : HS) (i j : Nat) : HS :=
  let a := s.idAt i
  let b := s.idAt j
  let s1 : HS := { s with heap := (s.heap.set (i - 1) b).set (j - 1) a }
  -- heap[i].index = i ; heap[j].index = j   (in this order)
  (s1.setIndex b i).setIndex a j

/-- `Heap.FixUp(heap, i)` -/
def HS.fixUp (s : HS) (i : Nat) : HS :=
  if 1 < i ∧ (s.at i).lt (s.at (i / 2)) = true then (s.swap i (i / 2)).fixUp (i / 2) else s
termination_by i
decreasing_by omega

/-- `Heap.FixDown(heap, i, j)` -/
def HS.fixDown (s : HS) (i j : Nat) : HS :=
  if h : 1 ≤ i ∧ 2 * i ≤ j then
    let m := if j = 2 * i ∨ (s.at (2 * i)).lt (s.at (2 * i + 1)) = true then 2 * i else 2 * i + 1
    if (s.at m).lt (s.at i) = true then (s.swap i m).fixDown m j else s
  else s
termination_by j + 1 - i
decreasing_by
  all_goals simp_wf
  all_goals (split <;> omega)

/-! ### the down list and `__Get`

  The code keeps the down list as a singly linked list through `Node.downq` with head
  `_downq`, inserts at the head and unlinks in place while scanning.  The model keeps it as
  a `List` of node ids, head first; the scan is a left-to-right pass that drops discarded and
  resurrected nodes.  (The list order is part of the compared observations.) -/

/-- one pass over the down list; returns the state and the nodes that stay listed -/
def HS.scan (s : HS) : List Nat → HS × List Nat
  | [] => (s, [])
  | nid :: rest =>
    let nd := s.node nid
    if nd.index < 0 then
      -- discarded: unlink
      s.scan rest
    else if nd.chan = chOpen then
      -- resurrected: take the penalty off and move it up
      let s1 := s.setNode nid { nd with load := nd.load - Penalty }
      let s2 := s1.fixUp (s1.node nid).index.toNat
      s2.scan rest
    else
      let (s', kept) := s.scan rest
      (s', nid :: kept)

/-- hook for subclasses: what `_OnNodeDown` does to the state (plain heap balancer: nothing) -/
abbrev DownHook := HS → Nat → HS

/-- `__Get` : returns the chosen node id.  `fuel` bounds the number of mark-down rounds. -/
def HS.getLoop (onDown : DownHook) (s : HS) : Nat → HS × Nat
  | 0 => (s, s.idAt 1)
  | fuel + 1 =>
    let (s0, kept) := s.scan s.down
    let s1 : HS := { s0 with down := kept }
    let nid := s1.idAt 1
    let nd := s1.node nid
    if nd.chan = chOpen ∨ nd.load ≥ 0 then (s1, nid)
    else
      let s2 := s1.setNode nid { nd with load := nd.load + Penalty }
      let s3 : HS := { s2 with down := nid :: s2.down }
      let s4 := s3.fixDown 1 s3.size
      (onDown s4 nid).getLoop onDown fuel

inductive GetRes where
  | noMembers
  | node (id : Nat) (ep : Nat) (req : Nat)
  deriving Repr, DecidableEq

/-- `_AsyncProcessRequestImpl` up to handing the message to the chosen channel -/
def HS.get (onDown : DownHook) (s : HS) : HS × GetRes :=
  if s.size = 0 then (s, .noMembers)
  else
    let (s1, nid) := s.getLoop onDown (s.nodes.length + 1)
    let nd := s1.node nid
    let s2 := s1.setNode nid { nd with load := nd.load + 1 }
    let s3 := s2.fixDown (s2.node nid).index.toNat s2.size
    let r := s3.reqs.length
    ({ s3 with reqs := s3.reqs ++ [(nid, false)] }, .node nid nd.ep r)

/-- `__Put(n)`; `j` is the value `random.randint(1, size)` returned (0 if not drawn) -/
def HS.putNode (s : HS) (nid : Nat) (j : Nat) : HS :=
  let nd0 := s.node nid
  let l1 := nd0.load - 1
  let l2 := if l1 < Idle then Idle else l1
  let s1 := s.setNode nid { nd0 with load := l2 }
  let nd := s1.node nid
  if nd.index < 0 ∧ nd.load > Idle then s1
  else if nd.index < 0 ∧ nd.load = Idle then s1.setNode nid { nd with closed := nd.closed + 1 }
  else if nd.load = Idle ∧ s1.size > 1 then
    let i := nd.index.toNat
    let s2 := s1.swap i s1.size
    let s3 := s2.fixDown i (s2.size - 1)
    let s3' := if i ≠ s3.size then s3.fixUp i else s3
    let s4 := s3'.swap j s3'.size
    let s5 := s4.fixUp j
    s5.fixUp s5.size
  else s1.fixUp nd.index.toNat

/-- which `j` the code may have drawn in state `s` for a put on `nid` -/
def HS.putDraws (s : HS) (nid : Nat) : Bool :=
  let nd0 := s.node nid
  let l1 := nd0.load - 1
  let l2 := if l1 < Idle then Idle else l1
  decide (0 ≤ nd0.index) && decide (l2 = Idle) && decide (s.size > 1)

/-- `PutWrapper()` of dispatch `r` -/
def HS.put (s : HS) (r : Nat) (j : Nat) : HS :=
  match s.reqs[r]? with
  | none => s
  | some (_, true) => s
  | some (nid, false) =>
    let s1 := { s with reqs := s.reqs.set r (nid, true) }
    s1.putNode nid j

/-- `_AddSink` -/
def HS.addSink (s : HS) (ep : Nat) : HS :=
  let nid := s.nodes.length
  let p := s.size + 1
  let s1 : HS := { s with nodes := s.nodes ++ [⟨Idle, p, ep, 1, 0⟩], heap := s.heap ++ [nid] }
  s1.fixUp p

/-- `_FindNodeByEndpoint` : first heap position whose node has this endpoint -/
def HS.findByEp (s : HS) (ep : Nat) : Option Nat :=
  s.heap.find? (fun id => (s.node id).ep = ep)

/-- `_RemoveSink` -/
def HS.removeSink (s : HS) (ep : Nat) : HS × Bool :=
  match s.findByEp ep with
  | none => (s, false)
  | some nid =>
    let nd := s.node nid
    if nd.index < 0 then (s, false)
    else
      let i := nd.index.toNat
      let s1 := s.swap i s.size
      let s2 := s1.fixDown i (s1.size - 1)
      let s2' := if i ≠ s2.size then s2.fixUp i else s2
      let s3 : HS := { s2' with heap := s2'.heap.dropLast }
      let nd3 := s3.node nid
      let closeNow := nd3.load = Idle ∨ nd3.load ≥ 0
      (s3.setNode nid { nd3 with index := -1, closed := nd3.closed + (if closeNow then 1 else 0) }, true)

/-- base.py `__OnServerSetJoin` (after init): duplicates ignored -/
def HS.join (s : HS) (ep : Nat) : HS :=
  if s.servers.contains ep then s
  else ({ s with servers := s.servers ++ [ep] } : HS).addSink ep

/-- base.py `__OnServerSetLeave` (after init) -/
def HS.leave (s : HS) (ep : Nat) : HS :=
  (({ s with servers := s.servers.filter (· ≠ ep) } : HS).removeSink ep).1

/-- the environment changes a channel's state -/
def HS.setChan (s : HS) (nid : Nat) (st : Nat) : HS :=
  if nid < s.nodes.length then s.setNode nid { s.node nid with chan := st } else s

end Scales.Heap
