/-
  Model/MuxCodec.lean — the ThriftMux wire codec as the client code writes and reads it:

    scales/thriftmux/sink.py        SocketTransportSink._BuildHeader / _EncodeTag,
                                    ThriftMuxMessageSerializerSink.ReadHeader,
                                    ThriftMuxMessageSerializerSink.AsyncProcessRequest (deadline header)
    scales/thriftmux/serializer.py  _Marshal_Tdispatch, _Marshal_Tdiscarded, _WriteContext,
                                    _ReadContext, _Unmarshal_Rdispatch, _Unmarshal_Rerror, Unmarshal
    scales/mux/sink.py              Tag.Encode, MuxSocketTransportSink.AsyncProcessRequest
                                    (payload = header + body)
    scales/message.py               Message.public_properties, Deadline (two int64)

  Bytes are `List Nat` (every element < 256 for anything the model produces).  Text is a list
  of Unicode code points; `utf8` is the model of `str.encode('utf-8')`.  `struct.pack` range
  errors, `UnicodeEncodeError` and `NotImplementedError` are modelled as `Err` values so that
  the model is total and exact on inputs outside the property's domain too.
  The Thrift call itself (C14) is an opaque byte string `payload`.  Import-free.
-/
import ScalesModel.Core.Val
namespace Scales.MuxCodec

abbrev Bytes := List Nat

/-- what the Python code raises -/
inductive Err where
  | struct      -- struct.error (value out of range for the format / short buffer)
  | unicode     -- UnicodeEncodeError / UnicodeDecodeError
  | notimpl     -- NotImplementedError("Unsupported value type in context.")
  | key         -- KeyError (no marshaller / unmarshaller for the type)
  | nowrite     -- (transport level) nothing was written to the connection
  deriving Repr, DecidableEq, Inhabited

/-! ## big-endian integers (struct.pack '!B' '!h' '!i' '!q') -/

def be16 (n : Nat) : Bytes := [n / 256 % 256, n % 256]
def be24 (n : Nat) : Bytes := [n / 65536 % 256, n / 256 % 256, n % 256]
def be32 (n : Nat) : Bytes := [n / 16777216 % 256, n / 65536 % 256, n / 256 % 256, n % 256]
def be64 (n : Nat) : Bytes := be32 (n / 4294967296 % 4294967296) ++ be32 (n % 4294967296)

/-- two's complement image of a signed value, modulus `m` -/
def toU (m : Nat) (x : Int) : Nat := if x < 0 then (x + (m : Int)).toNat else x.toNat

/-- `pack('!b', x)` -/
def packI8 (x : Int) : Except Err Bytes :=
  if -128 ≤ x ∧ x ≤ 127 then .ok [toU 256 x] else .error .struct

/-- `pack('!h', n)` for a length / count `n ≥ 0` -/
def packLen16 (n : Nat) : Except Err Bytes :=
  if n < 32768 then .ok (be16 n) else .error .struct

/-- `pack('!i', n)` for `n ≥ 0` -/
def packLen32 (n : Nat) : Except Err Bytes :=
  if n < 2147483648 then .ok (be32 n) else .error .struct

/-- `pack('!q', x)` -/
def packI64 (x : Int) : Except Err Bytes :=
  if -9223372036854775808 ≤ x ∧ x ≤ 9223372036854775807 then .ok (be64 (toU 18446744073709551616 x))
  else .error .struct

/-! ## UTF-8 (`str.encode('utf-8')`) -/

/-- one code point; `none` for surrogates and values above U+10FFFF -/
def utf8Char (c : Nat) : Option Bytes :=
  if c < 128 then some [c]
  else if c < 2048 then some [192 + c / 64, 128 + c % 64]
  else if c < 65536 then
    if 55296 ≤ c ∧ c < 57344 then none
    else some [224 + c / 4096, 128 + c / 64 % 64, 128 + c % 64]
  else if c < 1114112 then
    some [240 + c / 262144, 128 + c / 4096 % 64, 128 + c / 64 % 64, 128 + c % 64]
  else none

def utf8 : List Nat → Option Bytes
  | [] => some []
  | c :: cs =>
    match utf8Char c, utf8 cs with
    | some a, some b => some (a ++ b)
    | _, _ => none

def utf8E (s : List Nat) : Except Err Bytes :=
  match utf8 s with
  | some b => .ok b
  | none => .error .unicode

/-! ## context dictionary (insertion-ordered `dict`) -/

abbrev Text := List Nat

/-- a context / property value -/
inductive CtxVal where
  | text (s : Text)                 -- a `str`
  | deadline (ts timeout : Int)     -- a `Deadline` (`_ts`, `_timeout`, nanoseconds)
  | other                           -- anything else (int, None, Observable, …)
  deriving Repr, DecidableEq, Inhabited

abbrev Dict := List (Text × CtxVal)

/-- `d[k] = v` : replace in place, or append -/
def Dict.set : Dict → Text → CtxVal → Dict
  | [], k, v => [(k, v)]
  | (k', v') :: rest, k, v => if k' = k then (k, v) :: rest else (k', v') :: Dict.set rest k v

/-- `d.get(k)` -/
def Dict.get? : Dict → Text → Option CtxVal
  | [], _ => none
  | (k', v) :: rest, k => if k' = k then some v else Dict.get? rest k

/-- `d.update(items)` / a sequence of assignments -/
def Dict.update (d : Dict) (items : List (Text × CtxVal)) : Dict :=
  items.foldl (fun d kv => d.set kv.1 kv.2) d

/-- `k.startswith('__')` -/
def isPrivate : Text → Bool
  | 95 :: 95 :: _ => true
  | _ => false

/-- `Message.public_properties` -/
def publicProps (props : Dict) : Dict := props.filter (fun kv => !isPrivate kv.1)

/-- `_Marshal_Tdispatch`: `ctx = {}; ctx.update(msg.public_properties); ctx.update(headers)`.
    `props` / `hdrs` are the assignments made to `msg.properties` / `headers`, in order. -/
def dispatchCtx (props hdrs : List (Text × CtxVal)) : Dict :=
  (Dict.update [] (publicProps (Dict.update [] props))).update (Dict.update [] hdrs)

/-! ## `_WriteContext` -/

/-- the value part of one entry -/
def writeVal : CtxVal → Except Err Bytes
  | .deadline ts timeout =>
    match packI64 ts, packI64 timeout with
    | .ok a, .ok b => .ok (be16 16 ++ (a ++ b))
    | _, _ => .error .struct
  | .text s =>
    match utf8E s with
    | .error e => .error e
    | .ok sb =>
      match packLen16 sb.length with
      | .error e => .error e
      | .ok l => .ok (l ++ sb)
  | .other => .error .notimpl

/-- one `(k, v)` of the loop: key encoded first, then measured (F7 repaired) -/
def writeEntry (k : Text) (v : CtxVal) : Except Err Bytes :=
  match utf8E k with
  | .error e => .error e
  | .ok kb =>
    match packLen16 kb.length with
    | .error e => .error e
    | .ok kl =>
      match writeVal v with
      | .error e => .error e
      | .ok vb => .ok (kl ++ kb ++ vb)

def writeEntries : Dict → Except Err Bytes
  | [] => .ok []
  | (k, v) :: rest =>
    match writeEntry k v with
    | .error e => .error e
    | .ok a =>
      match writeEntries rest with
      | .error e => .error e
      | .ok b => .ok (a ++ b)

def writeContext (ctx : Dict) : Except Err Bytes :=
  match packLen16 ctx.length with
  | .error e => .error e
  | .ok n =>
    match writeEntries ctx with
    | .error e => .error e
    | .ok b => .ok (n ++ b)

/-! ## messages and `MessageSerializer.Marshal` -/

def tDispatch : Int := 2
def tDiscarded : Int := 66
def tPing : Int := 65
def rDispatch : Int := -2
def rErr : Int := -128
def badRerr : Int := 127

inductive Msg where
  /-- a `MethodCallMessage` with the assignments made to its properties, the headers handed
      to `Marshal`, and the bytes the Thrift serializer appends -/
  | call (props hdrs : List (Text × CtxVal)) (payload : Bytes)
  /-- a `MethodDiscardMessage(which, reason)` -/
  | discard (which : Nat) (reason : Text)
  /-- the transport's own Tping (no serializer involved) -/
  | ping
  deriving Repr, DecidableEq, Inhabited

/-- `Tag(tag).Encode()` / `_EncodeTag(tag)` : three masked bytes -/
def encodeTag (tag : Nat) : Bytes := [tag / 65536 % 256, tag / 256 % 256, tag % 256]

/-- `Marshal(msg, buf, headers)`: the message type left in `headers` and the bytes in `buf` -/
def marshal : Msg → Except Err (Int × Bytes)
  | .call props hdrs payload =>
    match writeContext (dispatchCtx props hdrs) with
    | .error e => .error e
    | .ok c => .ok (tDispatch, c ++ ([0, 0, 0, 0] ++ payload))   -- pack('!hh', 0, 0) then the call
  | .discard which reason =>
    match utf8E reason with
    | .error e => .error e
    | .ok r => .ok (tDiscarded, encodeTag which ++ r)
  | .ping => .error .key

/-! ## `_BuildHeader` and the frame put on the send queue -/

/-- `pack('!ibBBB', 1 + 3 + data_len, msg_type, *EncodeTag(tag))` -/
def buildHeader (tag : Nat) (ty : Int) (dataLen : Nat) : Except Err Bytes :=
  match packLen32 (1 + 3 + dataLen), packI8 ty with
  | .ok l, .ok t => .ok (l ++ (t ++ encodeTag tag))
  | _, _ => .error .struct

/-- `MuxSocketTransportSink.AsyncProcessRequest`: `header + stream.getvalue()` -/
def frameOf (tag : Nat) (ty : Int) (body : Bytes) : Except Err Bytes :=
  match buildHeader tag ty body.length with
  | .error e => .error e
  | .ok h => .ok (h ++ body)

/-- the bytes written to the connection for message `m` sent under `tag` -/
def wire (tag : Nat) (m : Msg) : Except Err Bytes :=
  match m with
  | .ping => frameOf tag tPing []
  | m =>
    match marshal m with
    | .error e => .error e
    | .ok (ty, body) => frameOf tag ty body

/-! ## `ReadHeader` (F8 repaired: `msg_type = header >> 24`) -/

def readHeader (bs : Bytes) : Except Err (Int × Nat) :=
  match bs with
  | b0 :: b1 :: b2 :: b3 :: _ =>
    let u := b0 * 16777216 + b1 * 65536 + b2 * 256 + b3
    let header : Int := if u < 2147483648 then (u : Int) else (u : Int) - 4294967296   -- unpack('!i')
    .ok (header / 16777216, (header * 256 % 4294967296 / 256).toNat)
  | _ => .error .struct

/-- the unrepaired computation, kept for the counterexample theorem:
    `msg_type = (256 - (header >> 24 & 0xff)) * -1` -/
def readHeaderOld (bs : Bytes) : Except Err (Int × Nat) :=
  match bs with
  | b0 :: b1 :: b2 :: b3 :: _ =>
    let u := b0 * 16777216 + b1 * 65536 + b2 * 256 + b3
    let header : Int := if u < 2147483648 then (u : Int) else (u : Int) - 4294967296
    .ok ((256 - header / 16777216 % 256) * -1, (header * 256 % 4294967296 / 256).toNat)
  | _ => .error .struct

/-- the unrepaired `_WriteContext` entry, kept for the counterexample theorem: the character
    count is used as byte count, `pack('%ds')` truncates / zero-pads to it -/
def padTo (n : Nat) (b : Bytes) : Bytes := b.take n ++ List.replicate (n - b.length) 0

def writeTextOld (s : Text) : Except Err Bytes :=
  match utf8E s with
  | .error e => .error e
  | .ok sb =>
    match packLen16 s.length with
    | .error e => .error e
    | .ok l => .ok (l ++ padTo s.length sb)

/-! ## strict UTF-8 decoding (`bytes.decode('utf-8')`) -/

def isCont (b : Nat) : Bool := 128 ≤ b && b < 192

/-- one code point off the front: strict (no overlong forms, no surrogates, ≤ U+10FFFF) -/
def utf8Step : Bytes → Option (Nat × Bytes)
  | [] => none
  | b0 :: r =>
    if b0 < 128 then some (b0, r)
    else if b0 < 194 then none
    else if b0 < 224 then
      match r with
      | b1 :: r1 => if isCont b1 then some ((b0 - 192) * 64 + (b1 - 128), r1) else none
      | _ => none
    else if b0 < 240 then
      match r with
      | b1 :: b2 :: r2 =>
        let c := (b0 - 224) * 4096 + (b1 - 128) * 64 + (b2 - 128)
        if isCont b1 && isCont b2 && 2048 ≤ c && !(55296 ≤ c && c < 57344) then some (c, r2) else none
      | _ => none
    else if b0 < 245 then
      match r with
      | b1 :: b2 :: b3 :: r3 =>
        let d := (b0 - 240) * 262144 + (b1 - 128) * 4096 + (b2 - 128) * 64 + (b3 - 128)
        if isCont b1 && isCont b2 && isCont b3 && 65536 ≤ d && d < 1114112 then some (d, r3) else none
      | _ => none
    else none

/-- `fuel` steps; every step consumes at least one byte, so `bs.length` is enough -/
def utf8DecodeFuel : Nat → Bytes → Option (List Nat)
  | _, [] => some []
  | 0, _ :: _ => none
  | f + 1, b :: bs =>
    match utf8Step (b :: bs) with
    | some (c, r) => (utf8DecodeFuel f r).map (c :: ·)
    | none => none

def utf8Decode (bs : Bytes) : Option (List Nat) := utf8DecodeFuel bs.length bs

/-! ## `Unmarshal` (the Thrift deserializer is opaque: it receives the rest of the stream) -/

inductive Reply where
  | ret (payload : Bytes)          -- handed to `DeserializeThriftCall`
  | srvErr (msg : Bytes)           -- `ServerError(text)`, text as UTF-8
  deriving Repr, DecidableEq, Inhabited

def s8 (b : Nat) : Int := if b < 128 then (b : Int) else (b : Int) - 256
def s16 (a b : Nat) : Int := if a * 256 + b < 32768 then ((a * 256 + b : Nat) : Int) else ((a * 256 + b : Nat) : Int) - 65536

/-- `sz, = unpack('!h', buf.read(2)); buf.read(sz)` — a negative size reads to the end, a size
    beyond the end reads what is there -/
def skipSized (bs : Bytes) : Except Err Bytes :=
  match bs with
  | a :: b :: r => if s16 a b < 0 then .ok [] else .ok (r.drop (s16 a b).toNat)
  | _ => .error .struct

/-- `_ReadContext` : key, then value -/
def readContext (bs : Bytes) : Except Err Bytes :=
  match skipSized bs with
  | .error e => .error e
  | .ok r => skipSized r

def skipContexts : Nat → Bytes → Except Err Bytes
  | 0, bs => .ok bs
  | n + 1, bs =>
    match readContext bs with
    | .error e => .error e
    | .ok r => skipContexts n r

/-- "The server returned a NACK" -/
def nackText : Bytes :=
  [84, 104, 101, 32, 115, 101, 114, 118, 101, 114, 32, 114, 101, 116, 117, 114, 110, 101, 100, 32, 97,
   32, 78, 65, 67, 75]

def srvErrOf (why : Bytes) : Except Err Reply :=
  match utf8Decode why with
  | some _ => .ok (.srvErr why)
  | none => .error .unicode

def unmarshalRdispatch (bs : Bytes) : Except Err Reply :=
  match bs with
  | st :: a :: b :: r =>
    match skipContexts (s16 a b).toNat r with
    | .error e => .error e
    | .ok rest =>
      if s8 st = 0 then .ok (.ret rest)
      else if s8 st = 2 then .ok (.srvErr nackText)
      else srvErrOf rest
  | _ => .error .struct

def unmarshal (ty : Int) (body : Bytes) : Except Err Reply :=
  if ty = rDispatch then unmarshalRdispatch body
  else if ty = rErr ∨ ty = badRerr then srvErrOf body
  else .error .key

/-- `ThriftMuxMessageSerializerSink.AsyncProcessResponse` on a reply stream -/
def processReply (bs : Bytes) : Except Err Reply :=
  match readHeader bs with
  | .error e => .error e
  | .ok (ty, _) => unmarshal ty (bs.drop 4)

end Scales.MuxCodec
