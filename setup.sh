#!/bin/sh
# Build the Lean library (models, proofs) and the line-protocol driver, offline.
set -e
cd "$(dirname "$0")/lean"
lake build
test -x .lake/build/bin/driver
echo "setup ok"
